(* C20 (extension) — executable glue for the per-run comparison of hash-translating runs (miniscripts,
   descriptors) and of the policy runs with the models of Ms/TranslateHashModel.v and Ms/TranslatePolModel.v.
   Used by the generated Tables/TranslateHashCasesGen.v and the static Tables/TranslateHashCases{Check,Diag}.v.
   No proofs in this file. *)
From Verif Require Export TranslateRun TranslateHashModel.

Definition hkind_code (hk : hkind) : N := match hk with HSha256 => 0 | HHash256 => 1 | HRipemd160 => 2 | HHash160 => 3 end%N.
Definition hkind_eqb (a b : hkind) : bool := N.eqb (hkind_code a) (hkind_code b).

Definition atom_eqb (a b : atom) : bool :=
  match a, b with
  | AKey x, AKey y => N.eqb x y
  | AHash k x, AHash k' y => hkind_eqb k k' && bytes_eqb x y
  | _, _ => false
  end.

Definition flip0 (h : bytes) : bytes := match h with [] => [] | b :: r => N.lxor b 1 :: r end.

(* the hash translator of the harness: (mode, argument)
     0 identity   1 first byte xor 1 (injective)   2 constant (the argument cut to the hash's length; not injective)
     3 fails on the hash equal to the argument, otherwise as 1   4 fails on every hash of the kind arg[0], otherwise identity
   and, like the key translator, it fails on the `fail_at`-th call (counted over all calls) *)
Definition fh_of (mode : N) (arg : bytes) (fail_at : option N) (n : N) (hk : hkind) (h : bytes) : option bytes :=
  let pure :=
      match mode with
      | 0 => Some h
      | 1 => Some (flip0 h)
      | 2 => Some (firstn (length h) arg)
      | 3 => if bytes_eqb h arg then None else Some (flip0 h)
      | _ => if N.eqb (hkind_code hk) (nth 0 arg 9) then None else Some h
      end%N in
  match fail_at with
  | Some a => if N.eqb a n then None else pure
  | None => pure
  end.

Fixpoint is_aprefix (a b : list atom) : bool :=
  match a, b with
  | [], _ => true
  | x :: r, y :: s => atom_eqb x y && is_aprefix r s
  | _ :: _, [] => false
  end.

Definition acalls_ok {A} (order calls : list atom) (r : robs A) : bool :=
  is_aprefix calls order &&
  match r with
  | ROK _ => Nat.eqb (length calls) (length order)
  | RET i => N.eqb (nlen calls) (i + 1)
  | _ => true
  end.

(* a case: value id, key table, fail-at, hash mode, hash argument, observed result, observed call log *)
Definition hcase (A : Type) := (N * list (option N) * option N * N * bytes * robs A * list atom)%type.

(* ---- miniscripts *)
Definition hms_model (c : ctx) (kinds : list (N * N)) (vals : list ms) (t : hcase ms) : robs ms :=
  let '(vid, tbl, fa, hm, ha, r, calls) := t in
  robs_of (translate_iter_h (f_of tbl fa) (fh_of hm ha fa) (chk_run kinds c) (getv vals vid)).
Definition hms_ok (c : ctx) (kinds : list (N * N)) (vals : list ms) (t : hcase ms) : bool :=
  let '(vid, tbl, fa, hm, ha, r, calls) := t in
  let v := getv vals vid in
  robs_eqb ms_eqb (hms_model c kinds vals t) r &&
  robs_eqb ms_eqb (robs_of (translate_h (f_of tbl fa) (fh_of hm ha fa) (chk_run kinds c) v)) r &&
  acalls_ok (matoms_rtl v) calls r.

Record hdom := mkHDom { hd_ctx : ctx; hd_kinds : list (N * N); hd_vals : list ms; hd_cases : list (hcase ms) }.
Definition hdom_ok (d : hdom) : bool := forallb (hms_ok (hd_ctx d) (hd_kinds d) (hd_vals d)) (hd_cases d).
Definition hdom_diag (d : hdom) : list (N * robs ms) :=
  flat_map (fun it : N * hcase ms =>
              if hms_ok (hd_ctx d) (hd_kinds d) (hd_vals d) (snd it) then []
              else [(fst it, hms_model (hd_ctx d) (hd_kinds d) (hd_vals d) (snd it))]) (number 0 (hd_cases d)).

(* ---- descriptors *)
Definition hdesc_model (kinds : list (N * N)) (vals : list desc) (t : hcase desc) : robs desc :=
  let '(vid, tbl, fa, hm, ha, r, calls) := t in
  robs_of (translate_desc_h (f_of tbl fa) (fh_of hm ha fa) (chk_run kinds) (kk_of kinds) (getd vals vid)).
Definition hdesc_ok (kinds : list (N * N)) (vals : list desc) (t : hcase desc) : bool :=
  let '(vid, tbl, fa, hm, ha, r, calls) := t in
  robs_eqb desc_eqb (hdesc_model kinds vals t) r && acalls_ok (desc_atoms_rtl (getd vals vid)) calls r.

Record hddom := mkHDDom { hdd_kinds : list (N * N); hdd_vals : list desc; hdd_cases : list (hcase desc) }.
Definition hddom_ok (d : hddom) : bool := forallb (hdesc_ok (hdd_kinds d) (hdd_vals d)) (hdd_cases d).
Definition hddom_diag (d : hddom) : list (N * robs desc) :=
  flat_map (fun it : N * hcase desc =>
              if hdesc_ok (hdd_kinds d) (hdd_vals d) (snd it) then []
              else [(fst it, hdesc_model (hdd_kinds d) (hdd_vals d) (snd it))]) (number 0 (hdd_cases d)).

(* ---- policies (concrete and semantic) *)
Definition getp (vals : list cpol) (i : N) : cpol := nth (N.to_nat i) vals QUnsat.

Definition hpol_model (vals : list cpol) (t : hcase cpol) : robs cpol :=
  let '(vid, tbl, fa, hm, ha, r, calls) := t in
  robs_of (ptranslate_iter (f_of tbl fa) (fh_of hm ha fa) (getp vals vid)).
Definition hpol_ok (vals : list cpol) (t : hcase cpol) : bool :=
  let '(vid, tbl, fa, hm, ha, r, calls) := t in
  let v := getp vals vid in
  robs_eqb cpol_eqb (hpol_model vals t) r &&
  robs_eqb cpol_eqb (robs_of (ptranslate (f_of tbl fa) (fh_of hm ha fa) v)) r &&
  acalls_ok (atoms_rtl v) calls r.

(* key iteration: value id, keys() (semantic: the for_each_key order), for_each_key(true) result and order,
   optionally (first key, for_any_key(== first key), target key, for_each_key(!= target) result and visited keys) *)
Definition picase := (N * list key * bool * list key * option (N * bool * N * bool * list key))%type.
Definition picase_ok (vals : list cpol) (i : picase) : bool :=
  let '(vid, ks, all, each, extra) := i in
  let v := getp vals vid in
  match pkeys v (psize v), pfor_each_key (fun _ => true) v (psize v) with
  | Some l, Some (b, l') => keys_eqb l ks && Bool.eqb b all && keys_eqb l' each
  | _, _ => false
  end &&
  match extra with
  | None => true
  | Some (first, anyv, target, sr, svis) =>
    match pfor_any_key (N.eqb first) v (psize v), pfor_each_key (fun k => negb (N.eqb k target)) v (psize v) with
    | Some a, Some (b, l) => Bool.eqb a anyv && Bool.eqb b sr && keys_eqb l svis
    | _, _ => false
    end
  end.

Record pdom := mkPDom { pd_semantic : bool; pd_vals : list cpol; pd_cases : list (hcase cpol); pd_icases : list picase }.
Definition pdom_ok (d : pdom) : bool :=
  (if pd_semantic d then forallb is_semantic (pd_vals d) else true) &&
  forallb (hpol_ok (pd_vals d)) (pd_cases d) && forallb (picase_ok (pd_vals d)) (pd_icases d).
Definition pdom_diag (d : pdom) : list (N * robs cpol) * list N :=
  (flat_map (fun it : N * hcase cpol =>
               if hpol_ok (pd_vals d) (snd it) then [] else [(fst it, hpol_model (pd_vals d) (snd it))]) (number 0 (pd_cases d)),
   flat_map (fun i : picase => if picase_ok (pd_vals d) i then [] else [fst (fst (fst (fst i)))]) (pd_icases d)).
