(* Size-related static data of a miniscript node, mirroring the code that exists:
   - script_size   : Miniscript::script_size           (src/miniscript/mod.rs)
   - script_num_size                                   (src/lib.rs)
   - pk_cost, has_free_verify (hfv), tree_height       (ExtData, src/miniscript/types/extra_props.rs)
   - gv            : ScriptContext::check_global_validity per context (src/miniscript/context.rs)
   No proofs in this file. *)
From Verif Require Export Ast.
Local Open Scope N_scope.

Definition script_num_size (n : N) : N :=
  if n <=? 16 then 1
  else if n <? 128 then 2
  else if n <? 32768 then 3
  else if n <? 8388608 then 4
  else if n <? 2147483648 then 5
  else 6.

Definition nlen {A} (l : list A) : N := N.of_nat (length l).
Definition is_uncompressed (ke : keyenv) (k : key) : bool := blen (kb ke k) =? 65.

(* ScriptContext::pk_len: 34/66 by compressedness in Bare/Legacy/Segwitv0 (Segwitv0 since /repo
   8a94baa9; it answered 34 for every key before), 33 in Tap *)
Definition pk_len (c : ctx) (ke : keyenv) (k : key) : N :=
  match c with
  | Tap => 33
  | Bare | Legacy | Segwitv0 => if is_uncompressed ke k then 66 else 34
  end.

Definition sumN (l : list N) : N := fold_right N.add 0 l.

(* ExtData::has_free_verify *)
Fixpoint hfv (m : ms) : bool :=
  match m with
  | MTrue | MFalse | MPkK _ | MPkH _ | MRawPkH _ | MAfter _ | MOlder _ => false
  | MSha256 _ | MHash256 _ | MRipemd160 _ | MHash160 _ => true
  | MMulti _ _ | MSortedMulti _ _ | MMultiA _ _ | MSortedMultiA _ _ => true
  | MAlt _ => false
  | MSwap x => hfv x
  | MCheck _ => true
  | MDupIf _ | MVerify _ | MNonZero _ | MZeroNotEqual _ => false
  | MAndV _ y => hfv y
  | MAndB _ _ | MAndOr _ _ _ | MOrB _ _ | MOrD _ _ | MOrC _ _ | MOrI _ _ => false
  | MThresh _ _ => true
  end.

(* Miniscript::script_size: a sum over the pre-order iteration; per node contributions *)
Fixpoint script_size (c : ctx) (ke : keyenv) (m : ms) : N :=
  match m with
  | MTrue | MFalse => 1
  | MPkK k => pk_len c ke k
  | MPkH _ | MRawPkH _ => 24
  | MAfter t | MOlder t => script_num_size t + 1
  | MSha256 _ | MHash256 _ => 33 + 6
  | MRipemd160 _ | MHash160 _ => 21 + 6
  | MAlt x => 2 + script_size c ke x
  | MSwap x | MCheck x | MZeroNotEqual x => 1 + script_size c ke x
  | MDupIf x => 3 + script_size c ke x
  | MVerify x => (if hfv x then 0 else 1) + script_size c ke x
  | MNonZero x => 4 + script_size c ke x
  | MAndV x y => script_size c ke x + script_size c ke y
  | MAndB x y | MOrB x y => 1 + script_size c ke x + script_size c ke y
  | MOrC x y => 2 + script_size c ke x + script_size c ke y
  | MOrD x y | MOrI x y => 3 + script_size c ke x + script_size c ke y
  | MAndOr x y z => 3 + script_size c ke x + script_size c ke y + script_size c ke z
  | MThresh k xs =>
    (* script_num_size(k) + 1 + n - 1, evaluated left to right on usize (n >= 1 by Threshold) *)
    (script_num_size k + 1 + nlen xs - 1)
    + (fix go (l : list ms) : N := match l with [] => 0 | x :: r => script_size c ke x + go r end) xs
  | MMulti k ks | MSortedMulti k ks =>
    script_num_size k + 1 + script_num_size (nlen ks) + sumN (map (pk_len c ke) ks)
  | MMultiA k ks | MSortedMultiA k ks =>
    script_num_size k + 1 + sumN (map (pk_len c ke) ks) + nlen ks
  end.

(* ExtData::pk_cost ("the number of bytes needed to encode its scriptpubkey") *)
Definition num_cost (k n : N) : N :=
  match 16 <? k, 16 <? n with
  | true, true => 4
  | false, true | true, false => 3
  | false, false => 2
  end.

Fixpoint pk_cost (c : ctx) (ke : keyenv) (m : ms) : N :=
  match m with
  | MTrue | MFalse => 1
  | MPkK k => if is_tap c then 33 else if is_uncompressed ke k then 66 else 34
  | MPkH _ | MRawPkH _ => 24
  | MAfter t | MOlder t => script_num_size t + 1
  | MSha256 _ | MHash256 _ => 33 + 6
  | MRipemd160 _ | MHash160 _ => 21 + 6
  | MAlt x => pk_cost c ke x + 2
  | MSwap x | MCheck x | MZeroNotEqual x => pk_cost c ke x + 1
  | MDupIf x => pk_cost c ke x + 3
  | MVerify x => pk_cost c ke x + (if hfv x then 0 else 1)
  | MNonZero x => pk_cost c ke x + 4
  | MAndV x y => pk_cost c ke x + pk_cost c ke y
  | MAndB x y | MOrB x y => pk_cost c ke x + pk_cost c ke y + 1
  | MOrC x y => pk_cost c ke x + pk_cost c ke y + 2
  | MOrD x y | MOrI x y => pk_cost c ke x + pk_cost c ke y + 3
  | MAndOr x y z => pk_cost c ke x + pk_cost c ke y + pk_cost c ke z + 3
  | MThresh k xs =>
    (1 + script_num_size k
     + (fix go (l : list ms) : N := match l with [] => 0 | x :: r => pk_cost c ke x + go r end) xs)
    + nlen xs - 1
  | MMulti k ks | MSortedMulti k ks =>
    num_cost k (nlen ks) + sumN (map (fun key => if is_uncompressed ke key then 66 else 34) ks) + 1
  | MMultiA k ks | MSortedMultiA k ks =>
    script_num_size k + 33 * nlen ks + nlen ks + 1      (* n is not pushed (since /repo c854851b) *)
  end.

Fixpoint tree_height (m : ms) : N :=
  match m with
  | MAlt x | MSwap x | MCheck x | MDupIf x | MVerify x | MNonZero x | MZeroNotEqual x => tree_height x + 1
  | MAndV x y | MAndB x y | MOrB x y | MOrD x y | MOrC x y | MOrI x y =>
    1 + N.max (tree_height x) (tree_height y)
  | MAndOr x y z => 1 + N.max (tree_height x) (N.max (tree_height y) (tree_height z))
  | MThresh _ xs =>
    (fix go (l : list ms) : N := match l with [] => 0 | x :: r => N.max (tree_height x) (go r) end) xs + 1
  | _ => 0
  end.

(* ---- ScriptContext::check_global_validity = consensus part, then policy part ---- *)
Inductive ctxerr :=
| CeUncompressedKeysNotAllowed | CeMultiANotAllowed | CeTaprootMultiDisabled
| CeMaxWitnessScriptSizeExceeded | CeMaxRedeemScriptSizeExceeded | CeMaxBareScriptSizeExceeded.

Definition MAX_SCRIPT_SIZE : N := 10000.
Definition MAX_STANDARD_P2WSH_SCRIPT_SIZE : N := 3600.
Definition MAX_SCRIPT_ELEMENT_SIZE : N := 520.
Definition MAX_BLOCK_WEIGHT : N := 4000000.
Definition MAX_RECURSION_DEPTH : N := 402.

(* only the NODE itself is inspected (children were checked when they were built) *)
Definition gv (c : ctx) (ke : keyenv) (m : ms) : option ctxerr :=
  let cost := pk_cost c ke m in
  match c with
  | Bare =>
    match m with
    | MMultiA _ _ | MSortedMultiA _ _ => Some CeMultiANotAllowed
    | _ => if MAX_SCRIPT_SIZE <? cost then Some CeMaxBareScriptSizeExceeded else None
    end
  | Legacy =>
    match m with
    | MMultiA _ _ | MSortedMultiA _ _ => Some CeMultiANotAllowed
    | _ => if MAX_SCRIPT_ELEMENT_SIZE <? cost then Some CeMaxRedeemScriptSizeExceeded else None
    end
  | Segwitv0 =>
    let size_checks :=
      if MAX_SCRIPT_SIZE <? cost then Some CeMaxWitnessScriptSizeExceeded
      else if MAX_STANDARD_P2WSH_SCRIPT_SIZE <? cost then Some CeMaxWitnessScriptSizeExceeded
      else None in
    match m with
    | MPkK k => if is_uncompressed ke k then Some CeUncompressedKeysNotAllowed else size_checks
    | MMulti _ ks | MSortedMulti _ ks =>
      if existsb (is_uncompressed ke) ks then Some CeUncompressedKeysNotAllowed else size_checks
    | MMultiA _ _ | MSortedMultiA _ _ => Some CeMultiANotAllowed
    | _ => size_checks
    end
  | Tap =>
    let size_check := if MAX_BLOCK_WEIGHT <? cost then Some CeMaxWitnessScriptSizeExceeded else None in
    match m with
    | MPkK k => if is_uncompressed ke k then Some CeUncompressedKeysNotAllowed else size_check
    | MMultiA _ ks | MSortedMultiA _ ks =>
      if existsb (is_uncompressed ke) ks then Some CeUncompressedKeysNotAllowed else size_check
    | MMulti _ _ | MSortedMulti _ _ => Some CeTaprootMultiDisabled
    | _ => size_check
    end
  end.
