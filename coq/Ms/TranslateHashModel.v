(* C20 (extension) — Miniscript::translate_pk_ctx and the descriptor wrappers with hash translation.
   src/miniscript/mod.rs translate_pk_ctx: in the loop over the rtl post-order
       Terminal::Sha256(x)    => Terminal::Sha256(t.sha256(x)?)      Terminal::Hash256(x) => ...(t.hash256(x)?)
       Terminal::Ripemd160(x) => ...(t.ripemd160(x)?)                Terminal::Hash160(x) => ...(t.hash160(x)?)
   (RawPkH, After, Older, True, False are copied), every rebuilt node goes through `from_ast`.
   The translator is a pair of functions of the call index — counted over ALL translator methods — and the key /
   (hash kind, hash).  `step_h` is `step` of Ms/TranslateModel.v with the four hash arms; with a hash translator that
   never fails and does not advance the counter it IS the old machine.  No proofs in this file. *)
From Verif Require Export TranslateModel TranslatePolModel.

Section TranslateH.
  Variable f : N -> key -> option key.
  Variable fh : N -> hkind -> bytes -> option bytes.
  Variable chk : ms -> option cerr.

  Definition hleaf (c : bytes -> ms) (hk : hkind) (n : N) (h : bytes) : tres (ms * N) :=
    match fh n hk h with None => TErr (TranslatorErr n) | Some h' => finish chk (c h') (n + 1)%N end.

  (* the recursive translation *)
  Fixpoint translate_rec_h (n : N) (m : ms) : tres (ms * N) :=
    let un (c : ms -> ms) (x : ms) :=
        tbind (translate_rec_h n x) (fun p => finish chk (c (fst p)) (snd p)) in
    let bin (c : ms -> ms -> ms) (x y : ms) :=
        tbind (translate_rec_h n y) (fun q =>
        tbind (translate_rec_h (snd q) x) (fun p => finish chk (c (fst p) (fst q)) (snd p))) in
    let leaf_key (c : key -> ms) (k : key) :=
        match f n k with None => TErr (TranslatorErr n) | Some k' => finish chk (c k') (n + 1)%N end in
    let multi (c : list key -> ms) (ks : list key) :=
        tbind (tr_keys f n ks) (fun p => finish chk (c (fst p)) (snd p)) in
    match m with
    | MPkK k => leaf_key MPkK k
    | MPkH k => leaf_key MPkH k
    | MSha256 h => hleaf MSha256 HSha256 n h | MHash256 h => hleaf MHash256 HHash256 n h
    | MRipemd160 h => hleaf MRipemd160 HRipemd160 n h | MHash160 h => hleaf MHash160 HHash160 n h
    | MAlt x => un MAlt x | MSwap x => un MSwap x | MCheck x => un MCheck x | MDupIf x => un MDupIf x
    | MVerify x => un MVerify x | MNonZero x => un MNonZero x | MZeroNotEqual x => un MZeroNotEqual x
    | MAndV x y => bin MAndV x y | MAndB x y => bin MAndB x y
    | MOrB x y => bin MOrB x y | MOrD x y => bin MOrD x y | MOrC x y => bin MOrC x y | MOrI x y => bin MOrI x y
    | MAndOr a b c =>
      tbind (translate_rec_h n c) (fun r =>
      tbind (translate_rec_h (snd r) b) (fun q =>
      tbind (translate_rec_h (snd q) a) (fun p => finish chk (MAndOr (fst p) (fst q) (fst r)) (snd p))))
    | MThresh k xs =>
      tbind ((fix go (l : list ms) : tres (list ms * N) :=
                match l with
                | [] => TOk ([], n)
                | x :: r => tbind (go r) (fun q => tbind (translate_rec_h (snd q) x) (fun p => TOk (fst p :: fst q, snd p)))
                end) xs)
            (fun p => finish chk (MThresh k (fst p)) (snd p))
    | MMulti k ks => multi (MMulti k) ks | MSortedMulti k ks => multi (MSortedMulti k) ks
    | MMultiA k ks => multi (MMultiA k) ks | MSortedMultiA k ks => multi (MSortedMultiA k) ks
    | leaf => finish chk leaf n       (* True, False, RawPkH, After, Older *)
    end.
  Definition translate_h (m : ms) : tres ms := tbind (translate_rec_h 0 m) (fun p => TOk (fst p)).

  (* one iteration of the loop as coded *)
  Definition step_h (st : list ms * N) (node : ms) : tres (list ms * N) :=
    let push (r : tres (ms * N)) := tbind r (fun p => TOk (fst p :: fst st, snd p)) in
    match node with
    | MSha256 h => push (hleaf MSha256 HSha256 (snd st) h) | MHash256 h => push (hleaf MHash256 HHash256 (snd st) h)
    | MRipemd160 h => push (hleaf MRipemd160 HRipemd160 (snd st) h) | MHash160 h => push (hleaf MHash160 HHash160 (snd st) h)
    | _ => step f chk st node
    end.

  Fixpoint run_steps_h (st : list ms * N) (nodes : list ms) : tres (list ms * N) :=
    match nodes with
    | [] => TOk st
    | x :: r => tbind (step_h st x) (fun st' => run_steps_h st' r)
    end.

  Definition translate_iter_h (m : ms) : tres ms :=
    tbind (run_steps_h ([], 0%N) (rtl_post m)) (fun st => tbind (pop (fst st)) (fun p => TOk (fst p))).
End TranslateH.

(* the order in which translate_pk_ctx calls the translator, hashes included *)
Fixpoint matoms_rtl (m : ms) : list atom :=
  match m with
  | MPkK k | MPkH k => [AKey k]
  | MSha256 h => [AHash HSha256 h] | MHash256 h => [AHash HHash256 h]
  | MRipemd160 h => [AHash HRipemd160 h] | MHash160 h => [AHash HHash160 h]
  | MMulti _ ks | MSortedMulti _ ks | MMultiA _ ks | MSortedMultiA _ ks => map AKey ks
  | MAlt x | MSwap x | MCheck x | MDupIf x | MVerify x | MNonZero x | MZeroNotEqual x => matoms_rtl x
  | MAndV x y | MAndB x y | MOrB x y | MOrD x y | MOrC x y | MOrI x y => matoms_rtl y ++ matoms_rtl x
  | MAndOr a b c => matoms_rtl c ++ matoms_rtl b ++ matoms_rtl a
  | MThresh _ xs => (fix go (l : list ms) : list atom := match l with [] => [] | x :: r => go r ++ matoms_rtl x end) xs
  | _ => []
  end.

(* atoms in the order of the text form *)
Fixpoint matoms_pre (m : ms) : list atom :=
  match m with
  | MPkK k | MPkH k => [AKey k]
  | MSha256 h => [AHash HSha256 h] | MHash256 h => [AHash HHash256 h]
  | MRipemd160 h => [AHash HRipemd160 h] | MHash160 h => [AHash HHash160 h]
  | MMulti _ ks | MSortedMulti _ ks | MMultiA _ ks | MSortedMultiA _ ks => map AKey ks
  | MAlt x | MSwap x | MCheck x | MDupIf x | MVerify x | MNonZero x | MZeroNotEqual x => matoms_pre x
  | MAndV x y | MAndB x y | MOrB x y | MOrD x y | MOrC x y | MOrI x y => matoms_pre x ++ matoms_pre y
  | MAndOr a b c => matoms_pre a ++ matoms_pre b ++ matoms_pre c
  | MThresh _ xs => (fix go (l : list ms) : list atom := match l with [] => [] | x :: r => matoms_pre x ++ go r end) xs
  | _ => []
  end.

(* substitution of keys and hashes (specification side) *)
Fixpoint map_atoms (g : key -> key) (gh : hkind -> bytes -> bytes) (m : ms) : ms :=
  match m with
  | MPkK k => MPkK (g k) | MPkH k => MPkH (g k)
  | MSha256 h => MSha256 (gh HSha256 h) | MHash256 h => MHash256 (gh HHash256 h)
  | MRipemd160 h => MRipemd160 (gh HRipemd160 h) | MHash160 h => MHash160 (gh HHash160 h)
  | MMulti k ks => MMulti k (map g ks) | MSortedMulti k ks => MSortedMulti k (map g ks)
  | MMultiA k ks => MMultiA k (map g ks) | MSortedMultiA k ks => MSortedMultiA k (map g ks)
  | MAlt x => MAlt (map_atoms g gh x) | MSwap x => MSwap (map_atoms g gh x) | MCheck x => MCheck (map_atoms g gh x)
  | MDupIf x => MDupIf (map_atoms g gh x) | MVerify x => MVerify (map_atoms g gh x)
  | MNonZero x => MNonZero (map_atoms g gh x) | MZeroNotEqual x => MZeroNotEqual (map_atoms g gh x)
  | MAndV x y => MAndV (map_atoms g gh x) (map_atoms g gh y) | MAndB x y => MAndB (map_atoms g gh x) (map_atoms g gh y)
  | MAndOr a b c => MAndOr (map_atoms g gh a) (map_atoms g gh b) (map_atoms g gh c)
  | MOrB x y => MOrB (map_atoms g gh x) (map_atoms g gh y) | MOrD x y => MOrD (map_atoms g gh x) (map_atoms g gh y)
  | MOrC x y => MOrC (map_atoms g gh x) (map_atoms g gh y) | MOrI x y => MOrI (map_atoms g gh x) (map_atoms g gh y)
  | MThresh k xs => MThresh k (map (map_atoms g gh) xs)
  | other => other
  end.

(* ------------------------------------------------------------------ descriptors *)
Section TranslateDescH.
  Variable f : N -> key -> option key.
  Variable fh : N -> hkind -> bytes -> option bytes.
  Variable chk : ctx -> ms -> option cerr.
  Variable kk : key -> kkind.

  Definition wrap_h (c : ctx) (mk : ms -> desc) (m : ms) : tres desc :=
    tbind (translate_iter_h f fh (chk c) m) (fun m' => TOk (mk m')).

  Fixpoint tr_leaves_h (n : N) (ls : list (N * ms)) : tres (list (N * ms) * N) :=
    match ls with
    | [] => TOk ([], n)
    | (d, m) :: r =>
      tbind (tbind (run_steps_h f fh (chk Tap) ([], n) (rtl_post m))
                   (fun st => tbind (pop (fst st)) (fun p => TOk (fst p, snd st))))
            (fun p => tbind (tr_leaves_h (snd p) r) (fun q => TOk ((d, fst p) :: fst q, snd q)))
    end.

  Definition translate_desc_h (d : desc) : tres desc :=
    match d with
    | DPkh k => single f kk Legacy DPkh k
    | DWpkh k => single f kk Segwitv0 DWpkh k
    | DShWpkh k => single f kk Segwitv0 DShWpkh k
    | DBare m => wrap_h Bare DBare m
    | DSh m => wrap_h Legacy DSh m
    | DWsh m => wrap_h Segwitv0 DWsh m
    | DShWsh m => wrap_h Segwitv0 DShWsh m
    | DTr ik ls =>
      tbind (tr_leaves_h 0%N ls) (fun p =>
        match f (snd p) ik with
        | None => TErr (TranslatorErr (snd p))
        | Some ik' => match check_pk Tap (kk ik') with Some e => TErr (OuterErr e) | None => TOk (DTr ik' (fst p)) end
        end)
    end.
End TranslateDescH.

Definition desc_atoms_rtl (d : desc) : list atom :=
  match d with
  | DPkh k | DWpkh k | DShWpkh k => [AKey k]
  | DBare m | DShWsh m | DSh m | DWsh m => matoms_rtl m
  | DTr ik ls => flat_map (fun l => matoms_rtl (snd l)) ls ++ [AKey ik]
  end.
