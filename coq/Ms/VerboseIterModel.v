(* C11 / C10 — model of iter/tree.rs `VerbosePreOrderIter` (no proofs in this file).

   The iterator keeps a Vec of `PreOrderIterItem { node, parent, index, n_children_yielded,
   is_complete }` and a counter `index`.  One call of `next`:

       let mut top = self.stack.pop()?;
       if top.n_children_yielded == 0 { top.index = self.index; self.index += 1; }
       let n_children = top.node.n_children();
       if top.n_children_yielded < n_children {
           self.stack.push(top.clone().increment(n_children));
           let child = top.node.nth_child(top.n_children_yielded).unwrap();
           self.stack.push(PreOrderIterItem::initial(child, Some(top.node.clone())));
       }
       Some(top)

   The trees are rose trees over an arbitrary label type (the printer of miniscript/display.rs runs
   the iterator over `DisplayNode`, whose labels are names and flags; `rtree` of RobustModel.v is
   the instance A = N, see [g_of_r]).  The Vec is modelled with its top at the HEAD of the list. *)
From Coq Require Import List NArith Bool.
From Verif Require Import Bytes RobustModel.
Import ListNotations.
Local Open Scope N_scope.

Inductive gtree (A : Type) : Type := GNode (a : A) (cs : list (gtree A)).
Arguments GNode {A} a cs.

Section Verbose.
Context {A : Type}.

Definition glabel (t : gtree A) : A := match t with GNode a _ => a end.
Definition gchildren (t : gtree A) : list (gtree A) := match t with GNode _ cs => cs end.
Fixpoint gsize (t : gtree A) : nat :=
  match t with GNode _ cs => S ((fix go (l : list (gtree A)) : nat := match l with [] => O | c :: r => (gsize c + go r)%nat end) cs) end.
Fixpoint gsize_forest (l : list (gtree A)) : nat := match l with [] => O | c :: r => (gsize c + gsize_forest r)%nat end.
Definition gnsize (t : gtree A) : N := N.of_nat (gsize t).

(* TreeLike::n_children and TreeLike::nth_child (None when out of range) *)
Definition g_n_children (t : gtree A) : N := nlen (gchildren t).
Definition g_nth_child (t : gtree A) (i : N) : option (gtree A) := nth_error (gchildren t) (N.to_nat i).

(* PreOrderIterItem: the five public fields *)
Record vitem : Type := mkVItem {
  vi_node : gtree A;
  vi_parent : option (gtree A);
  vi_index : N;
  vi_nyielded : N;
  vi_complete : bool }.

(* PreOrderIterItem::initial: is_complete = (n_children == 0), index 0 "must be set before yielding" *)
Definition v_initial (node : gtree A) (parent : option (gtree A)) : vitem :=
  mkVItem node parent 0 0 (g_n_children node =? 0).
(* PreOrderIterItem::increment *)
Definition v_increment (it : vitem) (n_children : N) : vitem :=
  mkVItem (vi_node it) (vi_parent it) (vi_index it) (vi_nyielded it + 1) (vi_nyielded it + 1 =? n_children).

(* VerbosePreOrderIter::next.  ROk None = the `?` on the empty stack (end of iteration);
   the only panic site is the `unwrap` of nth_child. *)
Definition verbose_next (index : N) (stack : list vitem) : routcome (option (vitem * N * list vitem)) :=
  match stack with
  | [] => ROk None
  | top0 :: rest =>
    let '(top, index') :=
      if vi_nyielded top0 =? 0
      then (mkVItem (vi_node top0) (vi_parent top0) index (vi_nyielded top0) (vi_complete top0), index + 1)
      else (top0, index) in
    let n_children := g_n_children (vi_node top) in
    if vi_nyielded top <? n_children then
      let st1 := v_increment top n_children :: rest in
      match g_nth_child (vi_node top) (vi_nyielded top) with
      | None => RPanic P_UNWRAP_NONE
      | Some child => ROk (Some (top, index', v_initial child (Some (vi_node top)) :: st1))
      end
    else ROk (Some (top, index', rest))
  end.

(* the caller's `for item in t.verbose_pre_order_iter()`: fuel = number of items that may be yielded *)
Fixpoint verbose_run (fuel : nat) (index : N) (stack : list vitem) : routcome (list vitem) :=
  match verbose_next index stack with
  | RPanic s => RPanic s
  | RErr e => RErr e
  | ROk None => ROk []
  | ROk (Some (y, index', st')) =>
    match fuel with
    | O => RErr E_OUT_OF_FUEL
    | S f => rbind (verbose_run f index' st') (fun ys => ROk (y :: ys))
    end
  end.

(* number of items: one per node plus one per edge *)
Definition verbose_yields (t : gtree A) : nat := (gsize t + (gsize t - 1))%nat.

(* TreeLike::verbose_pre_order_iter: stack = [initial(self, None)], index = 0 *)
Definition verbose_order (t : gtree A) : routcome (list vitem) :=
  verbose_run (verbose_yields t) 0 [v_initial t None].

(* ---- the recursive specification.
   verbose_spec t par b: what must be yielded for the subtree t whose parent is par when b nodes
   have been yielded for the first time before it: t (n_children_yielded = 0), then for each child
   its own items followed by t again with the count of children done; is_complete exactly on the
   last of these (for a leaf: on the only one); every item of t carries index b. *)
Fixpoint verbose_spec (t : gtree A) (par : option (gtree A)) (b : N) : list vitem :=
  match t with GNode x cs =>
    let n := nlen cs in
    (fix go (l : list (gtree A)) (b' : N) (k : N) : list vitem :=
       mkVItem (GNode x cs) par b k (k =? n) ::
       match l with
       | [] => []
       | c :: r => verbose_spec c (Some (GNode x cs)) b' ++ go r (b' + gnsize c) (k + 1)
       end) cs (b + 1) 0
  end.
(* the items of a node from its k-th yield on, l = the children not yet visited *)
Fixpoint verbose_spec_from (t : gtree A) (par : option (gtree A)) (b : N) (l : list (gtree A)) (b' : N) (k : N) : list vitem :=
  mkVItem t par b k (k =? g_n_children t) ::
  match l with
  | [] => []
  | c :: r => verbose_spec c (Some t) b' ++ verbose_spec_from t par b r (b' + gnsize c) (k + 1)
  end.

(* recursive pre-order of the labels, and the first yields of a verbose run *)
Fixpoint gpreorder (t : gtree A) : list A :=
  match t with GNode x cs => x :: (fix go (l : list (gtree A)) : list A := match l with [] => [] | c :: r => gpreorder c ++ go r end) cs end.
Fixpoint gpreorder_forest (l : list (gtree A)) : list A := match l with [] => [] | c :: r => gpreorder c ++ gpreorder_forest r end.
Definition first_yields (ys : list vitem) : list vitem := filter (fun y => vi_nyielded y =? 0) ys.
Definition lab_idx (y : vitem) : A * N := (glabel (vi_node y), vi_index y).
Definition yields_of_index (i : N) (ys : list vitem) : list vitem := filter (fun y => vi_index y =? i) ys.

End Verbose.
Arguments vitem A : clear implicits.

(* the trees of RobustModel.v / RobustIterSpec.v are the instance A = N *)
Fixpoint g_of_r (t : rtree) : gtree N :=
  match t with RNode x cs => GNode x ((fix go (l : list rtree) : list (gtree N) := match l with [] => [] | c :: r => g_of_r c :: go r end) cs) end.

(* what the correspondence run prints per item: label, parent's label, index, n_children_yielded, is_complete *)
Definition vobs (y : vitem N) : N * option N * N * N * bool :=
  (glabel (vi_node y), option_map glabel (vi_parent y), vi_index y, vi_nyielded y, vi_complete y).
