(* Denotational (relational) specification of Miniscript satisfaction: WHICH witnesses a fragment's
   script accepts, written over the witness's own material (any valid signature, any preimage, any
   32-byte non-preimage, ...), not over a caller's asset table as Ms/SatSpec.v is.  Definitions only.

     [Rg can m s w v] : the stack elements [w] (head = top of stack) are a
                          satisfaction    (s = true)   of [m] that leaves the true  value [v],
                          dissatisfaction (s = false)  of [m] that leaves the false value [v].
   What "leaves [v]" means per base type (as in Proofs/TheoremA.v, [good]):
     B, W : [v] is the value the fragment leaves ([truthy v = s]); for W the carried top element is
            not part of [w];
     V    : only s = true exists, and v = [] (nothing is left);
     K    : [v] is the public key the fragment leaves and the LAST element of [w] is the signature the
            CHECKSIG of the enclosing c: takes; s = true: that signature is non-empty and verifies
            under [v]; s = false: it is the empty vector.  [v] is an acceptable key encoding.

   The flag [can] restricts the relation to the CANONICAL choices the specification's table lists
   (SatSpec.v); every clause guarded by [can = true -> ...] is one way in which the script accepts
   more than the table describes.  [R := Rg false] is the exact semantics (Theorem B / A',
   Proofs/DenotSound.v, DenotComplete.v); [Rcan := Rg true] is the table as a relation
   (Proofs/DenotTable.v).  The relation is claimed exact for well-typed fragments. *)
From Verif Require Export Ast SatSpec.

Section Denot.
  Variable e : env.
  Variable ke : keyenv.

  (* the signature [sg] under the key [key], as the CHECKSIG of c: judges it *)
  Definition ksig (s : bool) (key sg : bytes) : Prop :=
    e_keyok e key = true /\ if s then sg <> [] /\ e_sigok e key sg = true else sg = [].

  (* operand of BOOLAND / BOOLOR / ADD / 0NOTEQUAL: a minimal number of at most 4 bytes *)
  Definition num4 (v : bytes) : Prop := exists z, num_operand 4 v = Some z.
  (* SIZE must leave a number 0NOTEQUAL accepts *)
  Definition size_ok (a : bytes) : Prop := (blen a < 2147483648)%N.

  (* SIZE 32 EQUALVERIFY <hash> <h> EQUAL: any 32-byte string; a preimage satisfies, ANY OTHER
     32-byte string dissatisfies (the table lists only 32 zero bytes) *)
  Definition Rhash (can : bool) (hf : bytes -> bytes) (h : bytes) (s : bool) (w : wit) (v : bytes) : Prop :=
    exists x, w = [x] /\ blen x = 32%N /\ v = bool_bytes s /\
      (if s then hf x = h else hf x <> h) /\
      (can = true -> s = false -> x = zeros32).

  (* thresh: the children take their witnesses in order (first child on top); [j] of them are
     satisfied.  Children are typed Bdu / Wdu: a satisfied child leaves exactly [1] (u), and ADD
     accepts a false value only if it is the empty vector. *)
  Definition Rthr (P : ms -> bool -> wit -> bytes -> Prop) : list ms -> wit -> nat -> Prop :=
    fix go (l : list ms) (w : wit) (j : nat) {struct l} : Prop :=
    match l with
    | [] => w = [] /\ j = 0%nat
    | x :: r => exists wx wr, w = wx ++ wr /\
        ((exists j', j = S j' /\ P x true wx [1%N] /\ go r wr j') \/
         (P x false wx [] /\ go r wr j))
    end.

  (* multi_a: one element per key, first key on top; empty = no signature, non-empty = must verify
     (otherwise the script fails); [j] signatures *)
  Fixpoint Rcsa (ks : list key) (w : wit) (j : nat) {struct ks} : Prop :=
    match ks with
    | [] => w = [] /\ j = 0%nat
    | k :: r => exists sg w', w = sg :: w' /\ e_keyok e (kb ke k) = true /\
        ((sg = [] /\ Rcsa r w' j) \/
         (sg <> [] /\ e_sigok e (kb ke k) sg = true /\ exists j', j = S j' /\ Rcsa r w' j'))
    end.

  (* multi: k signatures (the one for the LAST matching key on top) above the dummy element, which
     NULLDUMMY forces to be empty.  Satisfied iff CHECKMULTISIG's in-order matching succeeds;
     dissatisfied iff it fails AND every signature is empty (NULLFAIL). *)
  Definition Rcms (k : N) (keys : list bytes) (s : bool) (w : wit) (v : bytes) : Prop :=
    v = bool_bytes s /\ exists sigs, w = sigs ++ [[]] /\ length sigs = N.to_nat k /\
      (forall key, In key keys -> e_keyok e key = true) /\
      if s then multisig_match e (rev keys) sigs = true
      else multisig_match e (rev keys) sigs = false /\ sigs = repeat [] (N.to_nat k).

  Fixpoint Rg (can : bool) (m : ms) (s : bool) (w : wit) (v : bytes) {struct m} : Prop :=
    match m with
    | MTrue => s = true /\ w = [] /\ v = [1%N]
    | MFalse => s = false /\ w = [] /\ v = []
    | MPkK k => exists sg, w = [sg] /\ v = kb ke k /\ ksig s v sg
    (* pk_h: ANY key with the right hash160 (the table: the key [k] itself) *)
    | MPkH k => exists sg, w = [v; sg] /\ e_hash160 e v = kh ke k /\ ksig s v sg /\ (can = true -> v = kb ke k)
    (* raw_pk_h: the key is unknown to the table *)
    | MRawPkH h => can = false /\ exists sg, w = [v; sg] /\ e_hash160 e v = h /\ ksig s v sg
    | MAfter t => s = true /\ w = [] /\ v = num_encode (Z.of_N t) /\ check_locktime e (Z.of_N t) = true
    | MOlder t => s = true /\ w = [] /\ v = num_encode (Z.of_N t) /\ check_sequence e (Z.of_N t) = true
    | MSha256 h => Rhash can (e_sha256 e) h s w v
    | MHash256 h => Rhash can (e_hash256 e) h s w v
    | MRipemd160 h => Rhash can (e_ripemd160 e) h s w v
    | MHash160 h => Rhash can (e_hash160 e) h s w v
    | MAlt x | MSwap x => Rg can x s w v
    | MCheck x => v = bool_bytes s /\ exists key, Rg can x s w key
    (* DUP IF [X] ENDIF: the selector is the value left.  MINIMALIF (v0, tapscript) forces it to be
       [1] / []; under the base signature version any true / false value selects (table: [1] / []) *)
    | MDupIf x =>
      w = [v] /\ if_cond e v = Some s /\ (s = true -> Rg can x true [] []) /\ (can = true -> v = bool_bytes s)
    | MVerify x => s = true /\ v = [] /\ exists v', Rg can x true w v'
    (* SIZE 0NOTEQUAL IF [X] ENDIF: an empty top element dissatisfies; otherwise X decides -- also
       when X is then DISsatisfied (the table lists only the empty element) *)
    | MNonZero x =>
      (s = false /\ w = [[]] /\ v = []) \/
      (exists a r, w = a :: r /\ a <> [] /\ size_ok a /\ Rg can x s w v /\ (can = true -> s = true))
    | MZeroNotEqual x => v = bool_bytes s /\ exists v', Rg can x s w v' /\ num4 v'
    | MAndV x y => exists wx wy, w = wx ++ wy /\ Rg can x true wx [] /\ Rg can y s wy v
    (* and_b: dissatisfied as soon as ONE side is (the table: both) *)
    | MAndB x y => exists wx wy vx vy sx sy, w = wx ++ wy /\ Rg can x sx wx vx /\ Rg can y sy wy vy /\
        num4 vx /\ num4 vy /\ s = sx && sy /\ v = bool_bytes s /\ (can = true -> sx = sy)
    (* or_b: satisfied also when BOTH sides are (the table: exactly one) *)
    | MOrB x y => exists wx wy vx vy sx sy, w = wx ++ wy /\ Rg can x sx wx vx /\ Rg can y sy wy vy /\
        num4 vx /\ num4 vy /\ s = sx || sy /\ v = bool_bytes s /\ (can = true -> sx && sy = false)
    | MOrC x y => s = true /\ v = [] /\
        ((exists vx, Rg can x true w vx /\ if_cond e vx = Some true) \/
         (exists wx wy vx, w = wx ++ wy /\ Rg can x false wx vx /\ if_cond e vx = Some false /\ Rg can y true wy []))
    | MOrD x y =>
        (s = true /\ Rg can x true w v /\ if_cond e v = Some true) \/
        (exists wx wy vx, w = wx ++ wy /\ Rg can x false wx vx /\ if_cond e vx = Some false /\ Rg can y s wy v)
    (* or_i: the selector; see d: for MINIMALIF *)
    | MOrI x y => exists sel w' (b : bool), w = sel :: w' /\ if_cond e sel = Some b /\
        (if b then Rg can x s w' v else Rg can y s w' v) /\ (can = true -> sel = bool_bytes b)
    (* andor: [X] NOTIF [Z] ELSE [Y] ENDIF; dissatisfied also by sat X, dsat Y (the table: dsat X, dsat Z) *)
    | MAndOr a b c => exists wa w' va, w = wa ++ w' /\
        ((Rg can a true wa va /\ if_cond e va = Some true /\ Rg can b s w' v /\ (can = true -> s = true)) \/
         (Rg can a false wa va /\ if_cond e va = Some false /\ Rg can c s w' v))
    (* thresh: satisfied iff EXACTLY k children are; any other count -- more than k included --
       makes EQUAL leave 0: a dissatisfaction (the table: no child satisfied) *)
    | MThresh k xs => v = bool_bytes s /\ exists j, Rthr (fun x => Rg can x) xs w j /\
        s = N.eqb (N.of_nat j) k /\ (can = true -> s = false -> j = 0%nat)
    | MMulti k ks => Rcms k (map (kb ke) ks) s w v
    | MSortedMulti k ks => Rcms k (map (kb ke) (ksort ke ks)) s w v
    (* multi_a: NUMEQUAL leaves 0 for every signature count other than k (the table: no signature) *)
    | MMultiA k ks => v = bool_bytes s /\ exists j, Rcsa ks w j /\
        s = N.eqb (N.of_nat j) k /\ (can = true -> s = false -> j = 0%nat)
    | MSortedMultiA k ks => v = bool_bytes s /\ exists j, Rcsa (ksort ke ks) w j /\
        s = N.eqb (N.of_nat j) k /\ (can = true -> s = false -> j = 0%nat)
    end.

  Definition R := Rg false.
  Definition Rcan := Rg true.

  (* the two predicates of the specification: [w] satisfies / dissatisfies [m] *)
  Definition Rsat (m : ms) (w : wit) : Prop := exists v, R m true w v.
  Definition Rdsat (m : ms) (w : wit) : Prop := exists v, R m false w v.
  Definition Rsat_can (m : ms) (w : wit) : Prop := exists v, Rcan m true w v.
  Definition Rdsat_can (m : ms) (w : wit) : Prop := exists v, Rcan m false w v.

  (* ---------- the assets a witness exhibits ---------- *)
  Definition dn_nonnil (b : bytes) : bool := match b with [] => false | _ => true end.
  Definition wfind_sig (W : wit) (k : key) : option bytes :=
    find (fun sg => dn_nonnil sg && e_sigok e (kb ke k) sg) W.
  Definition wfind_pre (hf : bytes -> bytes) (W : wit) (h : bytes) : option bytes :=
    find (fun x => N.eqb (blen x) 32 && bytes_eqb (hf x) h) W.
  Definition assets_of (W : wit) : assets :=
    mkAssets (wfind_sig W)
             (wfind_pre (e_sha256 e) W) (wfind_pre (e_hash256 e) W)
             (wfind_pre (e_ripemd160 e) W) (wfind_pre (e_hash160 e) W)
             (fun t => check_locktime e (Z.of_N t)) (fun t => check_sequence e (Z.of_N t)).

  (* the material in [W] is unambiguous: at most one signature per key, at most one preimage per image *)
  Definition uniq_pre (hf : bytes -> bytes) (W : wit) : Prop :=
    forall x1 x2, In x1 W -> In x2 W -> blen x1 = 32%N -> blen x2 = 32%N -> hf x1 = hf x2 -> x1 = x2.
  Definition uniq_material (W : wit) : Prop :=
    (forall k s1 s2, In s1 W -> In s2 W -> s1 <> [] -> s2 <> [] ->
       e_sigok e (kb ke k) s1 = true -> e_sigok e (kb ke k) s2 = true -> s1 = s2) /\
    uniq_pre (e_sha256 e) W /\ uniq_pre (e_hash256 e) W /\ uniq_pre (e_ripemd160 e) W /\ uniq_pre (e_hash160 e) W.

  (* the same, only for the keys [K] and the hash images [P] that matter *)
  Definition uniq_pre_on (P : bytes -> Prop) (hf : bytes -> bytes) (W : wit) : Prop :=
    forall h, P h -> forall x1 x2, In x1 W -> In x2 W -> blen x1 = 32%N -> blen x2 = 32%N ->
      hf x1 = h -> hf x2 = h -> x1 = x2.
  Definition uniq_material_on (K : key -> Prop) (P : bytes -> Prop) (W : wit) : Prop :=
    (forall k, K k -> forall s1 s2, In s1 W -> In s2 W -> s1 <> [] -> s2 <> [] ->
       e_sigok e (kb ke k) s1 = true -> e_sigok e (kb ke k) s2 = true -> s1 = s2) /\
    uniq_pre_on P (e_sha256 e) W /\ uniq_pre_on P (e_hash256 e) W /\
    uniq_pre_on P (e_ripemd160 e) W /\ uniq_pre_on P (e_hash160 e) W.
End Denot.

(* the keys and the hash images a fragment mentions *)
Fixpoint dn_keys (m : ms) : list key :=
  match m with
  | MPkK k | MPkH k => [k]
  | MMulti _ ks | MSortedMulti _ ks | MMultiA _ ks | MSortedMultiA _ ks => ks
  | MAlt x | MSwap x | MCheck x | MDupIf x | MVerify x | MNonZero x | MZeroNotEqual x => dn_keys x
  | MAndV x y | MAndB x y | MOrB x y | MOrD x y | MOrC x y | MOrI x y => dn_keys x ++ dn_keys y
  | MAndOr a b c => dn_keys a ++ dn_keys b ++ dn_keys c
  | MThresh _ xs => flat_map dn_keys xs
  | _ => []
  end.
Fixpoint dn_imgs (m : ms) : list bytes :=
  match m with
  | MSha256 h | MHash256 h | MRipemd160 h | MHash160 h => [h]
  | MAlt x | MSwap x | MCheck x | MDupIf x | MVerify x | MNonZero x | MZeroNotEqual x => dn_imgs x
  | MAndV x y | MAndB x y | MOrB x y | MOrD x y | MOrC x y | MOrI x y => dn_imgs x ++ dn_imgs y
  | MAndOr a b c => dn_imgs a ++ dn_imgs b ++ dn_imgs c
  | MThresh _ xs => flat_map dn_imgs xs
  | _ => []
  end.
(* at most one signature per key OF [m], one preimage per image OF [m], among the elements of [W] *)
Definition uniq_material_of (e : env) (ke : keyenv) (m : ms) (W : wit) : Prop :=
  uniq_material_on e ke (fun k => In k (dn_keys m)) (fun h => In h (dn_imgs m)) W.
