(* Model of the POLICY text layer (property C10), as coded in /repo:
   (a) `impl Display for policy::concrete::Policy` (src/policy/concrete.rs) and
       `impl Display for policy::semantic::Policy` (src/policy/semantic.rs, with
       `Threshold::display(name, show_k)` of src/primitives/threshold.rs) producing an expression tree
       ([etree] of ExprTreeModel.v); the text is [print (conc_to_tree p)] / [print (sem_to_tree p)];
   (b) `impl FromTree` of both types: `verify_no_curly_braces`, then the loop over
       `root.pre_order_iter().rev()` (right-to-left post order, [rpo] of MsTextModel.v) with an explicit stack;
       `stack.pop().unwrap()` = Panic 40, `assert_eq!(stack.len(), 1)` = Panic 41.  The code IS iterative and the
       model is the same iteration (no recursive variant is given; the theorems are about the loop).
       Helpers of src/expression/mod.rs reused from MsTextModel.v: `verify_terminal_parent`, `verify_after/older`
       ([verify_lock]), `verify_threshold` (MAX = 0), `parse_num`; new here: `parse_num_nonzero` with its
       `IllegalZero` class (odds), `name_separated('@')`.
   (c) `FromStr`: `expression::Tree::from_str` + from_tree (+ `check_timelocks` for the concrete type,
       [check_timelocks] of PolConcrete.v on the policy with the odds erased).

   Differences between the two loops that the model keeps:
   * concrete: a node is skipped when its parent has ONE child (whatever the node itself looks like), or when it
     is the first child of a parent whose name AFTER `name_separated('@')` is `thresh`; the parent's name is
     separated BEFORE the node itself is looked at (so a parent with two `@` is reported at its last child);
     `allow_prob` = the separated parent name is `or`; only then is the node's own name separated and the prefix
     parsed with parse_num_nonzero (absent -> 1); elsewhere `2@pk` is an unknown name;
     `and` / `or` take exactly two children; `thresh` goes through verify_threshold.
   * semantic: same first skip rule; second one compares the parent's RAW name with `thresh`; `and` / `or` take
     two or more children and build Threshold(n, ..) / Threshold(1, ..); `thresh(k, ..)` is refused when k = 1
     (IllegalOr, tested first) or k = n (IllegalAnd).  Display writes `and(..)` when k = n (tested first),
     `or(..)` when k = 1, `thresh(k,..)` otherwise.
   Keys and hashes are atoms ([N], as in PolSemantic.v / PolConcrete.v) with a printer and a parser (Section
   variables).  The concrete type of PolConcrete.v drops the odds of `or`; the text layer needs them, so [wpol]
   carries them and [erase] maps to [cpol].  No proofs in this file. *)
From Coq Require Export List Bool NArith.
From Verif Require Export MsTextModel PolSemantic PolConcrete.
Export ListNotations.
Local Open Scope N_scope.

Definition n_UNSAT : tbytes := [85; 78; 83; 65; 84; 73; 83; 70; 73; 65; 66; 76; 69].
Definition n_TRIVIAL : tbytes := [84; 82; 73; 86; 73; 65; 76].
Definition n_and : tbytes := [97; 110; 100].
Definition n_or : tbytes := [111; 114].
Definition AT : N := 64.

Inductive phk := PSha256 | PHash256 | PRipemd160 | PHash160.

(* the terminals both policy types share *)
Inductive pleaf :=
| LUnsat | LTriv | LKey (k : N) | LAfter (t : N) | LOlder (t : N) | LHash (h : phk) (v : N).

(* policy::concrete::Policy with the odds of `or` (usize) and the threshold value as numbers *)
Inductive wpol : Type :=
| WLeaf (l : pleaf)
| WAnd (subs : list wpol)
| WOr (subs : list (N * wpol))
| WThresh (k : N) (subs : list wpol).
Definition WUnsat := WLeaf LUnsat.
Definition WTriv := WLeaf LTriv.
Definition WKey k := WLeaf (LKey k).
Definition WAfter t := WLeaf (LAfter t).
Definition WOlder t := WLeaf (LOlder t).
Definition WSha256 v := WLeaf (LHash PSha256 v).
Definition WHash256 v := WLeaf (LHash PHash256 v).
Definition WRipemd160 v := WLeaf (LHash PRipemd160 v).
Definition WHash160 v := WLeaf (LHash PHash160 v).

Definition cleaf (l : pleaf) : cpol :=
  match l with
  | LUnsat => CUnsat | LTriv => CTriv | LKey k => CKey k | LAfter t => CAfter t | LOlder t => COlder t
  | LHash PSha256 v => CSha256 v | LHash PHash256 v => CHash256 v
  | LHash PRipemd160 v => CRipemd160 v | LHash PHash160 v => CHash160 v
  end.
Fixpoint erase (p : wpol) : cpol :=
  match p with
  | WLeaf l => cleaf l
  | WAnd subs => CAnd (map erase subs)
  | WOr subs => COr (map (fun wp => match wp with (_, q) => erase q end) subs)
  | WThresh k subs => CThresh (N.to_nat k) (map erase subs)
  end.

Definition sleaf (l : pleaf) : spol :=
  match l with
  | LUnsat => SUnsat | LTriv => STriv | LKey k => SKey k | LAfter t => SAfter t | LOlder t => SOlder t
  | LHash PSha256 v => SSha256 v | LHash PHash256 v => SHash256 v
  | LHash PRipemd160 v => SRipemd160 v | LHash PHash160 v => SHash160 v
  end.
Definition s_as_leaf (p : spol) : option pleaf :=
  match p with
  | SUnsat => Some LUnsat | STriv => Some LTriv | SKey k => Some (LKey k)
  | SAfter t => Some (LAfter t) | SOlder t => Some (LOlder t)
  | SSha256 v => Some (LHash PSha256 v) | SHash256 v => Some (LHash PHash256 v)
  | SRipemd160 v => Some (LHash PRipemd160 v) | SHash160 v => Some (LHash PHash160 v)
  | SThresh _ _ => None
  end.

(* ------------------------------------------------------------------ errors *)
Inductive pol_err :=
| PMs (e : ms_err)       (* the classes shared with the miniscript parser (ParseTreeError, ParseNumError, locks,
                            FromStr, ParseThresholdError::{NoChildren,KNotTerminal,ParseK,Threshold}) *)
| PNumZero               (* ParseNumError::IllegalZero ("0@") *)
| PIllegalOr | PIllegalAnd   (* ParseThresholdError::IllegalOr / IllegalAnd (semantic) *)
| PTimelock.             (* Error::ConcretePolicy(HeightTimelockCombination), from_str only *)

Definition lift_ms {A} (o : outcome ms_err A) : outcome pol_err A :=
  match o with Ok a => Ok a | Err e => Err (PMs e) | Panic s => Panic s end.
Definition omap {E A B} (f : A -> B) (o : outcome E A) : outcome E B :=
  match o with Ok a => Ok (f a) | Err e => Err e | Panic s => Panic s end.

(* expression::parse_num_nonzero *)
Definition parse_num_nonzero (s : tbytes) : outcome pol_err N :=
  if tb_eqb s n_0 then Err PNumZero
  else
    let std := match u32_from_str s with
               | Ok v => Ok v | Err e => Err (PMs (ENum e)) | Panic q => Panic q end in
    match s with
    | c :: _ => if (49 <=? c) && (c <=? 57) then std else Err (PMs (ENum NumLead))
    | [] => std
    end.

(* `name.splitn(3, '@')` / name_separated('@') *)
Fixpoint split_at (s : tbytes) : tbytes * option tbytes :=
  match s with
  | [] => ([], None)
  | c :: r => if c =? AT then ([], Some r)
              else let '(a, b) := split_at r in (c :: a, b)
  end.
Definition sep_at (name : tbytes) : outcome pol_err (option tbytes * tbytes) :=
  match split_at name with
  | (_, None) => Ok (None, name)
  | (pre, Some rest) =>
    match split_at rest with
    | (_, None) => Ok (Some pre, rest)
    | (_, Some _) => Err (PMs EMultiSep)
    end
  end.

Inductive pkind := KUnsat | KTriv | KPk | KAfter | KOlder | KHash (h : phk) | KAnd | KOr | KThresh.
Definition pol_names : list (tbytes * pkind) :=
  [(n_UNSAT, KUnsat); (n_TRIVIAL, KTriv); (n_pk, KPk); (n_after, KAfter); (n_older, KOlder);
   (n_sha256, KHash PSha256); (n_hash256, KHash PHash256); (n_ripemd160, KHash PRipemd160);
   (n_hash160, KHash PHash160); (n_and, KAnd); (n_or, KOr); (n_thresh, KThresh)].
Fixpoint plookup (tbl : list (tbytes * pkind)) (s : tbytes) : option pkind :=
  match tbl with
  | [] => None
  | (n, f) :: r => if tb_eqb s n then Some f else plookup r s
  end.
Definition pkind_of_name (s : tbytes) : option pkind := plookup pol_names s.

Definition prob_ok (w : N) : bool := (1 <=? w) && (w <=? U32_MAX).

Definition gpop {A} (st : list A) : outcome pol_err (A * list A) :=
  match st with m :: r => Ok (m, r) | [] => Panic 40 end.
Fixpoint gpop_n {A} (n : nat) (st : list A) : outcome pol_err (list A * list A) :=
  match n with
  | O => Ok ([], st)
  | S n' => obind (gpop st) (fun '(m, st1) => obind (gpop_n n' st1) (fun '(ms, st2) => Ok (m :: ms, st2)))
  end.

Section PolText.
Variable print_key : N -> tbytes.
Variable parse_key : tbytes -> option N.
Variable print_hash : phk -> N -> tbytes.
Variable parse_hash : phk -> tbytes -> option N.

(* ------------------------------------------------------------------ Display *)
Definition hash_name (h : phk) : tbytes :=
  match h with PSha256 => n_sha256 | PHash256 => n_hash256 | PRipemd160 => n_ripemd160 | PHash160 => n_hash160 end.
(* `write!(f, "name(")`, comma-separated arguments, `")"`: with no argument at all the text is `name()`, which
   as an expression is the name with ONE child of empty name *)
Definition fnode (name : tbytes) (kids : list etree) : etree :=
  ENode name PRound (match kids with [] => [leaf []] | _ => kids end).
Definition leaf_tree (l : pleaf) : etree :=
  match l with
  | LUnsat => leaf n_UNSAT
  | LTriv => leaf n_TRIVIAL
  | LKey k => fnode n_pk [leaf (print_key k)]
  | LAfter t => fnode n_after [leaf (dec t)]
  | LOlder t => fnode n_older [leaf (dec t)]
  | LHash h v => fnode (hash_name h) [leaf (print_hash h v)]
  end.
(* `{}@{}`: the odds are written in front of the sub-policy's text, i.e. in front of its root's name *)
Definition with_prob (w : N) (t : etree) : etree :=
  match t with ENode name p kids => ENode (dec w ++ AT :: name) p kids end.

Fixpoint conc_to_tree (p : wpol) : etree :=
  match p with
  | WLeaf l => leaf_tree l
  | WAnd subs => fnode n_and (map conc_to_tree subs)
  | WOr subs => fnode n_or (map (fun wp => match wp with (w, q) => with_prob w (conc_to_tree q) end) subs)
  | WThresh k subs => fnode n_thresh (leaf (dec k) :: map conc_to_tree subs)
  end.
Definition conc_to_text (p : wpol) : tbytes := print (conc_to_tree p).

Fixpoint sem_to_tree (p : spol) : etree :=
  match p with
  | SThresh k subs =>
    if Nat.eqb k (length subs) then fnode n_and (map sem_to_tree subs)
    else if Nat.eqb k 1 then fnode n_or (map sem_to_tree subs)
    else fnode n_thresh (leaf (dec (N.of_nat k)) :: map sem_to_tree subs)
  | _ => match s_as_leaf p with Some l => leaf_tree l | None => leaf [] end
  end.
Definition sem_to_text (p : spol) : tbytes := print (sem_to_tree p).

(* ------------------------------------------------------------------ FromTree *)
(* the terminal arms, identical in both parsers; None = not a terminal name *)
Definition leaf_frag (f : pkind) (kids : list etree) : option (outcome pol_err pleaf) :=
  match f with
  | KUnsat => Some (match kids with [] => Ok LUnsat | _ => Err (PMs EArity) end)
  | KTriv => Some (match kids with [] => Ok LTriv | _ => Err (PMs EArity) end)
  | KPk => Some (omap LKey (lift_ms (verify_terminal_parent parse_key kids)))
  | KAfter => Some (omap LAfter (lift_ms (verify_lock EAbsLock kids)))
  | KOlder => Some (omap LOlder (lift_ms (verify_lock ERelLock kids)))
  | KHash h => Some (omap (LHash h) (lift_ms (verify_terminal_parent (parse_hash h) kids)))
  | _ => None
  end.

(* ---- concrete *)
Definition cstack := list (N * wpol).
Definition cfrag (f : pkind) (kids : list etree) (st : cstack) : outcome pol_err (wpol * cstack) :=
  match leaf_frag f kids with
  | Some o => omap (fun l => (WLeaf l, st)) o
  | None =>
    match f with
    | KAnd =>
      match kids with
      | [_; _] => obind (gpop st) (fun '(x, st1) => obind (gpop st1) (fun '(y, st2) =>
                  Ok (WAnd [snd x; snd y], st2)))
      | _ => Err (PMs EArity)
      end
    | KOr =>
      match kids with
      | [_; _] => obind (gpop st) (fun '(x, st1) => obind (gpop st1) (fun '(y, st2) =>
                  Ok (WOr [x; y], st2)))
      | _ => Err (PMs EArity)
      end
    | _ =>
      obind (lift_ms (verify_threshold 0 kids)) (fun '(k, rest) =>
      obind (gpop_n (length rest) st) (fun '(subs, st1) =>
      Ok (WThresh k (map snd subs), st1)))
    end
  end.

(* the head of the loop body: None = `continue`, Some allow_prob otherwise *)
Definition cskip (parent : option (tbytes * nat * bool)) : outcome pol_err (option bool) :=
  match parent with
  | Some (pname, pn, first) =>
    if Nat.eqb pn 1 then Ok None
    else obind (sep_at pname) (fun '(_, parent_name) =>
         if first && tb_eqb parent_name n_thresh then Ok None
         else Ok (Some (tb_eqb parent_name n_or)))
  | None => Ok (Some false)
  end.

Definition cstep (st : cstack) (it : item) : outcome pol_err cstack :=
  obind (cskip (it_parent it)) (fun o =>
  match o with
  | None => Ok st
  | Some allow_prob =>
    obind (if allow_prob then sep_at (it_name it) else Ok (None, it_name it)) (fun '(fp, frag_name) =>
    obind (match fp with None => Ok 1 | Some s => parse_num_nonzero s end) (fun prob =>
    match pkind_of_name frag_name with
    | None => Err (PMs EUnknownName)
    | Some f => obind (cfrag f (it_kids it) st) (fun '(new, st1) => Ok ((prob, new) :: st1))
    end))
  end).

Fixpoint crun (st : cstack) (items : list item) : outcome pol_err cstack :=
  match items with
  | [] => Ok st
  | it :: r => obind (cstep st it) (fun st1 => crun st1 r)
  end.

Definition conc_from_tree (t : etree) : outcome pol_err wpol :=
  if has_curly t then Err (PMs ECurly)
  else match crun [] (rpo None t) with
       | Ok [(_, p)] => Ok p
       | Ok _ => Panic 41
       | Err e => Err e
       | Panic s => Panic s
       end.

(* ---- semantic *)
Definition sfrag (f : pkind) (kids : list etree) (st : list spol) : outcome pol_err (spol * list spol) :=
  match leaf_frag f kids with
  | Some o => omap (fun l => (sleaf l, st)) o
  | None =>
    match f with
    | KAnd =>
      if Nat.leb 2 (length kids)
      then obind (gpop_n (length kids) st) (fun '(subs, st1) => Ok (SThresh (length kids) subs, st1))
      else Err (PMs EArity)
    | KOr =>
      if Nat.leb 2 (length kids)
      then obind (gpop_n (length kids) st) (fun '(subs, st1) => Ok (SThresh 1 subs, st1))
      else Err (PMs EArity)
    | _ =>
      obind (lift_ms (verify_threshold 0 kids)) (fun '(k, rest) =>
      obind (gpop_n (length rest) st) (fun '(subs, st1) =>
      if k =? 1 then Err PIllegalOr
      else if k =? N.of_nat (length rest) then Err PIllegalAnd
      else Ok (SThresh (N.to_nat k) subs, st1)))
    end
  end.

Definition sskip (parent : option (tbytes * nat * bool)) : bool :=
  match parent with
  | Some (pname, pn, first) => Nat.eqb pn 1 || (first && tb_eqb pname n_thresh)
  | None => false
  end.

Definition sstep (st : list spol) (it : item) : outcome pol_err (list spol) :=
  if sskip (it_parent it) then Ok st
  else match pkind_of_name (it_name it) with
       | None => Err (PMs EUnknownName)
       | Some f => obind (sfrag f (it_kids it) st) (fun '(new, st1) => Ok (new :: st1))
       end.

Fixpoint srun (st : list spol) (items : list item) : outcome pol_err (list spol) :=
  match items with
  | [] => Ok st
  | it :: r => obind (sstep st it) (fun st1 => srun st1 r)
  end.

Definition sem_from_tree (t : etree) : outcome pol_err spol :=
  if has_curly t then Err (PMs ECurly)
  else match srun [] (rpo None t) with
       | Ok [p] => Ok p
       | Ok _ => Panic 41
       | Err e => Err e
       | Panic s => Panic s
       end.

(* ------------------------------------------------------------------ FromStr *)
Inductive ptext_err := PxTree (e : tree_err) | PxPol (e : pol_err).

Definition via_tree {A} (ft : etree -> outcome pol_err A) (s : tbytes) : outcome ptext_err A :=
  match from_str_inner s with
  | Ok nodes =>
    match tree_of_nodes nodes with
    | Some t => match ft t with Ok m => Ok m | Err e => Err (PxPol e) | Panic p => Panic p end
    | None => Panic 42
    end
  | Err e => Err (PxTree e)
  | Panic p => Panic p
  end.
(* <Semantic as FromStr>::from_str *)
Definition sem_from_str (s : tbytes) : outcome ptext_err spol := via_tree sem_from_tree s.
(* Tree::from_str + <Concrete as FromTree>::from_tree *)
Definition conc_from_str_nocheck (s : tbytes) : outcome ptext_err wpol := via_tree conc_from_tree s.
(* <Concrete as FromStr>::from_str: ... then check_timelocks *)
Definition conc_from_str (s : tbytes) : outcome ptext_err wpol :=
  match conc_from_str_nocheck s with
  | Ok p => if check_timelocks (erase p) then Ok p else Err (PxPol PTimelock)
  | o => o
  end.

(* ------------------------------------------------------------------ what the parsers enforce *)
Definition leaf_ok (l : pleaf) : bool :=
  match l with LAfter t | LOlder t => lock_ok t | _ => true end.

Fixpoint conc_text_ok (p : wpol) : bool :=
  match p with
  | WLeaf l => leaf_ok l
  | WAnd subs => Nat.eqb (length subs) 2 && forallb conc_text_ok subs
  | WOr subs => Nat.eqb (length subs) 2 &&
                forallb (fun wp => match wp with (w, q) => prob_ok w && conc_text_ok q end) subs
  | WThresh k subs => validate_k_n 0 k (length subs) && (k <=? U32_MAX) && forallb conc_text_ok subs
  end.

Fixpoint sem_text_ok (p : spol) : bool :=
  match p with
  | SAfter t | SOlder t => lock_ok t
  | SThresh k subs => Nat.leb 2 (length subs) && validate_k_n 0 (N.of_nat k) (length subs) &&
                      (Nat.eqb k (length subs) || (N.of_nat k <=? U32_MAX)) && forallb sem_text_ok subs
  | _ => true
  end.

End PolText.
