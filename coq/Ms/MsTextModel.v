(* Model of the miniscript TEXT layer, as coded:
   (a) `Display` for `Terminal` / `Miniscript` (src/miniscript/display.rs: `DisplayNode::as_node`,
       `fragment_name`, `is_wrapper`, `conditional_fmt` with `DisplayTypes::None`) producing an
       expression tree ([etree] of ExprTreeModel.v: name + children); the text is [print (to_tree m)];
   (b) `FromTree for Miniscript` (src/miniscript/mod.rs `from_tree`, with the `TreeIterItem` helpers of
       src/expression/mod.rs it calls: `name_separated`, `verify_n_children`, `verify_terminal(_parent)`,
       `verify_after/older`, `verify_threshold`, `parse_num`, `verify_no_curly_braces`) as the loop over the
       right-to-left post order with an explicit stack; `stack.pop().unwrap()` and the final
       `assert_eq!(stack.len(), 1)` are Panic sites 40 / 41.

   Parameters (Section): keys and hashes are opaque atoms with a printer and a parser
   ([print_key]/[parse_key], [print_hash]/[parse_hash] per hash kind); `Miniscript::from_ast` (type check,
   recursion-depth check, context check) is the boolean [chk] applied where the code calls `from_ast`.
   The context's `check_global_validity` loop at the end of from_tree is part of [chk] for `NoChecks`
   (always Ok) and is NOT modelled for the other contexts.  No proofs in this file. *)
From Coq Require Export List Bool NArith.
From Verif Require Export Ast ChecksumModel ExprTreeModel.
Export ListNotations.
Local Open Scope N_scope.

Definition tbytes := list N.

Definition n_pk_k : tbytes := [112; 107; 95; 107].
Definition n_pk_h : tbytes := [112; 107; 95; 104].
Definition n_pk : tbytes := [112; 107].
Definition n_pkh : tbytes := [112; 107; 104].
Definition n_expr_raw_pkh : tbytes := [101; 120; 112; 114; 95; 114; 97; 119; 95; 112; 107; 104].
Definition n_after : tbytes := [97; 102; 116; 101; 114].
Definition n_older : tbytes := [111; 108; 100; 101; 114].
Definition n_sha256 : tbytes := [115; 104; 97; 50; 53; 54].
Definition n_hash256 : tbytes := [104; 97; 115; 104; 50; 53; 54].
Definition n_ripemd160 : tbytes := [114; 105; 112; 101; 109; 100; 49; 54; 48].
Definition n_hash160 : tbytes := [104; 97; 115; 104; 49; 54; 48].
Definition n_and_v : tbytes := [97; 110; 100; 95; 118].
Definition n_and_b : tbytes := [97; 110; 100; 95; 98].
Definition n_and_n : tbytes := [97; 110; 100; 95; 110].
Definition n_andor : tbytes := [97; 110; 100; 111; 114].
Definition n_or_b : tbytes := [111; 114; 95; 98].
Definition n_or_d : tbytes := [111; 114; 95; 100].
Definition n_or_c : tbytes := [111; 114; 95; 99].
Definition n_or_i : tbytes := [111; 114; 95; 105].
Definition n_thresh : tbytes := [116; 104; 114; 101; 115; 104].
Definition n_multi : tbytes := [109; 117; 108; 116; 105].
Definition n_sortedmulti : tbytes := [115; 111; 114; 116; 101; 100; 109; 117; 108; 116; 105].
Definition n_multi_a : tbytes := [109; 117; 108; 116; 105; 95; 97].
Definition n_sortedmulti_a : tbytes := [115; 111; 114; 116; 101; 100; 109; 117; 108; 116; 105; 95; 97].
Definition n_1 : tbytes := [49].
Definition n_0 : tbytes := [48].
Definition COLON : N := 58.
Definition ch_a : N := 97.  Definition ch_s : N := 115. Definition ch_c : N := 99.
Definition ch_d : N := 100. Definition ch_v : N := 118. Definition ch_j : N := 106.
Definition ch_n : N := 110. Definition ch_t : N := 116. Definition ch_u : N := 117.
Definition ch_l : N := 108.

Fixpoint tb_eqb (a b : tbytes) : bool :=
  match a, b with
  | [], [] => true
  | x :: r, y :: s => (x =? y) && tb_eqb r s
  | _, _ => false
  end.

(* ------------------------------------------------------------------ numbers *)
(* `fmt::Display for u32/usize`: decimal without sign or padding *)
Fixpoint dec_aux (fuel : nat) (n : N) (acc : tbytes) : tbytes :=
  match fuel with
  | O => acc
  | S f => let acc' := (48 + n mod 10) :: acc in
           if n / 10 =? 0 then acc' else dec_aux f (n / 10) acc'
  end.
Definition dec (n : N) : tbytes := dec_aux (S (N.to_nat (N.log2 n))) n [].

Inductive num_err := NumLead | NumStd.
Definition U32_MAX : N := 4294967295.
Definition is_digit (c : N) : bool := (48 <=? c) && (c <=? 57).
(* value of a non-empty all-digit string (None: empty or a non-digit: ParseIntError) *)
Fixpoint dval (s : tbytes) (acc : N) : option N :=
  match s with
  | [] => Some acc
  | c :: r => if is_digit c then dval r (acc * 10 + (c - 48)) else None
  end.
(* u32::from_str after parse_num_nonzero's leading-character check (so no '+' can reach it):
   Empty / InvalidDigit / PosOverflow are one class *)
Definition u32_from_str (s : tbytes) : outcome num_err N :=
  match s with
  | [] => Err NumStd
  | _ => match dval s 0 with
         | Some v => if v <=? U32_MAX then Ok v else Err NumStd
         | None => Err NumStd
         end
  end.
(* expression::parse_num (parse_num_nonzero with the "0" special case in front) *)
Definition parse_num (s : tbytes) : outcome num_err N :=
  if tb_eqb s n_0 then Ok 0
  else match s with
       | c :: _ => if (49 <=? c) && (c <=? 57) then u32_from_str s else Err NumLead
       | [] => u32_from_str s
       end.

(* ------------------------------------------------------------------ errors *)
Inductive ms_err :=
| EMultiSep            (* ParseTreeError::MultipleSeparators *)
| EArity               (* ParseTreeError::IncorrectNumberOfChildren *)
| EUnknownName         (* ParseTreeError::UnknownName *)
| ECurly               (* ParseTreeError::IllegalCurlyBrace *)
| EUnknownWrapper      (* Error::UnknownWrapper *)
| ENum (e : num_err)   (* ParseError::Num *)
| EAbsLock | ERelLock  (* ParseError::AbsoluteLockTime / RelativeLockTime *)
| EFromStr             (* ParseError::FromStr: key / hash does not parse *)
| EThNoChildren | EThKNotTerminal | EThParseK (e : num_err) | EThInvalid   (* ParseThresholdError *)
| EFromAst.            (* Miniscript::from_ast fails (type check, depth, context) *)

Inductive hkind := HSha256 | HHash256 | HRipemd160 | HHash160 | HRawPkh.

Inductive fkind :=
| FRawPkh | FPk | FPkh | FPkK | FPkH | FAfter | FOlder | FHash (h : hkind) | FTrue | FFalse
| FAndV | FAndB | FAndN | FAndOr | FOrB | FOrD | FOrC | FOrI
| FThresh | FMulti | FSortedMulti | FMultiA | FSortedMultiA.

Definition name_table : list (tbytes * fkind) :=
  [(n_expr_raw_pkh, FRawPkh); (n_pk, FPk); (n_pkh, FPkh); (n_pk_k, FPkK); (n_pk_h, FPkH);
   (n_after, FAfter); (n_older, FOlder); (n_sha256, FHash HSha256); (n_hash256, FHash HHash256);
   (n_ripemd160, FHash HRipemd160); (n_hash160, FHash HHash160); (n_1, FTrue); (n_0, FFalse);
   (n_and_v, FAndV); (n_and_b, FAndB); (n_and_n, FAndN); (n_andor, FAndOr);
   (n_or_b, FOrB); (n_or_d, FOrD); (n_or_c, FOrC); (n_or_i, FOrI);
   (n_thresh, FThresh); (n_multi, FMulti); (n_sortedmulti, FSortedMulti);
   (n_multi_a, FMultiA); (n_sortedmulti_a, FSortedMultiA)].
Fixpoint lookup_name (tbl : list (tbytes * fkind)) (s : tbytes) : option fkind :=
  match tbl with
  | [] => None
  | (n, f) :: r => if tb_eqb s n then Some f else lookup_name r s
  end.
Definition frag_of_name (s : tbytes) : option fkind := lookup_name name_table s.

(* `name.splitn(3, ':')` *)
Fixpoint split_colon (s : tbytes) : tbytes * option tbytes :=
  match s with
  | [] => ([], None)
  | c :: r => if c =? COLON then ([], Some r)
              else let '(a, b) := split_colon r in (c :: a, b)
  end.
Definition name_separated (name : tbytes) : outcome ms_err (option tbytes * tbytes) :=
  match split_colon name with
  | (_, None) => Ok (None, name)
  | (pre, Some rest) =>
    match split_colon rest with
    | (_, None) => Ok (Some pre, rest)
    | (_, Some _) => Err EMultiSep
    end
  end.

Definition MAX_PUBKEYS_PER_MULTISIG : N := 20.
Definition MAX_PUBKEYS_IN_CHECKSIGADD : N := 999.
(* threshold::validate_k_n::<MAX> *)
Definition validate_k_n (max k : N) (n : nat) : bool :=
  negb ((k =? 0) || (N.of_nat n <? k) || (negb (max =? 0) && (max <? N.of_nat n))).
Definition lock_ok (n : N) : bool := (1 <=? n) && (n <=? 2147483647).

Definition is_true (m : ms) : bool := match m with MTrue => true | _ => false end.
Definition is_false (m : ms) : bool := match m with MFalse => true | _ => false end.

(* ------------------------------------------------------------------ node vector -> tree
   `TreeIterItem` navigates the node vector through its indices; the model's from_tree works on the
   recursive tree, rebuilt here from the pre-order vector and the n_children counts. *)
Fixpoint build_kids (b : list node -> option (etree * list node)) (n : nat) (rest : list node)
  : option (list etree * list node) :=
  match n with
  | O => Some ([], rest)
  | S n' => match b rest with
            | None => None
            | Some (c, rest') =>
              match build_kids b n' rest' with
              | None => None
              | Some (cs, rest'') => Some (c :: cs, rest'')
              end
            end
  end.
Fixpoint build (fuel : nat) (nodes : list node) : option (etree * list node) :=
  match fuel with
  | O => None
  | S f =>
    match nodes with
    | [] => None
    | nd :: rest =>
      match build_kids (build f) (N.to_nat (nd_n_children nd)) rest with
      | None => None
      | Some (cs, rest') => Some (ENode (nd_name nd) (nd_parens nd) cs, rest')
      end
    end
  end.
Definition tree_of_nodes (nodes : list node) : option etree :=
  match build (S (length nodes)) nodes with
  | Some (t, []) => Some t
  | _ => None
  end.

Inductive text_err := TxTree (e : tree_err) | TxMs (e : ms_err).

Section TextModel.
Variable print_key : key -> tbytes.
Variable parse_key : tbytes -> option key.
Variable print_hash : hkind -> tbytes -> tbytes.
Variable parse_hash : hkind -> tbytes -> option tbytes.
Variable chk : ms -> bool.

(* ------------------------------------------------------------------ Display *)
Definition leaf (s : tbytes) : etree := ENode s PNone [].
Definition full_name (w name : tbytes) : tbytes :=
  match w with [] => name | _ => w ++ COLON :: name end.
Definition mk_node (wb : tbytes * (tbytes * list etree)) : etree :=
  let '(w, (name, kids)) := wb in
  ENode (full_name w name) (match kids with [] => PNone | _ => PRound end) kids.
Definition wrap (c : N) (wb : tbytes * (tbytes * list etree)) : tbytes * (tbytes * list etree) :=
  (c :: fst wb, snd wb).

(* [tw m] = (wrapper characters written before the ':', fragment_name of the first non-wrapper
   node below them, that node's children as as_node yields them) *)
Fixpoint tw (m : ms) : tbytes * (tbytes * list etree) :=
  let sub := fun x => mk_node (tw x) in
  match m with
  | MTrue => ([], (n_1, []))
  | MFalse => ([], (n_0, []))
  | MPkK k => ([], (n_pk_k, [leaf (print_key k)]))
  | MPkH k => ([], (n_pk_h, [leaf (print_key k)]))
  | MRawPkH h => ([], (n_expr_raw_pkh, [leaf (print_hash HRawPkh h)]))
  | MAfter t => ([], (n_after, [leaf (dec t)]))
  | MOlder t => ([], (n_older, [leaf (dec t)]))
  | MSha256 h => ([], (n_sha256, [leaf (print_hash HSha256 h)]))
  | MHash256 h => ([], (n_hash256, [leaf (print_hash HHash256 h)]))
  | MRipemd160 h => ([], (n_ripemd160, [leaf (print_hash HRipemd160 h)]))
  | MHash160 h => ([], (n_hash160, [leaf (print_hash HHash160 h)]))
  | MAlt x => wrap ch_a (tw x)
  | MSwap x => wrap ch_s (tw x)
  | MCheck x =>
    match x with
    | MPkK k => ([], (n_pk, [leaf (print_key k)]))
    | MPkH k => ([], (n_pkh, [leaf (print_key k)]))
    | _ => wrap ch_c (tw x)
    end
  | MDupIf x => wrap ch_d (tw x)
  | MVerify x => wrap ch_v (tw x)
  | MNonZero x => wrap ch_j (tw x)
  | MZeroNotEqual x => wrap ch_n (tw x)
  | MAndV x y => if is_true y then wrap ch_t (tw x) else ([], (n_and_v, [sub x; sub y]))
  | MAndB x y => ([], (n_and_b, [sub x; sub y]))
  | MAndOr a b c => if is_false c then ([], (n_and_n, [sub a; sub b]))
                    else ([], (n_andor, [sub a; sub b; sub c]))
  | MOrB x y => ([], (n_or_b, [sub x; sub y]))
  | MOrD x y => ([], (n_or_d, [sub x; sub y]))
  | MOrC x y => ([], (n_or_c, [sub x; sub y]))
  | MOrI x y =>
    (* fragment_name tests the right child first ("u"), as_node the left child first *)
    if is_false y then wrap ch_u (if is_false x then tw y else tw x)
    else if is_false x then wrap ch_l (tw y)
    else ([], (n_or_i, [sub x; sub y]))
  | MThresh k xs => ([], (n_thresh, leaf (dec k) :: map sub xs))
  | MMulti k ks => ([], (n_multi, leaf (dec k) :: map (fun k => leaf (print_key k)) ks))
  | MSortedMulti k ks => ([], (n_sortedmulti, leaf (dec k) :: map (fun k => leaf (print_key k)) ks))
  | MMultiA k ks => ([], (n_multi_a, leaf (dec k) :: map (fun k => leaf (print_key k)) ks))
  | MSortedMultiA k ks => ([], (n_sortedmulti_a, leaf (dec k) :: map (fun k => leaf (print_key k)) ks))
  end.
Definition to_tree (m : ms) : etree := mk_node (tw m).
Definition ms_to_text (m : ms) : tbytes := print (to_tree m).

(* ------------------------------------------------------------------ FromTree *)
Record item := mkItem {
  it_name : tbytes; it_parens : parens; it_kids : list etree;
  it_parent : option (tbytes * nat * bool) }.   (* parent's name, its n_children, is_first_child *)

(* `root.pre_order_iter().enumerate().rev()` = right-to-left post order *)
Fixpoint rpo (parent : option (tbytes * nat * bool)) (t : etree) : list item :=
  match t with
  | ENode name p kids =>
    (fix go (ks : list etree) (first : bool) : list item :=
       match ks with
       | [] => []
       | k :: r => go r false ++ rpo (Some (name, length kids, first)) k
       end) kids true
    ++ [mkItem name p kids parent]
  end.

Fixpoint has_curly (t : etree) : bool :=
  match t with
  | ENode _ p kids =>
    (match p with PCurly => true | _ => false end) || existsb has_curly kids
  end.

Definition obind {E A B} (o : outcome E A) (f : A -> outcome E B) : outcome E B :=
  match o with Ok a => f a | Err e => Err e | Panic s => Panic s end.

Definition from_ast (m : ms) : outcome ms_err ms := if chk m then Ok m else Err EFromAst.
Definition pop (st : list ms) : outcome ms_err (ms * list ms) :=
  match st with m :: r => Ok (m, r) | [] => Panic 40 end.
Fixpoint pop_n (n : nat) (st : list ms) : outcome ms_err (list ms * list ms) :=
  match n with
  | O => Ok ([], st)
  | S n' => obind (pop st) (fun '(m, st1) => obind (pop_n n' st1) (fun '(ms, st2) => Ok (m :: ms, st2)))
  end.

Definition n_kids (t : etree) : nat := match t with ENode _ _ kids => length kids end.
Definition t_name (t : etree) : tbytes := match t with ENode name _ _ => name end.

(* verify_terminal with T::from_str = [parse] *)
Definition verify_terminal {A} (parse : tbytes -> option A) (t : etree) : outcome ms_err A :=
  match n_kids t with
  | O => match parse (t_name t) with Some a => Ok a | None => Err EFromStr end
  | _ => Err EArity
  end.
Definition verify_terminal_parent {A} (parse : tbytes -> option A) (kids : list etree) : outcome ms_err A :=
  match kids with
  | [c] => verify_terminal parse c
  | _ => Err EArity
  end.
Definition verify_lock (bad : ms_err) (kids : list etree) : outcome ms_err N :=
  match kids with
  | [c] => match n_kids c with
           | O => match parse_num (t_name c) with
                  | Ok n => if lock_ok n then Ok n else Err bad
                  | Err e => Err (ENum e)
                  | Panic s => Panic s
                  end
           | _ => Err EArity
           end
  | _ => Err EArity
  end.
Fixpoint map_o {A B} (f : A -> outcome ms_err B) (l : list A) : outcome ms_err (list B) :=
  match l with
  | [] => Ok []
  | a :: r => obind (f a) (fun b => obind (map_o f r) (fun bs => Ok (b :: bs)))
  end.
(* verify_threshold::<MAX>: returns k and the children after the k child *)
Definition verify_threshold (max : N) (kids : list etree) : outcome ms_err (N * list etree) :=
  match kids with
  | [] => Err EThNoChildren
  | kc :: rest =>
    match n_kids kc with
    | O => match parse_num (t_name kc) with
           | Ok k => if validate_k_n max k (length rest) then Ok (k, rest) else Err EThInvalid
           | Err e => Err (EThParseK e)
           | Panic s => Panic s
           end
    | _ => Err EThKNotTerminal
    end
  end.
Definition multi_frag (max : N) (mk : N -> list key -> ms) (kids : list etree) (st : list ms)
  : outcome ms_err (ms * list ms) :=
  obind (verify_threshold max kids) (fun '(k, rest) =>
  obind (map_o (verify_terminal parse_key) rest) (fun ks =>
  obind (from_ast (mk k ks)) (fun m => Ok (m, st)))).
Definition binary_frag (mk : ms -> ms -> ms) (kids : list etree) (st : list ms) : outcome ms_err (ms * list ms) :=
  match kids with
  | [_; _] => obind (pop st) (fun '(x, st1) => obind (pop st1) (fun '(y, st2) =>
              obind (from_ast (mk x y)) (fun m => Ok (m, st2))))
  | _ => Err EArity
  end.
Definition key_frag (mk : key -> ms) (kids : list etree) (st : list ms) : outcome ms_err (ms * list ms) :=
  obind (verify_terminal_parent parse_key kids) (fun k => Ok (mk k, st)).
Definition hash_frag (h : hkind) (mk : tbytes -> ms) (kids : list etree) (st : list ms) : outcome ms_err (ms * list ms) :=
  obind (verify_terminal_parent (parse_hash h) kids) (fun x => Ok (mk x, st)).

Definition parse_frag (f : fkind) (kids : list etree) (st : list ms) : outcome ms_err (ms * list ms) :=
  match f with
  | FRawPkh => hash_frag HRawPkh MRawPkH kids st
  | FPk => key_frag (fun k => MCheck (MPkK k)) kids st
  | FPkh => key_frag (fun k => MCheck (MPkH k)) kids st
  | FPkK => key_frag MPkK kids st
  | FPkH => key_frag MPkH kids st
  | FAfter => obind (verify_lock EAbsLock kids) (fun n => Ok (MAfter n, st))
  | FOlder => obind (verify_lock ERelLock kids) (fun n => Ok (MOlder n, st))
  | FHash HSha256 => hash_frag HSha256 MSha256 kids st
  | FHash HHash256 => hash_frag HHash256 MHash256 kids st
  | FHash HRipemd160 => hash_frag HRipemd160 MRipemd160 kids st
  | FHash _ => hash_frag HHash160 MHash160 kids st
  | FTrue => match kids with [] => Ok (MTrue, st) | _ => Err EArity end
  | FFalse => match kids with [] => Ok (MFalse, st) | _ => Err EArity end
  | FAndV => binary_frag MAndV kids st
  | FAndB => binary_frag MAndB kids st
  | FAndN => binary_frag (fun x y => MAndOr x y MFalse) kids st
  | FAndOr =>
    match kids with
    | [_; _; _] => obind (pop st) (fun '(a, st1) => obind (pop st1) (fun '(b, st2) =>
                   obind (pop st2) (fun '(c, st3) => obind (from_ast (MAndOr a b c)) (fun m => Ok (m, st3)))))
    | _ => Err EArity
    end
  | FOrB => binary_frag MOrB kids st
  | FOrD => binary_frag MOrD kids st
  | FOrC => binary_frag MOrC kids st
  | FOrI => binary_frag MOrI kids st
  | FThresh =>
    obind (verify_threshold 0 kids) (fun '(k, rest) =>
    obind (pop_n (length rest) st) (fun '(subs, st1) =>
    obind (from_ast (MThresh k subs)) (fun m => Ok (m, st1))))
  | FMulti => multi_frag MAX_PUBKEYS_PER_MULTISIG MMulti kids st
  | FSortedMulti => multi_frag MAX_PUBKEYS_PER_MULTISIG MSortedMulti kids st
  | FMultiA => multi_frag MAX_PUBKEYS_IN_CHECKSIGADD MMultiA kids st
  | FSortedMultiA => multi_frag MAX_PUBKEYS_IN_CHECKSIGADD MSortedMultiA kids st
  end.

Definition wrap_term (ch : N) (m : ms) : outcome ms_err ms :=
  if ch =? ch_a then Ok (MAlt m) else if ch =? ch_s then Ok (MSwap m)
  else if ch =? ch_c then Ok (MCheck m) else if ch =? ch_d then Ok (MDupIf m)
  else if ch =? ch_v then Ok (MVerify m) else if ch =? ch_j then Ok (MNonZero m)
  else if ch =? ch_n then Ok (MZeroNotEqual m) else if ch =? ch_t then Ok (MAndV m MTrue)
  else if ch =? ch_u then Ok (MOrI m MFalse) else if ch =? ch_l then Ok (MOrI MFalse m)
  else Err EUnknownWrapper.
(* `for ch in frag_wrap.bytes().rev()`: [w] is given reversed *)
Fixpoint apply_wrappers (w : tbytes) (m : ms) : outcome ms_err ms :=
  match w with
  | [] => Ok m
  | ch :: r => obind (wrap_term ch m) (fun t => obind (from_ast t) (apply_wrappers r))
  end.

Definition is_multi_name (s : tbytes) : bool :=
  tb_eqb s n_multi || tb_eqb s n_sortedmulti || tb_eqb s n_multi_a || tb_eqb s n_sortedmulti_a.

(* the `continue` conditions at the top of the loop body: Ok true = skip the node *)
Definition skip_item (it : item) : outcome ms_err bool :=
  match it_parent it, it_kids it with
  | Some (pname, pn, first), [] =>
    if Nat.eqb pn 1 then Ok true
    else obind (name_separated pname) (fun '(_, parent_name) =>
         if is_multi_name parent_name then Ok true
         else if tb_eqb parent_name n_thresh && first then Ok true
         else Ok false)
  | _, _ => Ok false
  end.

Definition step (st : list ms) (it : item) : outcome ms_err (list ms) :=
  obind (skip_item it) (fun skip =>
  if skip then Ok st else
  obind (name_separated (it_name it)) (fun '(frag_wrap, frag_name) =>
  match frag_of_name frag_name with
  | None => Err EUnknownName
  | Some f =>
    obind (parse_frag f (it_kids it) st) (fun '(new, st1) =>
    match frag_wrap with
    | None => Ok (new :: st1)
    | Some [] => Err EUnknownName
    | Some w => obind (apply_wrappers (rev w) new) (fun m => Ok (m :: st1))
    end)
  end)).

Fixpoint run (st : list ms) (items : list item) : outcome ms_err (list ms) :=
  match items with
  | [] => Ok st
  | it :: r => obind (step st it) (fun st1 => run st1 r)
  end.

Definition from_tree (t : etree) : outcome ms_err ms :=
  if has_curly t then Err ECurly
  else match run [] (rpo None t) with
       | Ok [m] => Ok m
       | Ok _ => Panic 41
       | Err e => Err e
       | Panic s => Panic s
       end.

(* `Miniscript::from_str` without its `validate` step: expression::Tree::from_str, then from_tree
   (Panic 42: the node vector is not the pre-order of a tree - cannot happen, C10_tree_parse_print) *)
Definition from_str_model (s : tbytes) : outcome text_err ms :=
  match from_str_inner s with
  | Ok nodes =>
    match tree_of_nodes nodes with
    | Some t => match from_tree t with Ok m => Ok m | Err e => Err (TxMs e) | Panic p => Panic p end
    | None => Panic 42
    end
  | Err e => Err (TxTree e)
  | Panic p => Panic p
  end.

(* ------------------------------------------------------------------ what the parser enforces *)
(* [chk] is required exactly where from_tree calls from_ast while parsing the printed form
   (not at terminals, not at pk(K) / pkh(K), which are built by infallible constructors) *)
Fixpoint ms_text_ok (m : ms) : bool :=
  match m with
  | MAfter t | MOlder t => lock_ok t
  | MCheck x => match x with
                | MPkK _ | MPkH _ => true
                | _ => chk m && ms_text_ok x
                end
  | MAlt x | MSwap x | MDupIf x | MVerify x | MNonZero x | MZeroNotEqual x => chk m && ms_text_ok x
  | MAndV x y | MAndB x y | MOrB x y | MOrD x y | MOrC x y | MOrI x y => chk m && (ms_text_ok x && ms_text_ok y)
  | MAndOr a b c => chk m && (ms_text_ok a && ms_text_ok b && ms_text_ok c)
  | MThresh k xs => chk m && (validate_k_n 0 k (length xs) && (k <=? U32_MAX) && forallb ms_text_ok xs)
  | MMulti k ks | MSortedMulti k ks => chk m && validate_k_n MAX_PUBKEYS_PER_MULTISIG k (length ks)
  | MMultiA k ks | MSortedMultiA k ks => chk m && validate_k_n MAX_PUBKEYS_IN_CHECKSIGADD k (length ks)
  | _ => true
  end.

(* ------------------------------------------------------------------ spellings (specification side)
   There is no such printer in /repo: [tws sp] writes the same AST with, at every node that has a
   sugared form, the sugar ([sp m = true]: pk, pkh, t:, l:, u:, and_n - what Display does) or its
   expansion ([sp m = false]: c:pk_k, c:pk_h, and_v(X,1), or_i(0,X), or_i(X,0), andor(X,Y,0)).
   [tws (fun _ => true)] is [tw]. *)
Fixpoint tws (sp : ms -> bool) (m : ms) : tbytes * (tbytes * list etree) :=
  let sub := fun x => mk_node (tws sp x) in
  match m with
  | MTrue => ([], (n_1, []))
  | MFalse => ([], (n_0, []))
  | MPkK k => ([], (n_pk_k, [leaf (print_key k)]))
  | MPkH k => ([], (n_pk_h, [leaf (print_key k)]))
  | MRawPkH h => ([], (n_expr_raw_pkh, [leaf (print_hash HRawPkh h)]))
  | MAfter t => ([], (n_after, [leaf (dec t)]))
  | MOlder t => ([], (n_older, [leaf (dec t)]))
  | MSha256 h => ([], (n_sha256, [leaf (print_hash HSha256 h)]))
  | MHash256 h => ([], (n_hash256, [leaf (print_hash HHash256 h)]))
  | MRipemd160 h => ([], (n_ripemd160, [leaf (print_hash HRipemd160 h)]))
  | MHash160 h => ([], (n_hash160, [leaf (print_hash HHash160 h)]))
  | MAlt x => wrap ch_a (tws sp x)
  | MSwap x => wrap ch_s (tws sp x)
  | MCheck x =>
    match x with
    | MPkK k => if sp m then ([], (n_pk, [leaf (print_key k)])) else wrap ch_c (tws sp x)
    | MPkH k => if sp m then ([], (n_pkh, [leaf (print_key k)])) else wrap ch_c (tws sp x)
    | _ => wrap ch_c (tws sp x)
    end
  | MDupIf x => wrap ch_d (tws sp x)
  | MVerify x => wrap ch_v (tws sp x)
  | MNonZero x => wrap ch_j (tws sp x)
  | MZeroNotEqual x => wrap ch_n (tws sp x)
  | MAndV x y => if is_true y && sp m then wrap ch_t (tws sp x) else ([], (n_and_v, [sub x; sub y]))
  | MAndB x y => ([], (n_and_b, [sub x; sub y]))
  | MAndOr a b c => if is_false c && sp m then ([], (n_and_n, [sub a; sub b]))
                    else ([], (n_andor, [sub a; sub b; sub c]))
  | MOrB x y => ([], (n_or_b, [sub x; sub y]))
  | MOrD x y => ([], (n_or_d, [sub x; sub y]))
  | MOrC x y => ([], (n_or_c, [sub x; sub y]))
  | MOrI x y =>
    if sp m then
      if is_false y then wrap ch_u (if is_false x then tws sp y else tws sp x)
      else if is_false x then wrap ch_l (tws sp y)
      else ([], (n_or_i, [sub x; sub y]))
    else ([], (n_or_i, [sub x; sub y]))
  | MThresh k xs => ([], (n_thresh, leaf (dec k) :: map sub xs))
  | MMulti k ks => ([], (n_multi, leaf (dec k) :: map (fun k => leaf (print_key k)) ks))
  | MSortedMulti k ks => ([], (n_sortedmulti, leaf (dec k) :: map (fun k => leaf (print_key k)) ks))
  | MMultiA k ks => ([], (n_multi_a, leaf (dec k) :: map (fun k => leaf (print_key k)) ks))
  | MSortedMultiA k ks => ([], (n_sortedmulti_a, leaf (dec k) :: map (fun k => leaf (print_key k)) ks))
  end.
Definition to_tree_sp (sp : ms -> bool) (m : ms) : etree := mk_node (tws sp m).

(* every composite node passes from_ast (the expanded spellings call it at c:pk_k / c:pk_h too) *)
Fixpoint ms_all_ok (m : ms) : bool :=
  match m with
  | MAfter t | MOlder t => lock_ok t
  | MAlt x | MSwap x | MCheck x | MDupIf x | MVerify x | MNonZero x | MZeroNotEqual x => chk m && ms_all_ok x
  | MAndV x y | MAndB x y | MOrB x y | MOrD x y | MOrC x y | MOrI x y => chk m && (ms_all_ok x && ms_all_ok y)
  | MAndOr a b c => chk m && (ms_all_ok a && ms_all_ok b && ms_all_ok c)
  | MThresh k xs => chk m && (validate_k_n 0 k (length xs) && (k <=? U32_MAX) && forallb ms_all_ok xs)
  | MMulti k ks | MSortedMulti k ks => chk m && validate_k_n MAX_PUBKEYS_PER_MULTISIG k (length ks)
  | MMultiA k ks | MSortedMultiA k ks => chk m && validate_k_n MAX_PUBKEYS_IN_CHECKSIGADD k (length ks)
  | _ => true
  end.

End TextModel.
