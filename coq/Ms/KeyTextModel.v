(* Model of the TEXT FORMAT of `DescriptorPublicKey` (src/descriptor/key.rs), as coded:
   (a) `impl FromStr for DescriptorPublicKey` with `parse_key_origin`, `parse_xkey_deriv`
       (filter_map + try_fold run in lock step = one sequential loop [deriv_loop]), the BIP32 depth
       limit, the dispatch on the first four characters / the length of the key part;
       `bip32::ChildNumber::from_str` (bitcoin 0.32: last character `'` or `h`, then `u32::from_str`,
       which accepts one leading `+` and leading zeros; index < 2^31), `Fingerprint::from_hex`
       (8 hex characters, either case);
   (b) the `Display` impls: `maybe_fmt_master_id` (lower-case hex), `fmt_derivation_path`,
       `fmt_derivation_paths` (index loop comparing paths[0][i] with paths[1][i]), `Wildcard`
       (hardened wildcard is printed `/*h`, hardened steps are printed with `'`).
   Strings are byte lists (characters as byte codes).  The cryptographic bodies (base58check xpub,
   hex points) are Section parameters: [xpub_parse]/[xpub_print]/[xpub_depth], [full_*], [xonly_*].
   Order of checks as in the code.  Panic sites (slices, indexing, expect):
     60 `s[1..]`            61 `key_part[0..2]`      62 `p[1..p.len()-1]`   63 `inp[0..inp.len()-1]`
     70 expect("There is always at least one element")  71 `paths[0]` (try_fold)  72 `paths[i+1].last_mut()`
     80 `paths[0]` (printer)  81 `paths[1][i]` / `p[i]` (printer).
   No proofs in this file. *)
From Coq Require Export List Bool NArith.
From Verif Require Export MsTextModel.
Import ListNotations.
Local Open Scope N_scope.

(* ------------------------------------------------------------------ data *)
Inductive child := CNormal (i : N) | CHard (i : N).                 (* bip32::ChildNumber *)
Inductive wildcard := WNone | WUnh | WHard.                         (* descriptor::Wildcard *)
Definition origin := option (list N * list child).                  (* Option<(Fingerprint, DerivationPath)> *)

Definition child_eqb (a b : child) : bool :=
  match a, b with
  | CNormal i, CNormal j => i =? j
  | CHard i, CHard j => i =? j
  | _, _ => false
  end.

Inductive cn_err := CnFormat | CnRange.   (* bip32::Error::{InvalidChildNumberFormat, InvalidChildNumber} *)

Inductive key_err :=
  | EKeyTooShort | EUnprintable | EEmptyKey | EUnclosedBracket | ENoMasterFingerprint
  | EFingerprintLength | EMasterFingerprint | EMasterDerivationPath (e : cn_err)
  | ENoKeyAfterOrigin | EMultipleFingerprints
  | EUnexpectedXPriv | EXKeyParse | EInvalidWildcard | EMultipleMultiSteps | EInvalidMultiIndexStep
  | EDerivationIndex (e : cn_err) | EDerivationPathTooLong
  | EXonlyPublicKey | EInvalidFullPrefix | EFullPublicKey | EInvalidPublicKeyLength.

Definition len (s : tbytes) : N := N.of_nat (length s).

(* ------------------------------------------------------------------ str helpers *)
(* `str::split(c)`: always at least one piece *)
Fixpoint split_on (c : N) (s : tbytes) : list tbytes :=
  match s with
  | [] => [[]]
  | x :: r => match split_on c r with
              | p :: ps => if x =? c then [] :: p :: ps else (x :: p) :: ps
              | [] => []
              end
  end.

Definition CH_SLASH : N := 47.  Definition CH_RBR : N := 93.  Definition CH_LBR : N := 91.
Definition CH_STAR : N := 42.   Definition CH_APOS : N := 39. Definition CH_h : N := 104.
Definition CH_LT : N := 60.     Definition CH_GT : N := 62.   Definition CH_SEMI : N := 59.
Definition CH_PLUS : N := 43.

(* <u32 as FromStr>: one optional '+', then a non-empty digit string, value <= u32::MAX *)
Definition u32_parse (s : tbytes) : option N :=
  let d := match s with c :: r => if c =? CH_PLUS then r else s | [] => s end in
  match d with
  | [] => None
  | _ => match dval d 0 with
         | Some v => if v <=? U32_MAX then Some v else None
         | None => None
         end
  end.

Definition TWO31 : N := 2147483648.

(* bip32::ChildNumber::from_str *)
Definition child_from_str (inp : tbytes) : outcome cn_err child :=
  match inp with
  | [] => match u32_parse inp with   (* chars().last() = None: not hardened *)
          | None => Err CnFormat
          | Some v => if v <? TWO31 then Ok (CNormal v) else Err CnRange
          end
  | _ :: _ =>
    let l := last inp 0 in
    if (l =? CH_APOS) || (l =? CH_h) then
      match u32_parse (removelast inp) with           (* inp[0..inp.len()-1]; site 63 needs inp = "" *)
      | None => Err CnFormat
      | Some v => if v <? TWO31 then Ok (CHard v) else Err CnRange
      end
    else
      match u32_parse inp with
      | None => Err CnFormat
      | Some v => if v <? TWO31 then Ok (CNormal v) else Err CnRange
      end
  end.

(* .map(ChildNumber::from_str).collect::<Result<_, _>>(): the first error wins *)
Fixpoint collect_children (l : list tbytes) : outcome cn_err (list child) :=
  match l with
  | [] => Ok []
  | s :: r => match child_from_str s with
              | Ok c => match collect_children r with
                        | Ok cs => Ok (c :: cs)
                        | Err e => Err e
                        | Panic p => Panic p
                        end
              | Err e => Err e
              | Panic p => Panic p
              end
  end.

(* hex *)
Definition hexval (c : N) : option N :=
  if (48 <=? c) && (c <=? 57) then Some (c - 48)
  else if (97 <=? c) && (c <=? 102) then Some (c - 87)
  else if (65 <=? c) && (c <=? 70) then Some (c - 55)
  else None.
Fixpoint hex_decode (s : tbytes) : option (list N) :=
  match s with
  | [] => Some []
  | a :: t => match t with
              | b :: r => match hexval a, hexval b, hex_decode r with
                          | Some x, Some y, Some u => Some (x * 16 + y :: u)
                          | _, _, _ => None
                          end
              | [] => None
              end
  end.
Definition hexdig (v : N) : N := if v <? 10 then 48 + v else 87 + v.
Definition hex_byte (b : N) : tbytes := [hexdig (b / 16); hexdig (b mod 16)].   (* {:02x} *)

(* ------------------------------------------------------------------ parse_key_origin *)
Definition parse_key_origin (s : tbytes) : outcome key_err (tbytes * origin) :=
  if existsb (fun ch => (ch <? 20) || (127 <? ch)) s then Err EUnprintable else
  match s with
  | [] => Err EEmptyKey
  | c0 :: s1 =>                                     (* s[1..]: site 60 needs s = "" *)
    let parts := split_on CH_RBR s1 in
    if c0 =? CH_LBR then
      match parts with
      | [] => Err EUnclosedBracket
      | p0 :: parts1 =>
        match split_on CH_SLASH p0 with
        | [] => Err ENoMasterFingerprint
        | fp :: steps =>
          if negb (len fp =? 8) then Err EFingerprintLength else
          match hex_decode fp with
          | None => Err EMasterFingerprint
          | Some fpb =>
            match collect_children steps with
            | Err e => Err (EMasterDerivationPath e)
            | Panic p => Panic p
            | Ok path =>
              match parts1 with
              | [] => Err ENoKeyAfterOrigin
              | key :: parts2 =>
                match parts2 with
                | [] => Ok (key, Some (fpb, path))
                | _ :: _ => Err EMultipleFingerprints
                end
              end
            end
          end
        end
      end
    else Ok (s, None)
  end.

(* ------------------------------------------------------------------ parse_xkey_deriv *)
Fixpoint has_dup (l : list child) : bool :=   (* (1..n).any(|i| idx[..i].contains(&idx[i])) *)
  match l with
  | [] => false
  | x :: r => existsb (child_eqb x) r || has_dup r
  end.

(* replace the last element of the n-th path; None: index out of range or empty path *)
Fixpoint set_last_at (n : nat) (x : child) (ps : list (list child)) : option (list (list child)) :=
  match ps, n with
  | [], _ => None
  | p :: r, O => match p with [] => None | _ :: _ => Some ((removelast p ++ [x]) :: r) end
  | p :: r, S k => match set_last_at k x r with Some r' => Some (p :: r') | None => None end
  end.

(* for (i, index) in index_list.enumerate() { paths.push(paths[0].clone()); *paths[i+1].last_mut() = index } *)
Fixpoint fold_more (more : list child) (i : nat) (paths : list (list child)) : outcome key_err (list (list child)) :=
  match more with
  | [] => Ok paths
  | index :: r =>
    match paths with
    | [] => Panic 71
    | p0 :: _ => match set_last_at (S i) index (paths ++ [p0]) with
                 | None => Panic 72
                 | Some paths' => fold_more r (S i) paths'
                 end
    end
  end.

(* the body of the try_fold closure *)
Definition fold_step (idx : list child) (paths : list (list child)) : outcome key_err (list (list child)) :=
  match idx with
  | [] => Panic 70
  | first :: more =>
    let paths1 := match paths with
                  | [] => [[first]]
                  | _ :: _ => map (fun p => p ++ [first]) paths
                  end in
    fold_more more 0 paths1
  end.

Definition starts_with (c : N) (p : tbytes) : bool := match p with x :: _ => x =? c | [] => false end.
Definition ends_with (c : N) (p : tbytes) : bool := match p with [] => false | _ :: _ => last p 0 =? c end.
(* p[1..p.len()-1] *)
Definition middle (p : tbytes) : option tbytes :=
  match p with
  | _ :: (_ :: _) as r => Some (removelast r)
  | _ => None
  end.

Definition W_STAR : tbytes := [42].  Definition W_STAR_AP : tbytes := [42; 39].  Definition W_STAR_H : tbytes := [42; 104].

Fixpoint deriv_loop (ps : list tbytes) (w : wildcard) (multi : bool) (paths : list (list child))
  : outcome key_err (list (list child) * wildcard) :=
  match ps with
  | [] => Ok (paths, w)
  | p :: rest =>
    match w with
    | WNone =>
      if tb_eqb p W_STAR then deriv_loop rest WUnh multi paths
      else if tb_eqb p W_STAR_AP || tb_eqb p W_STAR_H then deriv_loop rest WHard multi paths
      else if starts_with CH_LT p && ends_with CH_GT p then
        if multi then Err EMultipleMultiSteps
        else if (len p <? 5) || negb (existsb (fun c => c =? CH_SEMI) p) then Err EInvalidMultiIndexStep
        else match middle p with
             | None => Panic 62
             | Some mid =>
               match collect_children (split_on CH_SEMI mid) with
               | Err e => Err (EDerivationIndex e)
               | Panic q => Panic q
               | Ok idx =>
                 if has_dup idx then Err EInvalidMultiIndexStep
                 else match fold_step idx paths with
                      | Ok paths' => deriv_loop rest w true paths'
                      | Err e => Err e
                      | Panic q => Panic q
                      end
               end
             end
      else match child_from_str p with
           | Err e => Err (EDerivationIndex e)
           | Panic q => Panic q
           | Ok i => match fold_step [i] paths with
                     | Ok paths' => deriv_loop rest w multi paths'
                     | Err e => Err e
                     | Panic q => Panic q
                     end
           end
    | _ => Err EInvalidWildcard
    end
  end.

(* ------------------------------------------------------------------ printers *)
Definition print_child (c : child) : tbytes :=
  match c with CNormal i => dec i | CHard i => dec i ++ [CH_APOS] end.
Definition fmt_path (p : list child) : tbytes := flat_map (fun c => CH_SLASH :: print_child c) p.
Definition fmt_origin (o : origin) : tbytes :=
  match o with
  | None => []
  | Some (fp, path) => CH_LBR :: flat_map hex_byte fp ++ fmt_path path ++ [CH_RBR]
  end.
Definition fmt_wild (w : wildcard) : tbytes :=
  match w with WNone => [] | WUnh => [47; 42] | WHard => [47; 42; 104] end.

Fixpoint join_semi (l : list tbytes) : tbytes :=
  match l with
  | [] => []
  | [a] => a
  | a :: r => a ++ CH_SEMI :: join_semi r
  end.
Fixpoint nth_all (i : nat) (paths : list (list child)) : option (list child) :=
  match paths with
  | [] => Some []
  | p :: r => match nth_error p i, nth_all i r with
              | Some c, Some cs => Some (c :: cs)
              | _, _ => None
              end
  end.
(* fmt_derivation_paths: `for (i, child) in paths[0].enumerate()`; None = index panic (site 81) *)
Fixpoint fmt_paths_loop (paths : list (list child)) (i : nat) (l : list child) : option tbytes :=
  match l with
  | [] => Some []
  | child :: r =>
    let differs :=
      match paths with
      | _ :: p1 :: _ => match nth_error p1 i with
                        | Some c1 => Some (negb (child_eqb child c1))
                        | None => None
                        end
      | _ => Some false
      end in
    match differs with
    | None => None
    | Some true =>
      match nth_all i paths, fmt_paths_loop paths (S i) r with
      | Some cs, Some t => Some (CH_SLASH :: CH_LT :: join_semi (map print_child cs) ++ CH_GT :: t)
      | _, _ => None
      end
    | Some false =>
      match fmt_paths_loop paths (S i) r with
      | Some t => Some (CH_SLASH :: print_child child ++ t)
      | None => None
      end
    end
  end.

Definition X_XPUB : tbytes := [120; 112; 117; 98].  Definition X_TPUB : tbytes := [116; 112; 117; 98].
Definition X_XPRV : tbytes := [120; 112; 114; 118].  Definition X_TPRV : tbytes := [116; 112; 114; 118].
Definition P_02 : tbytes := [48; 50].  Definition P_03 : tbytes := [48; 51].  Definition P_04 : tbytes := [48; 52].

Section Body.
  Variables xatom fatom oatom : Type.
  Variable xpub_parse : tbytes -> option xatom.      (* bip32::Xpub::from_str *)
  Variable xpub_print : xatom -> tbytes.             (* Display for Xpub *)
  Variable xpub_depth : xatom -> N.                  (* Xpub::depth (u8) *)
  Variable full_parse : tbytes -> option fatom.      (* bitcoin::PublicKey::from_str *)
  Variable full_print : fatom -> tbytes.
  Variable xonly_parse : tbytes -> option oatom.     (* XOnlyPublicKey::from_str *)
  Variable xonly_print : oatom -> tbytes.

  Inductive single := SFull (k : fatom) | SXOnly (k : oatom).           (* SinglePubKey *)
  Inductive dkey :=                                                     (* DescriptorPublicKey *)
    | KSingle (o : origin) (k : single)
    | KXPub (o : origin) (x : xatom) (path : list child) (w : wildcard)
    | KMulti (o : origin) (x : xatom) (paths : list (list child)) (w : wildcard).

  Definition too_deep (x : xatom) (w : wildcard) (n : nat) : bool :=
    255 <? xpub_depth x + N.of_nat n + (match w with WNone => 0 | _ => 1 end).

  (* impl FromStr for DescriptorPublicKey *)
  Definition key_parse (s : tbytes) : outcome key_err dkey :=
    if len s <? 64 then Err EKeyTooShort else
    match parse_key_origin s with
    | Err e => Err e
    | Panic p => Panic p
    | Ok (kp, o) =>
      let pre4 := firstn 4 kp in
      if tb_eqb pre4 X_XPRV || tb_eqb pre4 X_TPRV then Err EUnexpectedXPriv
      else if tb_eqb pre4 X_XPUB || tb_eqb pre4 X_TPUB then
        match split_on CH_SLASH kp with
        | [] => Err ENoKeyAfterOrigin
        | xs :: steps =>
          match xpub_parse xs with
          | None => Err EXKeyParse
          | Some x =>
            match deriv_loop steps WNone false [] with
            | Err e => Err e
            | Panic p => Panic p
            | Ok (paths, w) =>
              if existsb (fun p => too_deep x w (length p)) paths
                 || (match paths with [] => too_deep x w 0 | _ => false end)
              then Err EDerivationPathTooLong
              else match paths with
                   | _ :: _ :: _ => Ok (KMulti o x paths w)
                   | [p] => Ok (KXPub o x p w)
                   | [] => Ok (KXPub o x [] w)
                   end
            end
          end
        end
      else
        if len kp =? 64 then
          match xonly_parse kp with
          | None => Err EXonlyPublicKey
          | Some k => Ok (KSingle o (SXOnly k))
          end
        else if (len kp =? 66) || (len kp =? 130) then
          match kp with
          | _ :: _ :: _ =>
            let p2 := firstn 2 kp in
            if negb (tb_eqb p2 P_02 || tb_eqb p2 P_03 || tb_eqb p2 P_04) then Err EInvalidFullPrefix
            else match full_parse kp with
                 | None => Err EFullPublicKey
                 | Some k => Ok (KSingle o (SFull k))
                 end
          | _ => Panic 61
          end
        else Err EInvalidPublicKeyLength
    end.

  (* Display for DescriptorPublicKey *)
  Definition key_print_out (k : dkey) : outcome key_err tbytes :=
    match k with
    | KSingle o (SFull a) => Ok (fmt_origin o ++ full_print a)
    | KSingle o (SXOnly a) => Ok (fmt_origin o ++ xonly_print a)
    | KXPub o x path w => Ok (fmt_origin o ++ xpub_print x ++ fmt_path path ++ fmt_wild w)
    | KMulti o x paths w =>
      match paths with
      | [] => Panic 80
      | p0 :: _ => match fmt_paths_loop paths 0 p0 with
                   | None => Panic 81
                   | Some t => Ok (fmt_origin o ++ xpub_print x ++ t ++ fmt_wild w)
                   end
      end
    end.
  Definition key_print (k : dkey) : tbytes :=
    match key_print_out k with Ok s => s | _ => [] end.
End Body.

Arguments SFull {fatom oatom} k.  Arguments SXOnly {fatom oatom} k.
Arguments KSingle {xatom fatom oatom} o k.
Arguments KXPub {xatom fatom oatom} o x path w.
Arguments KMulti {xatom fatom oatom} o x paths w.

(* numbering of the error classes for the tie (harness/src/keytext.rs uses the same numbers) *)
Definition cn_code (e : cn_err) : N := match e with CnFormat => 0 | CnRange => 1 end.
Definition key_err_code (e : key_err) : N :=
  match e with
  | EKeyTooShort => 1 | EUnprintable => 2 | EEmptyKey => 3 | EUnclosedBracket => 4 | ENoMasterFingerprint => 5
  | EFingerprintLength => 6 | EMasterFingerprint => 7 | EMasterDerivationPath e => 8 + cn_code e
  | ENoKeyAfterOrigin => 10 | EMultipleFingerprints => 11 | EUnexpectedXPriv => 12 | EXKeyParse => 13
  | EInvalidWildcard => 14 | EMultipleMultiSteps => 15 | EInvalidMultiIndexStep => 16
  | EDerivationIndex e => 17 + cn_code e | EDerivationPathTooLong => 19
  | EXonlyPublicKey => 20 | EInvalidFullPrefix => 21 | EFullPublicKey => 22 | EInvalidPublicKeyLength => 23
  end.
