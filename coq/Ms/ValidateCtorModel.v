(* C12: the programmatic descriptor constructors that take keys or a Threshold of keys
   (src/descriptor/{segwitv0,sh,bare}.rs, tr/mod.rs).  Model only, no proofs.
   Wsh::new / Sh::new / Sh::new_wsh / Bare::new / Tr::new(leaf) are ValidateModel.wrapper_new / tr_new_leaf. *)
From Coq Require Import List NArith Bool.
Import ListNotations.
From Verif Require Import ValidateModel.
Local Open Scope N_scope.

(* Miniscript::from_ast(t): Type::type_check(&t)?, ExtData, the depth test, then
   Ctx::check_global_validity(&res) on the NEW node only (its children were built by earlier calls).
   The head of the pre-order list is that node. *)
Definition ms_from_ast (c : ctx) (x : expr) : epres :=
  if negb (x_typed x) then EErr (EpParse PType)
  else if MAX_RECURSION_DEPTH <? s_tree_height (x_sum x) then EErr (EpParse PDepth)
  else match s_nodes (x_sum x) with
       | [] => EOk
       | n :: _ => match check_global_validity c n with
                   | CErr e => EErr (EpParse (PCtx e))
                   | COk => EOk
                   end
       end.

(* PRE-FIX code (kept as regression documentation; /repo before the C12 sortedmulti repair):
     Wsh::new_sortedmulti(thresh) = Ok(Self { ms: Miniscript::sortedmulti(thresh) })
     Sh::new_sortedmulti(thresh)  = Ok(Self { inner: ShInner::Ms(Miniscript::sortedmulti(thresh)) })
   `Miniscript::sortedmulti` is the unchecked const constructor: no check at all. *)
Definition new_sortedmulti_prefix (c : ctx) (x : expr) : epres := EOk.

(* REPAIRED code: Self::new(Miniscript::from_ast(Terminal::SortedMulti(thresh))?)
   c = CSegwitv0: Wsh::new_sortedmulti, Sh::new_wsh_sortedmulti, Descriptor::new_wsh_sortedmulti,
                  Descriptor::new_sh_wsh_sortedmulti;  c = CLegacy: Sh::new_sortedmulti,
                  Descriptor::new_sh_sortedmulti.  x is the one-node expression sortedmulti(k, keys). *)
Definition new_sortedmulti (c : ctx) (x : expr) : epres :=
  andthen (ms_from_ast c x) (wrapper_new c (x_sum x)).

(* Pkh::new = BareCtx::check_pk, Wpkh::new = Sh::new_wpkh = Segwitv0::check_pk,
   Tr::new(key, None) = Tap::check_pk *)
Definition key_ctor (c : ctx) (k : keyinfo) : epres :=
  match check_pk c k with COk => EOk | CErr e => EErr (EpParse (PCtx e)) end.
Definition pkh_new : keyinfo -> epres := key_ctor CBare.
Definition wpkh_new : keyinfo -> epres := key_ctor CSegwitv0.
Definition tr_new_key : keyinfo -> epres := key_ctor CTap.
