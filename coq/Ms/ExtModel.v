(* Model of src/miniscript/types/extra_props.rs (ExtData / SatData / TimelockInfo), field by
   field, over the AST [ms] of Ast.v, together with the figures derived from it:
   Miniscript::{script_size, max_satisfaction_size, max_satisfaction_witness_elements}
   (src/miniscript/mod.rs, context.rs), the descriptor weight formulas
   (src/descriptor/{bare,segwitv0,sh}.rs, tr/mod.rs) and the Plan size accounting
   (src/plan.rs, src/util.rs).  usize is N (unbounded); the functions `*_o` used by the
   rule-level tie add the panic sites (n - 1, n - k, arithmetic overflow: the harness builds
   the library with overflow checks).  No proofs here.

   Every rule takes a [fixes] record of four switches. Since /repo 937818d4, 1f19b621, cce56f21 and
   556af94a the code that exists has all four on: [as_written] is that rule set and is what the tie
   compares with the implementation. [pre_fix] (all off) is the rule set of the tree BEFORE those
   commits, kept only for the historical refutations. The theorems of Proofs/Ext*.v are stated for
   every rule set and say which switches a bound needs. *)
From Verif Require Export Sat TypeCheck.
Local Open Scope N_scope.

Record fixes := mkFixes {
  fx_thresh : bool;   (* threshold: `i < k` (on) / `i <= k` (off: top-(k+1) satisfactions) *)
  fx_dupif : bool;    (* cast_dupif: witness size + 2, count + 1 instead of size + 1, count + 2 *)
  fx_unc : bool;      (* pk_h with an uncompressed key: 66 bytes (push opcode + 65) instead of 65 *)
  fx_andv : bool      (* and_v: dissat_data = sat(l) ++ dissat(r), as the satisfier computes it *)
}.
Definition as_written : fixes := mkFixes true true true true.    (* the code that exists *)
Definition pre_fix : fixes := mkFixes false false false false.   (* historical: before the four fix commits *)
Definition all_fixed : fixes := as_written.

(* ------------------------------------------------------------------ TimelockInfo *)
Record tlinfo := mkTL { tl_csv_h : bool; tl_csv_t : bool; tl_cltv_h : bool; tl_cltv_t : bool; tl_comb : bool }.
Definition tl_new : tlinfo := mkTL false false false false false.

(* one step of the fold in TimelockInfo::combine_threshold *)
Definition tl_step (k : N) (acc t : tlinfo) : tlinfo :=
  let height_and_time :=
      (tl_csv_h acc && tl_csv_t t) || (tl_csv_t acc && tl_csv_h t)
      || (tl_cltv_t acc && tl_cltv_h t) || (tl_cltv_h acc && tl_cltv_t t) in
  let comb := if 1 <? k then tl_comb acc || height_and_time else tl_comb acc in
  mkTL (tl_csv_h acc || tl_csv_h t) (tl_csv_t acc || tl_csv_t t)
       (tl_cltv_h acc || tl_cltv_h t) (tl_cltv_t acc || tl_cltv_t t)
       (comb || tl_comb t).
Definition tl_combine_threshold (k : N) (l : list tlinfo) : tlinfo := fold_left (tl_step k) l tl_new.
Definition tl_combine_and (a b : tlinfo) : tlinfo := tl_combine_threshold 2 [a; b].
Definition tl_combine_or (a b : tlinfo) : tlinfo := tl_combine_threshold 1 [a; b].

(* ------------------------------------------------------------------ SatData *)
Record satdata := mkSD {
  sd_wsize : N;     (* max_witness_stack_size *)
  sd_wcount : N;    (* max_witness_stack_count *)
  sd_ssig : N;      (* max_script_sig_size *)
  sd_estack : N;    (* max_exec_stack_count *)
  sd_eops : N       (* max_exec_op_count *)
}.

Definition sd_fieldwise_max (a b : satdata) : satdata :=
  mkSD (N.max (sd_wsize a) (sd_wsize b)) (N.max (sd_wcount a) (sd_wcount b))
       (N.max (sd_ssig a) (sd_ssig b)) (N.max (sd_estack a) (sd_estack b))
       (N.max (sd_eops a) (sd_eops b)).
Definition sd_max_opt (a b : option satdata) : option satdata :=
  match a, b with
  | None, None => None
  | Some x, None => Some x
  | None, Some x => Some x
  | Some x, Some y => Some (sd_fieldwise_max x y)
  end.
Definition opt_zip_with {A} (f : A -> A -> A) (a b : option A) : option A :=
  match a, b with Some x, Some y => Some (f x y) | _, _ => None end.

(* the three shapes of `sat_concat` closures in the code *)
Definition sd_concat_b (l r : satdata) : satdata :=       (* and_b, or_b: right child runs above one result *)
  mkSD (sd_wsize l + sd_wsize r) (sd_wcount l + sd_wcount r) (sd_ssig l + sd_ssig r)
       (N.max (sd_estack l) (1 + sd_estack r)) (sd_eops l + sd_eops r).
Definition sd_concat_v (l r : satdata) : satdata :=       (* and_v, or_d, or_c, andor, thresh dissat *)
  mkSD (sd_wsize l + sd_wsize r) (sd_wcount l + sd_wcount r) (sd_ssig l + sd_ssig r)
       (N.max (sd_estack l) (sd_estack r)) (sd_eops l + sd_eops r).
Definition sd_with_0 (d : satdata) : satdata :=
  mkSD (1 + sd_wsize d) (1 + sd_wcount d) (1 + sd_ssig d) (sd_estack d) (sd_eops d).
Definition sd_with_1 (d : satdata) : satdata :=
  mkSD (2 + sd_wsize d) (1 + sd_wcount d) (1 + sd_ssig d) (sd_estack d) (sd_eops d).

(* ------------------------------------------------------------------ ExtData *)
Record ext := mkExt {
  pk_cost : N;
  has_free_verify : bool;
  static_ops : N;
  sat_data : option satdata;
  dissat_data : option satdata;
  timelock_info : tlinfo;
  tree_height : N
}.

Definition ext_false : ext := mkExt 1 false 0 None (Some (mkSD 0 0 0 1 0)) tl_new 0.
Definition ext_true : ext := mkExt 1 false 0 (Some (mkSD 0 0 0 1 0)) None tl_new 0.

(* crate::script_num_size *)
Definition script_num_size (n : N) : N :=
  if n <=? 16 then 1 else if n <? 128 then 2 else if n <? 32768 then 3
  else if n <? 8388608 then 4 else if n <? 2147483648 then 5 else 6.

(* what the rules ask of the context and of a key *)
Record xctx := mkXctx {
  xc_schnorr : bool;              (* Ctx::sig_type() == Schnorr *)
  xc_unc : key -> bool;           (* pk.is_uncompressed() *)
  xc_pklen : key -> N             (* Ctx::pk_len(pk): 34/66 Bare+Legacy, 34 Segwitv0, 33 Tap *)
}.

Definition unc_bytes (fx : fixes) : N := if fx_unc fx then 66 else 65.
Definition key_sig_bytes (fx : fixes) (schnorr unc : bool) : N * N :=
  if schnorr then (33, 66) else if unc then (unc_bytes fx, 73) else (34, 73).

(* pk_k counts an uncompressed key as 66 bytes since /repo 4c5160f8; pk_h still reads [unc_bytes fx] *)
Definition fx_pkk (fx : fixes) : fixes := mkFixes (fx_thresh fx) (fx_dupif fx) true (fx_andv fx).
Definition ext_pk_k (fx : fixes) (schnorr unc : bool) : ext :=
  let '(kbytes, sbytes) := key_sig_bytes (fx_pkk fx) schnorr unc in
  mkExt kbytes false 0 (Some (mkSD sbytes 1 sbytes 1 0)) (Some (mkSD 1 1 1 1 0)) tl_new 0.

(* pk_h(Some pk) *)
Definition ext_pk_h (fx : fixes) (schnorr unc : bool) : ext :=
  let '(kbytes, sbytes) := key_sig_bytes fx schnorr unc in
  mkExt 24 false 3 (Some (mkSD (kbytes + sbytes) 2 (kbytes + sbytes) 2 0))
        (Some (mkSD (kbytes + 1) 2 (kbytes + 1) 2 0)) tl_new 0.
(* pk_h(None) (expr_raw_pkh): since /repo 46f3eb21 the key is assumed to be an uncompressed one outside
   Tap, `(Ecdsa, None) => (66, 73)` (66 in every rule set: the arm does not go through the repaired 65);
   [ext_pk_h_none_34] is the figure before that commit, kept for the regression example only *)
Definition ext_pk_h_none (fx : fixes) (schnorr : bool) : ext := ext_pk_h (fx_pkk fx) schnorr true.
Definition ext_pk_h_none_34 (fx : fixes) (schnorr : bool) : ext := ext_pk_h fx schnorr false.

Definition num_cost (k n : N) : N :=
  match 16 <? k, 16 <? n with
  | true, true => 4 | false, true => 3 | true, false => 3 | false, false => 2
  end.

(* multi / sortedmulti: [uncs] = is_uncompressed of each key, in order *)
Definition ext_multi (k : N) (uncs : list bool) : ext :=
  let n := N.of_nat (length uncs) in
  mkExt (num_cost k n + fold_right (fun (u : bool) a => (if u then 66 else 34) + a) 0 uncs + 1)
        true 1
        (Some (mkSD (1 + 73 * k) (k + 1) (1 + 73 * k) (n + 2) n))
        (Some (mkSD (1 + k) (k + 1) (1 + k) (n + 2) n)) tl_new 0.

Definition ext_multi_a (k n : N) : ext :=
  mkExt (script_num_size k + 33 * n + n + 1) true 0   (* since /repo c854851b: n is not pushed *)
        (Some (mkSD ((n - k) + 66 * k) n 0 2 0))
        (Some (mkSD n n 0 2 0)) tl_new 0.

Definition ext_hash32 : ext :=   (* sha256, hash256 *)
  mkExt (33 + 6) true 4 (Some (mkSD 33 1 33 2 0)) (Some (mkSD 33 2 33 2 0)) tl_new 0.
Definition ext_hash20 : ext :=   (* ripemd160, hash160 *)
  mkExt (21 + 6) true 4 (Some (mkSD 33 1 33 2 0)) (Some (mkSD 33 2 33 2 0)) tl_new 0.

Definition ext_after (t : N) : ext :=
  mkExt (script_num_size t + 1) false 1 (Some (mkSD 0 0 0 1 0)) None
        (mkTL false false (t <? 500000000) (500000000 <=? t) false) 0.
Definition ext_older (t : N) : ext :=
  mkExt (script_num_size t + 1) false 1 (Some (mkSD 0 0 0 1 0)) None
        (mkTL (negb (rel_is_time t)) (rel_is_time t) false false false) 0.

Definition ext_cast_alt (x : ext) : ext :=
  mkExt (pk_cost x + 2) false (2 + static_ops x) (sat_data x) (dissat_data x) (timelock_info x) (tree_height x + 1).
Definition ext_cast_swap (x : ext) : ext :=
  mkExt (pk_cost x + 1) (has_free_verify x) (1 + static_ops x) (sat_data x) (dissat_data x) (timelock_info x) (tree_height x + 1).
Definition ext_cast_check (x : ext) : ext :=
  mkExt (pk_cost x + 1) true (1 + static_ops x) (sat_data x) (dissat_data x) (timelock_info x) (tree_height x + 1).
Definition ext_cast_dupif (fx : fixes) (x : ext) : ext :=
  mkExt (pk_cost x + 3) false (3 + static_ops x)
        (option_map (fun d => mkSD (sd_wsize d + (if fx_dupif fx then 2 else 1)) (sd_wcount d + (if fx_dupif fx then 1 else 2))
                                   (sd_ssig d + 1) (N.max 1 (sd_estack d)) (sd_eops d)) (sat_data x))
        (Some (mkSD 1 1 1 1 0)) (timelock_info x) (tree_height x + 1).
Definition b2n (b : bool) : N := if b then 1 else 0.
Definition ext_cast_verify (x : ext) : ext :=
  let vc := b2n (negb (has_free_verify x)) in
  mkExt (pk_cost x + vc) false (vc + static_ops x) (sat_data x) None (timelock_info x) (tree_height x + 1).
Definition ext_cast_nonzero (x : ext) : ext :=
  mkExt (pk_cost x + 4) false (4 + static_ops x) (sat_data x) (Some (mkSD 1 1 1 1 0)) (timelock_info x) (tree_height x + 1).
Definition ext_cast_zeronotequal (x : ext) : ext :=
  mkExt (pk_cost x + 1) false (1 + static_ops x) (sat_data x) (dissat_data x) (timelock_info x) (tree_height x + 1).

Definition ext_and_b (l r : ext) : ext :=
  mkExt (pk_cost l + pk_cost r + 1) false (1 + static_ops l + static_ops r)
        (opt_zip_with sd_concat_b (sat_data l) (sat_data r))
        (opt_zip_with sd_concat_b (dissat_data l) (dissat_data r))
        (tl_combine_and (timelock_info l) (timelock_info r))
        (1 + N.max (tree_height l) (tree_height r)).
Definition ext_and_v (fx : fixes) (l r : ext) : ext :=
  mkExt (pk_cost l + pk_cost r) (has_free_verify r) (static_ops l + static_ops r)
        (opt_zip_with sd_concat_v (sat_data l) (sat_data r))
        (if fx_andv fx then opt_zip_with sd_concat_v (sat_data l) (dissat_data r) else None)
        (tl_combine_and (timelock_info l) (timelock_info r))
        (1 + N.max (tree_height l) (tree_height r)).
Definition ext_or_b (l r : ext) : ext :=
  mkExt (pk_cost l + pk_cost r + 1) false (1 + static_ops l + static_ops r)
        (sd_max_opt (opt_zip_with sd_concat_b (sat_data l) (dissat_data r))
                    (opt_zip_with sd_concat_b (dissat_data l) (sat_data r)))
        (opt_zip_with sd_concat_b (dissat_data l) (dissat_data r))
        (tl_combine_or (timelock_info l) (timelock_info r))
        (1 + N.max (tree_height l) (tree_height r)).
Definition ext_or_d (l r : ext) : ext :=
  mkExt (pk_cost l + pk_cost r + 3) false (3 + static_ops l + static_ops r)
        (sd_max_opt (sat_data l) (opt_zip_with sd_concat_v (dissat_data l) (sat_data r)))
        (opt_zip_with sd_concat_v (dissat_data l) (dissat_data r))
        (tl_combine_or (timelock_info l) (timelock_info r))
        (1 + N.max (tree_height l) (tree_height r)).
Definition ext_or_c (l r : ext) : ext :=
  mkExt (pk_cost l + pk_cost r + 2) false (2 + static_ops l + static_ops r)
        (sd_max_opt (sat_data l) (opt_zip_with sd_concat_v (dissat_data l) (sat_data r)))
        None
        (tl_combine_or (timelock_info l) (timelock_info r))
        (1 + N.max (tree_height l) (tree_height r)).
Definition ext_or_i (l r : ext) : ext :=
  mkExt (pk_cost l + pk_cost r + 3) false (3 + static_ops l + static_ops r)
        (sd_max_opt (option_map sd_with_1 (sat_data l)) (option_map sd_with_0 (sat_data r)))
        (sd_max_opt (option_map sd_with_1 (dissat_data l)) (option_map sd_with_0 (dissat_data r)))
        (tl_combine_or (timelock_info l) (timelock_info r))
        (1 + N.max (tree_height l) (tree_height r)).
Definition ext_and_or (a b c : ext) : ext :=
  mkExt (pk_cost a + pk_cost b + pk_cost c + 3) false (3 + static_ops a + static_ops b + static_ops c)
        (sd_max_opt (opt_zip_with sd_concat_v (sat_data a) (sat_data b))
                    (opt_zip_with sd_concat_v (dissat_data a) (sat_data c)))
        (opt_zip_with sd_concat_v (dissat_data a) (dissat_data c))
        (tl_combine_or (tl_combine_and (timelock_info a) (timelock_info b)) (timelock_info c))
        (1 + N.max (tree_height a) (N.max (tree_height b) (tree_height c))).
Definition ext_cast_true (fx : fixes) (x : ext) : ext := ext_and_v fx x ext_true.
Definition ext_cast_unlikely (x : ext) : ext := ext_or_i x ext_false.
Definition ext_cast_likely (x : ext) : ext := ext_or_i ext_false x.

(* ---- threshold ---- *)
Definition sdpair := (option satdata * option satdata)%type.       (* (sat_data, dissat_data) of a child *)

(* sort key: Option<isize>, None < Some _ *)
Definition th_key (proj : satdata -> N) (p : sdpair) : option Z :=
  match p with
  | (Some s, Some d) => Some (Z.of_N (proj s) - Z.of_N (proj d))%Z
  | _ => None
  end.
Definition okey_le (a b : option Z) : bool :=
  match a, b with
  | None, _ => true
  | Some _, None => false
  | Some x, Some y => (x <=? y)%Z
  end.
(* stable insertion sort, ascending (Vec::sort_by_key is stable) *)
Fixpoint th_ins {A} (key : A -> option Z) (x : A) (l : list A) : list A :=
  match l with
  | [] => [x]
  | y :: r => if okey_le (key y) (key x) then y :: th_ins key x r else x :: l
  end.
Definition th_sort {A} (key : A -> option Z) (l : list A) : list A :=
  fold_left (fun acc x => th_ins key x acc) l [].

(* .iter().rev().enumerate().try_fold(0, ..): [l] is already reversed, [i] the index *)
Fixpoint th_fold (strict : bool) (proj : satdata -> N) (cmb : N -> N -> N) (k i acc : N) (l : list sdpair) : option N :=
  match l with
  | [] => Some acc
  | (s, d) :: r =>
    match (if (if strict then i <? k else i <=? k) then s else d) with
    | None => None
    | Some x => th_fold strict proj cmb k (i + 1) (cmb acc (proj x)) r
    end
  end.
Definition cmb_add (acc x : N) : N := acc + x.
Definition cmb_stack (acc x : N) : N := N.max acc (x + (if 0 <? acc then 1 else 0)).

(* the five passes share one vector, re-sorted (stably) before each pass, in the order
   count, size, script_sig, exec_stack, exec_ops *)
Definition th_pass (strict : bool) (proj : satdata -> N) (cmb : N -> N -> N) (k : N) (v : list sdpair)
  : list sdpair * option N :=
  let v' := th_sort (th_key proj) v in
  (v', th_fold strict proj cmb k 0 0 (rev v')).

Definition th_sat_data (strict : bool) (k : N) (v0 : list sdpair) : option satdata :=
  let '(v1, f_count) := th_pass strict sd_wcount cmb_add k v0 in
  let '(v2, f_size) := th_pass strict sd_wsize cmb_add k v1 in
  let '(v3, f_ssig) := th_pass strict sd_ssig cmb_add k v2 in
  let '(v4, f_estack) := th_pass strict sd_estack cmb_stack k v3 in
  let '(_, f_eops) := th_pass strict sd_eops cmb_add k v4 in
  match f_count, f_size, f_ssig, f_estack, f_eops with
  | Some c, Some s, Some g, Some e, Some o => Some (mkSD s c g e o)
  | _, _, _, _, _ => None
  end.

Definition th_dissat_data (subs : list ext) : option satdata :=
  fold_left (fun acc sub => opt_zip_with sd_concat_v acc (dissat_data sub)) subs (Some (mkSD 0 0 0 0 0)).

(* exec_stack_ub: 2 (running sum and k before EQUAL), and every child but the first above the sum *)
Definition osd_estack (o : option satdata) : N := match o with Some d => sd_estack d | None => 0 end.
Fixpoint th_stack_ub (first : bool) (acc : N) (subs : list ext) : N :=
  match subs with
  | [] => acc
  | s :: r =>
    th_stack_ub false
      (N.max acc (N.max (osd_estack (sat_data s)) (osd_estack (dissat_data s)) + (if first then 0 else 1))) r
  end.
Definition sd_raise_estack (ub : N) (d : satdata) : satdata :=
  mkSD (sd_wsize d) (sd_wcount d) (sd_ssig d) (N.max (sd_estack d) ub) (sd_eops d).

Definition ext_threshold (fx : fixes) (k : N) (subs : list ext) : ext :=
  let strict := fx_thresh fx in
  let ub := th_stack_ub true 2 subs in
  let n := N.of_nat (length subs) in
  let pkc := fold_left (fun a s => a + pk_cost s) subs (1 + script_num_size k) in
  let ops := fold_left (fun a s => a + static_ops s) subs 0 in
  let h := fold_left (fun a s => N.max a (tree_height s)) subs 0 in
  mkExt (pkc + n - 1) true (ops + 1 + (n - 1))
        (option_map (sd_raise_estack ub) (th_sat_data strict k (map (fun s => (sat_data s, dissat_data s)) subs)))
        (option_map (sd_raise_estack ub) (th_dissat_data subs))
        (tl_combine_threshold k (map timelock_info subs))
        (h + 1).

(* ---- ExtData::type_check applied bottom-up ---- *)
Fixpoint ext_of_gen (fx : fixes) (c : xctx) (m : ms) : ext :=
  match m with
  | MTrue => ext_true
  | MFalse => ext_false
  | MPkK k => ext_pk_k fx (xc_schnorr c) (xc_unc c k)
  | MPkH k => ext_pk_h fx (xc_schnorr c) (xc_unc c k)
  | MRawPkH _ => ext_pk_h_none fx (xc_schnorr c)
  | MMulti k ks | MSortedMulti k ks => ext_multi k (map (xc_unc c) ks)
  | MMultiA k ks | MSortedMultiA k ks => ext_multi_a k (N.of_nat (length ks))
  | MAfter t => ext_after t
  | MOlder t => ext_older t
  | MSha256 _ | MHash256 _ => ext_hash32
  | MRipemd160 _ | MHash160 _ => ext_hash20
  | MAlt x => ext_cast_alt (ext_of_gen fx c x)
  | MSwap x => ext_cast_swap (ext_of_gen fx c x)
  | MCheck x => ext_cast_check (ext_of_gen fx c x)
  | MDupIf x => ext_cast_dupif fx (ext_of_gen fx c x)
  | MVerify x => ext_cast_verify (ext_of_gen fx c x)
  | MNonZero x => ext_cast_nonzero (ext_of_gen fx c x)
  | MZeroNotEqual x => ext_cast_zeronotequal (ext_of_gen fx c x)
  | MAndB l r => ext_and_b (ext_of_gen fx c l) (ext_of_gen fx c r)
  | MAndV l r => ext_and_v fx (ext_of_gen fx c l) (ext_of_gen fx c r)
  | MOrB l r => ext_or_b (ext_of_gen fx c l) (ext_of_gen fx c r)
  | MOrD l r => ext_or_d (ext_of_gen fx c l) (ext_of_gen fx c r)
  | MOrC l r => ext_or_c (ext_of_gen fx c l) (ext_of_gen fx c r)
  | MOrI l r => ext_or_i (ext_of_gen fx c l) (ext_of_gen fx c r)
  | MAndOr x y z => ext_and_or (ext_of_gen fx c x) (ext_of_gen fx c y) (ext_of_gen fx c z)
  | MThresh k xs =>
    ext_threshold fx k
      ((fix go (l : list ms) : list ext :=
          match l with [] => [] | x :: r => ext_of_gen fx c x :: go r end) xs)
  end.
Definition ext_of := ext_of_gen as_written.
Definition ext_of_fixed := ext_of_gen all_fixed.

(* ExtData::sat_op_count *)
Definition sat_op_count (e : ext) : option N := option_map (fun d => static_ops e + sd_eops d) (sat_data e).

(* ------------------------------------------------------------------ Miniscript::script_size
   (pre-order sum of per-node costs; the Verify cost reads the child's ext) *)
Definition sum_map {A} (f : A -> N) (l : list A) : N := fold_right (fun x a => f x + a) 0 l.
Fixpoint script_size_gen (fx : fixes) (c : xctx) (m : ms) : N :=
  match m with
  | MAndV x y => 0 + script_size_gen fx c x + script_size_gen fx c y
  | MTrue | MFalse => 1
  | MSwap x | MCheck x | MZeroNotEqual x => 1 + script_size_gen fx c x
  | MAndB x y | MOrB x y => 1 + script_size_gen fx c x + script_size_gen fx c y
  | MAlt x => 2 + script_size_gen fx c x
  | MOrC x y => 2 + script_size_gen fx c x + script_size_gen fx c y
  | MDupIf x => 3 + script_size_gen fx c x
  | MOrD x y | MOrI x y => 3 + script_size_gen fx c x + script_size_gen fx c y
  | MAndOr x y z => 3 + script_size_gen fx c x + script_size_gen fx c y + script_size_gen fx c z
  | MNonZero x => 4 + script_size_gen fx c x
  | MPkH _ | MRawPkH _ => 24
  | MRipemd160 _ | MHash160 _ => 21 + 6
  | MSha256 _ | MHash256 _ => 33 + 6
  | MPkK k => xc_pklen c k
  | MAfter t | MOlder t => script_num_size t + 1
  | MVerify x => b2n (negb (has_free_verify (ext_of_gen fx c x))) + script_size_gen fx c x
  | MThresh k xs =>
    (script_num_size k + 1 + N.of_nat (length xs) - 1)
    + (fix go (l : list ms) : N := match l with [] => 0 | x :: r => script_size_gen fx c x + go r end) xs
  | MMulti k ks | MSortedMulti k ks =>
    script_num_size k + 1 + script_num_size (N.of_nat (length ks)) + sum_map (xc_pklen c) ks
  | MMultiA k ks | MSortedMultiA k ks =>
    script_num_size k + 1 + sum_map (xc_pklen c) ks + N.of_nat (length ks)
  end.
Definition script_size := script_size_gen as_written.

(* Miniscript::max_satisfaction_witness_elements / Ctx::max_satisfaction_size *)
Definition max_sat_witness_elements (e : ext) : option N := option_map (fun d => sd_wcount d + 1) (sat_data e).
Definition max_sat_size (legacy_like : bool) (e : ext) : option N :=
  option_map (fun d => if legacy_like then sd_ssig d else sd_wsize d) (sat_data e).

(* ------------------------------------------------------------------ descriptor weights *)
Definition push_opcode_size (n : N) : N :=
  if n <? 76 then 1 else if n <? 256 then 2 else if n <? 65536 then 3 else 5.

(* Wsh::max_weight_to_satisfy: (script_size, max_sat_elems, max_sat_size) *)
Definition wsh_weight (ssz elems satsz : N) : N :=
  (varint_len elems - varint_len 0) + varint_len ssz + ssz + satsz.
Definition wpkh_weight : N := (varint_len 2 - varint_len 0) + (73 + 34).
(* Sh *)
Definition sh_wrap (scriptsig_size witness_weight : N) : N :=
  4 * ((varint_len scriptsig_size - varint_len 0) + scriptsig_size) + witness_weight.
Definition sh_wsh_weight (ssz elems satsz : N) : N := sh_wrap (1 + 1 + 1 + 32) (wsh_weight ssz elems satsz).
Definition sh_wpkh_weight : N := sh_wrap (1 + 1 + 1 + 20) wpkh_weight.
Definition sh_ms_weight (ssz satsz : N) : N := sh_wrap (push_opcode_size ssz + ssz + satsz) 0.
(* Bare / Pkh *)
Definition bare_weight (satsz : N) : N := 4 * ((varint_len satsz - varint_len 0) + satsz).
Definition pkh_weight (pklen : N) : N := bare_weight (73 + pklen).
(* Tr *)
Definition control_block_len (depth : N) : N := 33 + depth * 32.
Definition tr_keyspend_weight : N := (varint_len 1 - varint_len 0) + (1 + 65).
Definition tr_leaf_weight (depth ssz elems satsz : N) : N :=
  let cb := control_block_len depth in
  (varint_len (elems + 1) - varint_len 0) + satsz + varint_len ssz + ssz + varint_len cb + cb.
(* leaves: (depth, script_size, Some (elems, satsz)) in iteration order; .filter_map(..).max() *)
Definition tr_leaves_weight (leaves : list (N * N * option (N * N))) : option N :=
  fold_left (fun (acc : option N) (l : N * N * option (N * N)) =>
               match l with
               | (d, ssz, Some (el, sz)) =>
                 let w := tr_leaf_weight d ssz el sz in
                 Some (match acc with Some a => N.max a w | None => w end)
               | (_, _, None) => acc
               end) leaves None.

(* since /repo 265ff19b the key-path spend is always counted, so the result is never an error *)
Definition tr_tree_weight (leaves : list (N * N * option (N * N))) : option N :=
  Some (match tr_leaves_weight leaves with
        | Some w => N.max w tr_keyspend_weight
        | None => tr_keyspend_weight
        end).

Inductive dkind := DBare | DSh | DWsh | DShWsh.
(* single-miniscript descriptors, from the miniscript's figures *)
Definition desc_weight (fx : fixes) (dk : dkind) (c : xctx) (m : ms) : option N :=
  let e := ext_of_gen fx c m in
  let ssz := script_size_gen fx c m in
  match dk with
  | DBare => option_map bare_weight (max_sat_size true e)
  | DSh => option_map (sh_ms_weight ssz) (max_sat_size true e)
  | DWsh =>
    match max_sat_witness_elements e, max_sat_size false e with
    | Some el, Some sz => Some (wsh_weight ssz el sz) | _, _ => None end
  | DShWsh =>
    match max_sat_witness_elements e, max_sat_size false e with
    | Some el, Some sz => Some (sh_wsh_weight ssz el sz) | _, _ => None end
  end.

(* ------------------------------------------------------------------ Plan size accounting
   template items carry their ItemSize (util.rs); [segwit] = desc_type().segwit_version().is_some() *)
Inductive plan_kind := PLegacy | PSegwitNative | PShWpkh | PShWsh | PTaproot.
Definition util_witness_size (sizes : list N) : N :=
  fold_right N.add 0 sizes + varint_len (N.of_nat (length sizes)).
Definition plan_witness_size (pk : plan_kind) (sizes : list N) : N :=
  match pk with PLegacy => 0 | _ => util_witness_size sizes end.
Definition plan_scriptsig_size (pk : plan_kind) (sizes : list N) : N :=
  match pk with
  | PLegacy => util_witness_size sizes
  | PTaproot => 1
  | PShWpkh => 1 + 1 + 1 + 20
  | PShWsh => 1 + 1 + 1 + 32
  | PSegwitNative => 1
  end.
Definition plan_satisfaction_weight (pk : plan_kind) (sizes : list N) : N :=
  plan_witness_size pk sizes + plan_scriptsig_size pk sizes * 4.

(* ------------------------------------------------------------------ rule-level outcomes
   (public ExtData::* functions on plain data; the library is compiled with overflow checks,
   so an arithmetic overflow or underflow is a panic) *)
Inductive xout := XOk (e : ext) | XPanic.
Definition USIZE_MAX1 : N := 18446744073709551616.
Definition sd_fits (d : satdata) : bool :=
  (sd_wsize d <? USIZE_MAX1) && (sd_wcount d <? USIZE_MAX1) && (sd_ssig d <? USIZE_MAX1)
  && (sd_estack d <? USIZE_MAX1) && (sd_eops d <? USIZE_MAX1).
Definition osd_fits (o : option satdata) : bool := match o with Some d => sd_fits d | None => true end.
Definition ext_fits (e : ext) : bool :=
  (pk_cost e <? USIZE_MAX1) && (static_ops e <? USIZE_MAX1) && (tree_height e <? USIZE_MAX1)
  && osd_fits (sat_data e) && osd_fits (dissat_data e).
Definition checked (e : ext) : xout := if ext_fits e then XOk e else XPanic.
Definition ext_multi_a_o (k n : N) : xout :=
  if n <? k then XPanic else checked (ext_multi_a k n).
(* `pk_cost + n - 1`: the intermediate sum is checked as well *)
Definition ext_threshold_o (k : N) (subs : list ext) : xout :=
  match subs with
  | [] => XPanic
  | _ =>
    let e := ext_threshold as_written k subs in
    if USIZE_MAX1 <=? pk_cost e + 1 then XPanic else checked e
  end.

(* ------------------------------------------------------------------ side conditions of the bounds
   (computable; evaluated on every generated script by the tie, see Tables/ExtCasesCheck.v) *)
Definition dtracked (e : ext) : bool := match dissat_data e with Some _ => true | None => false end.

(* (nodis, nosat): syntactic guarantees that the satisfier model's dissatisfaction
   (resp. satisfaction) of the node is never a stack; sound (Proofs/ExtProofs.v: nostk_sound), not complete *)
Fixpoint nostk (m : ms) : bool * bool :=
  match m with
  | MTrue => (true, false)
  | MFalse => (false, true)
  | MRawPkH _ => (true, true)
  | MAfter _ | MOlder _ => (true, false)
  | MAlt x | MSwap x | MCheck x | MZeroNotEqual x => nostk x
  | MDupIf x | MNonZero x => (false, snd (nostk x))
  | MVerify x => (true, snd (nostk x))
  | MAndB l r => (fst (nostk l) || fst (nostk r), snd (nostk l) || snd (nostk r))
  | MAndV l r => (snd (nostk l) || fst (nostk r), snd (nostk l) || snd (nostk r))
  | MAndOr a b c =>
    (fst (nostk a) || fst (nostk c),
     (snd (nostk a) || snd (nostk b)) && (fst (nostk a) || snd (nostk c)))
  | MOrB l r =>
    (fst (nostk l) || fst (nostk r),
     (fst (nostk l) || snd (nostk r)) && (snd (nostk l) || fst (nostk r)))
  | MOrC l r => (true, snd (nostk l) && (fst (nostk l) || snd (nostk r)))
  | MOrD l r => (fst (nostk l) || fst (nostk r), snd (nostk l) && (fst (nostk l) || snd (nostk r)))
  | MOrI l r => (fst (nostk l) && fst (nostk r), snd (nostk l) && snd (nostk r))
  | MThresh k xs =>
    (* dissatisfaction: some child is never dissatisfied. satisfaction: fewer than k children can
       ever be satisfied (k <= n: the satisfier satisfies exactly k children) *)
    ((fix go (l : list ms) : bool := match l with [] => false | x :: r => fst (nostk x) || go r end) xs,
     (k <=? N.of_nat (length xs))
     && (N.of_nat ((fix cnt (l : list ms) : nat :=
                      match l with [] => O | x :: r => Nat.add (if snd (nostk x) then O else 1%nat) (cnt r) end) xs) <? k))
  | _ => (false, false)
  end.

(* what the constructors and the context rules guarantee and typing does not: Threshold::new's
   k <= n for thresh, multi_a / sortedmulti_a only in Tapscript *)
Fixpoint ext_struct_ok (c : xctx) (m : ms) : bool :=
  match m with
  | MAlt x | MSwap x | MCheck x | MDupIf x | MVerify x | MNonZero x | MZeroNotEqual x => ext_struct_ok c x
  | MAndV x y | MAndB x y | MOrB x y | MOrD x y | MOrC x y | MOrI x y => ext_struct_ok c x && ext_struct_ok c y
  | MAndOr x y z => ext_struct_ok c x && ext_struct_ok c y && ext_struct_ok c z
  | MThresh k xs =>
    (k <=? N.of_nat (length xs))
    && (fix go (l : list ms) : bool := match l with [] => true | x :: r => ext_struct_ok c x && go r end) xs
  | MMultiA _ _ | MSortedMultiA _ _ => xc_schnorr c
  | _ => true
  end.

(* [ext_safe fx c m]: every construct whose rule needs a repair is either repaired by [fx] or
   absent / harmless in [m]; children whose dissatisfaction is used by a parent's satisfaction
   have a dissatisfaction figure (the type system's `d`); thresh has k <= n. *)
Fixpoint ext_safe (fx : fixes) (c : xctx) (m : ms) : bool :=
  let dt x := dtracked (ext_of_gen fx c x) in
  match m with
  | MPkH k => fx_unc fx || xc_schnorr c || negb (xc_unc c k)
  | MAlt x | MSwap x | MCheck x | MVerify x | MNonZero x | MZeroNotEqual x => ext_safe fx c x
  | MDupIf x => fx_dupif fx && ext_safe fx c x
  | MMultiA _ _ | MSortedMultiA _ _ => xc_schnorr c
  | MAndB l r | MAndV l r => ext_safe fx c l && ext_safe fx c r
  | MAndOr x y z => dt x && ext_safe fx c x && ext_safe fx c y && ext_safe fx c z
  | MOrB l r => dt l && dt r && ext_safe fx c l && ext_safe fx c r
  | MOrD l r | MOrC l r => dt l && ext_safe fx c l && ext_safe fx c r
  | MOrI l r =>
    ((negb (dt l) && negb (dt r)) || ((dt l || fst (nostk l)) && (dt r || fst (nostk r))))
    && ext_safe fx c l && ext_safe fx c r
  | MThresh k xs =>
    (k <=? N.of_nat (length xs)) && (fx_thresh fx || (k =? N.of_nat (length xs)))
    && (fix go (l : list ms) : bool :=
          match l with [] => true | x :: r => dt x && ext_safe fx c x && go r end) xs
  | _ => true
  end.

(* ------------------------------------------------------------------ executed opcodes (Proofs/ExtOps.v)
   [ast_cms m]: over all paths through the encoded script, the keys counted by executed
   CHECKMULTISIGs (consensus adds them to the opcode count). *)
Fixpoint ast_cms (m : ms) : N :=
  match m with
  | MMulti _ ks | MSortedMulti _ ks => N.of_nat (length ks)
  | MAlt x | MSwap x | MCheck x | MDupIf x | MVerify x | MNonZero x | MZeroNotEqual x => ast_cms x
  | MAndV x y | MAndB x y | MOrB x y | MOrD x y | MOrC x y => ast_cms x + ast_cms y
  | MOrI x y => N.max (ast_cms x) (ast_cms y)
  | MAndOr a b c => ast_cms a + N.max (ast_cms c) (ast_cms b)
  | MThresh _ xs => (fix go (l : list ms) : N := match l with [] => 0 | x :: r => ast_cms x + go r end) xs
  | _ => 0
  end.

(* multi has at most 20 keys (MAX_PUBKEYS_PER_MULTISIG, enforced by the Threshold type) *)
Fixpoint multi_small (m : ms) : bool :=
  match m with
  | MMulti _ ks | MSortedMulti _ ks => Nat.leb (length ks) 20
  | MAlt x | MSwap x | MCheck x | MDupIf x | MVerify x | MNonZero x | MZeroNotEqual x => multi_small x
  | MAndV x y | MAndB x y | MOrB x y | MOrD x y | MOrC x y | MOrI x y => multi_small x && multi_small y
  | MAndOr a b c => multi_small a && multi_small b && multi_small c
  | MThresh _ xs => (fix go (l : list ms) : bool := match l with [] => true | x :: r => multi_small x && go r end) xs
  | _ => true
  end.

(* the class on which the all-paths bound is within the library's figure *)
Definition ops_covered (fx : fixes) (c : xctx) (m : ms) : bool :=
  match sat_data (ext_of_gen fx c m) with Some d => ast_cms m <=? sd_eops d | None => false end.


(* ------------------------------------------------------------------ execution stack depth (Proofs/ExtDepth.v)
   [dgrow m]: for every successful execution of the encoded script, how far the number of stack +
   altstack elements can rise above its value at the start of the fragment. *)
Definition minc_ms (x : ms) : N :=
  match type_of x with
  | ROk t => match c_input (t_corr t) with IOne | IOneNonZero | IAnyNonZero => 1 | _ => 0 end
  | RErr _ => 0
  end.
Fixpoint dgrow (m : ms) : N :=
  match m with
  | MTrue | MFalse | MPkK _ | MAfter _ | MOlder _ => 1
  | MPkH _ | MRawPkH _ | MSha256 _ | MHash256 _ | MRipemd160 _ | MHash160 _ => 2
  | MAlt x | MSwap x | MCheck x | MVerify x | MZeroNotEqual x | MDupIf x | MNonZero x => N.max 1 (dgrow x)
  | MAndV x y | MOrC x y | MOrI x y => N.max (dgrow x) (dgrow y)
  | MAndB x y | MOrB x y => N.max (dgrow x) (1 + dgrow y)
  | MOrD x y => N.max (dgrow x) (N.max (2 - minc_ms x) (dgrow y))
  | MAndOr a b c => N.max (dgrow a) (N.max (dgrow b) (dgrow c))
  | MThresh _ xs =>
    N.max 2 (match xs with
             | [] => 0
             | x0 :: rest =>
               N.max (dgrow x0)
                     (1 + (fix go (l : list ms) : N := match l with [] => 0 | x :: r => N.max (dgrow x) (go r) end) rest)
             end)
  | MMulti _ ks | MSortedMulti _ ks => N.of_nat (length ks) + 2
  | MMultiA _ _ | MSortedMultiA _ _ => 1
  end.
(* the class on which the growth bound is within the library's max_exec_stack_count *)
Definition depth_covered (fx : fixes) (c : xctx) (m : ms) : bool :=
  match sat_data (ext_of_gen fx c m) with Some d => dgrow m <=? sd_estack d | None => false end.
