(* Model of the PSBT state machine of src/psbt/finalizer.rs and the PsbtExt methods of
   src/psbt/mod.rs (finalize_mut, finalize_mall_mut, finalize_inp_mut, finalize_inp_mall_mut,
   extract, update_input_with_descriptor) plus the free functions psbt::finalize /
   psbt::finalize_mall (finalizer.rs finalize_helper).

   Hand-written, in the order the Rust code does things.  No proofs in this file.

   Byte values (scripts, keys, signatures, transactions, ...) are abstract identifiers in N;
   the identifier 0 is reserved for "empty" (the empty ScriptBuf / the empty Witness).
   BTreeMaps are association lists kept in strictly increasing key order by [ins].

   What is NOT modelled here but supplied as a Section variable:
     try_input    = finalizer.rs finalize_input_helper (get_descriptor / construct_tap_witness,
                    Descriptor::get_satisfaction{,_mall} through PsbtInputSatisfier, then
                    interpreter_inp_check).  It reads the WHOLE psbt: get_descriptor and
                    construct_tap_witness collect bip32_derivation / tap_key_origins keys of
                    all inputs, prevouts() needs every input's utxo.  Its own correctness is
                    C01/C13.
     interp_check = finalizer.rs interpreter_check (run by extract).
     desc_info    = what update_item_with_descriptor_helper derives from a descriptor.
     sig_flag, sighash_ecdsa = sighash-type decoding used by sanity_check.
     inp_mall     = the allow_mall flag the single-input API hands to finalize_input
                    (today finalize_inp_mall_mut passes `false`; tabulated by the harness). *)
From Coq Require Export List Bool NArith Arith.
Export ListNotations.

(* ---------------------------------------------------------------- finite maps *)
Definition amap := list (N * N).

(* BTreeMap::insert *)
Fixpoint ins (k v : N) (m : amap) : amap :=
  match m with
  | [] => [(k, v)]
  | (k', v') :: r =>
      if (k <? k')%N then (k, v) :: m
      else if (k =? k')%N then (k, v) :: r
      else (k', v') :: ins k v r
  end.

(* BTreeMap::append / a loop of inserts: entries of [src] overwrite those of [dst] *)
Definition ins_all (src dst : amap) : amap :=
  fold_left (fun m kv => ins (fst kv) (snd kv) m) src dst.

Fixpoint lookup (k : N) (m : amap) : option N :=
  match m with
  | [] => None
  | (k', v) :: r => if (k =? k')%N then Some v else lookup k r
  end.

(* ---------------------------------------------------------------- psbt::Input *)
Record txout := mkTxOut { to_val : N; to_spk : N }.

(* non_witness_utxo: the previous transaction.  [nw_txid_ok] = its txid equals the
   unsigned transaction's previous_output.txid for this input; [nw_out] = its output at
   previous_output.vout (None when vout is out of range). *)
Record nwutxo := mkNw { nw_id : N; nw_txid_ok : bool; nw_out : option txout }.

(* all 21 fields of bitcoin::psbt::Input, in declaration order *)
Record pinput := mkIn {
  i_nwutxo : option nwutxo;
  i_wutxo : option txout;
  i_psigs : amap;             (* partial_sigs : PublicKey -> ecdsa::Signature *)
  i_sighash : option N;
  i_redeem : option N;
  i_witscript : option N;
  i_bip32 : amap;             (* bip32_derivation : PublicKey -> KeySource *)
  i_fsig : option N;          (* final_script_sig *)
  i_fwit : option N;          (* final_script_witness *)
  i_ripemd : amap;
  i_sha256 : amap;
  i_hash160 : amap;
  i_hash256 : amap;
  i_tapkeysig : option N;
  i_tapsigs : amap;           (* tap_script_sigs : (XOnly, TapLeafHash) -> Signature *)
  i_tapscripts : amap;        (* tap_scripts : ControlBlock -> (Script, LeafVersion) *)
  i_taporigins : amap;        (* tap_key_origins : XOnly -> (leaf hashes, KeySource) *)
  i_tapik : option N;
  i_tapmerkle : option N;
  i_prop : amap;
  i_unknown : amap
}.

Record psbt := mkPsbt {
  p_tx : N;                   (* the unsigned transaction (never changes) *)
  p_ntx : nat;                (* unsigned_tx.input.len() *)
  p_inputs : list pinput
}.

Definition with_inputs (st : psbt) (l : list pinput) : psbt := mkPsbt (p_tx st) (p_ntx st) l.

Fixpoint set_nth {A : Type} (i : nat) (x : A) (l : list A) : list A :=
  match l, i with
  | [], _ => []
  | _ :: r, O => x :: r
  | y :: r, S j => y :: set_nth j x r
  end.

(* field setters (Gallina has no record update) *)
Definition set_psigs (a : pinput) (v : amap) : pinput :=
  mkIn (i_nwutxo a) (i_wutxo a) v (i_sighash a) (i_redeem a) (i_witscript a) (i_bip32 a) (i_fsig a) (i_fwit a)
       (i_ripemd a) (i_sha256 a) (i_hash160 a) (i_hash256 a) (i_tapkeysig a) (i_tapsigs a) (i_tapscripts a)
       (i_taporigins a) (i_tapik a) (i_tapmerkle a) (i_prop a) (i_unknown a).
Definition set_ripemd (a : pinput) (v : amap) : pinput :=
  mkIn (i_nwutxo a) (i_wutxo a) (i_psigs a) (i_sighash a) (i_redeem a) (i_witscript a) (i_bip32 a) (i_fsig a) (i_fwit a)
       v (i_sha256 a) (i_hash160 a) (i_hash256 a) (i_tapkeysig a) (i_tapsigs a) (i_tapscripts a)
       (i_taporigins a) (i_tapik a) (i_tapmerkle a) (i_prop a) (i_unknown a).
Definition set_sha256 (a : pinput) (v : amap) : pinput :=
  mkIn (i_nwutxo a) (i_wutxo a) (i_psigs a) (i_sighash a) (i_redeem a) (i_witscript a) (i_bip32 a) (i_fsig a) (i_fwit a)
       (i_ripemd a) v (i_hash160 a) (i_hash256 a) (i_tapkeysig a) (i_tapsigs a) (i_tapscripts a)
       (i_taporigins a) (i_tapik a) (i_tapmerkle a) (i_prop a) (i_unknown a).
Definition set_hash160 (a : pinput) (v : amap) : pinput :=
  mkIn (i_nwutxo a) (i_wutxo a) (i_psigs a) (i_sighash a) (i_redeem a) (i_witscript a) (i_bip32 a) (i_fsig a) (i_fwit a)
       (i_ripemd a) (i_sha256 a) v (i_hash256 a) (i_tapkeysig a) (i_tapsigs a) (i_tapscripts a)
       (i_taporigins a) (i_tapik a) (i_tapmerkle a) (i_prop a) (i_unknown a).
Definition set_hash256 (a : pinput) (v : amap) : pinput :=
  mkIn (i_nwutxo a) (i_wutxo a) (i_psigs a) (i_sighash a) (i_redeem a) (i_witscript a) (i_bip32 a) (i_fsig a) (i_fwit a)
       (i_ripemd a) (i_sha256 a) (i_hash160 a) v (i_tapkeysig a) (i_tapsigs a) (i_tapscripts a)
       (i_taporigins a) (i_tapik a) (i_tapmerkle a) (i_prop a) (i_unknown a).
Definition set_tapkeysig (a : pinput) (v : option N) : pinput :=
  mkIn (i_nwutxo a) (i_wutxo a) (i_psigs a) (i_sighash a) (i_redeem a) (i_witscript a) (i_bip32 a) (i_fsig a) (i_fwit a)
       (i_ripemd a) (i_sha256 a) (i_hash160 a) (i_hash256 a) v (i_tapsigs a) (i_tapscripts a)
       (i_taporigins a) (i_tapik a) (i_tapmerkle a) (i_prop a) (i_unknown a).
Definition set_tapsigs (a : pinput) (v : amap) : pinput :=
  mkIn (i_nwutxo a) (i_wutxo a) (i_psigs a) (i_sighash a) (i_redeem a) (i_witscript a) (i_bip32 a) (i_fsig a) (i_fwit a)
       (i_ripemd a) (i_sha256 a) (i_hash160 a) (i_hash256 a) (i_tapkeysig a) v (i_tapscripts a)
       (i_taporigins a) (i_tapik a) (i_tapmerkle a) (i_prop a) (i_unknown a).
Definition set_unknown (a : pinput) (v : amap) : pinput :=
  mkIn (i_nwutxo a) (i_wutxo a) (i_psigs a) (i_sighash a) (i_redeem a) (i_witscript a) (i_bip32 a) (i_fsig a) (i_fwit a)
       (i_ripemd a) (i_sha256 a) (i_hash160 a) (i_hash256 a) (i_tapkeysig a) (i_tapsigs a) (i_tapscripts a)
       (i_taporigins a) (i_tapik a) (i_tapmerkle a) (i_prop a) v.

Definition set_bip32 (a : pinput) (v : amap) : pinput :=
  mkIn (i_nwutxo a) (i_wutxo a) (i_psigs a) (i_sighash a) (i_redeem a) (i_witscript a) v (i_fsig a) (i_fwit a)
       (i_ripemd a) (i_sha256 a) (i_hash160 a) (i_hash256 a) (i_tapkeysig a) (i_tapsigs a) (i_tapscripts a)
       (i_taporigins a) (i_tapik a) (i_tapmerkle a) (i_prop a) (i_unknown a).
Definition set_taporigins (a : pinput) (v : amap) : pinput :=
  mkIn (i_nwutxo a) (i_wutxo a) (i_psigs a) (i_sighash a) (i_redeem a) (i_witscript a) (i_bip32 a) (i_fsig a) (i_fwit a)
       (i_ripemd a) (i_sha256 a) (i_hash160 a) (i_hash256 a) (i_tapkeysig a) (i_tapsigs a) (i_tapscripts a)
       v (i_tapik a) (i_tapmerkle a) (i_prop a) (i_unknown a).

Inductive hkind := HRipemd | HSha256 | HHash160 | HHash256.

Definition add_preimage (a : pinput) (hk : hkind) (h p : N) : pinput :=
  match hk with
  | HRipemd => set_ripemd a (ins h p (i_ripemd a))
  | HSha256 => set_sha256 a (ins h p (i_sha256 a))
  | HHash160 => set_hash160 a (ins h p (i_hash160 a))
  | HHash256 => set_hash256 a (ins h p (i_hash256 a))
  end.

(* ---------------------------------------------------------------- descriptors (update) *)
(* What update_item_with_descriptor_helper computes from a descriptor before it touches the
   item: the derived script_pubkey, whether desc_type().segwit_version().is_some(), and the
   data it will merge into the input. *)
Record dinfo := mkD {
  d_tr : bool;                (* Descriptor::Tr *)
  d_segwit : bool;
  d_spk : N;
  d_ws : option N;            (* witness_script to record (Wsh, Sh(Wsh)) *)
  d_rs : option N;            (* redeem_script to record (Sh(..)) *)
  d_bip32 : amap;             (* KeySourceLookUp map, non-Tr *)
  d_ik : N;                   (* Tr: internal key *)
  d_merkle : option N;        (* Tr: spend_info.merkle_root() *)
  d_tapscripts : amap;        (* Tr: control block -> leaf *)
  d_origins : amap            (* Tr: x-only key -> (sorted leaf hashes, key source) *)
}.

Definition apply_update (a : pinput) (d : dinfo) : pinput :=
  if d_tr d then
    mkIn (i_nwutxo a) (i_wutxo a) (i_psigs a) (i_sighash a) (i_redeem a) (i_witscript a) (i_bip32 a) (i_fsig a) (i_fwit a)
         (i_ripemd a) (i_sha256 a) (i_hash160 a) (i_hash256 a) (i_tapkeysig a) (i_tapsigs a)
         (ins_all (d_tapscripts d) (i_tapscripts a))
         (ins_all (d_origins d) (i_taporigins a))
         (Some (d_ik d)) (d_merkle d) (i_prop a) (i_unknown a)
  else
    mkIn (i_nwutxo a) (i_wutxo a) (i_psigs a) (i_sighash a)
         (match d_rs d with Some r => Some r | None => i_redeem a end)
         (match d_ws d with Some w => Some w | None => i_witscript a end)
         (ins_all (d_bip32 d) (i_bip32 a)) (i_fsig a) (i_fwit a)
         (i_ripemd a) (i_sha256 a) (i_hash160 a) (i_hash256 a) (i_tapkeysig a) (i_tapsigs a) (i_tapscripts a)
         (i_taporigins a) (i_tapik a) (i_tapmerkle a) (i_prop a) (i_unknown a).

(* an updater that records the scripts and taproot data of a descriptor but NO key origins
   (bip32_derivation / tap_key_origins are optional in BIP174/371) *)
Definition strip_origins (d : dinfo) : dinfo :=
  mkD (d_tr d) (d_segwit d) (d_spk d) (d_ws d) (d_rs d) [] (d_ik d) (d_merkle d) (d_tapscripts d) [].

(* Placeholder::PubkeyHash completion through PsbtInputSatisfier (satisfy/mod.rs satisfy_self):
   the key behind a raw key hash is looked up in bip32_derivation (lookup_raw_pkh_pk) and, failing
   that, taken from the partial signature that carries it (lookup_raw_pkh_ecdsa_sig).
   [pkh_of] maps a key to its hash160. *)
Definition find_key (pkh_of : N -> N) (h : N) (m : amap) : option N :=
  option_map fst (find (fun kv => (pkh_of (fst kv) =? h)%N) m).
Definition resolve_pkh (pkh_of : N -> N) (a : pinput) (h : N) : option N :=
  match find_key pkh_of h (i_bip32 a) with
  | Some k => Some k
  | None => find_key pkh_of h (i_psigs a)
  end.

(* the same for a tap leaf (x-only keys; since /repo f4ee52fc): PsbtInputSatisfier's
   lookup_raw_pkh_x_only_pk searches the keys of tap_key_origins, then the keys of
   tap_script_sigs.  A tap_script_sigs key is the pair (x-only key, leaf hash); [xonly_of]
   projects its identifier to the key's. *)
Definition resolve_pkh_tap (pkh_of xonly_of : N -> N) (a : pinput) (h : N) : option N :=
  match find_key pkh_of h (i_taporigins a) with
  | Some k => Some k
  | None => option_map (fun kv => xonly_of (fst kv))
                       (find (fun kv => (pkh_of (xonly_of (fst kv)) =? h)%N) (i_tapsigs a))
  end.

(* PsbtInputSatisfier::check_after / check_older (src/psbt/mod.rs): the time-lock answers the
   satisfier works with.  All numbers are consensus encodings: [seq] is THIS input's nSequence,
   [n] the lock value of the fragment (bit 22 = 512-second units for relative locks,
   >= 500_000_000 = time for absolute ones). *)
Definition seq_final : N := 4294967295.
Definition locktime_threshold : N := 500000000.
Definition psbt_check_after (lock_time seq n : N) : bool :=
  negb (seq =? seq_final)%N                                                  (* enables_lock_time of this input *)
  && Bool.eqb (lock_time <? locktime_threshold)%N (n <? locktime_threshold)%N   (* same unit *)
  && (n <=? lock_time)%N.
Definition psbt_check_older (version seq n : N) : bool :=
  (2 <=? version)%N                                                          (* BIP68 applies from version 2 on *)
  && negb (N.testbit seq 31)                                                 (* seq.is_relative_lock_time() *)
  && Bool.eqb (N.testbit seq 22) (N.testbit n 22)                            (* same unit *)
  && (N.land n 65535 <=? N.land seq 65535)%N.

Definition txout_eqb (a b : txout) : bool := (to_val a =? to_val b)%N && (to_spk a =? to_spk b)%N.

(* the `expected_spk` block of update_input_with_descriptor; None = UtxoCheck *)
Definition expected_spk (a : pinput) (segwit : bool) : option N :=
  match i_wutxo a, i_nwutxo a with
  | Some w, None => if segwit then Some (to_spk w) else None
  | None, Some nw => option_map to_spk (nw_out nw)
  | Some w, Some nw =>
      match nw_out nw with
      | None => None
      | Some o => if txout_eqb w o then Some (to_spk w) else None
      end
  | None, None => None
  end.

(* ---------------------------------------------------------------- operations and results *)
Inductive op :=
| AddSig (i : nat) (k s : N)                 (* inputs[i].partial_sigs.insert(k, s) *)
| AddTapKeySig (i : nat) (s : N)             (* inputs[i].tap_key_sig = Some(s) *)
| AddTapScriptSig (i : nat) (k s : N)        (* inputs[i].tap_script_sigs.insert(k, s) *)
| AddPreimage (i : nat) (hk : hkind) (h p : N)
| AddUnknown (i : nat) (k v : N)             (* inputs[i].unknown.insert(k, v) *)
| AddScripts (i : nat) (d : N)               (* scripts / taproot data of descriptor d written directly, no key origins *)
| AddDeriv (i : nat) (k v : N)               (* inputs[i].bip32_derivation.insert(k, v) *)
| AddTapOrigin (i : nat) (k v : N)           (* inputs[i].tap_key_origins.insert(k, v) *)
| Update (i : nat) (d : N)                   (* update_input_with_descriptor(i, d) *)
| Finalize (mall : bool)                     (* PsbtExt::finalize_mut / finalize_mall_mut (and by-value forms) *)
| FinalizeOld (mall : bool)                  (* psbt::finalize / psbt::finalize_mall *)
| FinalizeInp (i : nat) (mall : bool)        (* finalize_inp_mut / finalize_inp_mall_mut (and by-value forms) *)
| Extract.

(* a failure carries the index the code puts into Error::InputError: `prevouts(psbt)?` inside
   finalize_input_helper blames the FIRST input whose utxo cannot be found, not the input
   being finalized *)
Inductive tryres := TOk (s w : N) | TErr (i : nat) (e : N).

Inductive result :=
| ROk
| RBadIndex                                  (* an Add op aimed at a missing input: not executed *)
| RFinErrs (es : list (nat * N))             (* Err(vec![Error::InputError(e, i), ..]) *)
| RInputErr (i : nat) (e : N)                (* Err(Error::InputError(e, i)) *)
| RWrongInputCount
| RIdxOob                                    (* Error::InputIdxOutofBounds *)
| RUpd (e : N)                               (* UtxoUpdateError class *)
| RExtracted (l : list (option N * option N))
| RPanic (site : N).

(* error classes fixed by the model (the harness uses the same numbering; classes of
   try_input / interp_check errors are >= 10 and passed through untouched) *)
Definition e_missing_witness : N := 1.
Definition e_nonstd_sighash : N := 2.
Definition e_wrong_sighash_flag : N := 3.
Definition e_interp_nonstd_sighash : N := 4.
Definition e_missing_utxo : N := 22.
Definition u_oob : N := 1.
Definition u_missing_input : N := 2.
Definition u_utxocheck : N := 3.
Definition u_mismatch : N := 4.
Definition flag_all : N := 1.

Definition is_some {A : Type} (o : option A) : bool := match o with Some _ => true | None => false end.

(* `if script_sig.is_empty() { None } else { Some(script_sig) }` *)
Definition nz (x : N) : option N := if (x =? 0)%N then None else Some x.

Definition is_final (a : pinput) : bool := is_some (i_fsig a) || is_some (i_fwit a).

(* finalizer.rs get_utxo (since /repo 55036e60): when the previous transaction is present it,
   not witness_utxo, says which output is spent - it must be the transaction the outpoint names
   and have that output; witness_utxo is used only when no non_witness_utxo is present.
   None = InputError::MissingUtxo.  get_scriptpubkey, prevouts, sighash_msg go through it. *)
Definition get_utxo (a : pinput) : option txout :=
  match i_nwutxo a with
  | Some nw => if nw_txid_ok nw then nw_out nw else None
  | None => i_wutxo a
  end.

(* finalize_input's mutation: mem::take, then restore the two utxo fields and set the finals *)
(* finalize_input's mutation: mem::take, then restore the two utxo fields and the unknown
   key-value pairs (BIP174: "All other data except the UTXO and unknown fields ... should be
   cleared"), and set the finals *)
Definition cleared (a : pinput) (s w : N) : pinput :=
  mkIn (i_nwutxo a) (i_wutxo a) [] None None None [] (nz s) (nz w) [] [] [] [] None [] [] [] None None []
       (i_unknown a).

Section Model.
  Variable try_input : psbt -> nat -> bool -> tryres.
  Variable interp_check : psbt -> option (nat * N).
  Variable desc_info : N -> dinfo.
  Variable sig_flag : N -> option N.
  Variable sighash_ecdsa : N -> option N.
  Variable inp_mall : bool -> bool.

  (* ---- mod.rs sanity_check *)
  Fixpoint sanity_sigs (target : N) (sigs : amap) : option N :=
    match sigs with
    | [] => None
    | (_, s) :: r =>
        match sig_flag s with
        | None => Some e_interp_nonstd_sighash
        | Some f => if (target =? f)%N then sanity_sigs target r else Some e_wrong_sighash_flag
        end
    end.

  Definition sanity_input (a : pinput) : option N :=
    match i_sighash a with
    | Some t =>
        match sighash_ecdsa t with
        | None => Some e_nonstd_sighash
        | Some f => sanity_sigs f (i_psigs a)
        end
    | None => sanity_sigs flag_all (i_psigs a)
    end.

  Fixpoint sanity_inputs (i : nat) (l : list pinput) : option (nat * N) :=
    match l with
    | [] => None
    | a :: r => match sanity_input a with Some e => Some (i, e) | None => sanity_inputs (S i) r end
    end.

  Definition sanity_check (st : psbt) : option result :=
    if negb (p_ntx st =? length (p_inputs st)) then Some RWrongInputCount
    else match sanity_inputs 0 (p_inputs st) with
         | Some (i, e) => Some (RInputErr i e)
         | None => None
         end.

  (* ---- finalizer.rs finalize_input *)
  Inductive fres := FOk (st : psbt) | FErr (i : nat) (e : N) | FPanic.

  Definition finalize_input (st : psbt) (i : nat) (mall : bool) : fres :=
    match nth_error (p_inputs st) i with
    | None => FPanic                                   (* psbt.inputs[index] *)
    | Some a =>
        if is_final a then FOk st                      (* "Preserve previously finalized inputs" *)
        else match get_utxo a with
             | None => FErr i e_missing_utxo           (* get_scriptpubkey(psbt, index) *)
             | Some _ =>
                 match try_input st i mall with
                 | TErr k e => FErr k e                (* `?` before any mutation *)
                 | TOk s w => FOk (with_inputs st (set_nth i (cleared a s w) (p_inputs st)))
                 end
             end
    end.

  (* ---- mod.rs finalize_mut / finalize_mall_mut: every input is tried, errors collected *)
  Fixpoint fin_mut_loop (mall : bool) (idxs : list nat) (st : psbt) (errs : list (nat * N))
    : psbt * list (nat * N) * bool :=
    match idxs with
    | [] => (st, errs, false)
    | i :: r =>
        match finalize_input st i mall with
        | FOk st' => fin_mut_loop mall r st' errs
        | FErr k e => fin_mut_loop mall r st (errs ++ [(k, e)])   (* the error's own index *)
        | FPanic => (st, errs, true)
        end
    end.

  Definition finalize_mut (st : psbt) (mall : bool) : psbt * result :=
    match fin_mut_loop mall (seq 0 (length (p_inputs st))) st [] with
    | (st', _, true) => (st', RPanic 1)
    | (st', [], false) => (st', ROk)
    | (st', es, false) => (st', RFinErrs es)
    end.

  (* ---- finalizer.rs finalize_helper: sanity_check, then stop at the first failing input *)
  Fixpoint fin_old_loop (mall : bool) (idxs : list nat) (st : psbt) : psbt * result :=
    match idxs with
    | [] => (st, ROk)
    | i :: r =>
        match finalize_input st i mall with
        | FOk st' => fin_old_loop mall r st'
        | FErr k e => (st, RInputErr k e)
        | FPanic => (st, RPanic 1)
        end
    end.

  Definition finalize_old (st : psbt) (mall : bool) : psbt * result :=
    match sanity_check st with
    | Some r => (st, r)
    | None => fin_old_loop mall (seq 0 (length (p_inputs st))) st
    end.

  (* ---- mod.rs finalize_inp_mut / finalize_inp_mall_mut *)
  Definition finalize_inp (st : psbt) (i : nat) (mall : bool) : psbt * result :=
    if length (p_inputs st) <=? i then (st, RIdxOob)
    else match finalize_input st i (inp_mall mall) with
         | FOk st' => (st', ROk)
         | FErr k e => (st, RInputErr k e)
         | FPanic => (st, RPanic 1)
         end.

  (* ---- mod.rs extract (takes &self) *)
  Fixpoint first_nonfinal (i : nat) (l : list pinput) : option nat :=
    match l with
    | [] => None
    | a :: r => if is_final a then first_nonfinal (S i) r else Some i
    end.

  Definition finals (st : psbt) : list (option N * option N) :=
    map (fun a => (i_fsig a, i_fwit a)) (p_inputs st).

  Definition extract (st : psbt) : result :=
    match sanity_check st with
    | Some r => r
    | None =>
        match first_nonfinal 0 (p_inputs st) with
        | Some n => RInputErr n e_missing_witness
        | None =>
            match interp_check st with
            | Some (i, e) => RInputErr i e
            | None => RExtracted (finals st)
            end
        end
    end.

  (* ---- mod.rs update_input_with_descriptor *)
  Definition update_input (st : psbt) (i : nat) (d : N) : psbt * result :=
    match nth_error (p_inputs st) i with
    | None => (st, RUpd u_oob)
    | Some a =>
        if p_ntx st <=? i then (st, RUpd u_missing_input)
        else
          let di := desc_info d in
          if match i_nwutxo a with Some nw => negb (nw_txid_ok nw) | None => false end
          then (st, RUpd u_utxocheck)
          else match expected_spk a (d_segwit di) with
               | None => (st, RUpd u_utxocheck)
               | Some spk =>
                   if negb (spk =? d_spk di)%N then (st, RUpd u_mismatch)   (* before any mutation *)
                   else (with_inputs st (set_nth i (apply_update a di) (p_inputs st)), ROk)
               end
    end.

  (* ---- the signer/updater roles played by the harness: direct field writes *)
  Definition on_input (st : psbt) (i : nat) (f : pinput -> pinput) : psbt * result :=
    match nth_error (p_inputs st) i with
    | None => (st, RBadIndex)
    | Some a => (with_inputs st (set_nth i (f a) (p_inputs st)), ROk)
    end.

  Definition step (st : psbt) (o : op) : psbt * result :=
    match o with
    | AddSig i k s => on_input st i (fun a => set_psigs a (ins k s (i_psigs a)))
    | AddTapKeySig i s => on_input st i (fun a => set_tapkeysig a (Some s))
    | AddTapScriptSig i k s => on_input st i (fun a => set_tapsigs a (ins k s (i_tapsigs a)))
    | AddPreimage i hk h p => on_input st i (fun a => add_preimage a hk h p)
    | AddUnknown i k v => on_input st i (fun a => set_unknown a (ins k v (i_unknown a)))
    | AddScripts i d => on_input st i (fun a => apply_update a (strip_origins (desc_info d)))
    | AddDeriv i k v => on_input st i (fun a => set_bip32 a (ins k v (i_bip32 a)))
    | AddTapOrigin i k v => on_input st i (fun a => set_taporigins a (ins k v (i_taporigins a)))
    | Update i d => update_input st i d
    | Finalize mall => finalize_mut st mall
    | FinalizeOld mall => finalize_old st mall
    | FinalizeInp i mall => finalize_inp st i mall
    | Extract => (st, extract st)
    end.

  Definition run (ops : list op) (st : psbt) : psbt := fold_left (fun s o => fst (step s o)) ops st.

  Fixpoint trace (ops : list op) (st : psbt) : list (result * psbt) :=
    match ops with
    | [] => []
    | o :: r => let '(st', res) := step st o in (res, st') :: trace r st'
    end.
End Model.

(* ---------------------------------------------------------------- decidable equality (for the tie) *)
Definition opt_eqb {A : Type} (f : A -> A -> bool) (a b : option A) : bool :=
  match a, b with Some x, Some y => f x y | None, None => true | _, _ => false end.
Fixpoint list_eqb {A : Type} (f : A -> A -> bool) (a b : list A) : bool :=
  match a, b with [], [] => true | x :: r, y :: s => f x y && list_eqb f r s | _, _ => false end.
Definition pairN_eqb (a b : N * N) : bool := (fst a =? fst b)%N && (snd a =? snd b)%N.
Definition amap_eqb : amap -> amap -> bool := list_eqb pairN_eqb.
Definition nw_eqb (a b : nwutxo) : bool :=
  (nw_id a =? nw_id b)%N && Bool.eqb (nw_txid_ok a) (nw_txid_ok b) && opt_eqb txout_eqb (nw_out a) (nw_out b).
Definition pinput_eqb (a b : pinput) : bool :=
  opt_eqb nw_eqb (i_nwutxo a) (i_nwutxo b) && opt_eqb txout_eqb (i_wutxo a) (i_wutxo b)
  && amap_eqb (i_psigs a) (i_psigs b) && opt_eqb N.eqb (i_sighash a) (i_sighash b)
  && opt_eqb N.eqb (i_redeem a) (i_redeem b) && opt_eqb N.eqb (i_witscript a) (i_witscript b)
  && amap_eqb (i_bip32 a) (i_bip32 b) && opt_eqb N.eqb (i_fsig a) (i_fsig b) && opt_eqb N.eqb (i_fwit a) (i_fwit b)
  && amap_eqb (i_ripemd a) (i_ripemd b) && amap_eqb (i_sha256 a) (i_sha256 b)
  && amap_eqb (i_hash160 a) (i_hash160 b) && amap_eqb (i_hash256 a) (i_hash256 b)
  && opt_eqb N.eqb (i_tapkeysig a) (i_tapkeysig b) && amap_eqb (i_tapsigs a) (i_tapsigs b)
  && amap_eqb (i_tapscripts a) (i_tapscripts b) && amap_eqb (i_taporigins a) (i_taporigins b)
  && opt_eqb N.eqb (i_tapik a) (i_tapik b) && opt_eqb N.eqb (i_tapmerkle a) (i_tapmerkle b)
  && amap_eqb (i_prop a) (i_prop b) && amap_eqb (i_unknown a) (i_unknown b).
Definition psbt_eqb (a b : psbt) : bool :=
  (p_tx a =? p_tx b)%N && (p_ntx a =? p_ntx b) && list_eqb pinput_eqb (p_inputs a) (p_inputs b).
Definition natN_eqb (a b : nat * N) : bool := (fst a =? fst b) && (snd a =? snd b)%N.
Definition result_eqb (a b : result) : bool :=
  match a, b with
  | ROk, ROk | RBadIndex, RBadIndex | RWrongInputCount, RWrongInputCount | RIdxOob, RIdxOob => true
  | RFinErrs x, RFinErrs y => list_eqb natN_eqb x y
  | RInputErr i e, RInputErr j f => (i =? j) && (e =? f)%N
  | RUpd e, RUpd f => (e =? f)%N
  | RExtracted x, RExtracted y =>
      list_eqb (fun p q => opt_eqb N.eqb (fst p) (fst q) && opt_eqb N.eqb (snd p) (snd q)) x y
  | RPanic x, RPanic y => (x =? y)%N
  | _, _ => false
  end.
