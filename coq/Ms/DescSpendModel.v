(* Model of what the output-type wrappers do with a satisfaction (C01, descriptor level):
     src/util.rs                witness_to_scriptsig
     src/descriptor/bare.rs     Bare::get_satisfaction(_mall):  scriptSig = witness_to_scriptsig(items), witness = []
     src/descriptor/sh.rs       Sh::get_satisfaction(_mall):    ShInner::Ms: items.push(script);
                                                                scriptSig = witness_to_scriptsig(items), witness = [];
                                                                ShInner::Wsh: (wsh witness, unsigned_script_sig())
     src/descriptor/segwitv0.rs Wsh::get_satisfaction(_mall):   witness = items ++ [script], scriptSig = []
     src/descriptor/tr/mod.rs   script path:                    witness = items ++ [leaf script; control block]
   and the scriptPubKey of each output type, REUSING the builder-level functions of the C16 model
   (Ms/DescWrapModel.v: to_p2wsh, to_p2sh, new_witness_program, push_slice; hashes are those of [env]).
   No proofs in this file. *)
From Verif Require Export Spend Ast.
From Verif Require DescWrapModel.
Local Open Scope N_scope.

(* One iteration of the loop of witness_to_scriptsig.
     if let Ok(n) = script::read_scriptint(wit) { b.push_int(n) }     (<= 4 bytes and minimally encoded)
     else { assert!(wit.len() < 73) resp. assert!(wit.len() <= 520) for the last item; b.push_slice(wit) }
   [None] = the assert fires (a panic: nothing is returned). *)
Definition scriptsig_instr (last : bool) (wit : bytes) : option instr :=
  match num_operand 4 wit with
  | Some n => Some (push_int n)
  | None =>
    if (if last then N.leb (blen wit) 520 else N.ltb (blen wit) 73) then Some (IPush wit) else None
  end.

Fixpoint witness_to_scriptsig (witness : list bytes) : option script :=
  match witness with
  | [] => Some []
  | wit :: r =>
    match scriptsig_instr (match r with [] => true | _ => false end) wit with
    | None => None
    | Some i => match witness_to_scriptsig r with Some s => Some (i :: s) | None => None end
    end
  end.

(* scriptPubKeys (Descriptor::script_pubkey of the C16 model, specialised to one script) *)
Definition spk_wsh (e : env) (sb : bytes) : bytes := DescWrapModel.to_p2wsh (e_sha256 e) sb.
Definition spk_sh (e : env) (rb : bytes) : bytes := DescWrapModel.to_p2sh (e_hash160 e) rb.
Definition spk_shwsh (e : env) (sb : bytes) : bytes := spk_sh e (spk_wsh e sb).
Definition spk_bare (sb : bytes) : bytes := sb.
Definition spk_tr (outkey : bytes) : bytes :=
  DescWrapModel.new_witness_program DescWrapModel.OP_1 outkey.
Definition spk_wpkh (e : env) (k : bytes) : bytes :=
  DescWrapModel.new_witness_program DescWrapModel.OP_0 (e_hash160 e k).
Definition spk_shwpkh (e : env) (k : bytes) : bytes := spk_sh e (spk_wpkh e k).

(* Sh::unsigned_script_sig for sh(wsh(..)) / sh(wpkh(..)): the push of the witness program *)
Definition ssig_shwsh (e : env) (sb : bytes) : bytes := DescWrapModel.push_slice (spk_wsh e sb).
Definition ssig_shwpkh (e : env) (k : bytes) : bytes := DescWrapModel.push_slice (spk_wpkh e k).

(* the control block never starts with the annex tag 0x50 (its first byte is leaf version | parity) *)
Definition not_annex (cb : bytes) : Prop := match cb with 80 :: _ => False | _ => True end.

(* ---- key-only types built without witness_to_scriptsig ----
   bare.rs Pkh::get_satisfaction(_mall):
     script_sig = Builder::new().push_slice(sig.serialize()).push_key(&pk)    (push_key = push_slice of the
     33- or 65-byte serialisation); witness = []
   Pkh::script_pubkey = ScriptBuf::new_p2pkh(hash160(pk)) *)
Definition spk_pkh (e : env) (k : bytes) : bytes := DescWrapModel.new_p2pkh (e_hash160 e k).
Definition ssig_pkh (sg k : bytes) : bytes := DescWrapModel.push_slice sg ++ DescWrapModel.push_slice k.

(* tr/mod.rs best_tap_spend, key path: the stack is the single Schnorr signature for the OUTPUT key,
   scriptSig empty *)
Definition wit_tr_keypath (sg : bytes) : list bytes := [sg].
