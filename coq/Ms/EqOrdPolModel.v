(* C19 — model of `Ord` / `PartialEq` of the policy types.
   src/policy/concrete.rs: `#[derive(Clone, PartialEq, Eq, Hash)] enum Policy`, hand-written `Ord`:
       variant_name (a &'static str) first, then the contents of the two same-variant values
       (Key: the key's Ord; After/Older: cmp_by_consensus = the u32; hashes: byte order;
        And: Vec<Arc<Self>>::cmp; Or: Vec<(usize, Arc<Self>)>::cmp (odds, then policy, per element);
        Thresh: derived Ord of Threshold = k, then the Vec), `_ => unreachable!("variant_name ensures same variant")`.
   src/policy/semantic.rs: the same `Ord` without the And / Or variants (a semantic policy is a `cpol`
   without QAnd / QOr; the match arms it has are literally those below).
   Vec::cmp is lexicographic with the length as tie-break.  No proofs in this file. *)
From Coq Require Import String.
From Verif Require Export EqOrdModel.

Inductive cpol :=
| QUnsat | QTriv
| QKey (k : key) | QAfter (t : N) | QOlder (t : N)
| QSha256 (h : bytes) | QHash256 (h : bytes) | QRipemd160 (h : bytes) | QHash160 (h : bytes)
| QAnd (l : list cpol)
| QOr (l : list (N * cpol))
| QThresh (k : N) (l : list cpol).

Open Scope string_scope.
Definition vname (p : cpol) : string :=
  match p with
  | QUnsat => "unsatisfiable" | QTriv => "trivial" | QKey _ => "key" | QAfter _ => "after" | QOlder _ => "older"
  | QSha256 _ => "sha256" | QHash256 _ => "hash256" | QRipemd160 _ => "ripemd160" | QHash160 _ => "hash160"
  | QAnd _ => "and" | QOr _ => "or" | QThresh _ _ => "thresh"
  end.
Close Scope string_scope.

Section PolCmp.
  Variable kcmp : key -> key -> comparison.

  Fixpoint cpol_cmp (a b : cpol) : outcome comparison :=
    match String.compare (vname a) (vname b) with
    | Eq =>
      match a, b with
      | QUnsat, QUnsat | QTriv, QTriv => Ok Eq
      | QKey x, QKey y => Ok (kcmp x y)
      | QAfter x, QAfter y | QOlder x, QOlder y => Ok (N.compare x y)
      | QSha256 x, QSha256 y | QHash256 x, QHash256 y | QRipemd160 x, QRipemd160 y | QHash160 x, QHash160 y => Ok (bytes_cmp x y)
      | QAnd l, QAnd l' =>
        (fix go (l l' : list cpol) : outcome comparison :=
           match l, l' with
           | [], [] => Ok Eq | [], _ :: _ => Ok Lt | _ :: _, [] => Ok Gt
           | x :: r, y :: s => match cpol_cmp x y with Ok Eq => go r s | o => o end
           end) l l'
      | QOr l, QOr l' =>
        (fix go (l l' : list (N * cpol)) : outcome comparison :=
           match l, l' with
           | [], [] => Ok Eq | [], _ :: _ => Ok Lt | _ :: _, [] => Ok Gt
           | (p, x) :: r, (q, y) :: s =>
             match N.compare p q with
             | Eq => match cpol_cmp x y with Ok Eq => go r s | o => o end
             | c => Ok c
             end
           end) l l'
      | QThresh k l, QThresh k' l' =>
        match N.compare k k' with
        | Eq =>
          (fix go (l l' : list cpol) : outcome comparison :=
             match l, l' with
             | [], [] => Ok Eq | [], _ :: _ => Ok Lt | _ :: _, [] => Ok Gt
             | x :: r, y :: s => match cpol_cmp x y with Ok Eq => go r s | o => o end
             end) l l'
        | c => Ok c
        end
      | _, _ => Panic 115           (* unreachable!("variant_name ensures same variant") *)
      end
    | c => Ok c
    end.
End PolCmp.

(* derived PartialEq: structural *)
Fixpoint cpol_eqb (a b : cpol) : bool :=
  match a, b with
  | QUnsat, QUnsat | QTriv, QTriv => true
  | QKey x, QKey y | QAfter x, QAfter y | QOlder x, QOlder y => N.eqb x y
  | QSha256 x, QSha256 y | QHash256 x, QHash256 y | QRipemd160 x, QRipemd160 y | QHash160 x, QHash160 y => bytes_eqb x y
  | QAnd l, QAnd l' =>
    (fix go (l l' : list cpol) : bool :=
       match l, l' with [], [] => true | x :: r, y :: s => cpol_eqb x y && go r s | _, _ => false end) l l'
  | QOr l, QOr l' =>
    (fix go (l l' : list (N * cpol)) : bool :=
       match l, l' with
       | [], [] => true
       | (p, x) :: r, (q, y) :: s => N.eqb p q && cpol_eqb x y && go r s
       | _, _ => false
       end) l l'
  | QThresh k l, QThresh k' l' =>
    N.eqb k k' &&
    (fix go (l l' : list cpol) : bool :=
       match l, l' with [], [] => true | x :: r, y :: s => cpol_eqb x y && go r s | _, _ => false end) l l'
  | _, _ => false
  end.

(* a semantic policy: no And / Or *)
Fixpoint is_semantic (p : cpol) : bool :=
  match p with
  | QAnd _ | QOr _ => false
  | QThresh _ l => (fix go (l : list cpol) : bool := match l with [] => true | x :: r => is_semantic x && go r end) l
  | _ => true
  end.
