(* Model of src/descriptor/checksum.rs (CHAR_MAP, Engine, verify_checksum) together with the
   part of bech32-0.11.1 it instantiates (primitives::checksum::Engine<DescriptorChecksum>,
   PackedFe32 for u64, Fe32::to_char).  Written in the order the Rust code does things; every
   index / `expect` / subtraction is an explicit [Panic] outcome.  Strings are byte lists
   (Rust `&str` is UTF-8: every byte of a non-ASCII character is >= 128, so the first byte
   that is outside 32..127 is at the byte position `char_indices` reports).
   No proofs in this file. *)
From Coq Require Export List Bool NArith.
Export ListNotations.
Local Open Scope N_scope.

Definition bytes := list N.

Inductive ck_err :=
| InvalidCharacter (pos : N)
| InvalidChecksumLength (actual : N)
| InvalidChecksum.

Inductive outcome (E A : Type) := Ok (a : A) | Err (e : E) | Panic (site : N).
Arguments Ok {E A} a. Arguments Err {E A} e. Arguments Panic {E A} site.

Definition CHECKSUM_LENGTH : N := 8.

(* const CHAR_MAP: [u8; 95] — starts at 32 (space), runs to 126 (tilde) *)
Definition CHAR_MAP : list N :=
  [94; 59; 92; 91; 28; 29; 50; 15; 10; 11; 17; 51; 14; 52; 53; 16;
    0;  1;  2;  3;  4;  5;  6;  7;  8;  9; 27; 54; 55; 56; 57; 58;
   26; 82; 83; 84; 85; 86; 87; 88; 89; 32; 33; 34; 35; 36; 37; 38;
   39; 40; 41; 42; 43; 44; 45; 46; 47; 48; 49; 12; 93; 13; 60; 61;
   90; 18; 19; 20; 21; 22; 23; 24; 25; 64; 65; 66; 67; 68; 69; 70;
   71; 72; 73; 74; 75; 76; 77; 78; 79; 80; 81; 30; 62; 31; 63].

(* const GEN: [u64; 5] *)
Definition GEN : list N :=
  [0xf5dee51989; 0xa9fdca3312; 0x1bab10e32d; 0x3706b1677a; 0x644d626ffd].

(* bech32 gf32.rs CHARS_LOWER: "qpzry9x8gf2tvdw0s3jn54khce6mua7l" as ASCII codes *)
Definition CHARS_LOWER : list N :=
  [113; 112; 122; 114; 121;  57; 120;  56;
   103; 102;  50; 116; 118; 100; 119;  48;
   115;  51; 106; 110;  53;  52; 107; 104;
    99; 101;  54; 109; 117;  97;  55; 108].

Definition HASH : N := 35.   (* '#' *)

(* ---- u64 as PackedFe32 (bech32 primitives/checksum.rs, impl_packed_fe32!(u64)) ---- *)
Definition U64MASK : N := 0xffffffffffffffff.
Definition u64 (x : N) : N := N.land x U64MASK.

(* unpack: shift self right by n * 5, cast to u8, mask with 0x1f *)
Definition unpack (r n : N) : N := N.land (N.land (N.shiftr r (n * 5)) 0xff) 0x1f.

(* ret = unpack(degree-1); *self &= !(0x1f << ((degree-1)*5)); *self <<= 5; *self |= add *)
Definition mul_by_x_then_add (r degree add : N) : N * N :=
  let ret := unpack r (degree - 1) in
  let r1 := N.ldiff r (u64 (N.shiftl 0x1f ((degree - 1) * 5))) in
  let r2 := u64 (N.shiftl r1 5) in
  (N.lor r2 add, ret).

(* Engine::input_fe:  xn = residue.mul_by_x_then_add(8, e); for i in 0..5 { if xn & (1<<i) != 0 { residue ^= GEN[i] } } *)
Definition input_fe (r e : N) : N :=
  let '(r', xn) := mul_by_x_then_add r CHECKSUM_LENGTH e in
  fold_left (fun acc i => if negb (N.land xn (N.shiftl 1 i) =? 0) then N.lxor acc (nth (N.to_nat i) GEN 0) else acc)
            [0; 1; 2; 3; 4] r'.

(* Engine::input_target_residue with TARGET_RESIDUE = 1:
   for i in 0..8 { input_fe(Fe32(1u64.unpack(8 - i - 1))) } *)
Definition input_target_residue (r : N) : N :=
  fold_left (fun acc i => input_fe acc (unpack 1 (CHECKSUM_LENGTH - i - 1))) [0; 1; 2; 3; 4; 5; 6; 7] r.

(* ---- descriptor::checksum::Engine ---- *)
Record engine := mkEng { e_res : N; e_cls : N; e_cnt : N }.
Definition engine_new : engine := mkEng 1 0 0.    (* MidstateRepr::ONE *)

(* Fe32::try_from(u64).expect(..) *)
Definition fe32_expect (site x : N) : outcome ck_err N := if x <? 32 then Ok x else Panic site.

(* one iteration of the loop of input_unchecked *)
Definition input_byte (st : engine) (ch : N) : outcome ck_err engine :=
  if ch <? 32 then Panic 1                                    (* usize::from(ch) - 32 underflows *)
  else match nth_error CHAR_MAP (N.to_nat (ch - 32)) with
  | None => Panic 2                                           (* CHAR_MAP[..] out of bounds *)
  | Some pos =>
    match fe32_expect 3 (N.land pos 31) with
    | Ok fe =>
      let res := input_fe (e_res st) fe in
      let cls := e_cls st * 3 + N.shiftr pos 5 in
      let cnt := e_cnt st + 1 in
      if cnt =? 3 then
        match fe32_expect 4 cls with
        | Ok fe2 => Ok (mkEng (input_fe res fe2) 0 0)
        | Err e => Err e | Panic s => Panic s
        end
      else Ok (mkEng res cls cnt)
    | Err e => Err e | Panic s => Panic s
    end
  end.

Fixpoint input_unchecked (st : engine) (s : bytes) : outcome ck_err engine :=
  match s with
  | [] => Ok st
  | ch :: s' => match input_byte st ch with
                | Ok st' => input_unchecked st' s'
                | o => o
                end
  end.

(* first position whose character is outside 32..127 *)
Fixpoint first_invalid (pos : N) (s : bytes) : option N :=
  match s with
  | [] => None
  | ch :: s' => if (32 <=? ch) && (ch <? 127) then first_invalid (pos + 1) s' else Some pos
  end.

(* Engine::input *)
Definition engine_input (st : engine) (s : bytes) : outcome ck_err engine :=
  match first_invalid 0 s with
  | Some pos => Err (InvalidCharacter pos)
  | None => input_unchecked st s
  end.

(* Engine::checksum_chars *)
Definition checksum_chars (st : engine) : outcome ck_err bytes :=
  match (if 0 <? e_cnt st then
           match fe32_expect 5 (e_cls st) with
           | Ok fe => Ok (input_fe (e_res st) fe)
           | Err e => Err e | Panic s => Panic s
           end
         else Ok (e_res st)) with
  | Ok r0 =>
    let r := input_target_residue r0 in
    (* for checksum_ch in &mut chars { remaining -= 1; fe = residue.unpack(remaining); fe.to_char() } *)
    Ok (map (fun remaining => nth (N.to_nat (unpack r remaining)) CHARS_LOWER 0) [7; 6; 5; 4; 3; 2; 1; 0])
  | Err e => Err e | Panic s => Panic s
  end.

(* the checksum the library prints for a payload (Formatter: write_str feeds Engine::input,
   write_checksum emits '#' and checksum_chars) *)
Definition desc_checksum (s : bytes) : outcome ck_err bytes :=
  match engine_input engine_new s with
  | Ok st => checksum_chars st
  | Err e => Err e | Panic n => Panic n
  end.

(* ---- verify_checksum ---- *)
(* the scanning loop: returns Err at the first invalid character, else the last '#' position
   (initially s.len()) *)
Fixpoint scan (pos last : N) (s : bytes) : outcome ck_err N :=
  match s with
  | [] => Ok last
  | ch :: s' =>
    if negb ((32 <=? ch) && (ch <? 127)) then Err (InvalidCharacter pos)
    else if ch =? HASH then scan (pos + 1) pos s'
    else scan (pos + 1) last s'
  end.

Definition blen (s : bytes) : N := N.of_nat (length s).
Definition bytes_eqb (a b : bytes) : bool :=
  (blen a =? blen b) && forallb (fun p => fst p =? snd p) (combine a b).

Definition verify_checksum (s : bytes) : outcome ck_err bytes :=
  match scan 0 (blen s) s with
  | Ok last_hash_pos =>
    if last_hash_pos <? blen s then
      let checksum_str := skipn (N.to_nat (last_hash_pos + 1)) s in
      if negb (blen checksum_str =? CHECKSUM_LENGTH) then Err (InvalidChecksumLength (blen checksum_str))
      else
        match input_unchecked engine_new (firstn (N.to_nat last_hash_pos) s) with
        | Ok eng =>
          match checksum_chars eng with
          | Ok expected =>
            if negb (bytes_eqb expected checksum_str) then Err InvalidChecksum
            else Ok (firstn (N.to_nat last_hash_pos) s)
          | Err e => Err e | Panic n => Panic n
          end
        | Err e => Err e | Panic n => Panic n
        end
    else Ok (firstn (N.to_nat last_hash_pos) s)
  | Err e => Err e
  | Panic n => Panic n
  end.

(* ---- specification side: BIP-380 reference algorithm (descsum_polymod / descsum_create),
   transcribed from the BIP's Python, over the same byte strings ---- *)
Definition BIP380_INPUT_CHARSET : bytes :=
  (* the BIP's INPUT_CHARSET string (digits, brackets, comma, apostrophe, slash, star, a-h, ..., space)
     as ASCII codes; expression/mod.rs carries the same constant as INPUT_CHARSET *)
  [48;49;50;51;52;53;54;55;56;57;40;41;91;93;44;39;47;42;97;98;99;100;101;102;103;104;64;58;36;37;123;125;
   73;74;75;76;77;78;79;80;81;82;83;84;85;86;87;88;89;90;38;43;45;46;59;60;61;62;63;33;94;95;124;126;
   105;106;107;108;109;110;111;112;113;114;115;116;117;118;119;120;121;122;65;66;67;68;69;70;71;72;96;35;34;92;32].
Definition BIP380_CHECKSUM_CHARSET : bytes := CHARS_LOWER.   (* "qpzry9x8gf2tvdw0s3jn54khce6mua7l" *)

Fixpoint find_index (c : N) (l : bytes) (i : N) : option N :=
  match l with [] => None | x :: l' => if x =? c then Some i else find_index c l' (i + 1) end.

(* def descsum_polymod(symbols): chk = 1; for value in symbols: top = chk >> 35;
     chk = (chk & 0x7ffffffff) << 5 ^ value; for i in range(5): chk ^= GENERATOR[i] if ((top >> i) & 1) else 0 *)
Definition bip380_step (chk value : N) : N :=
  let top := N.shiftr chk 35 in
  let chk := N.lxor (N.shiftl (N.land chk 0x7ffffffff) 5) value in
  fold_left (fun acc i => if N.testbit top i then N.lxor acc (nth (N.to_nat i) GEN 0) else acc) [0; 1; 2; 3; 4] chk.
Definition bip380_polymod (symbols : list N) : N := fold_left bip380_step symbols 1.

(* def descsum_expand(s): groups = []; symbols = []; for c in s: v = INPUT_CHARSET.find(c); symbols.append(v & 31);
     groups.append(v >> 5); if len(groups) == 3: symbols.append(groups[0]*9 + groups[1]*3 + groups[2]); groups = []
   if len(groups) == 1: symbols.append(groups[0]) elif len(groups) == 2: symbols.append(groups[0]*3 + groups[1]) *)
Fixpoint bip380_expand (s : bytes) (groups : list N) : option (list N) :=
  match s with
  | [] => match groups with
          | [g0] => Some [g0]
          | [g0; g1] => Some [g0 * 3 + g1]
          | _ => Some []
          end
  | c :: s' =>
    match find_index c BIP380_INPUT_CHARSET 0 with
    | None => None
    | Some v =>
      let groups := groups ++ [N.shiftr v 5] in
      match groups with
      | [g0; g1; g2] => option_map (fun r => N.land v 31 :: (g0 * 9 + g1 * 3 + g2) :: r) (bip380_expand s' [])
      | _ => option_map (fun r => N.land v 31 :: r) (bip380_expand s' groups)
      end
    end
  end.

(* def descsum_create(s): symbols = descsum_expand(s) + [0]*8; checksum = descsum_polymod(symbols) ^ 1;
     return ''.join(CHECKSUM_CHARSET[(checksum >> (5 * (7 - i))) & 31] for i in range(8)) *)
Definition bip380_create (s : bytes) : option bytes :=
  match bip380_expand s [] with
  | None => None
  | Some symbols =>
    let checksum := N.lxor (bip380_polymod (symbols ++ [0; 0; 0; 0; 0; 0; 0; 0])) 1 in
    Some (map (fun i => nth (N.to_nat (N.land (N.shiftr checksum (5 * (7 - i))) 31)) BIP380_CHECKSUM_CHARSET 0)
              [0; 1; 2; 3; 4; 5; 6; 7])
  end.
