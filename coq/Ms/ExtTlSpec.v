(* C09, specification side of the two ExtData fields that carry no size: [tree_height] and
   [timelock_info].  Definitions only (proofs: Proofs/ExtTlProofs.v).

   * [ms_height]: the height of the AST, leaves at 0.
   * the recursion-depth checks of the code: Miniscript::from_ast compares
     `(ext.tree_height as u32) > MAX_RECURSION_DEPTH` (402, src/lib.rs), validate_non_top_level
     compares `ext.tree_height > params.max_recursive_depth` (usize).
   * lock leaves and satisfaction paths: a lock leaf is an `older`/`after` fragment, classified
     by kind (relative / absolute) and unit (height / time).  Two direct specifications of
     `contains_combination`:
       - [tl_mixes] (syntactic): two lock leaves of the same kind and different unit whose lowest
         common ancestor is a conjunction (and_v, and_b, andor's first two operands, thresh with
         k >= 2 and two different children);
       - [path_mix] (satisfying paths): [sat_paths m] enumerates, for every way of satisfying [m]
         the table of the specification knows (one operand of an or, X and Y of andor or Z, every
         choice of exactly k children of a thresh; `0` has none), the lock leaves that satisfaction
         needs; a path mixes when two of its leaves conflict. *)
From Verif Require Export ExtModel.
Local Open Scope N_scope.

(* ------------------------------------------------------------------ height *)
Fixpoint ms_height (m : ms) : N :=
  match m with
  | MAlt x | MSwap x | MCheck x | MDupIf x | MVerify x | MNonZero x | MZeroNotEqual x => 1 + ms_height x
  | MAndV x y | MAndB x y | MOrB x y | MOrD x y | MOrC x y | MOrI x y => 1 + N.max (ms_height x) (ms_height y)
  | MAndOr a b c => 1 + N.max (ms_height a) (N.max (ms_height b) (ms_height c))
  | MThresh _ xs =>
    1 + (fix go (l : list ms) : N := match l with [] => 0 | x :: r => N.max (ms_height x) (go r) end) xs
  | _ => 0
  end.

Definition MAX_RECURSION_DEPTH : N := 402.
Definition U32_MOD : N := 4294967296.
(* Miniscript::from_ast: `(res.ext.tree_height as u32) > MAX_RECURSION_DEPTH` => Err(MaxRecursiveDepthExceeded) *)
Definition from_ast_depth_ok (e : ext) : bool := negb (MAX_RECURSION_DEPTH <? tree_height e mod U32_MOD).
(* Miniscript::validate_non_top_level: `self.ext.tree_height > params.max_recursive_depth` *)
Definition validate_depth_ok (limit : N) (e : ext) : bool := negb (limit <? tree_height e).

(* every sub-fragment passed from_ast's check (a tree built bottom-up with from_ast, as the parser,
   the decoder and the compiler do) *)
Fixpoint built_by_from_ast (fx : fixes) (c : xctx) (m : ms) : bool :=
  from_ast_depth_ok (ext_of_gen fx c m) &&
  match m with
  | MAlt x | MSwap x | MCheck x | MDupIf x | MVerify x | MNonZero x | MZeroNotEqual x => built_by_from_ast fx c x
  | MAndV x y | MAndB x y | MOrB x y | MOrD x y | MOrC x y | MOrI x y =>
    built_by_from_ast fx c x && built_by_from_ast fx c y
  | MAndOr x y z => built_by_from_ast fx c x && built_by_from_ast fx c y && built_by_from_ast fx c z
  | MThresh _ xs =>
    (fix go (l : list ms) : bool := match l with [] => true | x :: r => built_by_from_ast fx c x && go r end) xs
  | _ => true
  end.

(* ------------------------------------------------------------------ lock leaves *)
Inductive lkind := LRel | LAbs.          (* older (CSV) / after (CLTV) *)
Inductive lunit := UHeight | UTime.
Definition lleaf := (lkind * lunit)%type.
Definition lkind_eqb (a b : lkind) : bool := match a, b with LRel, LRel | LAbs, LAbs => true | _, _ => false end.
Definition lunit_eqb (a b : lunit) : bool := match a, b with UHeight, UHeight | UTime, UTime => true | _, _ => false end.
Definition lleaf_eqb (a b : lleaf) : bool := lkind_eqb (fst a) (fst b) && lunit_eqb (snd a) (snd b).

(* BIP68: bit 22 of the sequence number selects 512-second units; BIP65: values from 500000000 are times *)
Definition older_leaf (t : N) : lleaf := (LRel, if rel_is_time t then UTime else UHeight).   (* Sat.rel_is_time: bit 22 *)
Definition after_leaf (t : N) : lleaf := (LAbs, if t <? 500000000 then UHeight else UTime).

(* same kind, different unit *)
Definition conflict (a b : lleaf) : bool := lkind_eqb (fst a) (fst b) && negb (lunit_eqb (snd a) (snd b)).

(* all lock leaves of the AST, left to right *)
Fixpoint lock_leaves (m : ms) : list lleaf :=
  match m with
  | MOlder t => [older_leaf t]
  | MAfter t => [after_leaf t]
  | MAlt x | MSwap x | MCheck x | MDupIf x | MVerify x | MNonZero x | MZeroNotEqual x => lock_leaves x
  | MAndV x y | MAndB x y | MOrB x y | MOrD x y | MOrC x y | MOrI x y => lock_leaves x ++ lock_leaves y
  | MAndOr a b c => lock_leaves a ++ lock_leaves b ++ lock_leaves c
  | MThresh _ xs => (fix go (l : list ms) : list lleaf := match l with [] => [] | x :: r => lock_leaves x ++ go r end) xs
  | _ => []
  end.

(* some leaf of [l1] conflicts with some leaf of [l2] *)
Definition cross_conflict (l1 l2 : list lleaf) : Prop := exists a b, In a l1 /\ In b l2 /\ conflict a b = true.

(* ------------------------------------------------------------------ syntactic specification:
   two conflicting leaves whose lowest common ancestor is a conjunction *)
Fixpoint tl_mixes (m : ms) : Prop :=
  match m with
  | MAlt x | MSwap x | MCheck x | MDupIf x | MVerify x | MNonZero x | MZeroNotEqual x => tl_mixes x
  | MAndV x y | MAndB x y => tl_mixes x \/ tl_mixes y \/ cross_conflict (lock_leaves x) (lock_leaves y)
  | MOrB x y | MOrD x y | MOrC x y | MOrI x y => tl_mixes x \/ tl_mixes y
  | MAndOr a b c => tl_mixes a \/ tl_mixes b \/ tl_mixes c \/ cross_conflict (lock_leaves a) (lock_leaves b)
  | MThresh k xs =>
    (fix go (l : list ms) : Prop := match l with [] => False | x :: r => tl_mixes x \/ go r end) xs
    \/ (1 < k /\ exists i j x y, i <> j /\ nth_error xs i = Some x /\ nth_error xs j = Some y
                                 /\ cross_conflict (lock_leaves x) (lock_leaves y))
  | _ => False
  end.

(* ------------------------------------------------------------------ satisfying paths *)
Definition pcross (a b : list (list lleaf)) : list (list lleaf) :=
  flat_map (fun p => map (fun q => p ++ q) b) a.
(* paths of a thresh: choose exactly [k] of the children (in order) and satisfy them all *)
Fixpoint choose_paths (k : nat) (ps : list (list (list lleaf))) : list (list lleaf) :=
  match ps, k with
  | _, O => [[]]
  | [], S _ => []
  | p :: r, S k' => pcross p (choose_paths k' r) ++ choose_paths k r
  end.
Fixpoint sat_paths (m : ms) : list (list lleaf) :=
  match m with
  | MFalse => []
  | MOlder t => [[older_leaf t]]
  | MAfter t => [[after_leaf t]]
  | MAlt x | MSwap x | MCheck x | MDupIf x | MVerify x | MNonZero x | MZeroNotEqual x => sat_paths x
  | MAndV x y | MAndB x y => pcross (sat_paths x) (sat_paths y)
  | MOrB x y | MOrD x y | MOrC x y | MOrI x y => sat_paths x ++ sat_paths y
  | MAndOr a b c => pcross (sat_paths a) (sat_paths b) ++ sat_paths c
  | MThresh k xs =>
    choose_paths (N.to_nat k)
      ((fix go (l : list ms) : list (list (list lleaf)) :=
          match l with [] => [] | x :: r => sat_paths x :: go r end) xs)
  | _ => [[]]
  end.
Definition path_conflict (p : list lleaf) : Prop := exists a b, In a p /\ In b p /\ conflict a b = true.
Definition path_mix (m : ms) : Prop := exists p, In p (sat_paths m) /\ path_conflict p.

(* the model's TimelockInfo of a script (does not depend on rule set or context) *)
Definition tl_of (m : ms) : tlinfo := timelock_info (ext_of_gen as_written (mkXctx false (fun _ => false) (fun _ => 34)) m).
Definition tl_flag (t : tlinfo) (l : lleaf) : bool :=
  match l with
  | (LRel, UHeight) => tl_csv_h t | (LRel, UTime) => tl_csv_t t
  | (LAbs, UHeight) => tl_cltv_h t | (LAbs, UTime) => tl_cltv_t t
  end.
