(* C07 — compiled only when LiftCasesCheck.v fails: the indices of the differing sample cases
   and worlds (tools/props/c07.py maps them back to the harness cases). *)
From Coq Require Import List NArith Bool.
Import ListNotations.
From Verif Require Import LiftModel LiftCasesDefs LiftCasesGen.

Definition bad_case_idx : list nat :=
  map fst (filter (fun ic => negb (case_ok (snd ic))) (indexed 0 lift_cases)).
Definition bad_world_idx : list nat :=
  map fst (filter (fun iw => negb (world_ok lift_pre_table lift_cases (snd iw))) (indexed 0 lift_worlds)).
Eval vm_compute in (bad_case_idx, bad_world_idx).
