(* Compiled only when cases_ok fails: the failing cases with their failed checks and a
   counter-assignment found by the truth-table oracle on the implementation's own output. *)
From Coq Require Import List NArith Bool Arith.
Import ListNotations.
From Verif Require Import PolSemantic PolConcrete PolTruth PolicyCasesDefs PolicyCasesGen.

Eval vm_compute in diagnose (map unpack_line cases_w).
