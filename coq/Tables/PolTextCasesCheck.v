(* Tie for the policy text layer: on every text of this run the real parsers (expression::Tree::from_str +
   Concrete/Semantic::from_tree, under catch_unwind) and the model give the same value or the same error class,
   the real Display of the parsed value is the model's printed text, and for every policy VALUE built with the enum
   constructors the real Display text and the real re-parse verdict are the model's.  One evaluation in the kernel. *)
From Coq Require Import List Bool NArith.
From Verif Require Import PolTextModel PolTextCasesGen PolTextCasesDefs.

Theorem poltext_cases_match_model : poltext_check = true.
Proof. vm_cast_no_check (eq_refl true). Qed.
