(* Comparison of the key-text observations (real code: DescriptorPublicKey::from_str + Display, under
   catch_unwind) with the model Ms/KeyTextModel.v.  Instance of the body parameters: an atom is the
   canonical text of the inner key (plus the BIP32 depth for an xpub) as computed by the harness with the
   `bitcoin` crate directly; the per-case table lists the candidate substrings that are valid bodies.
   Primitive integers are used for transport only (evaluated by vm_compute; no axiom is used). *)
From Coq Require Import List Bool NArith ZArith Uint63.
Import ListNotations.
From Verif Require Import KeyTextModel KeyTextCasesGen.
Local Open Scope N_scope.

Definition i2n (i : int) : N := Z.to_N (Uint63.to_Z i).

(* one byte held in a primitive integer -> N, eight steps *)
Fixpoint bits_n (k : nat) (i : int) : N :=
  match k with
  | O => 0
  | S k' => (if Uint63.eqb (Uint63.land i 1%uint63) 0%uint63 then 0 else 1) + 2 * bits_n k' (Uint63.lsr i 1%uint63)
  end.
Definition byte_at (w : int) (sh : int) : N := bits_n 8 (Uint63.land (Uint63.lsr w sh) 255%uint63).

(* byte strings travel packed: length, then little-endian words of 7 bytes *)
Definition word_bytes (w : int) : list N :=
  [byte_at w 0%uint63; byte_at w 8%uint63; byte_at w 16%uint63; byte_at w 24%uint63;
   byte_at w 32%uint63; byte_at w 40%uint63; byte_at w 48%uint63].
Definition unpack (l : list int) : tbytes :=
  match l with
  | n :: ws => firstn (N.to_nat (i2n n)) (flat_map word_bytes ws)
  | [] => []
  end.
Definition word_of (l : tbytes) : N := fold_right (fun c acc => c + 256 * acc) 0 l.
Fixpoint pack_words (fuel : nat) (b : tbytes) : list N :=
  match fuel with
  | O => []
  | S f => match b with [] => [] | _ :: _ => word_of (firstn 7 b) :: pack_words f (skipn 7 b) end
  end.
Definition pack (b : tbytes) : list N := N.of_nat (length b) :: pack_words (length b) b.

Definition kcase := (list int * list (list int * list int) * list int * list int)%type.
(* candidate text -> (kind, depth, canonical text (delayed)) *)
Definition ktable := list (tbytes * (N * N * (unit -> tbytes))).

Fixpoint kt_eqb (a b : list N) : bool :=
  match a, b with
  | [], [] => true
  | x :: a', y :: b' => (x =? y) && kt_eqb a' b'
  | _, _ => false
  end.
Fixpoint lookup (t : ktable) (c : tbytes) : option (N * N * (unit -> tbytes)) :=
  match t with
  | [] => None
  | (k, v) :: r => if kt_eqb k c then Some v else lookup r c
  end.

Definition xatom := (tbytes * N)%type.   (* canonical text, depth *)
Definition t_xpub_parse (t : ktable) (c : tbytes) : option xatom :=
  match lookup t c with Some (1, d, canon) => Some (canon tt, d) | _ => None end.
Definition t_full_parse (t : ktable) (c : tbytes) : option tbytes :=
  match lookup t c with Some (2, _, canon) => Some (canon tt) | _ => None end.
Definition t_xonly_parse (t : ktable) (c : tbytes) : option tbytes :=
  match lookup t c with Some (3, _, canon) => Some (canon tt) | _ => None end.

Definition tkey := dkey xatom tbytes tbytes.
Definition t_key_parse (t : ktable) : tbytes -> outcome key_err tkey :=
  key_parse xatom tbytes tbytes (t_xpub_parse t) snd (t_full_parse t) (t_xonly_parse t).
Definition t_key_print_out : tkey -> outcome key_err tbytes :=
  key_print_out xatom tbytes tbytes fst (fun a => a) (fun a => a).

Definition child_code (c : child) : N := match c with CNormal i => 2 * i | CHard i => 2 * i + 1 end.
Definition dump_path (p : list child) : list N := N.of_nat (length p) :: map child_code p.
Definition dump_origin (o : origin) : list N :=
  match o with None => [0] | Some (fp, p) => 1 :: fp ++ dump_path p end.
Definition dump_body (b : tbytes) : list N := pack b.
Definition wild_code (w : wildcard) : N := match w with WNone => 0 | WUnh => 1 | WHard => 2 end.
Definition dump_key (k : tkey) : list N :=
  match k with
  | KSingle o (SFull a) => 0 :: 0 :: dump_origin o ++ dump_body a
  | KSingle o (SXOnly a) => 0 :: 1 :: dump_origin o ++ dump_body a
  | KXPub o x p w => 0 :: 2 :: dump_origin o ++ dump_body (fst x) ++ dump_path p ++ [wild_code w]
  | KMulti o x ps w =>
    0 :: 3 :: dump_origin o ++ dump_body (fst x) ++ N.of_nat (length ps) :: flat_map dump_path ps ++ [wild_code w]
  end.

(* model observation: dump or error class; printed text with the model's own reparse flag *)
Definition model_obs (t : ktable) (s : tbytes) : list N * list N :=
  match t_key_parse t s with
  | Ok k =>
    (dump_key k,
     match t_key_print_out k with
     | Ok p =>
       (* the reparse of the printed text needs the body table extended with the canonical body *)
       let t' := match k with
                 | KSingle _ (SFull a) => (a, (2, 0, fun _ => a)) :: t
                 | KSingle _ (SXOnly a) => (a, (3, 0, fun _ => a)) :: t
                 | KXPub _ x _ _ | KMulti _ x _ _ => (fst x, (1, snd x, fun _ => fst x)) :: t
                 end in
       let flag := match t_key_parse t' p with
                   | Ok k' => if kt_eqb (dump_key k') (dump_key k) then 1 else 0
                   | _ => 0
                   end in
       1 :: flag :: p
     | _ => [9]
     end)
  | Err e => ([1; key_err_code e], [0])
  | Panic _ => ([2], [0])
  end.

Definition case_text (c : kcase) : tbytes := unpack (fst (fst (fst c))).
Definition case_table (c : kcase) : ktable :=
  map (fun e => (unpack (fst e),
                 match snd e with
                 | k :: d :: canon => (i2n k, i2n d, fun _ : unit => unpack canon)
                 | _ => (0, 0, fun _ : unit => [])
                 end)) (snd (fst (fst c))).
Definition case_obs (c : kcase) : list N := map i2n (snd (fst c)).
Definition case_printed (c : kcase) : list N :=
  match snd c with
  | a :: flag :: r => i2n a :: i2n flag :: unpack r
  | l => map i2n l
  end.

Definition case_ok (c : kcase) : bool :=
  let '(mo, mp) := model_obs (case_table c) (case_text c) in
  kt_eqb (case_obs c) mo && kt_eqb (case_printed c) mp &&
  (* the property itself on the implementation's own output: an accepted text prints to a text that
     reparses to an equal key *)
  match case_printed c with 1 :: flag :: _ => flag =? 1 | _ => true end.

Definition keytext_check : bool := forallb case_ok keytext_cases.

Definition keytext_diff : list (nat * tbytes * list N * list N * list N * list N) :=
  flat_map (fun t => let '(i, c) := t in
                     if case_ok c then []
                     else let '(mo, mp) := model_obs (case_table c) (case_text c) in
                          [(i, case_text c, firstn 40 (case_obs c), firstn 40 mo, case_printed c, mp)])
           (combine (seq 0 (length keytext_cases)) keytext_cases).
