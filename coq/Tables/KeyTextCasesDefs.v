(* Comparison of the key-text observations (real code: DescriptorPublicKey::from_str + Display, under
   catch_unwind) with the model Ms/KeyTextModel.v.  Instance of the body parameters: an atom is the
   canonical text of the inner key (plus the BIP32 depth for an xpub) as computed by the harness with the
   `bitcoin` crate directly; the per-case table lists the candidate substrings that are valid bodies. *)
From Coq Require Import List Bool NArith ZArith Uint63.
Import ListNotations.
From Verif Require Import KeyTextModel ChecksumTablesDefs KeyTextCasesGen.
Local Open Scope N_scope.

Definition kcase := (list int * list (list int * list int) * list int * list int)%type.
Definition ktable := list (tbytes * list N).

Fixpoint kt_eqb (a b : list N) : bool :=
  match a, b with
  | [], [] => true
  | x :: a', y :: b' => (x =? y) && kt_eqb a' b'
  | _, _ => false
  end.
Fixpoint lookup (t : ktable) (c : tbytes) : option (list N) :=
  match t with
  | [] => None
  | (k, v) :: r => if kt_eqb k c then Some v else lookup r c
  end.

Definition xatom := (tbytes * N)%type.   (* canonical text, depth *)
Definition t_xpub_parse (t : ktable) (c : tbytes) : option xatom :=
  match lookup t c with Some (1 :: d :: canon) => Some (canon, d) | _ => None end.
Definition t_full_parse (t : ktable) (c : tbytes) : option tbytes :=
  match lookup t c with Some (2 :: _ :: canon) => Some canon | _ => None end.
Definition t_xonly_parse (t : ktable) (c : tbytes) : option tbytes :=
  match lookup t c with Some (3 :: _ :: canon) => Some canon | _ => None end.

Definition tkey := dkey xatom tbytes tbytes.
Definition t_key_parse (t : ktable) : tbytes -> outcome key_err tkey :=
  key_parse xatom tbytes tbytes (t_xpub_parse t) snd (t_full_parse t) (t_xonly_parse t).
Definition t_key_print_out : tkey -> outcome key_err tbytes :=
  key_print_out xatom tbytes tbytes fst (fun a => a) (fun a => a).

Definition child_code (c : child) : N := match c with CNormal i => 2 * i | CHard i => 2 * i + 1 end.
Definition dump_path (p : list child) : list N := N.of_nat (length p) :: map child_code p.
Definition dump_origin (o : origin) : list N :=
  match o with None => [0] | Some (fp, p) => 1 :: fp ++ dump_path p end.
Definition dump_body (b : tbytes) : list N := N.of_nat (length b) :: b.
Definition wild_code (w : wildcard) : N := match w with WNone => 0 | WUnh => 1 | WHard => 2 end.
Definition dump_key (k : tkey) : list N :=
  match k with
  | KSingle o (SFull a) => 0 :: 0 :: dump_origin o ++ dump_body a
  | KSingle o (SXOnly a) => 0 :: 1 :: dump_origin o ++ dump_body a
  | KXPub o x p w => 0 :: 2 :: dump_origin o ++ dump_body (fst x) ++ dump_path p ++ [wild_code w]
  | KMulti o x ps w =>
    0 :: 3 :: dump_origin o ++ dump_body (fst x) ++ N.of_nat (length ps) :: flat_map dump_path ps ++ [wild_code w]
  end.

(* model observation: dump or error class; printed text with the model's own reparse flag *)
Definition model_obs (t : ktable) (s : tbytes) : list N * list N :=
  match t_key_parse t s with
  | Ok k =>
    (dump_key k,
     match t_key_print_out k with
     | Ok p =>
       (* the reparse of the printed text needs the body table extended with the canonical body *)
       let t' := match k with
                 | KSingle _ (SFull a) => (a, 2 :: 0 :: a) :: t
                 | KSingle _ (SXOnly a) => (a, 3 :: 0 :: a) :: t
                 | KXPub _ x _ _ | KMulti _ x _ _ => (fst x, 1 :: snd x :: fst x) :: t
                 end in
       let flag := match t_key_parse t' p with
                   | Ok k' => if kt_eqb (dump_key k') (dump_key k) then 1 else 0
                   | _ => 0
                   end in
       1 :: flag :: p
     | _ => [9]
     end)
  | Err e => ([1; key_err_code e], [0])
  | Panic _ => ([2], [0])
  end.

Definition case_text (c : kcase) : tbytes := map i2n (fst (fst (fst c))).
Definition case_table (c : kcase) : ktable :=
  map (fun e => (map i2n (fst e), map i2n (snd e))) (snd (fst (fst c))).
Definition case_obs (c : kcase) : list N := map i2n (snd (fst c)).
Definition case_printed (c : kcase) : list N := map i2n (snd c).

Definition case_ok (c : kcase) : bool :=
  let '(mo, mp) := model_obs (case_table c) (case_text c) in
  kt_eqb (case_obs c) mo && kt_eqb (case_printed c) mp &&
  (* the property itself on the implementation's own output: an accepted text prints to a text that
     reparses to an equal key *)
  match case_printed c with 1 :: flag :: _ => flag =? 1 | _ => true end.

Definition keytext_check : bool := forallb case_ok keytext_cases.

Definition keytext_diff : list (nat * tbytes * list N * list N * list N * list N) :=
  flat_map (fun t => let '(i, c) := t in
                     if case_ok c then []
                     else let '(mo, mp) := model_obs (case_table c) (case_text c) in
                          [(i, case_text c, firstn 40 (case_obs c), firstn 40 mo, case_printed c, mp)])
           (combine (seq 0 (length keytext_cases)) keytext_cases).
