(* compiled only when PolTextCasesCheck.v fails: lists the differing cases *)
From Coq Require Import List Bool NArith.
From Verif Require Import PolTextModel PolTextCasesGen PolTextCasesDefs.
Eval vm_compute in (firstn 12 poltext_diff).
Eval vm_compute in (firstn 12 poltext_cval_diff).
Eval vm_compute in (firstn 12 poltext_sval_diff).
