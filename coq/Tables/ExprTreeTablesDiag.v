(* Compiled only when ExprTreeTablesCheck.v fails: the first differing cases as
   (index, input bytes, implementation observation (first 12 numbers), model observation). *)
From Coq Require Import List Bool NArith.
From Verif Require Import ExprTreeModel ExprTreeTablesGen ExprTreeTablesDefs.
Eval vm_compute in (firstn 5 tree_diff).
