(* C16 tie, re-checked on every run against the regenerated facts: the model's functions,
   with the abstract hashes / taproot commitment / BIP32 derivation instantiated by the
   harness's finite tables, reproduce byte for byte what the implementation returned
   (script_pubkey, explicit_script, unsigned_script_sig, script_code of every exported
   definite descriptor; the keys or the error class of at_derivation_index and the
   script_pubkey of the derived descriptor; into_single_descriptors;
   find_derivation_index_for_spk over 0..8; the key-path parser: parsed key or error kind, and
   print (parse text) = text).  DescCasesDiag.v locates differences. *)
From Coq Require Import List NArith.
Import ListNotations.
From Verif Require Import DescWrapModel DescCasesDefs DescPoolGen DescTablesGen DescScriptCasesGen DescKeyCasesGen DescSplitCasesGen DescCasesRun.

Theorem desc_cases_match_model :
  (failing_scripts, failing_keys, failing_splits, failing_finds, failing_parses) = ([], [], [], [], []).
Proof. vm_cast_no_check (@eq_refl _ (@nil (N * N), @nil (N * N), @nil (N * N), @nil (N * N), @nil (N * N))). Qed.
