(* C20 tie (extension), re-checked on every run: translate_pk with NON-identity hash translators on this run's
   miniscripts / descriptors, and translate_pk / keys / for_each_key / for_any_key on this run's concrete and semantic
   policies (Tables/TranslateHashCasesGen.v, generated): results, errors and translator call logs of the compiled library
   equal those of the models (translate_iter_h and translate_h, translate_desc_h, ptranslate_iter and ptranslate,
   pkeys, pfor_each_key, pfor_any_key), evaluated by the kernel. *)
From Verif Require Import TranslateHashRun TranslateCasesGen TranslateHashCasesGen.

Theorem hash_cases_match_model : forallb hdom_ok hdoms = true.
Proof. vm_compute. reflexivity. Qed.

Theorem descriptor_hash_cases_match_model : forallb hddom_ok hddoms = true.
Proof. vm_compute. reflexivity. Qed.

Theorem policy_cases_match_model : forallb pdom_ok pdoms = true.
Proof. vm_compute. reflexivity. Qed.
