(* Compiled only when KeyTextCasesCheck.v fails: the first differing cases as (index, text,
   implementation observation (first 40 numbers), model observation, printed by the implementation
   ([1; reparse flag; text]), printed by the model). *)
From Coq Require Import List Bool NArith.
From Verif Require Import KeyTextModel KeyTextCasesGen KeyTextCasesDefs.
Eval vm_compute in (firstn 6 keytext_diff).
