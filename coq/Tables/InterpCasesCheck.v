(* C13: the sampled cases of this run (Tables/InterpCasesGen.v, generated) evaluated by the
   kernel's evaluator: indices of the cases on which the model (iterative and recursive form)
   differs from the implementation's observation.  Expected output: [= [] : list N]. *)
From Verif Require Import InterpCasesDefs InterpCasesGen.
Eval vm_compute in (failing icases).
