(* Tie for the miniscript text layer: on every text of this run, the real parser
   (expression::Tree::from_str + Miniscript::from_tree, four contexts, under catch_unwind) and the
   model (from_str_inner + MsTextModel.from_tree) give the same AST or the same error class, and the
   real Display of the parsed object is the model's [print (to_tree m)].  One evaluation in the kernel. *)
From Coq Require Import List Bool NArith.
From Verif Require Import MsTextModel MsTextCasesGen MsTextCasesDefs.

Theorem mstext_cases_match_model : mstext_check = true.
Proof. vm_cast_no_check (eq_refl true). Qed.
