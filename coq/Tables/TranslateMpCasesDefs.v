(* C20 (extension round 2): the descriptors and the instantiation of the model for the `translate-mp` engine
   (harness/src/translate_mp.rs, same order as its CASES and its pool of target kinds). *)
From Coq Require Import List NArith Bool.
From Verif Require Import TranslateMpModel.
Import ListNotations.
Local Open Scope N_scope.

(* placeholders A B C = keys 0 1 2 *)
Definition mp_descs : list desc :=
  [ DWsh (MAndV (MVerify (MCheck (MPkK 0))) (MCheck (MPkK 1)));
    DWsh (MMulti 2 [0; 1; 2]);
    DWsh (MOrD (MCheck (MPkK 0)) (MAndV (MVerify (MCheck (MPkH 1))) (MOlder 5)));
    DShWsh (MOrD (MCheck (MPkK 0)) (MCheck (MPkK 1)));
    DSh (MAndV (MVerify (MCheck (MPkK 0))) (MCheck (MPkK 1)));
    DSh (MMulti 1 [0; 1]);
    DShWpkh 0; DWpkh 0; DPkh 0;
    DBare (MCheck (MPkK 0));
    DTr 0 [];
    DTr 0 [(0, MCheck (MPkK 1))];
    DTr 0 [(0, MAndV (MVerify (MCheck (MPkK 1))) (MCheck (MPkK 2)))];
    DTr 0 [(1, MCheck (MPkK 1)); (1, MCheck (MPkK 2))];
    DTr 0 [(0, MMultiA 2 [1; 2])] ].

(* target kinds: 0 mp2a  1 mp2b  2 mp3  3 mp3b  4 xpub  5 compressed  6 uncompressed  7 x-only  8 the mapping fails;
   the target key of placeholder i under kind c is 16 * (i + 1) + c *)
Definition kind_kk (c : N) : kkind := if c =? 6 then KUncompressed else if c =? 7 then KXOnly else KCompressed.
Definition kind_np (c : N) : N := if c <=? 1 then 2 else if c <=? 3 then 3 else if c =? 4 then 1 else 0.
Definition mp_kk (k : key) : kkind := kind_kk (k mod 16).
Definition mp_np (k : key) : N := kind_np (k mod 16).
Definition mp_fp (kinds : list N) (k : key) : option key :=
  match nth_error kinds (N.to_nat k) with
  | Some c => if c =? 8 then None else Some (16 * (k + 1) + c)
  | None => None
  end.
Definition mp_chk (c : ctx) : ms -> option cerr := from_ast_chk c mp_kk (fun _ => None) (fun _ => None).

(* result classes: 0 ok, 1 TranslatorErr, 2 OuterError(uncompressed), 3 OuterError(x-only), 4 OuterError(MultipathDescLenMismatch) *)
Definition model_code (d : desc) (kinds : list N) : N :=
  match translate_desc_mp (fun _ => mp_fp kinds) (fun _ _ h => Some h) mp_chk mp_kk mp_np d with
  | MpOk _ => 0
  | MpErr (MpT (TranslatorErr _)) => 1
  | MpErr (MpT (OuterErr CUncompressed)) => 2
  | MpErr (MpT (OuterErr CXOnly)) => 3
  | MpErr MpLenMismatch => 4
  | _ => 9
  end.

Definition case_code (c : N * list N * N) : N :=
  let '(i, kinds, _) := c in
  match nth_error mp_descs (N.to_nat i) with Some d => model_code d kinds | None => 99 end.
Definition case_ok (c : N * list N * N) : bool := case_code c =? snd c.
