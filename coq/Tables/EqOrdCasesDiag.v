(* Compiled only when EqOrdCasesCheck.v fails: locate the differing cases.
   Output (the descriptor / policy / hash parts are lists over the key types: DefiniteDescriptorKey, dpk, str): per domain (in the order of `doms`) the failing pairs
   (i, j, impl (==,cmp,hash), model, structurally equal),
   the ids whose recorded hash stream differs from hash_raw, pairs whose dump/term identity is off,
   the failing descriptor pairs (i, j, impl (==,cmp), model),
   the failing descriptor pairs under a history (i, j, left warmed, right warmed),
   and per policy domain (concrete, semantic) the failing pairs (i, j, impl (==,cmp), model),
   and hashdom_diag (ids of descriptor / warmed-descriptor streams, descriptor hash pairs, policy streams, policy hash pairs
   that differ from desc_feed / cpol_feed). *)
From Verif Require Import EqOrdRun EqOrdDescRun EqOrdPolRun EqOrdHashModel EqOrdCasesGen.

Eval vm_compute in (map dom_diag doms, map dom_stream_diag doms, map dom_spec_diag doms, map deqdom_diag ddoms, map deqdom_wdiag ddoms, map poldom_diag poldoms, map hashdom_diag hashdoms).
