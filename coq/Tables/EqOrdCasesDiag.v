(* Compiled only when EqOrdCasesCheck.v fails: locate the differing cases.
   Output: per domain (in the order of `doms`) the failing pairs
   (i, j, impl (==,cmp,hash), model, structurally equal),
   the ids whose recorded hash stream differs from hash_raw, pairs whose dump/term identity is off,
   the failing descriptor pairs (i, j, impl (==,cmp), model),
   the failing descriptor pairs under a history (i, j, left warmed, right warmed),
   and per policy domain (concrete, semantic) the failing pairs (i, j, impl (==,cmp), model),
   and hashdom_diag (ids of descriptor / warmed-descriptor streams, descriptor hash pairs, policy streams, policy hash pairs
   that differ from desc_feed / cpol_feed). *)
From Verif Require Import EqOrdRun EqOrdDescRun EqOrdPolRun EqOrdHashModel EqOrdCasesGen.

Eval vm_compute in (map dom_diag doms, map dom_stream_diag doms, map dom_spec_diag doms, deqdom_diag ddom_eq, deqdom_wdiag ddom_eq, map poldom_diag poldoms, hashdom_diag hashdom_run).
