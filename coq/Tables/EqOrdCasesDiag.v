(* Compiled only when EqOrdCasesCheck.v fails: locate the differing cases.
   Output: per domain (in the order of `doms`) the failing pairs
   (i, j, impl (==,cmp,hash), model as coded, model repaired, structurally equal),
   the ids whose recorded hash stream differs from hash_raw, and pairs whose dump/term identity is off. *)
From Verif Require Import EqOrdRun EqOrdCasesGen.

Eval vm_compute in (map dom_diag doms, map dom_stream_diag doms, map dom_spec_diag doms).
