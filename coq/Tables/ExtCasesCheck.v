(* C09 tie, compared inside Coq: the implementation's answers recorded in ExtCasesGen.v (this
   run) equal the model's on every case. Compilation fails when they do not (then c09.py
   compiles ExtCasesDiag.v to locate the cases). *)
From Verif Require Import ExtCasesDefs ExtCasesGen.
From Verif Require Import ExtTlConv.
Local Open Scope N_scope.

Lemma rule_cases_match_model : rule_bad rule_cases = [].
Proof. vm_compute. reflexivity. Qed.

Lemma tree_cases_match_model : forallb tcase_ok tree_cases = true.
Proof. vm_compute. reflexivity. Qed.

Lemma desc_cases_match_model : forallb dcase_ok desc_cases = true.
Proof. vm_compute. reflexivity. Qed.

Lemma plan_cases_match_model : forallb pcase_ok plan_cases = true.
Proof. vm_compute. reflexivity. Qed.

Lemma limit_cases_match_model : forallb vcase_ok limit_cases = true.
Proof. vm_compute. reflexivity. Qed.

(* the recursion-depth checks: from_ast accepts an `n:` chain exactly when the model's bottom-up check does
   (with the height the model computes), validate_non_top_level's depth verdicts equal validate_depth_ok *)
Lemma depth_cases_match_model : forallb hcase_ok depth_cases = true.
Proof. vm_compute. reflexivity. Qed.

(* pkh / wpkh / sh(wpkh): max_weight_to_satisfy and max_satisfaction_weight are the model's constants *)
Lemma keyonly_cases_match_model : forallb kcase_ok keyonly_cases = true.
Proof. vm_compute. reflexivity. Qed.

(* coverage of the theorem classes on this run's scripts: (cases, in ext_safe as_written, in ext_safe pre_fix) *)
Eval vm_compute in (N.of_nat (length tree_cases), count_safe as_written tree_cases, count_safe pre_fix tree_cases).

(* coverage of the executed-opcode theorem: (scripts outside Tap with a satisfaction figure, of which in ops_covered) *)
Eval vm_compute in
  (let l := filter (fun t => match t_ctx t with CTap => false | _ => match sat_data (ext_of (cx (t_ctx t)) (t_ms t)) with Some _ => true | None => false end end) tree_cases in
   (N.of_nat (length l), N.of_nat (length (filter (fun t => ops_covered as_written (cx (t_ctx t)) (t_ms t)) l)))).

(* coverage of the execution-depth theorem: (well-typed scripts with a satisfaction figure, of which in
   depth_covered as_written, of which in depth_covered pre_fix, all scripts) *)
Eval vm_compute in
  (let l := filter (fun t => match type_of (t_ms t), sat_data (ext_of (cx (t_ctx t)) (t_ms t)) with ROk _, Some _ => true | _, _ => false end) tree_cases in
   (N.of_nat (length l), N.of_nat (length (filter (fun t => depth_covered as_written (cx (t_ctx t)) (t_ms t)) l)),
    N.of_nat (length (filter (fun t => depth_covered pre_fix (cx (t_ctx t)) (t_ms t)) l)), N.of_nat (length tree_cases))).

(* coverage of the exact-for-paths timelock theorem: (all scripts, of which in tl_total) -- LAST pair printed *)
Eval vm_compute in (N.of_nat (length tree_cases), N.of_nat (length (filter (fun t => tl_total (t_ms t)) tree_cases))).
