(* Compiled only when RawPkhCasesCheck.v fails: (script index, run index) of every disagreement, per kind.
   `spend` entries are witnesses of the IMPLEMENTATION rejected by the Script semantics: property failures. *)
From Coq Require Import String.
From Verif Require Import RawPkhCasesDefs RawPkhCasesGen.
Local Open Scope N_scope.
Eval vm_compute in ("script"%string, map fst (filter (fun ic => negb (script_ok rk_keys (snd ic))) (combine (seq 0 (length (concat rk_cases))) (concat rk_cases)))).
Eval vm_compute in ("spend"%string, bad_runs (spend_ok rk_keys rk_valid rk_pre) (concat rk_cases)).
Eval vm_compute in ("template"%string, bad_runs (tpl_ok rk_keys rk_pre) (concat rk_cases)).
Eval vm_compute in ("witness"%string, bad_runs (wit_ok rk_keys rk_pre) (concat rk_cases)).
(* Tap cases: script indices continue after the non-Tap ones in the generated file *)
Eval vm_compute in ("xscript"%string, map fst (filter (fun ic => negb (script_ok rk_xkeys (snd ic))) (combine (seq 0 (length (concat rk_tap_cases))) (concat rk_tap_cases)))).
Eval vm_compute in ("xspend"%string, bad_runs (spend_ok rk_xkeys rk_xvalid rk_pre) (concat rk_tap_cases)).
Eval vm_compute in ("xtemplate"%string, bad_runs (tpl_ok rk_xkeys rk_pre) (concat rk_tap_cases)).
Eval vm_compute in ("xwitness"%string, bad_runs (wit_ok rk_xkeys rk_pre) (concat rk_tap_cases)).
