(* Compiled only when RawPkhCasesCheck.v fails: (script index, run index) of every disagreement, per kind.
   `spend` entries are witnesses of the IMPLEMENTATION rejected by the Script semantics: property failures. *)
From Verif Require Import RawPkhCasesDefs RawPkhCasesGen.
Local Open Scope N_scope.
Eval vm_compute in ("script", map fst (filter (fun ic => negb (script_ok rk_keys (snd ic))) (combine (seq 0 (length (concat rk_cases))) (concat rk_cases)))).
Eval vm_compute in ("spend", bad_runs (spend_ok rk_keys rk_valid rk_pre) (concat rk_cases)).
Eval vm_compute in ("template", bad_runs (tpl_ok rk_keys rk_pre) (concat rk_cases)).
Eval vm_compute in ("witness", bad_runs (wit_ok rk_keys rk_pre) (concat rk_cases)).
