(* Compiled only when MsTextCasesCheck.v fails: the first differing cases as (index, text,
   implementation observations per context (first 16 numbers), model observation, printed by the
   implementation, printed by the model). *)
From Coq Require Import List Bool NArith.
From Verif Require Import MsTextModel MsTextCasesGen MsTextCasesDefs.
Eval vm_compute in (firstn 6 mstext_diff).
