(* Compiled only when tap_cases_match_model fails: which cases differ, in which component
   (root, items, api, parsed, tokens, translated, to_tap_tree, stream), and what the model computes for the
   first few of them. *)
From Coq Require Import List NArith Bool Uint63.
Import ListNotations.
From Verif Require Import TapTreeModel TapCasesGen TapCasesDefs.

Definition b2n (b : bool) : N := if b then 1%N else 0%N.
Definition diag_ok := map (fun p => (N.of_nat (fst p), map b2n (snd p))) (failing check_ok tap_ok).
Definition diag_rej := map (fun p => (N.of_nat (fst p), map b2n (snd p))) (failing check_rej tap_rej).
Definition diag_bad := map (fun p => (N.of_nat (fst p), map b2n (snd p))) (failing check_bad tap_bad).
Definition dflt : int * list int := (0%uint63, []).
Definition diag_ok_model :=
  map (fun p => let c := decode_ok (nth (fst p) tap_ok dflt) in
                (N.of_nat (fst p), k_root c, fst (fst (fst (fst (fst (fst (model_ok c))))))))
      (firstn 5 (failing check_ok tap_ok)).
Definition diag_rej_model :=
  map (fun p => (N.of_nat (fst p), model_rej (decode_rej (nth (fst p) tap_rej dflt)))) (firstn 5 (failing check_rej tap_rej)).
Definition diag_bad_model :=
  map (fun p => (N.of_nat (fst p), model_bad (decode_bad (nth (fst p) tap_bad dflt)))) (firstn 5 (failing check_bad tap_bad)).
Eval vm_compute in (firstn 200 diag_ok, firstn 50 diag_rej, firstn 50 diag_bad, diag_ok_model, diag_rej_model, diag_bad_model).
