(* Compiled only when psbt_cases_match_model fails: for every history on which the model and
   the implementation disagree, the first differing step and what differs there
   (1 = result class, 2 = state, 3 = both, 4 = number of steps), together with the model's
   result at that step (so the report can say what the model expected). *)
From Coq Require Import List Bool NArith Arith.
Import ListNotations.
From Verif Require Import PsbtModel PsbtCasesDefs PsbtCasesGen.

Definition diag : list (N * nat * N) := failing descs sigflags mall_false mall_true all_cases.

Definition model_result_at (c : pcase) (n : nat) : option result :=
  option_map fst (nth_error (model_trace descs sigflags mall_false mall_true c) n).

Definition expected : list (N * nat * option result) :=
  flat_map (fun c => match check_case descs sigflags mall_false mall_true c with
                     | None => []
                     | Some (n, _) => [(c_id c, n, model_result_at c n)]
                     end) all_cases.

Eval vm_compute in diag.
Eval vm_compute in (firstn 20 expected).
