(* C15 tie: runs the MODEL (Ms/TapTreeModel.v) on the shapes the harness generated, with
   leafH / branchH instantiated by the run's tables of hash ids, and compares with what the
   compiled implementation produced (Tables/TapCasesGen.v, regenerated on every run).
   Each case arrives as a stream of 10-bit values packed six per Uint63 literal. *)
From Coq Require Import List NArith Bool ZArith Uint63.
Import ListNotations.
From Verif Require Import TapTreeModel TapCasesGen.

(* ---- unpacking ---- *)
Definition i2n (i : int) : N := Z.to_N (Uint63.to_Z i).
Definition unpack_word (w : int) : list N :=
  map (fun k => i2n ((w >> (Uint63.of_Z (Z.of_nat (10 * k)))) land 1023)%uint63) (seq 0 6).
Definition unpack (c : int * list int) : list N :=
  firstn (N.to_nat (i2n (fst c))) (flat_map unpack_word (snd c)).

Definition dlN := list (N * N).
Fixpoint read_pairs (c : nat) (s : list N) : dlN * list N :=
  match c, s with
  | S c', a :: b :: r => let (ps, r') := read_pairs c' r in ((a, b) :: ps, r')
  | _, _ => ([], s)
  end.
Fixpoint read_triples (c : nat) (s : list N) : list (N * N * N) * list N :=
  match c, s with
  | S c', a :: b :: x :: r => let (ps, r') := read_triples c' r in ((a, b, x) :: ps, r')
  | _, _ => ([], s)
  end.
(* each path is (k, new leading ids): the new ids followed by the last k ids of the previous path *)
Fixpoint read_items (c : nat) (prev : list N) (s : list N) : list (N * N * list N) * list N :=
  match c, s with
  | S c', lab :: d :: k :: m :: r =>
      let p := firstn (N.to_nat m) r ++ skipn (length prev - N.to_nat k) prev in
      let (its, r') := read_items c' p (skipn (N.to_nat m) r) in
      ((lab, d, p) :: its, r')
  | _, _ => ([], s)
  end.
Definition counted {A} (rd : nat -> list N -> A * list N) (s : list N) : A * list N :=
  match s with n :: r => rd (N.to_nat n) r | [] => rd 0%nat [] end.

Record ok_case := mkOk {
  k_depths : dlN; k_leafh : dlN; k_branch : list (N * N * N);
  k_root : N; k_items : list (N * N * list N); k_api : dlN; k_parsed : dlN; k_toks : list N; k_transl : dlN; k_ttree : dlN;
  k_rest : list N (* must be empty *) }.
Definition decode_ok (c : int * list int) : ok_case :=
  let s := unpack c in
  let (depths, s) := counted read_pairs s in
  let (leafh, s) := counted read_pairs s in
  let (branch, s) := counted read_triples s in
  let rootv := hd 0%N s in
  let (items, s) := counted (fun n => read_items n []) (tl s) in
  let (api, s) := counted read_pairs s in
  let (parsed, s) := counted read_pairs s in
  let (toks, s) := counted (fun n s => (firstn n s, skipn n s)) s in
  let (transl, s) := counted read_pairs s in
  let (ttree, s) := counted read_pairs s in
  mkOk depths leafh branch rootv items api parsed toks transl ttree s.
Definition decode_rej (c : int * list int) : dlN * N * N :=
  let (depths, s) := counted read_pairs (unpack c) in (depths, hd 9%N s, hd 9%N (tl s)).
Definition decode_bad (c : int * list int) : list N * N :=
  let (toks, s) := counted (fun n s => (firstn n s, skipn n s)) (unpack c) in (toks, hd 9%N s).

(* ---- instantiating the model ---- *)
Definition ndl (l : dlN) : dlist N := map (fun p => (N.to_nat (fst p), snd p)) l.
Definition dln (l : dlist N) : dlN := map (fun p => (N.of_nat (fst p), snd p)) l.

Definition assoc (k : N) (tbl : list (N * N)) : N :=
  match find (fun p => N.eqb (fst p) k) tbl with Some p => snd p | None => 0%N end.
(* TapNodeHash::from_node_hashes sorts its arguments: the lookup is symmetric *)
Definition br_lookup (tbl : list (N * N * N)) (a b : N) : N :=
  match find (fun p => (N.eqb (fst (fst p)) a && N.eqb (snd (fst p)) b)
                    || (N.eqb (fst (fst p)) b && N.eqb (snd (fst p)) a)) tbl with
  | Some p => snd p | None => 0%N end.

Fixpoint list_eqb {A} (f : A -> A -> bool) (a b : list A) : bool :=
  match a, b with
  | [], [] => true
  | x :: r, y :: s => f x y && list_eqb f r s
  | _, _ => false
  end.
Definition pair_eqb (a b : N * N) := N.eqb (fst a) (fst b) && N.eqb (snd a) (snd b).
Definition dl_eqb := list_eqb pair_eqb.
(* equality as multisets: rust-bitcoin's TapTree lists leaves with siblings ordered by hash *)
Definition count_pair (p : N * N) (l : dlN) : nat := length (filter (pair_eqb p) l).
Definition perm_eqb (a b : dlN) : bool :=
  Nat.eqb (length a) (length b) && forallb (fun p => Nat.eqb (count_pair p a) (count_pair p b)) a.
Definition item_eqb (a b : N * N * list N) :=
  N.eqb (fst (fst a)) (fst (fst b)) && N.eqb (snd (fst a)) (snd (fst b)) && list_eqb N.eqb (snd a) (snd b).

Definition class_of {A} (r : tres A) : N :=
  match r with TOk _ => 0 | TErr ErrDepth => 1 | TErr _ => 2 | TPanic _ => 3 end%N.
Definition enc_tok (t : tok N) : N :=
  match t with TOpen => 0 | TClose => 1 | TComma => 2 | TLeafTok l => 3 + l end%N.
Definition dec_tok (n : N) : tok N :=
  match n with 0 => TOpen | 1 => TClose | 2 => TComma | _ => TLeafTok (n - 3) end%N.

(* what the model computes for one shape: root id, items, API depth list, parsed depth list,
   printed tokens, translated depth list, to_tap_tree depth list (empty / 0 = the model panicked or erred) *)
Definition model_ok (c : ok_case) :=
  let dl := ndl (k_depths c) in
  let lH := fun l => assoc l (k_leafh c) in
  let bH := br_lookup (k_branch c) in
  let ns := nodes_from_tap_tree N N lH bH dl in
  let rootv := match ns with TOk n => match merkle_root_of N N n with Some r => r | None => 0%N end | _ => 0%N end in
  let items := match ns with
               | TOk n => match leaves_iter N N n with
                          | TOk its => map (fun it : item N N => (fst (fst it), N.of_nat (snd (fst it)), snd it)) its
                          | _ => [] end
               | _ => [] end in
  let t := tree_of_depths N dl in
  let api := match t with Some t => match api_build N t with TOk d => dln d | _ => [] end | None => [] end in
  let parsed := match t with Some t => match parse_tokens N (tokens_of_tree N t) with TOk d => dln d | _ => [] end | None => [] end in
  let toks := map enc_tok (print_tokens N dl) in
  let transl := match translate_dl N N (fun l => Some l) dl with TOk d => dln d | _ => [] end in
  let ttree := match ns with
               | TOk n => match to_tap_tree N N n with TOk (Some t) => dln (depths_of_tree N t) | _ => [] end
               | _ => [] end in
  (rootv, items, api, parsed, toks, transl, ttree).

(* component-wise comparison: root, items (leaf, depth, path), API, parsed, tokens, translated, to_tap_tree,
   and the stream was consumed exactly with a non-empty shape *)
Definition check_ok (p : int * list int) : list bool :=
  let c := decode_ok p in
  let '(mroot, mitems, mapi, mparsed, mtoks, mtransl, mttree) := model_ok c in
  [N.eqb (k_root c) mroot && negb (N.eqb mroot 0); list_eqb item_eqb (k_items c) mitems; dl_eqb (k_api c) mapi;
   dl_eqb (k_parsed c) mparsed; list_eqb N.eqb (k_toks c) mtoks; dl_eqb (k_transl c) mtransl; perm_eqb (k_ttree c) mttree;
   match k_rest c, k_depths c with [], _ :: _ => true | _, _ => false end].

Definition model_rej (c : dlN * N * N) : N * N :=
  match tree_of_depths N (ndl (fst (fst c))) with
  | Some t => (class_of (api_build N t), class_of (parse_tokens N (tokens_of_tree N t)))
  | None => (9, 9)%N
  end.
Definition check_rej (p : int * list int) : list bool :=
  let c := decode_rej p in
  let m := model_rej c in [N.eqb (snd (fst c)) (fst m); N.eqb (snd c) (snd m)].

Definition model_bad (c : list N * N) : N := class_of (parse_tokens N (map dec_tok (fst c))).
Definition check_bad (p : int * list int) : list bool :=
  let c := decode_bad p in [N.eqb (snd c) (model_bad c)].

Definition all_true (l : list bool) := forallb (fun b => b) l.
Definition failing {A} (chk : A -> list bool) (l : list A) : list (nat * list bool) :=
  map (fun p => (fst p, chk (snd p)))
      (filter (fun p => negb (all_true (chk (snd p)))) (combine (seq 0 (length l)) l)).
