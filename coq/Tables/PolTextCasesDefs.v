(* Comparison of the policy text-layer observations (real code: expression::Tree::from_str +
   <policy::Concrete<String> / policy::Semantic<String> as FromTree>::from_tree + Display, and Display + re-parse of
   policy VALUES built with the enum constructors) with the model (ExprTreeModel.from_str_inner, then
   PolTextModel.conc_from_tree / sem_from_tree / conc_to_tree / sem_to_tree / print).
   Instance of the model's parameters: keys and all four hash kinds are `String`s (every leaf name parses);
   a string is the number given by the bijective base-256 numeration (as in MsTextCasesDefs.v). *)
From Coq Require Import List Bool NArith ZArith Uint63.
Import ListNotations.
From Verif Require Import ChecksumModel ExprTreeModel MsTextModel PolSemantic PolTextModel PolTextCasesGen.
Local Open Scope N_scope.

Definition pi2n (i : int) : N := Z.to_N (Uint63.to_Z i).
(* a word holds six bytes, little endian (primitive shifts: N division is slow on 400 kB of text) *)
Definition pword_bytes (w : int) : list N :=
  [pi2n (w land 255); pi2n ((w >> 8) land 255); pi2n ((w >> 16) land 255); pi2n ((w >> 24) land 255);
   pi2n ((w >> 32) land 255); pi2n ((w >> 40) land 255)]%uint63.
Definition pcase_code (c : list int) : N := match c with x :: _ => pi2n x | [] => 7 end.
Definition pcase_bytes (c : list int) : tbytes :=
  match c with
  | _ :: len :: ws => firstn (N.to_nat (pi2n len)) (flat_map pword_bytes ws)
  | _ => []
  end.

Definition pkey_enc (s : tbytes) : N := fold_right (fun b acc => acc * 256 + b + 1) 0 s.
Fixpoint pkey_dec_aux (fuel : nat) (k : N) : tbytes :=
  match fuel with
  | O => []
  | S f => if k =? 0 then [] else ((k - 1) mod 256) :: pkey_dec_aux f ((k - 1) / 256)
  end.
Definition pkey_dec (k : N) : tbytes := pkey_dec_aux (S (N.to_nat (N.log2 k))) k.

Definition ip_print_key : N -> tbytes := pkey_dec.
Definition ip_parse_key (s : tbytes) : option N := Some (pkey_enc s).
Definition ip_print_hash (_ : phk) : N -> tbytes := pkey_dec.
Definition ip_parse_hash (_ : phk) (s : tbytes) : option N := Some (pkey_enc s).

Definition i_conc_text := conc_to_text ip_print_key ip_print_hash.
Definition i_sem_text := sem_to_text ip_print_key ip_print_hash.
Definition i_conc_from_str := conc_from_str_nocheck ip_parse_key ip_parse_hash.
Definition i_sem_from_str := sem_from_str ip_parse_key ip_parse_hash.

(* ---- value tokens (same numbering as harness/src/poltext.rs) *)
Definition ptok_str (s : tbytes) : list N := N.of_nat (length s) :: s.
Definition hcode (h : phk) : N := match h with PSha256 => 6 | PHash256 => 7 | PRipemd160 => 8 | PHash160 => 9 end.
Definition leaf_tokens (l : pleaf) : list N :=
  match l with
  | LUnsat => [1] | LTriv => [2]
  | LKey k => 3 :: ptok_str (pkey_dec k)
  | LAfter t => [4; t] | LOlder t => [5; t]
  | LHash h v => hcode h :: ptok_str (pkey_dec v)
  end.
Fixpoint wtokens (p : wpol) : list N :=
  match p with
  | WLeaf l => leaf_tokens l
  | WAnd subs => 10 :: N.of_nat (length subs) :: flat_map wtokens subs
  | WOr subs => 11 :: N.of_nat (length subs) :: flat_map (fun wp => match wp with (w, q) => w :: wtokens q end) subs
  | WThresh k subs => 12 :: k :: N.of_nat (length subs) :: flat_map wtokens subs
  end.
Fixpoint stokens (p : spol) : list N :=
  match p with
  | SThresh k subs => 12 :: N.of_nat k :: N.of_nat (length subs) :: flat_map stokens subs
  | _ => match s_as_leaf p with Some l => leaf_tokens l | None => [] end
  end.

Definition pnum_code (e : num_err) : N := match e with NumLead => 0 | NumStd => 1 end.
Definition perr_code (e : pol_err) : N :=
  match e with
  | PMs EMultiSep => 1 | PMs EArity => 2 | PMs EUnknownName => 3 | PMs ECurly => 4
  | PNumZero => 5
  | PMs (ENum e) => 6 + pnum_code e | PMs EAbsLock => 8 | PMs ERelLock => 9 | PMs EFromStr => 10
  | PMs EThNoChildren => 11 | PMs EThKNotTerminal => 12 | PMs (EThParseK e) => 13 + pnum_code e
  | PMs EThInvalid => 15
  | PIllegalOr => 17 | PIllegalAnd => 18 | PTimelock => 20
  | PMs _ => 98
  end.

Definition pobs {A} (tok : A -> list N) (pr : A -> tbytes) (o : outcome ptext_err A) : list N * option tbytes :=
  match o with
  | Ok p => (0 :: tok p, Some (pr p))
  | Err (PxTree _) => ([1; 50], None)
  | Err (PxPol e) => ([1; perr_code e], None)
  | Panic _ => ([2], None)
  end.

Fixpoint pnl_eqb (a b : list N) : bool :=
  match a, b with
  | [], [] => true
  | x :: a', y :: b' => (x =? y) && pnl_eqb a' b'
  | _, _ => false
  end.

Definition pcase := (list int * (list int * list int) * (list int * list int))%type.
Definition pc_text (c : pcase) : tbytes := pcase_bytes (fst (fst c)).
Definition side_ok (mo : list N * option tbytes) (io : list int * list int) : bool :=
  pnl_eqb (map pi2n (fst io)) (fst mo) &&
  match (if pcase_code (snd io) =? 1 then Some (pcase_bytes (snd io)) else None), snd mo with
  | Some p, Some q => pnl_eqb p q
  | None, None => true
  | _, _ => false
  end.
Definition conc_model_obs (s : tbytes) := pobs wtokens i_conc_text (i_conc_from_str s).
Definition sem_model_obs (s : tbytes) := pobs stokens i_sem_text (i_sem_from_str s).
Definition pcase_ok (c : pcase) : bool :=
  let s := pc_text c in
  side_ok (conc_model_obs s) (snd (fst c)) && side_ok (sem_model_obs s) (snd c).

(* a VALUE built with the enum constructors: the real Display text is the model's, the real re-parse gives an
   equal value exactly when the model's does, and whenever the value satisfies the parser's own checks
   ([conc_text_ok] / [sem_text_ok]) and the printed tree is [well_formed] and within the depth limit (the
   hypotheses of the text-level round-trip theorems; a String key such as "a,b" breaks the second) the library's
   re-parse is equal *)
Definition cval_ok (v : wpol * list int * bool) : bool :=
  let '(p, pr, flag) := v in
  pnl_eqb (i_conc_text p) (pcase_bytes pr) &&
  Bool.eqb flag (match i_conc_from_str (i_conc_text p) with Ok q => pnl_eqb (wtokens q) (wtokens p) | _ => false end) &&
  implb (conc_text_ok p && well_formed (conc_to_tree ip_print_key ip_print_hash p) &&
         (depth (conc_to_tree ip_print_key ip_print_hash p) <=? MAX_RECURSION_DEPTH)) flag.
Definition sval_ok (v : spol * list int * bool) : bool :=
  let '(p, pr, flag) := v in
  pnl_eqb (i_sem_text p) (pcase_bytes pr) &&
  Bool.eqb flag (match i_sem_from_str (i_sem_text p) with Ok q => pnl_eqb (stokens q) (stokens p) | _ => false end) &&
  implb (sem_text_ok p && well_formed (sem_to_tree ip_print_key ip_print_hash p) &&
         (depth (sem_to_tree ip_print_key ip_print_hash p) <=? MAX_RECURSION_DEPTH)) flag.

Definition poltext_check : bool :=
  forallb pcase_ok poltext_cases && forallb cval_ok poltext_cvals && forallb sval_ok poltext_svals.

(* diagnosis: (index, text, library conc obs, model conc obs, library sem obs, model sem obs) *)
Definition poltext_diff : list (nat * tbytes * list N * list N * list N * list N) :=
  flat_map (fun t => let '(i, c) := t in
                     if pcase_ok c then []
                     else [(i, pc_text c, firstn 24 (map pi2n (fst (snd (fst c)))), firstn 24 (fst (conc_model_obs (pc_text c))),
                            firstn 24 (map pi2n (fst (snd c))), firstn 24 (fst (sem_model_obs (pc_text c))))])
           (combine (seq 0 (length poltext_cases)) poltext_cases).
Definition poltext_cval_diff : list (nat * tbytes * tbytes * bool) :=
  flat_map (fun t => let '(i, v) := t in
                     if cval_ok v then [] else [(i, i_conc_text (fst (fst v)), pcase_bytes (snd (fst v)), snd v)])
           (combine (seq 0 (length poltext_cvals)) poltext_cvals).
Definition poltext_sval_diff : list (nat * tbytes * tbytes * bool) :=
  flat_map (fun t => let '(i, v) := t in
                     if sval_ok v then [] else [(i, i_sem_text (fst (fst v)), pcase_bytes (snd (fst v)), snd v)])
           (combine (seq 0 (length poltext_svals)) poltext_svals).
