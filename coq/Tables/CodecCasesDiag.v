(* C04: compiled only when CodecCasesCheck reports differences: for every differing case the
   model's own answers (lexer outcome code / token count, decoder outcome), so that the check
   can show model and implementation side by side. *)
From Verif Require Import CodecCasesDefs CodecCasesGen.
Local Open Scope N_scope.

Definition diag_case (c : ccase) : N * list N * (N * N) * (N * N) :=
  let w := codec_world (cc_ctx c) in
  let e := case_env w c in
  (cc_id c, check_case w c,
   (match lex (cc_bytes c) with LexOk ts => (0, N.of_nat (length ts)) | LexErr le => (1, lexerr_code le) end),
   (match decode_max e (cc_bytes c) with
    | OOk m => (0, script_size (cc_ctx c) (d_ke e) m)
    | OErr err => (1, derr_code err)
    | OPanic n => (2, n)
    | OFuel => (3, 0)
    end)).

Eval vm_compute in
  (map diag_case (filter (fun c => match check_case (codec_world (cc_ctx c)) c with [] => false | _ => true end) codec_cases)).
