(* Compiled only when ChecksumTablesCheck.v fails: the first differing cases of each table,
   as (index, input bytes, implementation code, model code); code = class + 8 * value. *)
From Coq Require Import List Bool NArith.
Import ListNotations.
From Verif Require Import ChecksumModel ChecksumTablesGen ChecksumTablesDefs.

Definition ck_diag :=
  ( firstn 5 (diff_list obs_engine singles_in ck_single),
    firstn 5 (diff_list obs_engine pairs_in ck_pairs),
    firstn 5 (diff_cases obs_engine ck_rand),
    firstn 5 (diff_cases obs_verify ck_verify) ).
Eval vm_compute in ck_diag.
