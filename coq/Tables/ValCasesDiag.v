(* C08 diagnosis (compiled only when ValCasesCheck.v fails): which samples does the kernel judge
   differently from the extracted validator, and what does the kernel find. *)
From Coq Require Import List Bool NArith.
From Verif Require Import PolicyVal ValCasesGen.
Import ListNotations.

Definition kernel_verdicts : list (N * list N) :=
  map (fun p => (fst p, match snd p with
                        | VM c kkl bare pol m codes _ => map clause_code (run_ms_case c kkl bare pol m codes)
                        | VT kkl pol ik inpol dl ex nat _ => map clause_code (run_tr_case kkl pol ik inpol dl ex nat)
                        end))
      (filter (fun p => negb (sample_ok (snd p))) (combine (map N.of_nat (seq 0 (length val_samples))) val_samples)).
Eval vm_compute in kernel_verdicts.
