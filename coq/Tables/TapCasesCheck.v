(* C15 tie, re-checked on every run against the regenerated cases: on every shape the model's
   iterative algorithms give exactly what the compiled implementation gave. *)
From Coq Require Import List NArith Bool.
Import ListNotations.
From Verif Require Import TapTreeModel TapCasesGen TapCasesDefs.

Eval vm_compute in (length tap_ok, length tap_rej, length tap_bad).

Theorem tap_cases_match_model :
  forallb (fun c => all_true (check_ok c)) tap_ok
  && forallb (fun c => all_true (check_rej c)) tap_rej
  && forallb (fun c => all_true (check_bad c)) tap_bad = true.
Proof. vm_compute. reflexivity. Qed.
