(* C12 complete tie of the ValidationParams constants and of intersect / entails on the
   generating set: decoding of the packed rows the harness emits.  Static. *)
From Coq Require Import List NArith ZArith Bool Uint63.
Import ListNotations.
From Verif Require Import ValidateModel.
Local Open Scope N_scope.

(* a parameter set packed into one primitive integer: bit i = boolean i (record order), then
   five 8-bit indices into the table of limit values *)
Definition pbit (w : int) (i : int) : bool := Uint63.eqb (Uint63.land (Uint63.lsr w i) 1) 1.
Definition plim (tab : list N) (w : int) (sh : int) : N :=
  nth (Z.to_nat (Uint63.to_Z (Uint63.land (Uint63.lsr w sh) 255))) tab 0.
Definition unpack (tab : list N) (w : int) : vparams :=
  mkVP (pbit w 0) (pbit w 1) (pbit w 2) (pbit w 3) (pbit w 4) (pbit w 5) (pbit w 6) (pbit w 7)
       (pbit w 8) (pbit w 9) (pbit w 10) (pbit w 11) (pbit w 12) (pbit w 13) (pbit w 14)
       (plim tab w 15) (plim tab w 23) (plim tab w 31) (plim tab w 39) (plim tab w 47).

(* row (a, b, 2 * intersect(a,b) + entails(a,b)) *)
Definition prow_parts (tab : list N) (r : int * int * int) : bool * bool :=
  let '(a, b, re) := r in
  let pa := unpack tab a in let pb := unpack tab b in
  (vp_eqb (intersect pa pb) (unpack tab (Uint63.lsr re 1)), Bool.eqb (entails pa pb) (pbit re 0)).
Definition prow_ok (tab : list N) (r : int * int * int) : bool :=
  let '(i, e) := prow_parts tab r in i && e.

(* a differing row: (a, b, packed result, intersect agrees, entails agrees, the model's entails) *)
Definition pi2n (i : int) : N := Z.to_N (Uint63.to_Z i).
Definition prow_diag (tab : list N) (r : int * int * int) : list (N * N * N * bool * bool * bool) :=
  let '(a, b, re) := r in
  let '(i, e) := prow_parts tab r in
  if i && e then [] else [(pi2n a, pi2n b, pi2n re, i, e, entails (unpack tab a) (unpack tab b))].

(* primitive constructors: (MAX, k, n, ok) and (n, AbsLockTime ok, RelLockTime ok) *)
Definition pthr_ok (r : int * int * int * int) : bool :=
  let '(m, k, n, ok) := r in Bool.eqb (threshold_new (pi2n m) (pi2n k) (pi2n n)) (Uint63.eqb ok 1).
Definition plock_ok (r : int * int * int) : bool :=
  let '(n, a, rl) := r in
  Bool.eqb (abs_lock_from_consensus (pi2n n)) (Uint63.eqb a 1) && Bool.eqb (rel_lock_from_consensus (pi2n n)) (Uint63.eqb rl 1).

(* Threshold::from_iter: (MAX, k, size hint, items, ok) *)
Definition pfi_ok (r : int * int * int * int * int) : bool :=
  let '(m, k, h, n, ok) := r in
  Bool.eqb (threshold_from_iter (pi2n m) (pi2n k) (pi2n h) (pi2n n)) (Uint63.eqb ok 1).
