(* Comparison of the miniscript text-layer observations (real code: expression::Tree::from_str +
   Miniscript::<String, Ctx>::from_tree + Display, four contexts) with the model
   (ExprTreeModel.from_str_inner, then MsTextModel.from_tree / to_tree / print).
   Instance of the model's parameters used for the comparison:
   * keys are `String`s (every leaf name parses): key = N through the bijective base-256 numeration;
   * the four hash kinds are `String`s as well (identity printer/parser);
   * expr_raw_pkh carries a hash160: 40 hex digits (either case) <-> 20 bytes, printed in lower case;
   * from_ast = the type check of coq/Ms/TypeCheck.v ([type_of]); the recursion-depth check and the
     contexts' rules are not part of the instance (a ContextError observation is skipped). *)
From Coq Require Import List Bool NArith ZArith Uint63.
Import ListNotations.
From Verif Require Import ChecksumModel ExprTreeModel TypeCheck MsTextModel ChecksumTablesDefs MsTextCasesGen.
Local Open Scope N_scope.

(* ---- keys: bijective base-256 numeration, little endian *)
Definition key_enc (s : tbytes) : N := fold_right (fun b acc => acc * 256 + b + 1) 0 s.
Fixpoint key_dec_aux (fuel : nat) (k : N) : tbytes :=
  match fuel with
  | O => []
  | S f => if k =? 0 then [] else ((k - 1) mod 256) :: key_dec_aux f ((k - 1) / 256)
  end.
Definition key_dec (k : N) : tbytes := key_dec_aux (S (N.to_nat (N.log2 k))) k.

(* ---- hex *)
Definition hexd (n : N) : N := if n <? 10 then 48 + n else 87 + n.
Definition hex_enc (b : tbytes) : tbytes := flat_map (fun x => [hexd (x / 16); hexd (x mod 16)]) b.
Definition unhexd (c : N) : option N :=
  if (48 <=? c) && (c <=? 57) then Some (c - 48)
  else if (97 <=? c) && (c <=? 102) then Some (c - 87)
  else if (65 <=? c) && (c <=? 70) then Some (c - 55)
  else None.
Fixpoint hex_dec (s : tbytes) : option tbytes :=
  match s with
  | [] => Some []
  | a :: b :: r =>
    match unhexd a, unhexd b, hex_dec r with
    | Some x, Some y, Some t => Some ((x * 16 + y) :: t)
    | _, _, _ => None
    end
  | _ => None
  end.

Definition i_print_key : key -> tbytes := key_dec.
Definition i_parse_key (s : tbytes) : option key := Some (key_enc s).
Definition i_print_hash (h : hkind) (b : tbytes) : tbytes :=
  match h with HRawPkh => hex_enc b | _ => b end.
Definition i_parse_hash (h : hkind) (s : tbytes) : option tbytes :=
  match h with
  | HRawPkh => if Nat.eqb (length s) 40 then hex_dec s else None
  | _ => Some s
  end.
Definition i_chk (m : ms) : bool := match type_of m with ROk _ => true | RErr _ => false end.

Definition i_from_tree := from_tree i_parse_key i_parse_hash i_chk.
Definition i_to_tree := to_tree i_print_key i_print_hash.

(* ---- AST tokens (same numbering as harness/src/text_ms.rs) *)
Definition tok_str (s : tbytes) : list N := blen s :: s.
Fixpoint ms_tokens (m : ms) : list N :=
  let keys := fun tag k ks => tag :: k :: N.of_nat (length ks) :: flat_map (fun x => tok_str (i_print_key x)) ks in
  match m with
  | MTrue => [1] | MFalse => [2]
  | MPkK k => 3 :: tok_str (i_print_key k)
  | MPkH k => 4 :: tok_str (i_print_key k)
  | MRawPkH h => 5 :: tok_str h
  | MAfter t => [6; t] | MOlder t => [7; t]
  | MSha256 h => 8 :: tok_str h | MHash256 h => 9 :: tok_str h
  | MRipemd160 h => 10 :: tok_str h | MHash160 h => 11 :: tok_str h
  | MAlt x => 12 :: ms_tokens x | MSwap x => 13 :: ms_tokens x | MCheck x => 14 :: ms_tokens x
  | MDupIf x => 15 :: ms_tokens x | MVerify x => 16 :: ms_tokens x | MNonZero x => 17 :: ms_tokens x
  | MZeroNotEqual x => 18 :: ms_tokens x
  | MAndV x y => 19 :: ms_tokens x ++ ms_tokens y
  | MAndB x y => 20 :: ms_tokens x ++ ms_tokens y
  | MAndOr a b c => 21 :: ms_tokens a ++ ms_tokens b ++ ms_tokens c
  | MOrB x y => 22 :: ms_tokens x ++ ms_tokens y
  | MOrD x y => 23 :: ms_tokens x ++ ms_tokens y
  | MOrC x y => 24 :: ms_tokens x ++ ms_tokens y
  | MOrI x y => 25 :: ms_tokens x ++ ms_tokens y
  | MThresh k xs => 26 :: k :: N.of_nat (length xs) :: flat_map ms_tokens xs
  | MMulti k ks => keys 27 k ks | MSortedMulti k ks => keys 28 k ks
  | MMultiA k ks => keys 29 k ks | MSortedMultiA k ks => keys 30 k ks
  end.

Definition num_code (e : num_err) : N := match e with NumLead => 0 | NumStd => 1 end.
Definition err_code (e : ms_err) : N :=
  match e with
  | EMultiSep => 1 | EArity => 2 | EUnknownName => 3 | ECurly => 4 | EUnknownWrapper => 5
  | ENum e => 6 + num_code e | EAbsLock => 8 | ERelLock => 9 | EFromStr => 10
  | EThNoChildren => 11 | EThKNotTerminal => 12 | EThParseK e => 13 + num_code e | EThInvalid => 15
  | EFromAst => 16
  end.

(* the model's observation of a text: (observation, printed text of the parsed object) *)
Definition model_obs (s : tbytes) : list N * option tbytes :=
  match from_str_inner s with
  | Ok nodes =>
    match tree_of_nodes nodes with
    | None => ([5], None)
    | Some t =>
      match i_from_tree t with
      | Ok m => (0 :: ms_tokens m, Some (print (i_to_tree m)))
      | Err e => ([1; err_code e], None)
      | Panic _ => ([2], None)
      end
    end
  | Err _ => ([1; 50], None)
  | Panic _ => ([2], None)
  end.

Fixpoint nl_eqb (a b : list N) : bool :=
  match a, b with
  | [], [] => true
  | x :: a', y :: b' => (x =? y) && nl_eqb a' b'
  | _, _ => false
  end.

Definition is_ctx_obs (o : list N) : bool := match o with [3] => true | _ => false end.
Definition mcase := (list int * list (list int) * list int)%type.
Definition case_text (c : mcase) : tbytes := case_bytes (fst (fst c)).
Definition case_obs (c : mcase) : list (list N) := map (map i2n) (snd (fst c)).
Definition case_printed (c : mcase) : option tbytes :=
  if case_code (snd c) =? 1 then Some (case_bytes (snd c)) else None.

Definition case_ok (c : mcase) : bool :=
  let '(mo, mp) := model_obs (case_text c) in
  forallb (fun o => is_ctx_obs o || nl_eqb o mo) (case_obs c) &&
  (* at least one context gives a verdict the model is compared with *)
  existsb (fun o => negb (is_ctx_obs o)) (case_obs c) &&
  match case_printed c, mp with
  | Some p, Some q => nl_eqb p q
  | None, _ => true
  | Some _, None => false
  end.

Definition mstext_check : bool := forallb case_ok mstext_cases.

Definition mstext_diff : list (nat * tbytes * list (list N) * list N * option tbytes * option tbytes) :=
  flat_map (fun t => let '(i, c) := t in
                     if case_ok c then []
                     else [(i, case_text c, map (firstn 16) (case_obs c), firstn 16 (fst (model_obs (case_text c))),
                            case_printed c, snd (model_obs (case_text c)))])
           (combine (seq 0 (length mstext_cases)) mstext_cases).
