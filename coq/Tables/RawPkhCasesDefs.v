(* C01 stage `rawpkh`: case format and the comparison of the implementation's answers on decoded
   scripts with raw key hashes with the model `sat_dissat_r` (Ms/RawPkhModel.v), plus the oracle: every
   witness the implementation returned is executed by the Script semantics (Script/Exec.v) on the
   model's encoding of the decoded AST, which must equal the implementation's script bytes. *)
From Verif Require Export RawPkhModel.
Local Open Scope N_scope.

Inductive rctx := CSegwit | CLegacy | CTap.
Inductive xwit := XStack (l : list (ph * N)) | XUnavailable | XImpossible | XPanic.

Record run := mkRun {
  r_sig : N; r_rpk : N; r_rsig : N;            (* masks: lookup_ecdsa_sig, lookup_raw_pkh_pk, lookup_raw_pkh_ecdsa_sig *)
  r_pre : bool; r_after : bool; r_older : bool;
  r_mall : bool;
  r_stack : xwit; r_has_sig : bool; r_abs : option N; r_rel : option N;    (* build_template[_mall] *)
  r_wit : option (list bytes)                                               (* satisfy[_malleable] *)
}.
Record rcase := mkRCase {
  c_ctx : rctx; c_ms : ms; c_safe : bool; c_nraw : N; c_script : bytes; c_runs : list run
}.

Section WithTables.
  Variable keys : list (bytes * bytes * bytes).     (* key bytes, hash160, signature bytes *)
  Variable valid : list (N * N).                    (* (key index, signature index) pairs that verify *)
  Variable pre : bytes * bytes.                     (* preimage, sha256 image *)

  Definition kbytes (k : key) : bytes := match nth_error keys (N.to_nat k) with Some (b, _, _) => b | None => [255] end.
  Definition khash (k : key) : bytes := match nth_error keys (N.to_nat k) with Some (_, h, _) => h | None => [254] end.
  Definition ksig (k : key) : bytes := match nth_error keys (N.to_nat k) with Some (_, _, s) => s | None => [253] end.
  Definition nkeys : N := N.of_nat (length keys).
  Definition idxs : list N := map N.of_nat (seq 0 (length keys)).
  Definition bit (mask i : N) : bool := N.testbit mask i.

  Definition find_hash (mask : N) (h : bytes) : option key :=
    find (fun i => bytes_eqb (khash i) h && bit mask i) idxs.
  Definition find_key (b : bytes) : option key := find (fun i => bytes_eqb (kbytes i) b) idxs.
  Definition find_sig (b : bytes) : option key := find (fun i => bytes_eqb (ksig i) b) idxs.

  Definition the_ke : keyenv := mkKeyEnv kbytes khash (fun ks => ks).
  Definition the_se (c : rctx) (r : run) : senv :=
    mkSenv (match c with CTap => true | _ => false end)
           (fun k => match c with CSegwit => 34 | CLegacy => blen (kbytes k) + 1 | CTap => 33 end)
           (fun k => if bit (r_sig r) k then Some (match c with CTap => 64 | _ => 73 end) else None)
           (fun kd h => match kd with HSha256 => r_pre r && bytes_eqb h (snd pre) | _ => false end)
           (fun _ => r_after r) (fun _ => r_older r).
  Definition the_re (r : run) : rawenv := mkRawEnv (find_hash (r_rpk r)) (find_hash (r_rsig r)).
  Definition the_fill : fill :=
    mkFill kbytes (fun k => Some (ksig k)) (fun kd h => match kd with HSha256 => Some (fst pre) | _ => None end).

  (* the transaction of the oracle: lock fields that make exactly the locks the satisfier was told are met pass *)
  Definition the_env (c : rctx) (r : run) : env :=
    mkEnv (match c with CSegwit => SvWitnessV0 | CLegacy => SvBase | CTap => SvTapscript end)
          (if r_after r then 100 else 0) (if r_older r then 5 else 0) 2
          (fun kb sg => match find_key kb, find_sig sg with
                        | Some i, Some j => existsb (fun p => N.eqb (fst p) i && N.eqb (snd p) j) valid
                        | _, _ => false end)
          (fun kb => match c, kb with
                     | CTap, _ => N.eqb (blen kb) 32
                     | _, pfx :: _ => (N.eqb (blen kb) 33 && (N.eqb pfx 2 || N.eqb pfx 3))
                                      || (match c with CLegacy => N.eqb (blen kb) 65 && N.eqb pfx 4 | _ => false end)
                     | _, [] => false end)
          (fun b => if bytes_eqb b (fst pre) then snd pre else [])
          (fun _ => []) (fun _ => [])
          (fun b => match find_key b with Some i => khash i | None => [] end).

  Definition hk_eqb (a b : hkind) : bool :=
    match a, b with HSha256, HSha256 | HHash256, HHash256 | HRipemd160, HRipemd160 | HHash160, HHash160 => true | _, _ => false end.
  Definition ph_eqb (a b : ph) : bool :=
    match a, b with
    | PhPubkey x, PhPubkey y | PhSig x, PhSig y => N.eqb x y
    | PhPre k1 h1, PhPre k2 h2 => hk_eqb k1 k2 && bytes_eqb h1 h2
    | PhHashDissat, PhHashDissat | PhPushOne, PhPushOne | PhPushZero, PhPushZero => true
    | _, _ => false
    end.
  Fixpoint list_eqb {X} (eq : X -> X -> bool) (a b : list X) : bool :=
    match a, b with [] , [] => true | x :: r, y :: s => eq x y && list_eqb eq r s | _, _ => false end.
  Definition optN_eqb (a b : option N) : bool :=
    match a, b with None, None => true | Some x, Some y => N.eqb x y | _, _ => false end.

  (* template: class, placeholders (and the size each placeholder records), has_sig, locks *)
  Definition tpl_ok (c : rcase) (r : run) : bool :=
    let s := snd (sat_dissat_r the_ke (the_se (c_ctx c) r) (the_re r) (r_mall r) (c_safe c) (c_ms c)) in
    (match s_stack s, r_stack r with
     | WStack l, XStack x =>
       list_eqb ph_eqb l (map fst x) && forallb (fun p => N.eqb (ph_size (the_se (c_ctx c) r) (fst p)) (snd p)) x
     | WUnavailable, XUnavailable | WImpossible, XImpossible => true
     | _, _ => false end)
    && Bool.eqb (s_has_sig s) (r_has_sig r) && optN_eqb (s_abs s) (r_abs r) && optN_eqb (s_rel s) (r_rel r).
  (* completed witness *)
  Definition wit_ok (c : rcase) (r : run) : bool :=
    match satisfy_r the_ke (the_se (c_ctx c) r) (the_re r) the_fill (r_mall r) (c_safe c) (c_ms c), r_wit r with
    | Some a, Some b => list_eqb bytes_eqb a b
    | None, None => true
    | _, _ => false
    end.
  (* oracle: the implementation's own witness on the script is accepted by the Script semantics *)
  Definition spend_ok (c : rcase) (r : run) : bool :=
    match r_wit r with
    | Some w => accepts (the_env (c_ctx c) r) (enc the_ke (c_ms c)) (rev w)
    | None => true
    end.
  Definition script_ok (c : rcase) : bool := bytes_eqb (encode the_ke (c_ms c)) (c_script c).

  Definition count_runs (f : rcase -> run -> bool) (cs : list rcase) : N :=
    fold_right (fun c a => N.of_nat (length (filter (f c) (c_runs c))) + a) 0 cs.
  Definition bad_runs (f : rcase -> run -> bool) (cs : list rcase) : list (N * N) :=
    concat (map (fun ic => map (fun ir => (N.of_nat (fst ic), N.of_nat (fst ir)))
                               (filter (fun ir => negb (f (snd ic) (snd ir))) (combine (seq 0 (length (c_runs (snd ic)))) (c_runs (snd ic)))))
                (combine (seq 0 (length cs)) cs)).
  Definition all_ok (cs : list rcase) : bool :=
    forallb (fun c => script_ok c && forallb (fun r => tpl_ok c r && wit_ok c r && spend_ok c r) (c_runs c)) cs.
End WithTables.
