(* Tie for the checksum: the graph of the compiled engine on all single characters, all
   two-character strings and this run's random strings / verify_checksum cases equals the
   model's, by computation in the kernel (one evaluation, at Qed).  Re-checked on every run
   against regenerated data; ChecksumTablesDiag.v locates differences when this fails. *)
From Coq Require Import List Bool NArith.
Import ListNotations.
From Verif Require Import ChecksumModel ChecksumTablesGen ChecksumTablesDefs.

Theorem ck_tables_match_model : forallb (fun b => b) ck_checks = true.
Proof. vm_cast_no_check (eq_refl true). Qed.
