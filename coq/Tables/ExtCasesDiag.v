(* Compiled only when ExtCasesCheck.v fails: indices of the differing cases with the model's answer. *)
From Verif Require Import ExtCasesDefs ExtCasesGen.
Local Open Scope N_scope.
Eval vm_compute in (rule_diag 0 rule_cases).
Eval vm_compute in (tree_diag 0 tree_cases).
Eval vm_compute in (desc_diag 0 desc_cases).
Eval vm_compute in (filter (fun p => negb (pcase_ok p)) plan_cases).
Eval vm_compute in (limit_diag 0 limit_cases).
Eval vm_compute in (depth_diag depth_cases).
Eval vm_compute in (keyonly_diag keyonly_cases).
