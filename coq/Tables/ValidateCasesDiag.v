(* Compiled only when cases_match_model fails: the differing calls. *)
From Coq Require Import List NArith Bool.
Import ListNotations.
From Verif Require Import ValidateModel ValidateCasesDefs ValidateCasesGen.
Local Open Scope N_scope.

Definition diag : list (N * N * (N * N * N * N * N * N)) :=
  firstn 200 (flat_map (fun ch => flat_map (case_diag g_ps) ch) g_cases).
Eval vm_compute in diag.
