(* Compiled only when TranslateHashCasesCheck.v fails: per domain the failing cases (position, what the model
   computes) and, for the policy domains, the value ids whose key-iteration observation differs. *)
From Verif Require Import TranslateHashRun TranslateCasesGen TranslateHashCasesGen.

Definition hcode_of {A} (r : robs A) : N * N :=
  match r with ROK _ => (0, 0) | RET i => (1, i) | REO c => (2, c) | RPANIC => (3, 0) end%N.

Eval vm_compute in
  (map (fun d => map (fun p => (fst p, hcode_of (snd p))) (hdom_diag d)) hdoms,
   map (fun d => map (fun p => (fst p, hcode_of (snd p))) (hddom_diag d)) hddoms,
   map (fun d => let '(a, b) := pdom_diag d in (map (fun p => (fst p, hcode_of (snd p))) a, b)) pdoms).
