(* C12: the comparisons of the regenerated constants with the model (no theorem here, so that
   the diagnosis file can import it when the check fails). *)
From Coq Require Import List NArith Bool.
Import ListNotations.
From Verif Require Import ValidateModel ParamTablesDefs ParamTablesGen.
Local Open Scope N_scope.

Definition const_checks : list bool :=
  [ vp_eqb g_MAX VP_MAX; vp_eqb g_SANE VP_SANE; vp_eqb g_CONSENSUS VP_CONSENSUS;
    vp_eqb g_Bare_CONSENSUS (ctx_consensus CBare); vp_eqb g_Bare_SANE (ctx_sane CBare);
    vp_eqb g_Legacy_CONSENSUS (ctx_consensus CLegacy); vp_eqb g_Legacy_SANE (ctx_sane CLegacy);
    vp_eqb g_Segwitv0_CONSENSUS (ctx_consensus CSegwitv0); vp_eqb g_Segwitv0_SANE (ctx_sane CSegwitv0);
    vp_eqb g_Tap_CONSENSUS (ctx_consensus CTap); vp_eqb g_Tap_SANE (ctx_sane CTap) ].

Definition failing_consts : list nat :=
  map fst (filter (fun p => negb (snd p)) (combine (seq 0 (length const_checks)) const_checks)).
Definition failing_rows : N :=
  fold_right N.add 0 (map (fun ch => N.of_nat (length (filter (fun r => negb (prow_ok g_limtab r)) ch))) g_rows).
