(* Compiled only when ParamTablesCheck.v fails: which constants / rows differ. *)
From Coq Require Import List NArith Bool Uint63.
Import ListNotations.
From Verif Require Import ValidateModel ParamTablesDefs ParamTablesGen ParamTablesConsts.
Local Open Scope N_scope.

Definition row_diag : list (N * N * N * bool * bool * bool) :=
  firstn 40 (flat_map (fun ch => flat_map (prow_diag g_limtab) ch) g_rows).
Eval vm_compute in (failing_consts, row_diag).

Definition prim_diag : list (N * N * N) * list N :=
  (map (fun r : int * int * int * int => let '(m, k, n, _) := r in (pi2n m, pi2n k, pi2n n))
       (firstn 20 (flat_map (filter (fun r => negb (pthr_ok r))) g_thr)),
   map (fun r : int * int * int => let '(n, _, _) := r in pi2n n) (firstn 20 (filter (fun r => negb (plock_ok r)) g_locks))).
Eval vm_compute in prim_diag.

Definition fi_diag : list (N * N * N * N) :=
  map (fun r : int * int * int * int * int => let '(m, k, h, n, _) := r in (pi2n m, pi2n k, pi2n h, pi2n n))
      (firstn 20 (flat_map (filter (fun r => negb (pfi_ok r))) g_fi)).
Eval vm_compute in fi_diag.
