(* Compiled only when ParamTablesCheck.v fails: which constants / rows differ. *)
From Coq Require Import List NArith Bool.
Import ListNotations.
From Verif Require Import ValidateModel ParamTablesDefs ParamTablesGen ParamTablesConsts.
Local Open Scope N_scope.

Definition row_diag : list (N * N * N * bool * bool * bool) :=
  firstn 40 (flat_map (fun ch => flat_map (prow_diag g_limtab) ch) g_rows).
Eval vm_compute in (failing_consts, row_diag).
