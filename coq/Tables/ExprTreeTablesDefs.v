(* Comparison of the expression-tree parser observations (real code) with the model. *)
From Coq Require Import List Bool NArith ZArith Uint63.
Import ListNotations.
From Verif Require Import ChecksumModel ExprTreeModel ChecksumTablesDefs ExprTreeTablesGen.
Local Open Scope N_scope.

Definition opt1 (o : option N) : N := match o with None => 0 | Some k => k + 1 end.
Definition parens_code (p : parens) : N := match p with PNone => 0 | PRound => 1 | PCurly => 2 end.

Definition node_obs (nd : node) : list N :=
  [nd_name_pos nd; blen (nd_name nd); parens_code (nd_parens nd); nd_n_children nd;
   opt1 (nd_parent nd); opt1 (nd_last_child nd); opt1 (nd_right_sibling nd)].

Definition ckerr_obs (e : ck_err) : list N :=
  match e with
  | InvalidCharacter p => [1; 10; p; 0]
  | InvalidChecksumLength a => [1; 11; a; 0]
  | InvalidChecksum => [1; 12; 0; 0]
  end.

Definition tree_obs (s : bytes) : list N :=
  match from_str_inner s with
  | Ok nodes => 0 :: nlen nodes :: flat_map node_obs nodes
  | Err (TEChecksum e) => ckerr_obs e
  | Err (TEMaxRecursionDepthExceeded a) => [1; 2; a; 0]
  | Err (TEExpectedParenOrComma p) => [1; 3; p; 0]
  | Err (TEUnmatchedOpenParen p) => [1; 4; p; 0]
  | Err (TEUnmatchedCloseParen p) => [1; 5; p; 0]
  | Err (TEMismatchedParens a b) => [1; 6; a; b]
  | Err (TETrailingCharacter p) => [1; 7; p; 0]
  | Panic _ => [2]
  end.

(* the model keeps names as byte strings; the harness checks in Rust that each name is the
   slice of the input at name_pos, so only position and length are transported.  The model's
   names are checked against the same slice here. *)
Definition names_ok (s : bytes) : bool :=
  match from_str_inner s with
  | Ok nodes => forallb (fun nd =>
        bytes_eqb (nd_name nd) (firstn (length (nd_name nd)) (skipn (N.to_nat (nd_name_pos nd)) s))) nodes
  | _ => true
  end.

Fixpoint nlist_eqb (a b : list N) : bool :=
  match a, b with
  | [], [] => true
  | x :: a', y :: b' => (x =? y) && nlist_eqb a' b'
  | _, _ => false
  end.

Definition case_ok (c : list int * list int) : bool :=
  let s := case_bytes (fst c) in
  nlist_eqb (tree_obs s) (map i2n (snd c)) && names_ok s.

Definition tree_check : bool := forallb case_ok tree_cases.

Definition tree_diff : list (nat * bytes * list N * list N) :=
  flat_map (fun t => let '(i, c) := t in
                     if case_ok c then [] else [(i, case_bytes (fst c), firstn 12 (map i2n (snd c)), firstn 12 (tree_obs (case_bytes (fst c))))])
           (combine (seq 0 (length tree_cases)) tree_cases).
