(* C04: a sample of every run's observations of the IMPLEMENTATION is compared with the model
   inside Coq (vm_compute), which also cross-checks the OCaml extraction used for the bulk
   run.  This file: the shape of a case and the comparison; the data is generated at run time
   (Tables/CodecCasesGen.v) and checked by Tables/CodecCasesCheck.v. *)
From Verif Require Export DecodeModel.
Local Open Scope N_scope.

(* numeric codes of the error classes (tools/props/c04.py uses the same table) *)
Definition lexerr_code (e : lex_err) : N :=
  match e with
  | LeEarlyEnd => 1 | LeNonMinimalPush => 2 | LeInvalidInt => 3 | LeNegativeInt => 4
  | LeInvalidOpcode => 5 | LeNonMinimalVerify => 6 | LeFuel => 99
  end.
Definition ctxerr_code (c : ctxerr) : N :=
  match c with
  | CeUncompressedKeysNotAllowed => 30 | CeMultiANotAllowed => 31 | CeTaprootMultiDisabled => 32
  | CeMaxWitnessScriptSizeExceeded => 33 | CeMaxRedeemScriptSizeExceeded => 34 | CeMaxBareScriptSizeExceeded => 35
  end.
Definition derr_code (e : derr) : N :=
  match e with
  | DeLex l => lexerr_code l
  | DeUnexpectedStart => 10 | DeUnexpected => 11 | DeTrailing => 12 | DeTypeCheck => 13
  | DeMaxRecursiveDepthExceeded => 14 | DePubKeyCtxError => 15 | DeAbsoluteLockTime => 16
  | DeRelativeLockTime => 17 | DeThreshold => 18
  | DeContextError c => ctxerr_code c
  end.

(* what the implementation answered *)
Inductive cobs :=
| CAccept (m : ms) (size pkcost : N) (reenc : bytes)   (* decoded AST, script_size(), ext.pk_cost, encode() *)
| CReject (class : N)
| CPanic.

Record ccase := mkCase {
  cc_id : N;
  cc_ctx : ctx;
  cc_bytes : bytes;                      (* the byte string offered to the decoder *)
  cc_keys : list (bytes * key);          (* byte strings that parse as a key in this context, with their index *)
  cc_lex : option (list token);          (* implementation's token vector, None = lexer error *)
  cc_lexerr : N;                         (* class of the lexer error (0 if none) *)
  cc_dec : cobs;                         (* decode_with_validation_params(.., MAX) *)
  cc_src : option (ms * N * N * bool)    (* generated AST with the implementation's script_size, pk_cost, has_free_verify; its encode() is cc_bytes *)
}.

Fixpoint assoc_bytes (l : list (bytes * key)) (b : bytes) : option key :=
  match l with
  | [] => None
  | (x, k) :: r => if bytes_eqb x b then Some k else assoc_bytes r b
  end.
Fixpoint assoc_key (l : list (bytes * key)) (k : key) : bytes :=
  match l with
  | [] => [255]
  | (x, k') :: r => if k =? k' then x else assoc_key r k
  end.

(* insertion sort of keys by their serialisation (BIP67), stable *)
Fixpoint bytes_leb (a b : bytes) : bool :=
  match a, b with
  | [], _ => true
  | _ :: _, [] => false
  | x :: r, y :: s => if x <? y then true else if y <? x then false else bytes_leb r s
  end.
Fixpoint ins_key (f : key -> bytes) (k : key) (l : list key) : list key :=
  match l with
  | [] => [k]
  | h :: r => if bytes_leb (f h) (f k) then h :: ins_key f k r else k :: l
  end.
Definition sort_keys (f : key -> bytes) (l : list key) : list key := fold_left (fun acc k => ins_key f k acc) l [].

(* world: index -> (bytes pushed in this context, hash160 of them, compressed/x-only form used for sorting) *)
Definition world := list (key * (bytes * bytes * bytes)).
Fixpoint world_get (w : world) (k : key) : option (bytes * bytes * bytes) :=
  match w with [] => None | (k', v) :: r => if k =? k' then Some v else world_get r k end.

Definition case_keyenv (w : world) (c : ccase) : keyenv :=
  let kbf := fun k => match world_get w k with Some (b, _, _) => b | None => assoc_key (cc_keys c) k end in
  mkKeyEnv kbf
    (fun k => match world_get w k with Some (_, h, _) => h | None => [255] end)
    (sort_keys (fun k => match world_get w k with Some (_, _, s) => s | None => kbf k end)).

Definition case_env (w : world) (c : ccase) : denv :=
  mkDenv (cc_ctx c) (case_keyenv w c) (assoc_bytes (cc_keys c)).

Fixpoint ms_eqb (a b : ms) {struct a} : bool :=
  let lists := fix lists (l1 l2 : list ms) : bool :=
    match l1, l2 with
    | [], [] => true
    | x :: r, y :: s => ms_eqb x y && lists r s
    | _, _ => false end in
  let keys_eqb := fix keys_eqb (l1 l2 : list key) : bool :=
    match l1, l2 with
    | [], [] => true
    | x :: r, y :: s => (x =? y) && keys_eqb r s
    | _, _ => false end in
  match a, b with
  | MTrue, MTrue | MFalse, MFalse => true
  | MPkK x, MPkK y | MPkH x, MPkH y | MAfter x, MAfter y | MOlder x, MOlder y => x =? y
  | MRawPkH x, MRawPkH y | MSha256 x, MSha256 y | MHash256 x, MHash256 y
  | MRipemd160 x, MRipemd160 y | MHash160 x, MHash160 y => bytes_eqb x y
  | MAlt x, MAlt y | MSwap x, MSwap y | MCheck x, MCheck y | MDupIf x, MDupIf y | MVerify x, MVerify y
  | MNonZero x, MNonZero y | MZeroNotEqual x, MZeroNotEqual y => ms_eqb x y
  | MAndV x1 x2, MAndV y1 y2 | MAndB x1 x2, MAndB y1 y2 | MOrB x1 x2, MOrB y1 y2
  | MOrD x1 x2, MOrD y1 y2 | MOrC x1 x2, MOrC y1 y2 | MOrI x1 x2, MOrI y1 y2 => ms_eqb x1 y1 && ms_eqb x2 y2
  | MAndOr x1 x2 x3, MAndOr y1 y2 y3 => ms_eqb x1 y1 && ms_eqb x2 y2 && ms_eqb x3 y3
  | MThresh k xs, MThresh k' ys => (k =? k') && lists xs ys
  | MMulti k xs, MMulti k' ys | MSortedMulti k xs, MSortedMulti k' ys
  | MMultiA k xs, MMultiA k' ys | MSortedMultiA k xs, MSortedMultiA k' ys => (k =? k') && keys_eqb xs ys
  | _, _ => false
  end.

Fixpoint toks_eqb (a b : list token) : bool :=
  match a, b with
  | [], [] => true
  | x :: r, y :: s => tok_eqb x y && toks_eqb r s
  | _, _ => false
  end.

(* which comparison of a case fails: 1 lexer, 2 decoder, 3 encoder, 4 script_size, 5 pk_cost,
   6 has_free_verify, 7 model's encoder / sizes on the decoded AST *)
Definition check_case (w : world) (c : ccase) : list N :=
  let e := case_env w c in
  let ke := d_ke e in
  (match lex (cc_bytes c), cc_lex c with
   | LexOk ts, Some ts' => if toks_eqb ts ts' then [] else [1]
   | LexErr le, None => if lexerr_code le =? cc_lexerr c then [] else [1]
   | _, _ => [1]
   end) ++
  (match decode_max e (cc_bytes c), cc_dec c with
   | OOk m, CAccept m' sz pc re =>
     (if ms_eqb m m' then [] else [2]) ++
     (if bytes_eqb (encode ke m') re && (script_size (cc_ctx c) ke m' =? sz) && (pk_cost (cc_ctx c) ke m' =? pc)
      then [] else [7])
   | OErr err, CReject cl => if derr_code err =? cl then [] else [2]
   | _, _ => [2]
   end) ++
  (match cc_src c with
   | None => []
   | Some (m, sz, pc, hf) =>
     (if bytes_eqb (encode ke m) (cc_bytes c) then [] else [3]) ++
     (if script_size (cc_ctx c) ke m =? sz then [] else [4]) ++
     (if pk_cost (cc_ctx c) ke m =? pc then [] else [5]) ++
     (if Bool.eqb (hfv m) hf then [] else [6])
   end).

Definition failing (w : ctx -> world) (cs : list ccase) : list (N * list N) :=
  flat_map (fun c => match check_case (w (cc_ctx c)) c with [] => [] | l => [(cc_id c, l)] end) cs.
