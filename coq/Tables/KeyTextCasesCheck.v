(* Tie for the text format of DescriptorPublicKey: on every text of this run, the real
   `DescriptorPublicKey::from_str` (under catch_unwind) and the model [key_parse] give the same structure
   (origin, body, path(s), wildcard) or the same error class, the real `Display` of the parsed key is the
   model's [key_print], and the printed text reparses to an equal key on both sides.
   One evaluation in the kernel. *)
From Coq Require Import List Bool NArith.
From Verif Require Import KeyTextModel KeyTextCasesGen KeyTextCasesDefs.

Theorem keytext_cases_match_model : keytext_check = true.
Proof. vm_cast_no_check (eq_refl true). Qed.
