(* C11 tie (iterators of iter/tree.rs, taproot tree builder): the observations of the compiled
   library (Tables/RobustIterCasesGen.v, regenerated on every run by `verif-harness robust iters`)
   are compared with the models INSIDE Coq.  The two values printed last must be empty lists: the
   first holds the positions of the iterator rows that differ (with which of the five
   comparisons failed), the second the positions of the taproot rows that differ (with the
   outcome codes and the numbers of leaves of the implementation and of the model). *)
From Coq Require Import List NArith Bool.
From Verif Require Import Bytes RobustModel RobustIterSpec RobustTapTreeModel RobustIterCasesGen.
Import ListNotations.
Local Open Scope N_scope.

Fixpoint leqb (a b : list N) : bool :=
  match a, b with [], [] => true | x :: r, y :: s => (x =? y) && leqb r s | _, _ => false end.
Definition yeqb (a b : N * N * list N) : bool :=
  let '(l1, i1, c1) := a in let '(l2, i2, c2) := b in (l1 =? l2) && (i1 =? i2) && leqb c1 c2.
Fixpoint yseqb (a b : list (N * N * list N)) : bool :=
  match a, b with [], [] => true | x :: r, y :: s => yeqb x y && yseqb r s | _, _ => false end.
Fixpoint peqb (a b : list (N * N)) : bool :=
  match a, b with [], [] => true | (x1, x2) :: r, (y1, y2) :: s => (x1 =? y1) && (x2 =? y2) && peqb r s | _, _ => false end.
Definition yobs (ys : list post_yield) : list (N * N * list N) := map (fun y => (y_label y, y_index y, y_children y)) ys.
Fixpoint enumerate_from (i : N) (l : list N) : list (N * N) :=
  match l with [] => [] | x :: r => (x, i) :: enumerate_from (i + 1) r end.

(* which comparisons fail on a row: 1 pre-order, 2 post-order items, 3 right-to-left post-order
   items, 4 verbose pre-order (first yields with their indices = enumerated pre-order),
   5 number of verbose yields (every node once more than it has children: 2 * size - 1) *)
Definition iter_row_fails (row : rtree * (list N * list (N * N * list N) * list (N * N * list N) * list (N * N) * N)) : list N :=
  let '(t, (pre, post, rtl, first, nverb)) := row in
  (if match pre_run (rsize t) [t] with Some l => leqb l pre | None => false end then [] else [1]) ++
  (if match post_order t with ROk ys => yseqb (yobs ys) post | _ => false end then [] else [2]) ++
  (if match rtl_post_order t with ROk ys => yseqb (yobs ys) rtl | _ => false end then [] else [3]) ++
  (if peqb first (enumerate_from 0 (preorder t)) then [] else [4]) ++
  (if nverb =? 2 * N.of_nat (rsize t) - 1 then [] else [5]).

Fixpoint iter_bad_from (i : N) (rows : list (rtree * (list N * list (N * N * list N) * list (N * N * list N) * list (N * N) * N))) : list (N * list N) :=
  match rows with
  | [] => []
  | r :: rest => match iter_row_fails r with [] => iter_bad_from (i + 1) rest | f => (i, f) :: iter_bad_from (i + 1) rest end
  end.
Definition iter_bad := iter_bad_from 0 iter_rows.

(* outcome codes: 0 = Err, 1 = Ok(depths of the leaves), 2 = Panic *)
Definition tap_model (t : tshape) : N * list N :=
  match tap_parse t with ROk d => (1, d) | RErr _ => (0, []) | RPanic _ => (2, []) end.
Fixpoint tap_bad_from (i : N) (rows : list (tshape * (N * list N))) : list (N * (N * N) * (N * N)) :=
  match rows with
  | [] => []
  | (t, (c, d)) :: rest =>
    let '(c', d') := tap_model t in
    if (c =? c') && leqb d d' then tap_bad_from (i + 1) rest
    else (i, (c, c'), (nlen d, nlen d')) :: tap_bad_from (i + 1) rest
  end.
(* (row position, (implementation's code, model's code), (number of leaves: implementation, model)) *)
Definition tap_bad := tap_bad_from 0 tap_rows.

Definition iter_counts := (length iter_rows, fold_left (fun a r => (a + rsize (fst r))%nat) iter_rows 0%nat,
                           length tap_rows, length (filter (fun row => fst (snd row) =? 0) tap_rows)).
Eval vm_compute in iter_counts.
Eval vm_compute in iter_bad.
Eval vm_compute in tap_bad.
