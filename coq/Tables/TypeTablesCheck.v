(* Complete tie for the typing rules: re-checked on every run against the regenerated tables. *)
From Coq Require Import List NArith Uint63 ZArith.
Import ListNotations.
From Verif Require Import Types TypeTables TypeTablesDefs.

(* which tables differ (empty on a tree whose rules equal the model's) *)
Definition failing : list nat :=
  map fst (filter (fun p => negb (snd p)) (combine (seq 0 (length checks)) checks)).
Eval vm_compute in failing.

Theorem tables_match_model : forallb (fun b => b) checks = true.
Proof. vm_compute. reflexivity. Qed.
