(* Static part of the C09 tie: vocabulary of the generated file Tables/ExtCasesGen.v (written by
   tools/props/c09.py from the `ext` engine's output on every run) and the functions that run
   the MODEL (Ms/ExtModel.v) on the same inputs.  Compared inside Coq by ExtCasesCheck.v. *)
From Verif Require Export ExtModel ExtTlSpec.
From Verif Require LiftLimits.
Local Open Scope N_scope.

(* ---- compact constructors used by the generated data ---- *)
Definition S (wsize wcount ssig estack eops : N) : option satdata := Some (mkSD wsize wcount ssig estack eops).
Definition E (pk : N) (fv : bool) (ops : N) (sat dis : option satdata) (tl : tlinfo) (h : N) : ext :=
  mkExt pk fv ops sat dis tl h.
Definition T := mkTL.
Definition H32 : bytes := repeat 0 32.
Definition H20 : bytes := repeat 0 20.

(* ---- equality tests ---- *)
Definition sd_eqb (a b : satdata) : bool :=
  (sd_wsize a =? sd_wsize b) && (sd_wcount a =? sd_wcount b) && (sd_ssig a =? sd_ssig b)
  && (sd_estack a =? sd_estack b) && (sd_eops a =? sd_eops b).
Definition osd_eqb (a b : option satdata) : bool :=
  match a, b with Some x, Some y => sd_eqb x y | None, None => true | _, _ => false end.
Definition tl_eqb (a b : tlinfo) : bool :=
  Bool.eqb (tl_csv_h a) (tl_csv_h b) && Bool.eqb (tl_csv_t a) (tl_csv_t b)
  && Bool.eqb (tl_cltv_h a) (tl_cltv_h b) && Bool.eqb (tl_cltv_t a) (tl_cltv_t b)
  && Bool.eqb (tl_comb a) (tl_comb b).
Definition ext_eqb (a b : ext) : bool :=
  (pk_cost a =? pk_cost b) && Bool.eqb (has_free_verify a) (has_free_verify b)
  && (static_ops a =? static_ops b) && osd_eqb (sat_data a) (sat_data b)
  && osd_eqb (dissat_data a) (dissat_data b) && tl_eqb (timelock_info a) (timelock_info b)
  && (tree_height a =? tree_height b).
Definition xout_eqb (a b : xout) : bool :=
  match a, b with XOk x, XOk y => ext_eqb x y | XPanic, XPanic => true | _, _ => false end.
Definition on_eqb (a b : option N) : bool :=
  match a, b with Some x, Some y => x =? y | None, None => true | _, _ => false end.

(* ---- rule-level calls (public ExtData::* functions on plain data) ---- *)
Inductive rcall :=
| RConst (which : N)                    (* 0 FALSE, 1 TRUE, 2 sha256, 3 hash256, 4 ripemd160, 5 hash160 *)
| RPkK (schnorr unc : bool)
| RPkH (schnorr unc : bool)
| RPkHNone (schnorr : bool)              (* pk_h(None) *)
| RAfter (t : N) | ROlder (t : N)
| RMulti (k : N) (uncs : list bool)     (* multi and sortedmulti *)
| RMultiA (k n : N)                     (* multi_a and sortedmulti_a *)
| RUn (which : N) (x : ext)             (* 0 alt 1 swap 2 check 3 dupif 4 verify 5 nonzero 6 zeronotequal 7 true 8 unlikely 9 likely *)
| RBin (which : N) (l r : ext)          (* 0 and_b 1 and_v 2 or_b 3 or_d 4 or_c 5 or_i *)
| RAndOr (a b c : ext)
| RThresh (k : N) (subs : list ext).

Definition run_rcall (r : rcall) : xout :=
  let fx := as_written in
  match r with
  | RConst 0 => XOk ext_false
  | RConst 1 => XOk ext_true
  | RConst 2 | RConst 3 => XOk ext_hash32
  | RConst _ => XOk ext_hash20
  | RPkK s u => XOk (ext_pk_k fx s u)
  | RPkH s u => XOk (ext_pk_h fx s u)
  | RPkHNone s => XOk (ext_pk_h_none fx s)
  | RAfter t => XOk (ext_after t)
  | ROlder t => XOk (ext_older t)
  | RMulti k uncs => checked (ext_multi k uncs)
  | RMultiA k n => ext_multi_a_o k n
  | RUn w x =>
    checked (match w with
             | 0 => ext_cast_alt x | 1 => ext_cast_swap x | 2 => ext_cast_check x | 3 => ext_cast_dupif fx x
             | 4 => ext_cast_verify x | 5 => ext_cast_nonzero x | 6 => ext_cast_zeronotequal x
             | 7 => ext_cast_true fx x | 8 => ext_cast_unlikely x | _ => ext_cast_likely x
             end)
  | RBin w l r =>
    checked (match w with
             | 0 => ext_and_b l r | 1 => ext_and_v fx l r | 2 => ext_or_b l r | 3 => ext_or_d l r
             | 4 => ext_or_c l r | _ => ext_or_i l r
             end)
  | RAndOr a b c => checked (ext_and_or a b c)
  | RThresh k subs => ext_threshold_o k subs
  end.

Definition rule_bad (cases : list (rcall * xout)) : list (rcall * xout) :=
  filter (fun p => negb (xout_eqb (run_rcall (fst p)) (snd p))) cases.

(* indices of the failing cases with the model's answer, for the diagnosis *)
Fixpoint rule_diag (i : N) (cases : list (rcall * xout)) : list (N * xout) :=
  match cases with
  | [] => []
  | p :: r =>
    let m := run_rcall (fst p) in
    if xout_eqb m (snd p) then rule_diag (i + 1) r else (i, m) :: rule_diag (i + 1) r
  end.

(* ---- contexts of the harness world: keys 6, 7 are uncompressed outside Tap ---- *)
Inductive cid := CBare | CLegacy | CSegwit | CTap.
Definition cx (c : cid) : xctx :=
  match c with
  | CBare | CLegacy => mkXctx false (fun k => 6 <=? k) (fun k => if 6 <=? k then 66 else 34)
  | CSegwit => mkXctx false (fun k => 6 <=? k) (fun _ => 34)
  | CTap => mkXctx true (fun _ => false) (fun _ => 33)
  end.
Definition legacy_like (c : cid) : bool := match c with CBare | CLegacy => true | _ => false end.
(* only the LENGTHS of key and hash pushes matter for sizes *)
Definition kenv_len (c : cid) : keyenv :=
  mkKeyEnv (fun k => match c with CTap => repeat 0 32 | _ => if 6 <=? k then repeat 0 65 else repeat 0 33 end)
           (fun _ => repeat 0 20) (fun l => l).

(* a miniscript with everything the implementation reports about it *)
Record tcase := mkT {
  t_ctx : cid; t_ms : ms; t_ext : ext;
  t_script_size : N; t_enc_len : N; t_mss : option N; t_mse : option N
}.
Definition tcase_ok (t : tcase) : bool :=
  let c := cx (t_ctx t) in
  let e := ext_of c (t_ms t) in
  ext_eqb e (t_ext t)
  && (script_size c (t_ms t) =? t_script_size t)
  && (blen (encode (kenv_len (t_ctx t)) (t_ms t)) =? t_enc_len t)
  && on_eqb (max_sat_size (legacy_like (t_ctx t)) e) (t_mss t)
  && on_eqb (max_sat_witness_elements e) (t_mse t).
Fixpoint tree_diag (i : N) (cases : list tcase) : list (N * ext * N * N) :=
  match cases with
  | [] => []
  | t :: r =>
    if tcase_ok t then tree_diag (i + 1) r
    else (i, ext_of (cx (t_ctx t)) (t_ms t), script_size (cx (t_ctx t)) (t_ms t),
          blen (encode (kenv_len (t_ctx t)) (t_ms t))) :: tree_diag (i + 1) r
  end.
(* how many generated scripts fall inside the classes the theorems cover *)
Definition count_safe (fx : fixes) (cases : list tcase) : N :=
  N.of_nat (length (filter (fun t => ext_safe fx (cx (t_ctx t)) (t_ms t)) cases)).

(* descriptors: (kind, leaves (depth, ctx, ms)), reported max_weight_to_satisfy *)
Inductive dshape :=
| DSingle (dk : dkind) (c : cid) (m : ms)
| DTr (leaves : list (N * ms)).
Definition dshape_weight (fx : fixes) (d : dshape) : option N :=
  match d with
  | DSingle dk c m => desc_weight fx dk (cx c) m
  | DTr leaves =>
    tr_tree_weight
      (map (fun dm : N * ms =>
              let e := ext_of_gen fx (cx CTap) (snd dm) in
              (fst dm, script_size_gen fx (cx CTap) (snd dm),
               match max_sat_witness_elements e, max_sat_size false e with
               | Some el, Some sz => Some (el, sz) | _, _ => None end)) leaves)
  end.
Definition dcase_ok (p : dshape * option N) : bool := on_eqb (dshape_weight as_written (fst p)) (snd p).
Fixpoint desc_diag (i : N) (cases : list (dshape * option N)) : list (N * option N) :=
  match cases with
  | [] => []
  | p :: r => if dcase_ok p then desc_diag (i + 1) r else (i, dshape_weight as_written (fst p)) :: desc_diag (i + 1) r
  end.

(* plans: template item sizes as util.rs ItemSize gives them; announced (witness, scriptsig, weight) *)
Definition pcase_ok (p : plan_kind * list N * (N * N * N)) : bool :=
  let '(pk, sizes, (w, s, sw)) := p in
  (plan_witness_size pk sizes =? w) && (plan_scriptsig_size pk sizes =? s) && (plan_satisfaction_weight pk sizes =? sw).

(* attribution of an undershoot: which sets of candidate repairs make the figure cover the measurement.
   bit 0 thresh, bit 1 dupif, bit 2 unc, bit 3 andv *)
Definition fixes_of_mask (b : N) : fixes :=
  mkFixes (N.testbit b 0) (N.testbit b 1) (N.testbit b 2) (N.testbit b 3).
Definition masks16 : list N := [0;1;2;3;4;5;6;7;8;9;10;11;12;13;14;15].
(* field: 0 witness count, 1 witness size, 2 scriptSig size,
          4 stack depth bound (max_witness_stack_count + max_exec_stack_count),
          5 opcode bound (static_ops + max_exec_op_count) *)
Definition ms_figure (fx : fixes) (c : cid) (m : ms) (field : N) : option N :=
  let e := ext_of_gen fx (cx c) m in
  option_map (fun d => match field with
                       | 0 => sd_wcount d | 1 => sd_wsize d | 2 => sd_ssig d
                       | 4 => sd_wcount d + sd_estack d
                       | _ => static_ops e + sd_eops d
                       end)
             (sat_data e).
Definition covers (fig : option N) (measured : N) : bool :=
  match fig with Some f => measured <=? f | None => false end.
Definition attr_ms (c : cid) (m : ms) (field measured : N) : list N :=
  filter (fun b => covers (ms_figure (fixes_of_mask b) c m field) measured) masks16.
Definition attr_weight (d : dshape) (measured : N) : list N :=
  filter (fun b => covers (dshape_weight (fixes_of_mask b) d) measured) masks16.

(* ---- limit verdicts on directed near-limit scripts (V lines) ----
   [validate_limits]: the size / witness-item / opcode / stack checks of
   Miniscript::validate_non_top_level under the context's SANE parameters, in the code's order
   (0 ok, 1 script size, 2 witness items, 3 opcode count, 4 execution stack). The stack check is
   max_witness_stack_count + max_exec_stack_count <= 1000: the quantity C09_exec_depth_limit_partial
   bounds the real depth by. [within]: Miniscript::within_resource_limits as modelled for C07
   (Ms/LiftLimits.v, over the same ExtData model). *)
Record vcase := mkV { v_ctx : cid; v_ms : ms; v_verdict : N; v_within : bool }.
(* script size, witness items (incl. the witness script), opcodes, stack elements *)
Definition sane_limits (c : cid) : option N * option N * option N * option N :=
  match c with
  | CLegacy => (Some 520, None, Some 201, None)
  | CBare => (Some 10000, None, Some 201, None)
  | CSegwit => (Some 3600, Some 100, Some 201, Some 1000)
  | CTap => (None, None, None, Some 1000)
  end.
Definition over (o : option N) (v : N) : bool := match o with Some l => l <? v | None => false end.
Definition validate_limits (c : cid) (m : ms) : N :=
  let x := ext_of (cx c) m in
  let '(lsz, lwi, lop, lst) := sane_limits c in
  if over lsz (script_size (cx c) m) then 1 else
  match sat_data x with
  | None => 0
  | Some d =>
    if over lwi (sd_wcount d + 1) then 2 else
    if over lop (static_ops x + sd_eops d) then 3 else
    if over lst (sd_wcount d + sd_estack d) then 4 else 0
  end.
Definition lctx_of (c : cid) : Ast.ctx :=
  match c with CBare => Ast.Bare | CLegacy => Ast.Legacy | CSegwit => Ast.Segwitv0 | CTap => Ast.Tap end.
Definition model_within (c : cid) (m : ms) : bool :=
  LiftLimits.within_resource_limits (lctx_of c) (fun k => 6 <=? k) m.
Definition vcase_ok (v : vcase) : bool :=
  (validate_limits (v_ctx v) (v_ms v) =? v_verdict v) && Bool.eqb (model_within (v_ctx v) (v_ms v)) (v_within v).
Fixpoint limit_diag (i : N) (cases : list vcase) : list (N * N * bool) :=
  match cases with
  | [] => []
  | v :: r =>
    if vcase_ok v then limit_diag (i + 1) r
    else (i, validate_limits (v_ctx v) (v_ms v), model_within (v_ctx v) (v_ms v)) :: limit_diag (i + 1) r
  end.

(* ---- H lines: the recursion-depth checks on `n:` chains above c:pk_k(K0), built bottom-up with from_ast ----
   (level, Some height when from_ast accepted / None when it refused, [(max_recursive_depth, validate said ok)]) *)
Definition depth_chain (level : N) : ms := N.iter level MZeroNotEqual (MCheck (MPkK 0)).
Definition hcase := (N * option N * list (N * bool))%type.
Definition hcase_model (level : N) : option N :=
  if built_by_from_ast as_written (cx CTap) (depth_chain level)
  then Some (tree_height (ext_of (cx CTap) (depth_chain level))) else None.
Definition hcase_ok (h : hcase) : bool :=
  let '(lv, acc, vds) := h in
  on_eqb (hcase_model lv) acc
  && forallb (fun p : N * bool => Bool.eqb (validate_depth_ok (fst p) (ext_of (cx CTap) (depth_chain lv))) (snd p)) vds.
Definition depth_diag (cases : list hcase) : list (N * option N) :=
  map (fun h : hcase => (fst (fst h), hcase_model (fst (fst h)))) (filter (fun h => negb (hcase_ok h)) cases).

(* ---- key-only descriptors (pkh / wpkh / sh(wpkh)): max_weight_to_satisfy and the deprecated
   max_satisfaction_weight (absolute weight: scriptSig with its length prefix, witness with its count) ---- *)
Inductive kokind := KPkh | KWpkh | KShWpkh.
Definition ko_pklen (unc : bool) : N := if unc then 66 else 34.     (* BareCtx::pk_len / Segwitv0::pk_len *)
Definition keyonly_weight (k : kokind) (unc : bool) : N :=
  match k with KPkh => pkh_weight (ko_pklen unc) | KWpkh => wpkh_weight | KShWpkh => sh_wpkh_weight end.
Definition keyonly_old_weight (k : kokind) (unc : bool) : N :=
  match k with
  | KPkh => 4 * (1 + 73 + ko_pklen unc)
  | KWpkh => 4 + 1 + 73 + 34
  | KShWpkh => 4 * 23 + (4 + 1 + 73 + 34)
  end.
(* (kind, uncompressed key, max_weight_to_satisfy, max_satisfaction_weight) *)
Definition kcase := (kokind * bool * N * N)%type.
Definition kcase_ok (k : kcase) : bool :=
  let '(kd, unc, mw, msw) := k in (keyonly_weight kd unc =? mw) && (keyonly_old_weight kd unc =? msw).
Definition keyonly_diag (cases : list kcase) : list (kokind * bool * N * N) :=
  map (fun k : kcase => let '(kd, unc, _, _) := k in (kd, unc, keyonly_weight kd unc, keyonly_old_weight kd unc))
      (filter (fun k => negb (kcase_ok k)) cases).
