(* C04 x C12: this run's observations of Miniscript::decode_with_validation_params (and of
   decode_consensus / decode) under many ValidationParams are compared with
   Ms/DecodeParamsModel.decode_with INSIDE Coq (vm_compute).  This file: the shape of a case and
   the comparison; the data is generated at run time (Tables/DecParamsCasesGen.v, written by
   tools/props/c04_decparams.py from the `decparams` engine's output) and checked by
   Tables/DecParamsCasesCheck.v.  Key tables / worlds as in CodecCasesDefs. *)
From Verif Require Export CodecCasesDefs.
From Verif Require Export ValidateModel DecodeParamsModel.
Local Open Scope N_scope.

(* byte strings of the generated data are written as (ub length number), little endian: one numeral
   is elaborated much faster than a list literal *)
Fixpoint ub (n : nat) (x : N) : bytes :=
  match n with O => [] | S k => N.modulo x 256 :: ub k (N.div x 256) end.

(* what the implementation answered under one parameter set *)
Inductive dpobs :=
| DAccept (m : ms)         (* Ok: the decoded AST *)
| DSame                    (* Ok, and the AST printed exactly like the MAX row's *)
| DReject (class : N)      (* Err: derr_code / verr_code of the class *)
| DCrash.                  (* panic *)

(* the MAX result's own figures: ty.corr.base, mall.non_malleable, mall.signed, script_size(),
   ext.tree_height, has_mixed_timelocks(), has_repeated_keys(), ext.sat_data as validate reads it *)
Record dpfig := mkFig {
  f_base : N; f_nm : bool; f_signed : bool; f_size : N; f_height : N; f_mixed : bool; f_dup : bool;
  f_sat : option (N * N * N) }.

Record dpcase := mkDp {
  dp_id : N;
  dp_ctx : Ast.ctx;
  dp_bytes : bytes;
  dp_keys : list (bytes * key);
  dp_max : dpobs;                      (* decode_with_validation_params(.., MAX) *)
  dp_fig : option dpfig;
  dp_rows : list (vparams * dpobs) }.

Definition dp_env (w : world) (c : dpcase) : denv :=
  case_env w (mkCase (dp_id c) (dp_ctx c) (dp_bytes c) (dp_keys c) None 0 CPanic None).

Definition base_code (b : base) : N := match b with BB => 0 | BK => 1 | BV => 2 | BW => 3 end.

Definition obs_ok (mmax : option ms) (r : dpres) (o : dpobs) : bool :=
  match r, o with
  | DpOk m, DAccept m' => ms_eqb m m'
  | DpOk m, DSame => match mmax with Some m' => ms_eqb m m' | None => false end
  | DpErr e, DReject cl => derr_code e =? cl
  | DpInvalid v, DReject cl => verr_code v =? cl
  | _, _ => false
  end.

Definition sat_eqb (a : option satfig) (b : option (N * N * N)) : bool :=
  match a, b with
  | None, None => true
  | Some d, Some (w, o, s) => (sf_wit_count d =? w) && (sf_op_count d =? o) && (sf_exec_stack d =? s)
  | _, _ => false
  end.

(* which figure of facts_of differs from the implementation's: 101 base, 102 non-malleable, 103 signed,
   104 script size, 105 tree height, 106 mixed locks, 107 repeated keys, 108 sat figures *)
Definition fig_check (c : Ast.ctx) (ke : keyenv) (m : ms) (f : dpfig) : list N :=
  let s := facts_of c ke m in
  (if base_code (s_base s) =? f_base f then [] else [101]) ++
  (if Bool.eqb (s_nonmall s) (f_nm f) then [] else [102]) ++
  (if Bool.eqb (s_signed s) (f_signed f) then [] else [103]) ++
  (if s_script_size s =? f_size f then [] else [104]) ++
  (if s_tree_height s =? f_height f then [] else [105]) ++
  (if Bool.eqb (s_mixed_locks s) (f_mixed f) then [] else [106]) ++
  (if Bool.eqb (has_repeated_keys s) (f_dup f) then [] else [107]) ++
  (if sat_eqb (s_sat s) (f_sat f) then [] else [108]).

Fixpoint rows_check (e : denv) (b : bytes) (mmax : option ms) (i : N) (rows : list (vparams * dpobs)) : list N :=
  match rows with
  | [] => []
  | (p, o) :: r =>
    (if obs_ok mmax (decode_with e p b) o then [] else [i]) ++ rows_check e b mmax (i + 1) r
  end.

(* failing comparisons of a case: 0 = the MAX row, 1.. = the other rows in order, 101.. = figures *)
Definition dp_check (w : world) (c : dpcase) : list N :=
  let e := dp_env w c in
  let mmax := match dp_max c with DAccept m => Some m | _ => None end in
  (if obs_ok None (decode_with e VP_MAX (dp_bytes c)) (dp_max c) then [] else [0]) ++
  rows_check e (dp_bytes c) mmax 1 (dp_rows c) ++
  (match mmax, dp_fig c with
   | Some m, Some f => fig_check (dp_ctx c) (d_ke e) m f
   | _, _ => []
   end).

Definition dp_failing (w : Ast.ctx -> world) (cs : list dpcase) : list (N * list N) :=
  flat_map (fun c => match dp_check (w (dp_ctx c)) c with [] => [] | l => [(dp_id c, l)] end) cs.

Definition dp_calls (cs : list dpcase) : N :=
  fold_right (fun c a => 1 + N.of_nat (length (dp_rows c)) + a) 0 cs.
