(* Tie for the expression-tree parser: on every generated / edited / exhaustively enumerated
   string of this run, expression::Tree::from_str (real code, under catch_unwind) and the
   model's from_str_inner give the same node vector or the same error with the same positions.
   One evaluation in the kernel, at Qed. *)
From Coq Require Import List Bool NArith.
From Verif Require Import ExprTreeModel ExprTreeTablesGen ExprTreeTablesDefs.

Theorem tree_cases_match_model : tree_check = true.
Proof. vm_cast_no_check (eq_refl true). Qed.
