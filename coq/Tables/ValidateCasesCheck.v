(* C12 correspondence, re-checked on every run: every recorded call of the compiled library
   (Miniscript::validate under each parameter set, every entry point) is replayed on the model. *)
From Coq Require Import List NArith Bool.
Import ListNotations.
From Verif Require Import ValidateModel ValidateCasesDefs ValidateCasesGen.
Local Open Scope N_scope.

Definition calls : N := fold_right N.add 0 (map (fun ch => fold_right N.add 0 (map case_calls ch)) g_cases).
Definition class_diffs : N :=
  fold_right N.add 0 (map (fun ch => fold_right N.add 0 (map (case_class_diffs g_ps) ch)) g_cases).
Eval vm_compute in (calls, class_diffs).

Theorem cases_match_model : forallb (forallb (case_ok g_ps)) g_cases = true.
Proof. vm_compute. reflexivity. Qed.
