(* C04 x C12: this run's observations of decode_with_validation_params / decode_consensus / decode
   equal Ms/DecodeParamsModel.decode_with (kernel evaluation), and the figures validate consults
   equal facts_of on the decoded AST.  Expected output: `= [] : list (N * list N)`. *)
From Verif Require Import DecParamsCasesDefs DecParamsCasesGen.
Eval vm_compute in (dp_failing dp_world dp_cases).
