(* Comparison of the generated checksum tables (real engine) with the model: definitions.
   Generated data are lists of primitive integers (fast to parse); they are converted to N
   by computation.  No Uint63 specification axiom is used (nothing is proved about them). *)
From Coq Require Import List Bool NArith ZArith Uint63.
Import ListNotations.
From Verif Require Import ChecksumModel ChecksumTablesGen.
Local Open Scope N_scope.

Definition i2n (i : int) : N := Z.to_N (Uint63.to_Z i).

(* a case is [code; length; 6-byte little-endian words ...] *)
Definition word_bytes (w : N) : list N :=
  [w mod 256; (w / 256) mod 256; (w / 65536) mod 256; (w / 16777216) mod 256;
   (w / 4294967296) mod 256; (w / 1099511627776) mod 256].
Definition case_code (c : list int) : N := match c with x :: _ => i2n x | [] => 7 end.
Definition case_bytes (c : list int) : bytes :=
  match c with
  | _ :: len :: ws => firstn (N.to_nat (i2n len)) (flat_map (fun w => word_bytes (i2n w)) ws)
  | _ => []
  end.

(* eight characters, 7 bits each *)
Definition pack7 (cs : bytes) : N := fold_right (fun c acc => c + 128 * acc) 0 cs.

Definition err_obs (e : ck_err) : N :=
  match e with
  | InvalidCharacter p => 1 + 8 * p
  | InvalidChecksumLength a => 2 + 8 * a
  | InvalidChecksum => 3
  end.

(* observation codes of the harness: class + 8 * value; class 0 Ok | 1..3 errors | 4 panic *)
Definition obs_engine (s : bytes) : N :=
  match desc_checksum s with
  | Ok cs => 8 * pack7 cs
  | Err e => err_obs e
  | Panic _ => 4
  end.
Definition obs_verify (s : bytes) : N :=
  match verify_checksum s with
  | Ok p => 8 * blen p
  | Err e => err_obs e
  | Panic _ => 4
  end.

Definition codes : list N := map N.of_nat (seq 32 95).
Definition singles_in : list bytes := map (fun c => [c]) codes.
Definition pairs_in : list bytes := flat_map (fun a => map (fun b => [a; b]) codes) codes.

Definition check_list (f : bytes -> N) (ins : list bytes) (tbl : list int) : bool :=
  Nat.eqb (length ins) (length tbl) &&
  forallb (fun t => f (fst t) =? i2n (snd t)) (combine ins tbl).

Definition check_cases (f : bytes -> N) (cases : list (list int)) : bool :=
  forallb (fun c => f (case_bytes c) =? case_code c) cases.

Definition ck_checks : list bool :=
  [ check_list obs_engine singles_in ck_single;
    check_list obs_engine pairs_in ck_pairs;
    check_cases obs_engine ck_rand;
    check_cases obs_verify ck_verify ].

(* diagnosis: (index, input bytes, implementation code, model code) of differing cases *)
Definition diff_list (f : bytes -> N) (ins : list bytes) (tbl : list int) : list (nat * bytes * N * N) :=
  flat_map (fun t => let '(i, (s, o)) := t in if f s =? i2n o then [] else [(i, s, i2n o, f s)])
           (combine (seq 0 (length ins)) (combine ins tbl)).
Definition diff_cases (f : bytes -> N) (cases : list (list int)) : list (nat * bytes * N * N) :=
  flat_map (fun t => let '(i, c) := t in
                     if f (case_bytes c) =? case_code c then [] else [(i, case_bytes c, case_code c, f (case_bytes c))])
           (combine (seq 0 (length cases)) cases).
