(* C18 tie, re-checked on every run against the regenerated observations
   (Tables/PolicyCasesGen.v is written by tools/props/c18.py from `verif-harness policy gen`). *)
From Coq Require Import List NArith Bool Arith.
Import ListNotations.
From Verif Require Import PolSemantic PolConcrete PolTruth PolicyCasesDefs PolicyCasesGen.

Definition verdicts : list (N * list N) := Eval vm_compute in judge_all (map unpack_line cases_w).

(* cases with a failed check (on the pinned tree: only codes >= 30, the known classes) *)
Eval vm_compute in verdicts.

Theorem cases_ok : forallb (fun ic => acceptable (snd ic)) verdicts = true.
Proof. vm_compute. reflexivity. Qed.
