(* C07 — in-Coq tie on this run's sample (generated LiftCasesGen.v):
   lift_cases_match_model  : the implementation's lift result equals the model's, case by case;
   lift_worlds_match_spec  : in every sampled world, the implementation's policy evaluated by
                             the truth table equals the satisfier's verdict and the
                             (non-)emptiness of the specification's satisfaction table. *)
From Coq Require Import List NArith Bool.
Import ListNotations.
From Verif Require Import LiftModel LiftCasesDefs LiftCasesGen.

Eval vm_compute in (length lift_cases, length lift_worlds).

Theorem lift_cases_match_model : forallb case_ok lift_cases = true.
Proof. vm_compute. reflexivity. Qed.

Theorem lift_worlds_match_spec : forallb (world_ok lift_pre_table lift_cases) lift_worlds = true.
Proof. vm_compute. reflexivity. Qed.
