(* C10 / C11 tie of the printer loop: every `Display` text of a miniscript row of this run
   (Tables/VerboseIterCasesGen.v: [verbose_texts], written by the compiled library's
   `impl Display for Miniscript`, i.e. conditional_fmt over VerbosePreOrderIter) is read back by the
   model's parser (ExprTreeModel.from_str_inner + MsTextModel.from_tree, no type check) and printed by
   the LOOP model Ms/DisplayIterModel.v ([display_iter]: verbose items of the DisplayNode tree, loop
   body [display_item]); the two texts must be equal, byte for byte.
   Instance: keys are `String`s (bijective base-256 numeration, as in Tables/MsTextCasesDefs.v),
   hashes are printed as they were read.  The value printed last must be the empty list; an entry is
   (row position, code): 1 = the model's parser rejects the text the library printed, 2 = the loop
   model prints a different text, 3 = the loop model does not finish. *)
From Coq Require Import List Bool NArith.
From Verif Require Import Bytes RobustModel VerboseIterModel ChecksumModel ExprTreeModel MsTextModel DisplayIterModel VerboseIterCasesGen.
Import ListNotations.
Local Open Scope N_scope.

Definition dk_enc (s : tbytes) : N := fold_right (fun b acc => acc * 256 + b + 1) 0 s.
Fixpoint dk_dec_aux (fuel : nat) (k : N) : tbytes :=
  match fuel with
  | O => []
  | S f => if k =? 0 then [] else ((k - 1) mod 256) :: dk_dec_aux f ((k - 1) / 256)
  end.
Definition dk_dec (k : N) : tbytes := dk_dec_aux (S (N.to_nat (N.log2 k))) k.

Definition d_parse (s : tbytes) := from_str_model (fun s => Some (dk_enc s)) (fun _ s => Some s) (fun _ => true) s.

Fixpoint dnl_eqb (a b : list N) : bool :=
  match a, b with [], [] => true | x :: a', y :: b' => (x =? y) && dnl_eqb a' b' | _, _ => false end.

Definition display_row_code (s : list N) : N :=
  match s with
  | [] => 0
  | _ =>
    match d_parse s with
    | Ok m => match display_iter dk_dec (fun _ s => s) m with
              | ROk s' => if dnl_eqb s s' then 0 else 2
              | _ => 3
              end
    | _ => 1
    end
  end.
Fixpoint display_bad_from (i : N) (l : list (list N)) : list (N * N) :=
  match l with
  | [] => []
  | s :: r => let c := display_row_code s in
              if c =? 0 then display_bad_from (i + 1) r else (i, c) :: display_bad_from (i + 1) r
  end.
Definition display_bad := display_bad_from 0 verbose_texts.

(* number of texts compared, total number of bytes *)
Eval vm_compute in (length (filter (fun s => match s with [] => false | _ => true end) verbose_texts),
                    fold_left (fun a s => (a + length s)%nat) verbose_texts 0%nat).
Eval vm_compute in display_bad.
