(* C18 tie: decoding of the harness observations (`verif-harness policy gen`) and the
   per-case judgement, evaluated inside Coq on every run.

   For every case two things are checked:
   * MODEL: the implementation's output equals the model's output (exact);
   * ORACLE: the implementation's own output satisfies the specification side
     (truth tables over all assignments to the leaves of the case), whatever the model says.
   [check_case] returns the list of failed checks as codes:
     10          the line does not decode
     11..19      MODEL mismatch   (1 normalized, 2 sorted, 3 n_keys, 4 minimum_n_keys,
                                   5 at_age, 6 at_lock_time, 7 entails, 8 check_timelocks, 9 lift)
     21..29      ORACLE failure of the same function, not in a known class
     34          ORACLE failure inside a known deviation class (PolTruth: has_dup_keys)
   Codes >= 30 are tolerated by [cases_ok]; tools/props/c18.py reports them under their
   known_findings key. *)
From Coq Require Import List NArith Bool Arith ZArith Uint63.
Import ListNotations.
From Verif Require Import PolSemantic PolConcrete PolTruth.

(* ---- unpacking: a line is a list of 60-bit words of ten 6-bit slots; the numbers of the
   line are base-32 varints over the slot stream (bit 5 of a slot = "more digits follow",
   least significant digit first); the first number is the count of the numbers after it.
   Primitive integers are used for this packing only (evaluated by vm_compute). ---- *)
Definition i2n (i : int) : N := Z.to_N (Uint63.to_Z i).
Definition slots_of_word (w : int) : list int :=
  map (fun sh => ((w >> sh) land 63)%uint63) [0; 6; 12; 18; 24; 30; 36; 42; 48; 54]%uint63.
Fixpoint varints (sl : list int) (cur sh : int) : list int :=
  match sl with
  | [] => []
  | s :: r =>
      let cur' := (cur lor ((s land 31) << sh))%uint63 in
      if (s land 32 =? 0)%uint63 then cur' :: varints r 0%uint63 0%uint63
      else varints r cur' (sh + 5)%uint63
  end.
Definition unpack_line (ws : list int) : list N :=
  match varints (flat_map slots_of_word ws) 0%uint63 0%uint63 with
  | n :: r => map i2n (firstn (N.to_nat (i2n n)) r)
  | [] => []
  end.

(* ---- decoding ---- *)
Definition dec_many {A} (dec1 : list N -> option (A * list N)) : nat -> list N -> option (list A * list N) :=
  fix go (n : nat) (ts : list N) : option (list A * list N) :=
    match n with
    | O => Some ([], ts)
    | S n' =>
        match dec1 ts with
        | Some (x, r) => match go n' r with Some (xs, r') => Some (x :: xs, r') | None => None end
        | None => None
        end
    end.

Fixpoint dec_pol (fuel : nat) (ts : list N) : option (spol * list N) :=
  match fuel with
  | O => None
  | S f =>
      match ts with
      | 0%N :: r => Some (SUnsat, r)
      | 1%N :: r => Some (STriv, r)
      | 2%N :: i :: r => Some (SKey i, r)
      | 3%N :: i :: r => Some (SAfter i, r)
      | 4%N :: i :: r => Some (SOlder i, r)
      | 5%N :: i :: r => Some (SSha256 i, r)
      | 6%N :: i :: r => Some (SHash256 i, r)
      | 7%N :: i :: r => Some (SRipemd160 i, r)
      | 8%N :: i :: r => Some (SHash160 i, r)
      | 9%N :: k :: n :: r =>
          match dec_many (dec_pol f) (N.to_nat n) r with
          | Some (subs, r') => Some (SThresh (N.to_nat k) subs, r')
          | None => None
          end
      | _ => None
      end
  end.

Fixpoint dec_cpol (fuel : nat) (ts : list N) : option (cpol * list N) :=
  match fuel with
  | O => None
  | S f =>
      match ts with
      | 0%N :: r => Some (CUnsat, r)
      | 1%N :: r => Some (CTriv, r)
      | 2%N :: i :: r => Some (CKey i, r)
      | 3%N :: i :: r => Some (CAfter i, r)
      | 4%N :: i :: r => Some (COlder i, r)
      | 5%N :: i :: r => Some (CSha256 i, r)
      | 6%N :: i :: r => Some (CHash256 i, r)
      | 7%N :: i :: r => Some (CRipemd160 i, r)
      | 8%N :: i :: r => Some (CHash160 i, r)
      | 9%N :: k :: n :: r =>
          match dec_many (dec_cpol f) (N.to_nat n) r with
          | Some (subs, r') => Some (CThresh (N.to_nat k) subs, r')
          | None => None
          end
      | 10%N :: n :: r =>
          match dec_many (dec_cpol f) (N.to_nat n) r with
          | Some (subs, r') => Some (CAnd subs, r')
          | None => None
          end
      | 11%N :: n :: r =>
          match dec_many (dec_cpol f) (N.to_nat n) r with
          | Some (subs, r') => Some (COr subs, r')
          | None => None
          end
      | 12%N :: n :: r =>
          (* or with explicit odds per branch: the model (like the code) reads no odds *)
          match dec_many (fun ts => match ts with _ :: ts' => dec_cpol f ts' | [] => None end) (N.to_nat n) r with
          | Some (subs, r') => Some (COr subs, r')
          | None => None
          end
      | _ => None
      end
  end.

(* a result slot: a policy, or 99 = the call panicked *)
Inductive rpol := RPol (p : spol) | RPanic.
Definition dec_rpol (fuel : nat) (ts : list N) : option (rpol * list N) :=
  match ts with
  | 99%N :: r => Some (RPanic, r)
  | _ => match dec_pol fuel ts with Some (p, r) => Some (RPol p, r) | None => None end
  end.

Definition dec_age (fuel : nat) (ts : list N) : option ((rel_lt * rpol) * list N) :=
  match ts with
  | u :: v :: r =>
      match dec_rpol fuel r with
      | Some (p, r') => Some (((if N.eqb u 0 then RBlocks v else RTime v), p), r')
      | None => None
      end
  | _ => None
  end.
Definition dec_lock (fuel : nat) (ts : list N) : option ((abs_lt * rpol) * list N) :=
  match ts with
  | u :: v :: r =>
      match dec_rpol fuel r with
      | Some (p, r') => Some (((if N.eqb u 0 then ABlocks v else ASeconds v), p), r')
      | None => None
      end
  | _ => None
  end.

Inductive case :=
| CaseSem (p : spol) (norm : rpol) (idem : N) (srt : rpol) (nkeys : option N) (mink : option (option N))
          (ages : list (rel_lt * rpol)) (locks : list (abs_lt * rpol))
| CaseEnt (p q : spol) (r : N)
| CaseConc (c : cpol) (ct : N) (l : N) (lp : option spol)
| CaseBad.

Definition dec_case (ts : list N) : case :=
  let fuel := length ts in
  match ts with
  | 1%N :: r0 =>
      match dec_pol fuel r0 with
      | Some (p, r1) =>
      match dec_rpol fuel r1 with
      | Some (norm, idem :: r2) =>
      match dec_rpol fuel r2 with
      | Some (srt, r3) =>
        let nk := match r3 with 1%N :: v :: r4 => Some (Some v, r4) | 99%N :: r4 => Some (None, r4) | _ => None end in
        match nk with
        | Some (nkeys, r4) =>
          let mk := match r4 with
                    | 0%N :: r5 => Some (Some None, r5)
                    | 1%N :: m :: r5 => Some (Some (Some m), r5)
                    | 99%N :: r5 => Some (None, r5)
                    | _ => None
                    end in
          match mk with
          | Some (mink, na :: r5) =>
            match dec_many (dec_age fuel) (N.to_nat na) r5 with
            | Some (ages, nl :: r6) =>
              match dec_many (dec_lock fuel) (N.to_nat nl) r6 with
              | Some (locks, []) => CaseSem p norm idem srt nkeys mink ages locks
              | _ => CaseBad
              end
            | _ => CaseBad
            end
          | _ => CaseBad
          end
        | None => CaseBad
        end
      | None => CaseBad
      end
      | _ => CaseBad
      end
      | None => CaseBad
      end
  | 2%N :: r0 =>
      match dec_pol fuel r0 with
      | Some (p, r1) =>
          match dec_pol fuel r1 with
          | Some (q, [r]) => CaseEnt p q r
          | _ => CaseBad
          end
      | None => CaseBad
      end
  | 3%N :: r0 =>
      match dec_cpol fuel r0 with
      | Some (c, ct :: 0%N :: r1) =>
          match dec_pol fuel r1 with
          | Some (s, []) => CaseConc c ct 0 (Some s)
          | _ => CaseBad
          end
      | Some (c, [ct; l]) => CaseConc c ct l None
      | _ => CaseBad
      end
  | _ => CaseBad
  end.

(* ---- encoding (for diagnosis output) ---- *)
Fixpoint enc_pol (p : spol) : list N :=
  match p with
  | SUnsat => [0] | STriv => [1]
  | SKey i => [2; i] | SAfter i => [3; i] | SOlder i => [4; i]
  | SSha256 i => [5; i] | SHash256 i => [6; i] | SRipemd160 i => [7; i] | SHash160 i => [8; i]
  | SThresh k subs => 9 :: N.of_nat k :: N.of_nat (length subs) :: flat_map enc_pol subs
  end%N.

(* ---- judgement ---- *)
Definition rpol_is (r : rpol) (m : spol) : bool :=
  match r with RPol p => spol_eqb p m | RPanic => false end.

Definition only_passable_older (a : rel_lt) (out : spol) : bool :=
  forallb (fun l => match l with SOlder t => csv_ok t a | _ => true end) (leaves_of out).
Definition only_passable_after (n : abs_lt) (out : spol) : bool :=
  forallb (fun l => match l with SAfter t => cltv_ok t n | _ => true end) (leaves_of out).

Definition isnone {A} (o : option A) : bool := match o with None => true | Some _ => false end.
Definition flag (code : N) (ok : bool) : list N := if ok then [] else [code].

Definition opt_nat_is (impl : option N) (model : option nat) : bool :=
  match impl, model with
  | None, None => true
  | Some a, Some b => N.eqb a (N.of_nat b)
  | _, _ => false
  end.

Definition eres_code (r : eres) : N :=
  match r with ENone => 0 | ESome false => 1 | ESome true => 2 | EPanic => 99 | EFuel => 98 end.

Definition check_case (c : case) : list N :=
  match c with
  | CaseBad => [10%N]
  | CaseSem p norm idem srt nkeys mink ages locks =>
      flag 11 (rpol_is norm (normalized p))
      ++ match norm with
         | RPol o => flag 21 (isnone (cex_equiv p o) && no_inner_const o && N.eqb idem 1)
         | RPanic => [21%N]
         end
      ++ flag 12 (rpol_is srt (sorted p))
      ++ match srt with RPol o => flag 22 (isnone (cex_equiv p o)) | RPanic => [22%N] end
      ++ flag 13 (match nkeys with Some v => N.eqb v (N.of_nat (n_keys p)) | None => false end)
      ++ flag 23 (match nkeys with Some v => N.eqb v (N.of_nat (length (keys_of p))) | None => false end)
      ++ match mink with
         | Some m =>
             flag 14 (opt_nat_is m (min_keys p))
             ++ flag (if has_dup_keys p then 34 else 24) (opt_nat_is m (min_sigs_b p))
         | None => [14; 24]%N
         end
      ++ flat_map (fun ar : rel_lt * rpol =>
                     let (a, r) := ar in
                     flag 15 (rpol_is r (at_age a p))
                     ++ match r with
                        | RPol o => flag 25 (isnone (cex_age a p o) && only_passable_older a o)
                        | RPanic => [25%N]
                        end) ages
      ++ flat_map (fun lr : abs_lt * rpol =>
                     let (n, r) := lr in
                     flag 16 (rpol_is r (at_lock_time n p))
                     ++ match r with
                        | RPol o => flag 26 (isnone (cex_lock n p o) && only_passable_after n o)
                        | RPanic => [26%N]
                        end) locks
  | CaseEnt p q r =>
      flag 17 (N.eqb r (eres_code (entails p q)))
      ++ (let bad := 27%N in
          match r with
          | 0%N => flag bad (ENTAILMENT_MAX_TERMINALS <? n_terminals p)   (* None only for big policies *)
          | 1%N => flag bad (negb (implies_b p q))
          | 2%N => flag bad (implies_b p q)
          | _ => [bad]
          end)
  | CaseConc c ct l lp =>
      let mixed := mixed_b c in
      flag 18 (N.eqb ct (if check_timelocks c then 1 else 0))
      ++ flag 28 (N.eqb ct (if mixed then 0 else 1))
      ++ flag 19 (match lift c, l, lp with
                  | LOk s, 0%N, Some o => spol_eqb o s
                  | LErrTimelock, 1%N, None => true
                  | _, _, _ => false
                  end)
      ++ match l, lp with
         | 0%N, Some o => flag 29 (isnone (cex_lift c o))
         | 1%N, None =>
             (* refusing to lift is right only when check_timelocks itself refuses *)
             flag 29 (N.eqb ct 0)
         | _, _ => [29%N]
         end
  end.

Definition acceptable (codes : list N) : bool := forallb (fun x => (30 <=? x)%N) codes.

(* (case index, failed codes) for every case with a failed check *)
Definition judge_all (cases : list (list N)) : list (N * list N) :=
  filter (fun ic => negb (match snd ic with [] => true | _ => false end))
         (combine (map N.of_nat (seq 0 (length cases))) (map (fun ts => check_case (dec_case ts)) cases)).

(* ---- diagnosis: a counter-assignment (leaves that are on) for the first failing oracle check ---- *)
Definition first_some {A} (l : list (option A)) : option A :=
  fold_right (fun o acc => match o with Some x => Some x | None => acc end) None l.
Definition cex_of (c : case) : option (list (list N)) :=
  let r :=
    match c with
    | CaseSem p norm _ srt _ _ ages locks =>
        first_some
          ((match norm with RPol o => cex_equiv p o | RPanic => None end)
           :: (match srt with RPol o => cex_equiv p o | RPanic => None end)
           :: map (fun ar : rel_lt * rpol => match snd ar with RPol o => cex_age (fst ar) p o | RPanic => None end) ages
           ++ map (fun lr : abs_lt * rpol => match snd lr with RPol o => cex_lock (fst lr) p o | RPanic => None end) locks)
    | CaseEnt p q _ => cex_implies p q
    | CaseConc c _ _ (Some o) => cex_lift c o
    | _ => None
    end in
  match r with Some on => Some (map enc_pol on) | None => None end.

(* (index, failed codes, counter-assignment) — unknown failures first *)
Definition diagnose (cases : list (list N)) : list (N * list N * option (list (list N))) :=
  let v := judge_all cases in
  let bad := filter (fun ic => negb (acceptable (snd ic))) v in
  let known := filter (fun ic => acceptable (snd ic)) v in
  map (fun ic => (fst ic, snd ic, cex_of (dec_case (nth (N.to_nat (fst ic)) cases []))))
      (firstn 200 bad ++ firstn 100 known).
