(* C14 tie, re-checked on every run: the model, replayed inside Coq on the histories the
   harness just ran on the implementation (Tables/PsbtCasesGen.v), reproduces the
   implementation's result class and state abstraction after every single operation. *)
From Coq Require Import List Bool NArith Arith.
Import ListNotations.
From Verif Require Import PsbtModel PsbtCasesDefs PsbtCasesGen.

Definition ok_all : bool := forallb (case_ok descs sigflags mall_false mall_true) all_cases.

Eval vm_compute in (length all_cases, ok_all).

Theorem psbt_cases_match_model : ok_all = true.
Proof. vm_compute. reflexivity. Qed.

(* PsbtInputSatisfier::check_after / check_older of the compiled code = the model's predicates on
   every (version, nLockTime, nSequence, lock value) row of the run *)
Eval vm_compute in (length tl_obs, length (filter (fun o => negb (tl_row_ok o)) tl_obs)).
Theorem timelock_predicates_match_model : forallb tl_row_ok tl_obs = true.
Proof. vm_compute. reflexivity. Qed.

(* Placeholder::PubkeyHash completion of the compiled code = the model's resolve_pkh on every
   (input state, key hash) pair the run met *)
Definition pkh_failing : list (N * option N) :=
  map (fun o => (snd (fst o), snd o)) (filter (fun o => negb (pkh_row_ok pkh_tab o)) pkh_obs).
Eval vm_compute in (length pkh_obs, length pkh_failing, length pkh_tap_obs,
                    length (filter (fun o => negb (pkh_tap_row_ok pkh_tab xl_tab o)) pkh_tap_obs)).

Theorem raw_pkh_resolution_matches_model :
  forallb (pkh_row_ok pkh_tab) pkh_obs && forallb (pkh_tap_row_ok pkh_tab xl_tab) pkh_tap_obs = true.
Proof. vm_compute. reflexivity. Qed.
