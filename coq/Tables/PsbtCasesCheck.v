(* C14 tie, re-checked on every run: the model, replayed inside Coq on the histories the
   harness just ran on the implementation (Tables/PsbtCasesGen.v), reproduces the
   implementation's result class and state abstraction after every single operation. *)
From Coq Require Import List Bool NArith Arith.
Import ListNotations.
From Verif Require Import PsbtModel PsbtCasesDefs PsbtCasesGen.

Definition ok_all : bool := forallb (case_ok descs sigflags mall_false mall_true) all_cases.

Eval vm_compute in (length all_cases, ok_all).

Theorem psbt_cases_match_model : ok_all = true.
Proof. vm_compute. reflexivity. Qed.
