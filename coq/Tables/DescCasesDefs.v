(* C16 tie, static part: how the facts exported by `verif-harness desc` (DescCasesGen.v) are
   replayed on the Gallina model.  The abstract functions of the model (hash160, sha256, the
   taproot commitment, BIP32 ckd, key parsing) are instantiated by FINITE LOOKUP TABLES that
   the harness computed with rust-bitcoin / secp256k1 directly; a lookup that misses yields
   the empty string, which can never equal an observed script.  No proofs here. *)
From Coq Require Import List NArith ZArith Bool FMapPositive Uint63.
Import ListNotations.
From Verif Require Import DescWrapModel.
Local Open Scope N_scope.

(* ---- byte strings of the generated file: a pool of (length, words) with 7 bytes per
        primitive 63-bit integer (little-endian inside a word), referred to by number ---- *)
Definition bit_n (x : int) (mask : int) (v : N) : N := if Uint63.eqb (x land mask)%uint63 0%uint63 then 0 else v.
Definition byte_of_int (x : int) : N :=
  bit_n x 1%uint63 1 + bit_n x 2%uint63 2 + bit_n x 4%uint63 4 + bit_n x 8%uint63 8
  + bit_n x 16%uint63 16 + bit_n x 32%uint63 32 + bit_n x 64%uint63 64 + bit_n x 128%uint63 128.
Definition word_bytes (w : int) : bytes :=
  [byte_of_int w; byte_of_int (w >> 8)%uint63; byte_of_int (w >> 16)%uint63; byte_of_int (w >> 24)%uint63;
   byte_of_int (w >> 32)%uint63; byte_of_int (w >> 40)%uint63; byte_of_int (w >> 48)%uint63].
(* the pool is a flat stream  len, w1 .. wk, len, w1 .. wk, ...  with k = ceil(len / 7) *)
Definition words_for (len : N) : N := (len + 6) / 7.
Definition int_to_N (x : int) : N := Z.to_N (Uint63.to_Z x).
(* state: number of the next entry, the table, the entry being read (length, words still
   expected, words so far in reverse order) *)
Definition pstate := (N * PositiveMap.t bytes * option (N * N * list bytes))%type.
Definition pool_finish (st : pstate) : pstate :=
  match st with
  | (i, t, Some (len, 0, acc)) =>
      (i + 1, PositiveMap.add (N.succ_pos i) (firstn (N.to_nat len) (concat (rev acc))) t, None)
  | _ => st
  end.
Definition pool_step (st : pstate) (x : int) : pstate :=
  match st with
  | (i, t, None) => let len := int_to_N x in pool_finish (i, t, Some (len, words_for len, []))
  | (i, t, Some (len, k, acc)) => pool_finish (i, t, Some (len, k - 1, word_bytes x :: acc))
  end.
Definition pool_build (l : list int) : PositiveMap.t bytes :=
  snd (fst (fold_left pool_step l (0, PositiveMap.empty bytes, None))).
Definition pool_get (t : PositiveMap.t bytes) (i : N) : bytes :=
  match PositiveMap.find (N.succ_pos i) t with Some b => b | None => [] end.

(* ---- constructors used by the generated file ---- *)
Definition St (h : bool) (i : N) : step := Step h i.
Definition Og (fp : bytes) (p : list step) : origin := Some (fp, p).
Definition Sf (k : bytes) (c : bool) : singlekey := SFull k c.
Definition Sx (k : bytes) : singlekey := SXonly k.
Definition Pk (ser comp : bytes) : pubkey := mkPk ser comp (tl comp) (N.eqb (blen ser) 33).

(* miniscript fragments outside the model's own encoder: a template of literal bytes and
   key pushes (assembled by the harness's oracle, not by the implementation) *)
Inductive part := PB (lit : bytes) | PKey (n : nat) | PKeyHash (n : nat).
Definition dummy_pk := mkPk [] [] [] true.
Definition tmpl_h (h160 : bytes -> bytes) (c : sigctx) (ps : list part) (ks : list pubkey) : bytes :=
  flat_map (fun p => match p with
                     | PB h => h
                     | PKey n => push_ms_key c (nth n ks dummy_pk)
                     | PKeyHash n => push_ms_key_hash h160 c (nth n ks dummy_pk)
                     end) ps.

(* ---- finite tables ---- *)
Definition bhash (b : bytes) : positive :=
  N.succ_pos (fold_left (fun h x => N.land (h * 33 + x) 1048575) b 7).
Definition btable := PositiveMap.t (list (bytes * bytes)).
Definition bt_add (t : btable) (k v : bytes) : btable :=
  let h := bhash k in
  PositiveMap.add h ((k, v) :: match PositiveMap.find h t with Some l => l | None => [] end) t.
(* hash tables come as a flat list  input, output, input, output, ... *)
Fixpoint bt_build_from (t : btable) (l : list bytes) : btable :=
  match l with
  | k :: v :: r => bt_build_from (bt_add t k v) r
  | _ => t
  end.
Definition bt_build (l : list bytes) : btable := bt_build_from (PositiveMap.empty _) l.
Fixpoint assoc_bytes (l : list (bytes * bytes)) (k : bytes) : bytes :=
  match l with
  | [] => []
  | (k', v) :: r => if bytes_eqb k k' then v else assoc_bytes r k
  end.
Definition bt_find (t : btable) (k : bytes) : bytes :=
  match PositiveMap.find (bhash k) t with Some l => assoc_bytes l k | None => [] end.

(* BIP32 table: key (xpub number, path) flattened to a byte string *)
Definition step_bytes (s : step) : bytes :=
  match s with Step h i => [if h then 1 else 0; i mod 256; (i / 256) mod 256; (i / 65536) mod 256; i / 16777216] end.
Definition ckd_key (x : N) (p : list step) : bytes := x :: flat_map step_bytes p.
Definition ckd_build (l : list (N * list step * bytes)) : btable :=
  fold_left (fun t e => match e with (x, p, v) => bt_add t (ckd_key x p) v end) l (PositiveMap.empty _).

(* taproot table: (internal key, leaves) -> output key.  The model's two abstract functions
   are instantiated as: tap_root = an injective serialisation of the leaves, tap_output_key =
   table lookup on (internal key, that serialisation).  (The Merkle root itself is C15's.) *)
Definition ser_leaves (ls : list (N * bytes)) : option bytes :=
  match ls with
  | [] => None
  | _ => Some (flat_map (fun l => fst l :: blen (snd l) / 256 :: blen (snd l) mod 256 :: snd l) ls)
  end.
Definition tap_key (x : bytes) (r : option bytes) : bytes :=
  x ++ match r with None => [0] | Some b => 1 :: b end.
Definition tap_build (l : list (bytes * list (N * bytes) * bytes)) : btable :=
  fold_left (fun t e => match e with (x, ls, o) => bt_add t (tap_key x (ser_leaves ls)) o end)
            l (PositiveMap.empty _).

Record tables := mkTables { t_h160 : btable; t_sha : btable; t_comp : btable; t_tap : btable; t_ckd : btable }.

Section WithTables.
  Variable T : tables.
  Definition h160 := bt_find (t_h160 T).
  Definition sha := bt_find (t_sha T).
  Definition tap_out (x : bytes) (r : option bytes) : bytes := bt_find (t_tap T) (tap_key x r).
  Definition m_spk := script_pubkey h160 sha ser_leaves tap_out.
  Definition m_explicit := explicit_script h160.
  Definition m_code := script_code h160.
  Definition m_ssig := unsigned_script_sig h160 sha.

  Definition full_key_t (b : bytes) (c : bool) : pubkey :=
    let comp := if c then b else bt_find (t_comp T) b in mkPk b comp (tl comp) c.
  Definition xonly_key_t (b : bytes) : pubkey := mkPk (2 :: b) (2 :: b) b true.
  Definition ckd_t (x : N) (p : list step) : pubkey :=
    let s := bt_find (t_ckd T) (ckd_key x p) in mkPk s s (tl s) true.
  Definition m_derived := derived_descriptor ckd_t full_key_t xonly_key_t.

  (* ---- script-level cases: (id, definite descriptor, implementation's four outputs) ---- *)
  Definition scase := (N * desc pubkey * (bytes * option bytes * bytes * option bytes))%type.
  Definition oobytes_eqb (a b : option (option bytes)) : bool :=
    match a, b with Some x, Some y => obytes_eqb x y | None, None => true | _, _ => false end.
  (* bit i of the result is set when component i differs: 1 spk, 2 explicit, 4 scriptSig, 8 code *)
  Definition scheck_code (c : scase) : N :=
    match c with
    | (_, d, (spk, expl, ssig, code)) =>
        (if obytes_eqb (m_spk d) (Some spk) then 0 else 1)
        + (if oobytes_eqb (m_explicit d) (Some expl) then 0 else 2)
        + (if obytes_eqb (m_ssig d) (Some ssig) then 0 else 4)
        + (if oobytes_eqb (m_code d) (Some code) then 0 else 8)
    end.

  (* ---- key-level cases: (id, index, descriptor, implementation's at_derivation_index keys
          or error class, script_pubkey of the implementation's derived descriptor) ---- *)
  Definition kcase := (N * N * desc dkey * kres (list dkey) * option bytes)%type.
  Definition kcheck_code (c : kcase) : N :=
    match c with
    | (_, i, d, impl, spk) =>
        match at_derivation_index i d, impl with
        | KOk d', KOk ks =>
            (if list_eqb dkey_eqb (desc_keys d') ks then 0 else 1)
            + (if obytes_eqb (m_spk (m_derived d')) spk then 0 else 2)
        | KErr e, KErr e' => (if kerr_eqb e e' then 0 else 4) + (match spk with None => 0 | Some _ => 8 end)
        | _, _ => 16
        end
    end.

  Definition splitcase := (N * desc dkey * kres (list (list dkey)))%type.
  Definition splitcheck_code (c : splitcase) : N :=
    match c with
    | (_, d, impl) =>
        match into_single_descriptors d, impl with
        | KOk ds, KOk kss => if list_eqb (list_eqb dkey_eqb) (map desc_keys ds) kss then 0 else 1
        | KErr e, KErr e' => if kerr_eqb e e' then 0 else 4
        | _, _ => 16
        end
    end.

  (* (id, descriptor, target script, first index and length of the searched range, the index
     the implementation reported) *)
  Definition findcase := (N * desc dkey * bytes * N * N * option N)%type.
  Definition range_of (start len : N) : list N := map (fun k => start + N.of_nat k) (seq 0 (N.to_nat len)).
  Definition findcheck_code (c : findcase) : N :=
    match c with
    | (_, d, target, start, len, impl) =>
        let r := find_derivation_index_for_spk (fun dd => m_spk (m_derived dd)) d target (range_of start len) in
        match r, impl with
        | KOk (Some (i, _)), Some j => if N.eqb i j then 0 else 1
        | KOk None, None | KErr _, None => 0
        | _, _ => 2
        end
    end.
End WithTables.

(* ---- key-parser cases: (id, origin, xpub number, xpub depth, path tokens, the implementation's
        parsed key or its error kind) ---- *)
Definition pcase := (N * origin * N * N * list tok * pres dkey)%type.
Definition pcheck_code (c : pcase) : N :=
  match c with
  | (_, o, x, depth, toks, impl) =>
      match parse_xpub_key o x depth toks, impl with
      | POk k, POk k' => (if dkey_eqb k k' then 0 else 1)
                         + (if list_eqb tok_eqb (print_key_path k) toks then 0 else 2)
      | PErr e, PErr e' => if perr_eqb e e' then 0 else 4
      | _, _ => 16
      end
  end.

Definition case_id {A B} (c : N * A * B) : N := fst (fst c).
Definition failing {C} (code : C -> N) (id : C -> N) (l : list C) : list (N * N) :=
  flat_map (fun c => let k := code c in if N.eqb k 0 then [] else [(id c, k)]) l.
