(* The four comparisons of the C16 tie (shared by DescCasesCheck.v and DescCasesDiag.v). *)
From Coq Require Import List NArith.
Import ListNotations.
From Verif Require Import DescWrapModel DescCasesDefs DescPoolGen DescTablesGen DescScriptCasesGen DescKeyCasesGen DescSplitCasesGen.

Definition sid (c : scase) : N := fst (fst c).
Definition kid (c : kcase) : N := fst (fst (fst (fst c))).
Definition spid (c : splitcase) : N := fst (fst c).
Definition fid (c : findcase) : N := fst (fst (fst (fst (fst c)))).
Definition pid (c : pcase) : N := fst (fst (fst (fst (fst c)))).

(* lists of (case id, bit mask of the components that differ) *)
Definition failing_scripts := failing (scheck_code T) sid (scases T).
Definition failing_keys := failing (kcheck_code T) kid (kcases T).
Definition failing_splits := failing splitcheck_code spid (splitcases T).
Definition failing_finds := failing (findcheck_code T) fid (findcases T).
Definition failing_parses := failing pcheck_code pid (parsecases T).
Definition counts := (length (scases T), length (kcases T), length (splitcases T), length (findcases T), length (parsecases T)).
