(* Shape of the generated correspondence data for C14 (Tables/PsbtCasesGen.v) and the
   function that replays a history on the model and compares it, step by step, with what the
   implementation did.  try_input / interp_check are instantiated by the outcomes observed on
   the implementation, as functions of the (abstract) PSBT state. *)
From Coq Require Import List Bool NArith Arith.
Import ListNotations.
From Verif Require Import PsbtModel.

Record tentry := mkT { t_st : list pinput; t_i : nat; t_m : bool; t_res : tryres }.

Record pcase := mkC {
  c_id : N;
  c_tx : N;
  c_ntx : nat;
  c_init : list pinput;
  c_ops : list op;
  c_try : list tentry;                                   (* observed finalize_input_helper outcomes *)
  c_interp : list (list pinput * option (nat * N));      (* observed interpreter_check outcomes *)
  c_obs : list (result * list pinput)                    (* observed result class and state after each op *)
}.

Definition inputs_eqb : list pinput -> list pinput -> bool := list_eqb pinput_eqb.

Definition no_oracle : N := 999.

Definition try_of (tbl : list tentry) (st : psbt) (i : nat) (m : bool) : tryres :=
  match find (fun e => (t_i e =? i) && Bool.eqb (t_m e) m && inputs_eqb (t_st e) (p_inputs st)) tbl with
  | Some e => t_res e
  | None => TErr 0 no_oracle
  end.

Definition interp_of (tbl : list (list pinput * option (nat * N))) (st : psbt) : option (nat * N) :=
  match find (fun e => inputs_eqb (fst e) (p_inputs st)) tbl with
  | Some e => snd e
  | None => None
  end.

Fixpoint assoc {A : Type} (k : N) (l : list (N * A)) : option A :=
  match l with
  | [] => None
  | (k', v) :: r => if (k =? k')%N then Some v else assoc k r
  end.

Definition dummy_desc : dinfo := mkD false false 0 None None [] 0 None [] [].

(* raw key hash resolution: table key -> hash160(key), observations (input, hash, key found) *)
Definition pkh_fun (tab : list (N * N)) (k : N) : N := match assoc k tab with Some h => h | None => 0%N end.
Definition pkh_row_ok (tab : list (N * N)) (o : pinput * N * option N) : bool :=
  opt_eqb N.eqb (resolve_pkh (pkh_fun tab) (fst (fst o)) (snd (fst o))) (snd o).

Definition pkh_tap_row_ok (tab xl : list (N * N)) (o : pinput * N * option N) : bool :=
  opt_eqb N.eqb (resolve_pkh_tap (pkh_fun tab) (pkh_fun xl) (fst (fst o)) (snd (fst o))) (snd o).

(* time-lock predicate rows: (kind 0 = after / 1 = older, version, nLockTime, nSequence, n, answer) *)
Definition tl_row_ok (o : N * N * N * N * N * bool) : bool :=
  let '(k, ver, lt, sq, n, r) := o in
  Bool.eqb (if (k =? 0)%N then psbt_check_after lt sq n else psbt_check_older ver sq n) r.

Section Run.
  Variable descs : list (N * dinfo).        (* what a fresh update records, per descriptor *)
  Variable sigflags : list (N * N).         (* sighash flag of every partial signature that is not ALL *)
  Variable mall_false mall_true : bool.     (* allow_mall really used by finalize_inp_mut / finalize_inp_mall_mut *)

  Definition desc_of (d : N) : dinfo := match assoc d descs with Some x => x | None => dummy_desc end.
  Definition flag_of (s : N) : option N := match assoc s sigflags with Some f => Some f | None => Some flag_all end.
  Definition ecdsa_of (t : N) : option N := Some t.
  Definition mall_of (m : bool) : bool := if m then mall_true else mall_false.

  Definition model_trace (c : pcase) : list (result * psbt) :=
    trace (try_of (c_try c)) (interp_of (c_interp c)) desc_of flag_of ecdsa_of mall_of
          (c_ops c) (mkPsbt (c_tx c) (c_ntx c) (c_init c)).

  (* 0 = agree; 1 = result class differs; 2 = state differs; 3 = both; 4 = length *)
  Fixpoint first_diff (n : nat) (tr : list (result * psbt)) (obs : list (result * list pinput))
    : option (nat * N) :=
    match tr, obs with
    | [], [] => None
    | (r, st) :: tr', (r', l) :: obs' =>
        let a := result_eqb r r' in
        let b := inputs_eqb (p_inputs st) l in
        if a && b then first_diff (S n) tr' obs'
        else Some (n, if a then 2 else if b then 1 else 3)%N
    | _, _ => Some (n, 4%N)
    end.

  Definition check_case (c : pcase) : option (nat * N) := first_diff 0 (model_trace c) (c_obs c).

  Definition case_ok (c : pcase) : bool := match check_case c with None => true | Some _ => false end.

  Definition failing (cs : list pcase) : list (N * nat * N) :=
    flat_map (fun c => match check_case c with None => [] | Some (n, k) => [(c_id c, n, k)] end) cs.
End Run.
