(* Complete tie for the typing rules: the graph of every rule function of the compiled
   implementation (Tables/TypeTables.v, regenerated on every run) equals the graph of the
   model function, on the whole finite domain.  Checked by the kernel's evaluator. *)
From Coq Require Import List NArith Uint63 ZArith.
Import ListNotations.
From Verif Require Import Types TypeTables.

Definition base_idx (b : base) : N := match b with BB => 0 | BK => 1 | BV => 2 | BW => 3 end.
Definition input_idx (i : input) : N :=
  match i with IZero => 0 | IOne => 1 | IAny => 2 | IOneNonZero => 3 | IAnyNonZero => 4 end.
Definition dissat_idx (d : dissat) : N := match d with DNone => 0 | DUnique => 1 | DUnknown => 2 end.
Definition b2n (b : bool) : N := if b then 1 else 0.
Definition corr_idx (c : corr) : N :=
  (base_idx (c_base c) * 20 + input_idx (c_input c) * 4 + b2n (c_dissat c) * 2 + b2n (c_unit c))%N.
Definition mall_idx (m : mall) : N :=
  (dissat_idx (m_dissat m) * 4 + b2n (m_signed m) * 2 + b2n (m_nm m))%N.
Definition ty_idx (t : ty) : N := (corr_idx (t_corr t) * 12 + mall_idx (t_mall t))%N.
Definition err_code (e : errk) : N :=
  match e with
  | NonZeroDupIf => 0 | LeftNotDissatisfiable => 1 | RightNotDissatisfiable => 2
  | SwapNonOne => 3 | NonZeroZero => 4 | LeftNotUnit => 5
  | ChildBase1 a => 10 + base_idx a
  | ChildBase2 a b => 20 + 4 * base_idx a + base_idx b
  | ChildBase3 a b c => 40 + 16 * base_idx a + 4 * base_idx b + base_idx c
  | ThresholdBase i b => 200 + 4 * i + base_idx b
  | ThresholdDissat i => 400 + i
  | ThresholdNonUnit i => 500 + i
  end%N.
Definition cres_code (r : res corr) : N :=
  match r with ROk c => corr_idx c | RErr e => 100 + err_code e end%N.

(* pack 10-bit codes, 6 per word, first code in the low bits — as the harness does *)
Definition n2i (n : N) : int := Uint63.of_Z (Z.of_N n).
Fixpoint pack_word (l : list N) (k : nat) (shift : int) (acc : int) : int * list N :=
  match k, l with
  | S k', c :: r => pack_word r k' (shift + 10)%uint63 (acc lor (n2i c << shift))%uint63
  | _, _ => (acc, l)
  end.
Fixpoint pack (fuel : nat) (l : list N) : list int :=
  match fuel, l with
  | _, [] => []
  | O, _ => []
  | S f, _ => let '(w, r) := pack_word l 6 0%uint63 0%uint63 in w :: pack f r
  end.
Fixpoint ints_eqb (a b : list int) : bool :=
  match a, b with
  | [], [] => true
  | x :: r, y :: s => Uint63.eqb x y && ints_eqb r s
  | _, _ => false
  end.
Definition same (model : list N) (tbl : list int) (len : N) : bool :=
  N.eqb (N.of_nat (length model)) len && ints_eqb (pack (S (length model)) model) tbl.

Definition tab1 {A} (dom : list A) (f : A -> N) : list N := map f dom.
Definition tab2 {A} (dom : list A) (f : A -> A -> N) : list N :=
  flat_map (fun a => map (fun b => f a b) dom) dom.
Definition tab3 {A} (dom : list A) (f : A -> A -> A -> N) : list N :=
  flat_map (fun a => flat_map (fun b => map (fun c => f a b c) dom) dom) dom.

Definition leaves_c := [c_true; c_false; c_pk_k; c_pk_h; c_multi; c_sortedmulti; c_multi_a; c_sortedmulti_a; c_hash; c_time].
Definition leaves_m := [m_true; m_false; m_pk_k; m_pk_h; m_multi; m_sortedmulti; m_multi_a; m_sortedmulti_a; m_hash; m_time].
Definition leaves_t := [t_true; t_false; t_pk_k; t_pk_h; t_multi; t_sortedmulti; t_multi_a; t_sortedmulti_a; t_hash; t_time].

(* all malleability lists of length n, lexicographic, each followed by k = 1..n *)
Fixpoint lists_of {A} (dom : list A) (n : nat) : list (list A) :=
  match n with O => [[]] | S n' => flat_map (fun a => map (cons a) (lists_of dom n')) dom end.
Definition m_thresh_tab (n : nat) : list N :=
  flat_map (fun l => map (fun k => mall_idx (m_threshold (N.of_nat k) l)) (seq 1 n)) (lists_of all_mall n).

Definition nth_ty (i : N) : ty :=
  nth (N.to_nat i) all_ty t_true.
Definition rand_ok (row : N * list N * (N * N)) : bool :=
  let '(k, idxs, (rc, rm)) := row in
  match t_threshold k (map nth_ty idxs) with
  | ROk t => N.eqb rc (corr_idx (t_corr t)) && N.eqb rm (mall_idx (t_mall t))
  | RErr e => N.eqb rc (100 + err_code e) && N.eqb rm 0
  end.

Definition checks : list (bool) := [
  same (tab1 leaves_c corr_idx) tbl_c_leaves tbl_c_leaves_len;
  same (tab1 leaves_m mall_idx) tbl_m_leaves tbl_m_leaves_len;
  same (flat_map (fun t => [corr_idx (t_corr t); mall_idx (t_mall t)]) leaves_t) tbl_t_leaves tbl_t_leaves_len;
  same (tab1 all_corr (fun x => cres_code (c_cast_alt x))) tbl_c_cast_alt tbl_c_cast_alt_len;
  same (tab1 all_corr (fun x => cres_code (c_cast_swap x))) tbl_c_cast_swap tbl_c_cast_swap_len;
  same (tab1 all_corr (fun x => cres_code (c_cast_check x))) tbl_c_cast_check tbl_c_cast_check_len;
  same (tab1 all_corr (fun x => cres_code (c_cast_dupif x))) tbl_c_cast_dupif tbl_c_cast_dupif_len;
  same (tab1 all_corr (fun x => cres_code (c_cast_verify x))) tbl_c_cast_verify tbl_c_cast_verify_len;
  same (tab1 all_corr (fun x => cres_code (c_cast_nonzero x))) tbl_c_cast_nonzero tbl_c_cast_nonzero_len;
  same (tab1 all_corr (fun x => cres_code (c_cast_zeronotequal x))) tbl_c_cast_zeronotequal tbl_c_cast_zeronotequal_len;
  same (tab1 all_corr (fun x => cres_code (c_cast_true x))) tbl_c_cast_true tbl_c_cast_true_len;
  same (tab1 all_corr (fun x => cres_code (c_cast_or_i_false x))) tbl_c_cast_or_i_false tbl_c_cast_or_i_false_len;
  same (tab2 all_corr (fun x y => cres_code (c_and_b x y))) tbl_c_and_b tbl_c_and_b_len;
  same (tab2 all_corr (fun x y => cres_code (c_and_v x y))) tbl_c_and_v tbl_c_and_v_len;
  same (tab2 all_corr (fun x y => cres_code (c_or_b x y))) tbl_c_or_b tbl_c_or_b_len;
  same (tab2 all_corr (fun x y => cres_code (c_or_d x y))) tbl_c_or_d tbl_c_or_d_len;
  same (tab2 all_corr (fun x y => cres_code (c_or_c x y))) tbl_c_or_c tbl_c_or_c_len;
  same (tab2 all_corr (fun x y => cres_code (c_or_i x y))) tbl_c_or_i tbl_c_or_i_len;
  same (tab3 all_corr (fun x y z => cres_code (c_and_or x y z))) tbl_c_and_or tbl_c_and_or_len;
  same (tab1 all_corr (fun x => cres_code (c_threshold 1 [x]))) tbl_c_thresh1 tbl_c_thresh1_len;
  same (tab2 all_corr (fun x y => cres_code (c_threshold 1 [x; y]))) tbl_c_thresh2 tbl_c_thresh2_len;
  same (tab3 all_corr (fun x y z => cres_code (c_threshold 2 [x; y; z]))) tbl_c_thresh3 tbl_c_thresh3_len;
  same (tab2 all_corr (fun x y => b2n (corr_subtype x y))) tbl_c_subtype tbl_c_subtype_len;
  same (tab2 all_mall (fun x y => b2n (mall_subtype x y))) tbl_m_subtype tbl_m_subtype_len;
  same (tab1 all_mall (fun x => mall_idx (m_cast_alt x))) tbl_m_cast_alt tbl_m_cast_alt_len;
  same (tab1 all_mall (fun x => mall_idx (m_cast_swap x))) tbl_m_cast_swap tbl_m_cast_swap_len;
  same (tab1 all_mall (fun x => mall_idx (m_cast_check x))) tbl_m_cast_check tbl_m_cast_check_len;
  same (tab1 all_mall (fun x => mall_idx (m_cast_dupif x))) tbl_m_cast_dupif tbl_m_cast_dupif_len;
  same (tab1 all_mall (fun x => mall_idx (m_cast_verify x))) tbl_m_cast_verify tbl_m_cast_verify_len;
  same (tab1 all_mall (fun x => mall_idx (m_cast_nonzero x))) tbl_m_cast_nonzero tbl_m_cast_nonzero_len;
  same (tab1 all_mall (fun x => mall_idx (m_cast_zeronotequal x))) tbl_m_cast_zeronotequal tbl_m_cast_zeronotequal_len;
  same (tab1 all_mall (fun x => mall_idx (m_cast_true x))) tbl_m_cast_true tbl_m_cast_true_len;
  same (tab1 all_mall (fun x => mall_idx (m_cast_or_i_false x))) tbl_m_cast_or_i_false tbl_m_cast_or_i_false_len;
  same (tab2 all_mall (fun x y => mall_idx (m_and_b x y))) tbl_m_and_b tbl_m_and_b_len;
  same (tab2 all_mall (fun x y => mall_idx (m_and_v x y))) tbl_m_and_v tbl_m_and_v_len;
  same (tab2 all_mall (fun x y => mall_idx (m_or_b x y))) tbl_m_or_b tbl_m_or_b_len;
  same (tab2 all_mall (fun x y => mall_idx (m_or_d x y))) tbl_m_or_d tbl_m_or_d_len;
  same (tab2 all_mall (fun x y => mall_idx (m_or_c x y))) tbl_m_or_c tbl_m_or_c_len;
  same (tab2 all_mall (fun x y => mall_idx (m_or_i x y))) tbl_m_or_i tbl_m_or_i_len;
  same (tab3 all_mall (fun x y z => mall_idx (m_and_or x y z))) tbl_m_and_or tbl_m_and_or_len;
  same (m_thresh_tab 1) tbl_m_thresh1 tbl_m_thresh1_len;
  same (m_thresh_tab 2) tbl_m_thresh2 tbl_m_thresh2_len;
  same (m_thresh_tab 3) tbl_m_thresh3 tbl_m_thresh3_len;
  same (m_thresh_tab 4) tbl_m_thresh4 tbl_m_thresh4_len;
  forallb rand_ok tbl_t_thresh_random;
  N.eqb pairing_mismatches 0
].

