(* C19 tie, re-checked on every run: the observations of the compiled library on this run's pairs
   (Tables/EqOrdCasesGen.v, generated) equal the model's, evaluated by the kernel. *)
From Verif Require Import EqOrdRun EqOrdDescRun EqOrdPolRun EqOrdHashModel EqOrdCasesGen.

Theorem cases_match_model : forallb dom_pairs_ok doms && forallb deqdom_ok ddoms = true.
Proof. vm_compute. reflexivity. Qed.

Theorem hash_streams_match_model : forallb dom_streams_ok doms = true.
Proof. vm_compute. reflexivity. Qed.

Theorem dumps_distinct_in_model : forallb dom_spec_ok doms = true.
Proof. vm_compute. reflexivity. Qed.

Theorem policy_cases_match_model : forallb poldom_ok poldoms = true.
Proof. vm_compute. reflexivity. Qed.

(* the calls `Hash::hash` makes on a recording Hasher for every descriptor (fresh, warmed, clone of warmed) and every
   concrete policy of the run equal desc_feed / cdesc_feed / cpol_feed, and equality of two recorded streams agrees
   with equality of the model's feeds on every observed pair *)
Theorem desc_policy_hash_streams_match_model : forallb hashdom_ok hashdoms = true.
Proof. vm_compute. reflexivity. Qed.
