(* C19 tie, re-checked on every run: the observations of the compiled library on this run's pairs
   (Tables/EqOrdCasesGen.v, generated) equal the model's, evaluated by the kernel. *)
From Verif Require Import EqOrdRun EqOrdDescRun EqOrdCasesGen.

(* which model variant explains the run: (as coded, repaired); descriptors must follow the same variant *)
Definition variant_ok : bool * bool :=
  (forallb (dom_pairs_ok false) doms && deqdom_ok false ddom_eq, forallb (dom_pairs_ok true) doms && deqdom_ok true ddom_eq).
Eval vm_compute in variant_ok.

Theorem cases_match_model : (fst variant_ok || snd variant_ok) = true.
Proof. vm_compute. reflexivity. Qed.

Theorem hash_streams_match_model : forallb dom_streams_ok doms = true.
Proof. vm_compute. reflexivity. Qed.

Theorem dumps_distinct_in_model : forallb dom_spec_ok doms = true.
Proof. vm_compute. reflexivity. Qed.
