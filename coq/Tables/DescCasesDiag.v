(* Compiled only when desc_cases_match_model fails: which exported cases differ between the
   implementation and the model, and in which component.  The check (tools/props/c16.py)
   then re-runs those case ids in the harness, where the implementation's answers are judged
   by the independent oracle (the specification side).
   script cases: id = 1000 * case + n; mask 1 script_pubkey, 2 explicit_script,
                 4 unsigned_script_sig, 8 script_code
   key cases:    mask 1 keys of at_derivation_index, 2 script_pubkey of the derived descriptor,
                 4 error class, 8 error vs script, 16 ok/error disagreement
   split cases:  mask 1 keys of the single descriptors, 4 error class, 16 ok/error disagreement
   find cases:   mask 1 index, 2 found/not found
   parse cases:  mask 1 parsed key, 2 print(parse) differs from the text, 4 error kind,
                 16 accepted/rejected disagreement *)
From Coq Require Import List NArith.
Import ListNotations.
From Verif Require Import DescWrapModel DescCasesDefs DescPoolGen DescTablesGen DescScriptCasesGen DescKeyCasesGen DescSplitCasesGen DescCasesRun.

Eval vm_compute in (firstn 40 failing_scripts, firstn 40 failing_keys, firstn 40 failing_splits, firstn 40 failing_finds, firstn 40 failing_parses).
