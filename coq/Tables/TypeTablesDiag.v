(* Compiled only when tables_match_model fails: locates the differing rows and judges
   each differing row of the IMPLEMENTATION's graph against the specification clauses. *)
From Coq Require Import List NArith Uint63 ZArith.
Import ListNotations.
From Verif Require Import Types Spec TypesSpec TypeTables TypeTablesDefs.

Definition i2n (i : int) : N := Z.to_N (Uint63.to_Z i).
Definition unpack_word (w : int) : list N :=
  map (fun k => i2n ((w >> (Uint63.of_Z (Z.of_nat (10 * k)))) land 1023)%uint63) (seq 0 6).
Definition unpack (tbl : list int) (len : N) : list N := firstn (N.to_nat len) (flat_map unpack_word tbl).

Definition nth_corr (i : N) : corr := nth (N.to_nat i) all_corr c_true.
Definition nth_mall (i : N) : mall := nth (N.to_nat i) all_mall m_true.
Definition dec_base (n : N) : base := match n with 0 => BB | 1 => BK | 2 => BV | _ => BW end%N.
Definition dec_err (n : N) : errk :=
  if (n <? 10)%N then match n with 0 => NonZeroDupIf | 1 => LeftNotDissatisfiable | 2 => RightNotDissatisfiable
                           | 3 => SwapNonOne | 4 => NonZeroZero | _ => LeftNotUnit end%N
  else if (n <? 20)%N then ChildBase1 (dec_base (n - 10))
  else if (n <? 40)%N then ChildBase2 (dec_base ((n - 20) / 4)) (dec_base ((n - 20) mod 4))
  else if (n <? 200)%N then ChildBase3 (dec_base ((n - 40) / 16)) (dec_base (((n - 40) / 4) mod 4)) (dec_base ((n - 40) mod 4))
  else if (n <? 400)%N then ThresholdBase ((n - 200) / 4) (dec_base ((n - 200) mod 4))
  else if (n <? 500)%N then ThresholdDissat (n - 400)
  else ThresholdNonUnit (n - 500).
Definition dec_cres (n : N) : res corr := if (n <? 100)%N then ROk (nth_corr n) else RErr (dec_err (n - 100)).

(* rows: (row index, impl code, model code, spec clauses hold on the impl row) *)
Definition row := (N * N * N * N)%type.
Definition grade (le eq : bool) : N := if eq then 2%N else if le then 1%N else 0%N.
Fixpoint diff (i : N) (impl model : list N) (judge : N -> N -> N) (budget : nat) : list row :=
  match budget, impl, model with
  | S b, x :: r, y :: s =>
      if N.eqb x y then diff (i + 1) r s judge budget
      else (i, x, y, judge i x) :: diff (i + 1) r s judge b
  | _, _, _ => []
  end.

Definition gr (dev : bool) (impl : res corr) (sp : option scorr) : N :=
  grade (refines true impl sp) (refines dev impl sp).
Definition gm (impl spec : small) : N := grade (small_le impl spec) (small_eqb impl spec).
Definition judge_c1 (dev : corr -> bool) (skip : corr -> bool) (sp : scorr -> option scorr) (i code : N) : N :=
  let x := nth_corr i in if skip x then 2%N else gr (dev x) (dec_cres code) (sp (alpha_c x)).
Definition judge_c2 (sp : scorr -> scorr -> option scorr) (i code : N) : N :=
  let x := nth_corr (i / 80) in let y := nth_corr (i mod 80) in
  gr false (dec_cres code) (sp (alpha_c x) (alpha_c y)).
Definition judge_c3 (sp : scorr -> scorr -> scorr -> option scorr) (i code : N) : N :=
  let x := nth_corr (i / 6400) in let y := nth_corr ((i / 80) mod 80) in let z := nth_corr (i mod 80) in
  gr false (dec_cres code) (sp (alpha_c x) (alpha_c y) (alpha_c z)).
Definition judge_m1 (sp : small -> small) (i code : N) : N :=
  gm (alpha_m (nth_mall code)) (sp (alpha_m (nth_mall i))).
Definition judge_m2 (sp : small -> small -> small) (i code : N) : N :=
  gm (alpha_m (nth_mall code)) (sp (alpha_m (nth_mall (i / 12))) (alpha_m (nth_mall (i mod 12)))).
Definition judge_m3 (sp : small -> small -> small -> small) (i code : N) : N :=
  gm (alpha_m (nth_mall code))
    (sp (alpha_m (nth_mall (i / 144))) (alpha_m (nth_mall ((i / 12) mod 12))) (alpha_m (nth_mall (i mod 12)))).
Definition nojudge (_ _ : N) : N := 2%N.   (* no specification clause attached (is_subtype) *)

Definition sc_true_sugar (x : scorr) := sc_and_v x sc_true.
Definition sc_likely_sugar (x : scorr) := sc_or_i sc_false x.
Definition sm_true_sugar (x : small) := sm_and_v x sm_true.
Definition sm_likely_sugar (x : small) := sm_or_i sm_false x.

Definition d (id : N) (model : list N) (tbl : list int) (len : N) (judge : N -> N -> N) : N * list row :=
  (id, diff 0 (unpack tbl len) model judge 5).

Definition leaf_spec_c := [sc_true; sc_false; sc_pk_k; sc_pk_h; sc_multi; sc_multi; sc_multi_a; sc_multi_a; sc_hash; sc_time].
Definition leaf_spec_m := [sm_true; sm_false; sm_key; sm_key; sm_key; sm_key; sm_key; sm_key; sm_hash; sm_time].
Definition judge_leaf_c (i code : N) : N :=
  grade (scorr_le (alpha_c (nth_corr code)) (nth (N.to_nat i) leaf_spec_c sc_true))
        (scorr_eqb (alpha_c (nth_corr code)) (nth (N.to_nat i) leaf_spec_c sc_true)).
Definition judge_leaf_m (i code : N) : N :=
  gm (alpha_m (nth_mall code)) (nth (N.to_nat i) leaf_spec_m sm_true).
Definition judge_th1 (i code : N) := gr false (dec_cres code) (sc_thresh [alpha_c (nth_corr i)]).
Definition judge_th2 (i code : N) :=
  gr false (dec_cres code) (sc_thresh [alpha_c (nth_corr (i / 80)); alpha_c (nth_corr (i mod 80))]).
Definition judge_th3 (i code : N) :=
  gr false (dec_cres code)
    (sc_thresh [alpha_c (nth_corr (i / 6400)); alpha_c (nth_corr ((i / 80) mod 80)); alpha_c (nth_corr (i mod 80))]).
(* m_thresh tables: row i = (list number i / n, k = i mod n + 1) *)
Definition judge_mth (n : nat) (i code : N) : N :=
  let nn := N.of_nat n in
  let li := (i / nn)%N in let k := (i mod nn + 1)%N in
  let l := nth (N.to_nat li) (lists_of all_mall n) [] in
  gm (alpha_m (nth_mall code)) (sm_thresh k (map alpha_m l)).

Definition diag : list (N * list row) := filter (fun p => match snd p with [] => false | _ => true end) [
  d 0 (tab1 leaves_c corr_idx) tbl_c_leaves tbl_c_leaves_len judge_leaf_c;
  d 1 (tab1 leaves_m mall_idx) tbl_m_leaves tbl_m_leaves_len judge_leaf_m;
  d 2 (flat_map (fun t => [corr_idx (t_corr t); mall_idx (t_mall t)]) leaves_t) tbl_t_leaves tbl_t_leaves_len nojudge;
  d 3 (tab1 all_corr (fun x => cres_code (c_cast_alt x))) tbl_c_cast_alt tbl_c_cast_alt_len (judge_c1 nodev nodev sc_alt);
  d 4 (tab1 all_corr (fun x => cres_code (c_cast_swap x))) tbl_c_cast_swap tbl_c_cast_swap_len (judge_c1 nodev nodev sc_swap);
  d 5 (tab1 all_corr (fun x => cres_code (c_cast_check x))) tbl_c_cast_check tbl_c_cast_check_len (judge_c1 nodev kz sc_check);
  d 6 (tab1 all_corr (fun x => cres_code (c_cast_dupif x))) tbl_c_cast_dupif tbl_c_cast_dupif_len
      (fun i c => N.min (judge_c1 nodev nodev (sc_dupif false) i c) (judge_c1 (fun _ => true) nodev (sc_dupif true) i c));
  d 7 (tab1 all_corr (fun x => cres_code (c_cast_verify x))) tbl_c_cast_verify tbl_c_cast_verify_len (judge_c1 nodev nodev sc_verify);
  d 8 (tab1 all_corr (fun x => cres_code (c_cast_nonzero x))) tbl_c_cast_nonzero tbl_c_cast_nonzero_len (judge_c1 nodev nodev sc_nonzero);
  d 9 (tab1 all_corr (fun x => cres_code (c_cast_zeronotequal x))) tbl_c_cast_zeronotequal tbl_c_cast_zeronotequal_len (judge_c1 nodev nodev sc_zeronotequal);
  d 10 (tab1 all_corr (fun x => cres_code (c_cast_true x))) tbl_c_cast_true tbl_c_cast_true_len (judge_c1 nodev nodev sc_true_sugar);
  d 11 (tab1 all_corr (fun x => cres_code (c_cast_or_i_false x))) tbl_c_cast_or_i_false tbl_c_cast_or_i_false_len (judge_c1 nodev nodev sc_likely_sugar);
  d 12 (tab2 all_corr (fun x y => cres_code (c_and_b x y))) tbl_c_and_b tbl_c_and_b_len (judge_c2 sc_and_b);
  d 13 (tab2 all_corr (fun x y => cres_code (c_and_v x y))) tbl_c_and_v tbl_c_and_v_len (judge_c2 sc_and_v);
  d 14 (tab2 all_corr (fun x y => cres_code (c_or_b x y))) tbl_c_or_b tbl_c_or_b_len (judge_c2 sc_or_b);
  d 15 (tab2 all_corr (fun x y => cres_code (c_or_d x y))) tbl_c_or_d tbl_c_or_d_len (judge_c2 sc_or_d);
  d 16 (tab2 all_corr (fun x y => cres_code (c_or_c x y))) tbl_c_or_c tbl_c_or_c_len (judge_c2 sc_or_c);
  d 17 (tab2 all_corr (fun x y => cres_code (c_or_i x y))) tbl_c_or_i tbl_c_or_i_len (judge_c2 sc_or_i);
  d 18 (tab3 all_corr (fun x y z => cres_code (c_and_or x y z))) tbl_c_and_or tbl_c_and_or_len (judge_c3 sc_andor);
  d 19 (tab1 all_corr (fun x => cres_code (c_threshold 1 [x]))) tbl_c_thresh1 tbl_c_thresh1_len judge_th1;
  d 20 (tab2 all_corr (fun x y => cres_code (c_threshold 1 [x; y]))) tbl_c_thresh2 tbl_c_thresh2_len judge_th2;
  d 21 (tab3 all_corr (fun x y z => cres_code (c_threshold 2 [x; y; z]))) tbl_c_thresh3 tbl_c_thresh3_len judge_th3;
  d 22 (tab2 all_corr (fun x y => b2n (corr_subtype x y))) tbl_c_subtype tbl_c_subtype_len nojudge;
  d 23 (tab2 all_mall (fun x y => b2n (mall_subtype x y))) tbl_m_subtype tbl_m_subtype_len nojudge;
  d 24 (tab1 all_mall (fun x => mall_idx (m_cast_alt x))) tbl_m_cast_alt tbl_m_cast_alt_len (judge_m1 sm_same);
  d 25 (tab1 all_mall (fun x => mall_idx (m_cast_swap x))) tbl_m_cast_swap tbl_m_cast_swap_len (judge_m1 sm_same);
  d 26 (tab1 all_mall (fun x => mall_idx (m_cast_check x))) tbl_m_cast_check tbl_m_cast_check_len (judge_m1 sm_same);
  d 27 (tab1 all_mall (fun x => mall_idx (m_cast_dupif x))) tbl_m_cast_dupif tbl_m_cast_dupif_len (judge_m1 sm_dupif);
  d 28 (tab1 all_mall (fun x => mall_idx (m_cast_verify x))) tbl_m_cast_verify tbl_m_cast_verify_len (judge_m1 sm_verify);
  d 29 (tab1 all_mall (fun x => mall_idx (m_cast_nonzero x))) tbl_m_cast_nonzero tbl_m_cast_nonzero_len (judge_m1 sm_nonzero);
  d 30 (tab1 all_mall (fun x => mall_idx (m_cast_zeronotequal x))) tbl_m_cast_zeronotequal tbl_m_cast_zeronotequal_len (judge_m1 sm_same);
  d 31 (tab1 all_mall (fun x => mall_idx (m_cast_true x))) tbl_m_cast_true tbl_m_cast_true_len (judge_m1 sm_true_sugar);
  d 32 (tab1 all_mall (fun x => mall_idx (m_cast_or_i_false x))) tbl_m_cast_or_i_false tbl_m_cast_or_i_false_len (judge_m1 sm_likely_sugar);
  d 33 (tab2 all_mall (fun x y => mall_idx (m_and_b x y))) tbl_m_and_b tbl_m_and_b_len (judge_m2 sm_and_b);
  d 34 (tab2 all_mall (fun x y => mall_idx (m_and_v x y))) tbl_m_and_v tbl_m_and_v_len (judge_m2 sm_and_v);
  d 35 (tab2 all_mall (fun x y => mall_idx (m_or_b x y))) tbl_m_or_b tbl_m_or_b_len (judge_m2 sm_or_b);
  d 36 (tab2 all_mall (fun x y => mall_idx (m_or_d x y))) tbl_m_or_d tbl_m_or_d_len (judge_m2 sm_or_d);
  d 37 (tab2 all_mall (fun x y => mall_idx (m_or_c x y))) tbl_m_or_c tbl_m_or_c_len (judge_m2 sm_or_c);
  d 38 (tab2 all_mall (fun x y => mall_idx (m_or_i x y))) tbl_m_or_i tbl_m_or_i_len (judge_m2 sm_or_i);
  d 39 (tab3 all_mall (fun x y z => mall_idx (m_and_or x y z))) tbl_m_and_or tbl_m_and_or_len (judge_m3 sm_andor);
  d 40 (m_thresh_tab 1) tbl_m_thresh1 tbl_m_thresh1_len (judge_mth 1);
  d 41 (m_thresh_tab 2) tbl_m_thresh2 tbl_m_thresh2_len (judge_mth 2);
  d 42 (m_thresh_tab 3) tbl_m_thresh3 tbl_m_thresh3_len (judge_mth 3);
  d 43 (m_thresh_tab 4) tbl_m_thresh4 tbl_m_thresh4_len (judge_mth 4)
].
(* random threshold rows that disagree: (row index, spec clauses hold) *)
Definition rand_judge (row : N * list N * (N * N)) : N :=
  let '(k, idxs, (rc, rm)) := row in
  let tys := map nth_ty idxs in
  N.min (gr false (dec_cres rc) (sc_thresh (map (fun t => alpha_c (t_corr t)) tys)))
    (if (rc <? 100)%N then gm (alpha_m (nth_mall rm)) (sm_thresh k (map (fun t => alpha_m (t_mall t)) tys)) else 2%N).
Definition diag_rand : list (N * N) :=
  firstn 5 (flat_map (fun p => if rand_ok (snd p) then [] else [(N.of_nat (fst p), rand_judge (snd p))])
                     (combine (seq 0 (length tbl_t_thresh_random)) tbl_t_thresh_random)).
Eval vm_compute in (diag, diag_rand, pairing_mismatches).
