(* C04 x C12: compiled only when DecParamsCasesCheck reports differences: for every differing case
   the failing row numbers and the model's own answer on each of them (0 ok / 1 decoding error /
   2 validation error / 3 panic / 4 fuel, with the class code), and the model's figures. *)
From Verif Require Import DecParamsCasesDefs DecParamsCasesGen.
Local Open Scope N_scope.

Definition res_code (r : dpres) : N * N :=
  match r with
  | DpOk _ => (0, 0) | DpErr e => (1, derr_code e) | DpInvalid v => (2, verr_code v)
  | DpPanic n => (3, n) | DpFuel => (4, 0)
  end.

Definition dp_diag (c : dpcase) :=
  let w := dp_world (dp_ctx c) in
  let e := dp_env w c in
  let bad := dp_check w c in
  (dp_id c, bad,
   map (fun i => (i, res_code (decode_with e (match i with
                                               | 0 => VP_MAX
                                               | _ => fst (nth (N.to_nat (i - 1)) (dp_rows c) (VP_MAX, DCrash))
                                               end) (dp_bytes c))))
       (filter (fun i => i <? 100) bad),
   match dp_max c with
   | DAccept m =>
     let s := facts_of (dp_ctx c) (d_ke e) m in
     Some (base_code (s_base s), s_nonmall s, s_signed s, s_script_size s, s_tree_height s, s_mixed_locks s,
           has_repeated_keys s, s_sat s)
   | _ => None
   end).

Eval vm_compute in
  (map dp_diag (filter (fun c => match dp_check (dp_world (dp_ctx c)) c with [] => false | _ => true end) dp_cases)).
