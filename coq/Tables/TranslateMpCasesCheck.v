(* C20 (extension round 2): every observation of the translate-mp engine (result class of Descriptor::translate_pk with
   multipath / single / raw / illegal / unmapped target keys) is what the model translate_desc_mp computes. *)
From Coq Require Import List NArith Bool.
From Verif Require Import TranslateMpModel TranslateMpCasesDefs TranslateMpCasesGen.
Theorem mp_cases_match_model : forallb case_ok mp_cases = true.
Proof. vm_compute. reflexivity. Qed.
