(* C11 tie: the observations of the compiled library (Tables/RobustCasesGen.v, regenerated on
   every run by `verif-harness robust models`) are compared with the models of
   Ms/RobustModel.v INSIDE Coq.  The value printed must be six empty lists; otherwise each
   list holds the differing rows (input, implementation's observation, model's value), which
   is also the diagnosis. *)
From Coq Require Import List NArith ZArith Bool.
From Verif Require Import Bytes RobustModel RobustCasesGen.
Import ListNotations.
Local Open Scope N_scope.

Definition oc {A} (r : routcome A) : N := match r with ROk _ => 1 | RErr _ => 0 | RPanic _ => 2 end.
Definition is_ok {A} (r : routcome A) : bool := match r with ROk _ => true | _ => false end.

(* ---- Threshold ---- *)
Definition thr_model_row (r : N * N * N) : N * N * N * N * N :=
  let '(MAX, k, n) := r in
  let l := repeat 7 (N.to_nat n) in
  let new := thr_new MAX k l in
  let inv :=
    match new with
    | ROk t =>
      is_ok (thr_display_items true t) && is_ok (thr_display_items false t)
      && is_ok (thr_translate (fun x => ROk x) t)
      && (1 <=? t_k t) && (t_k t <=? nlen (t_inner t)) && ((MAX =? 0) || (nlen (t_inner t) <=? MAX))
    | RErr _ => is_ok (thr_err_display (thr_error_of MAX k n))
    | RPanic _ => false
    end in
  (oc new, oc (thr_from_iter MAX k n l), oc (thr_from_iter MAX k 0 l), if inv then 1 else 0,
   oc (rbind new (thr_set_maximum 3))).

Definition eq5 (a b : N * N * N * N * N) : bool :=
  let '(a1, a2, a3, a4, a5) := a in let '(b1, b2, b3, b4, b5) := b in
  (a1 =? b1) && (a2 =? b2) && (a3 =? b3) && (a4 =? b4) && (a5 =? b5).

Definition thr_bad := map (fun row => (row, thr_model_row (fst row)))
  (filter (fun row => negb (eq5 (thr_model_row (fst row)) (snd row))) thr_rows).

Definition or_and_model (MAX : N) : N * N := (oc (thr_or MAX 1 2), oc (thr_and MAX 1 2)).
Definition thr_or_and_bad := filter (fun row => let '(MAX, o, a) := row in
  negb ((fst (or_and_model MAX) =? o) && (snd (or_and_model MAX) =? a))) thr_or_and_rows.
Definition thr_orn_bad := filter (fun row => let '(n, o, a) := row in
  let l := repeat 7 (N.to_nat n) in negb ((oc (thr_or_n l) =? o) && (oc (thr_and_n l) =? a))) thr_orn_rows.

(* ---- planner ---- *)
Definition plan_model (pk dp : list N) (fp_match ecdsa : N) : N :=
  match has_ecdsa_key [mkAssetKey (if fp_match =? 1 then 5 else 9) dp (ecdsa =? 1)] 5 [pk] with
  | ROk false => 0 | ROk true => 1 | RErr _ => 3 | RPanic _ => 2 end.
(* the tie DEMANDS the graph of the code as written (planner_total); rows that differ are listed *)
Definition plan_bad := map (fun row => (row, plan_model (fst (fst row)) (snd (fst row)) (fst (fst (snd row))) (snd (fst (snd row)))))
  (filter (fun row => let '((pk, dp), (fm, ec, c)) := row in negb (plan_model pk dp fm ec =? c)) plan_rows).

(* diagnosis only: does the implementation's graph equal the code BEFORE /repo 540253fb
   (len - 1 on an empty path: DESIGN 10-f)?  1 = yes: the repair has been lost. *)
Definition plan_model_before (pk dp : list N) (fp_match ecdsa : N) : N :=
  if (ecdsa =? 1) && (fp_match =? 1) then
    match child_of_before_540253fb [pk] dp with ROk false => 0 | ROk true => 1 | RErr _ => 3 | RPanic _ => 2 end
  else 0.
Definition planner_regressed : N :=
  match plan_bad with
  | [] => 0
  | _ => if forallb (fun row => let '((pk, dp), (fm, ec, c)) := row in plan_model_before pk dp fm ec =? c) plan_rows then 1 else 2
  end.
Eval vm_compute in planner_regressed.

(* ---- lexer ---- *)
Definition lex_obs (b : list N) : N * N :=
  match lex_model b with
  | ROk ts => (1, nlen ts)
  | RErr e => (0, e)
  | RPanic s => (2, s)
  end.
Definition lex_bad := map (fun row => (row, lex_obs (fst row)))
  (filter (fun row => let '(b, (k, v)) := row in let '(k', v') := lex_obs b in negb ((k =? k') && (v =? v'))) lex_rows).

(* ---- tree_height per constructor ---- *)
Definition height_bad := filter (fun row => let '(tag, kids, h) := row in negb (tree_height_model kids =? h)) height_rows.

Definition robust_counts := (length thr_rows, length thr_or_and_rows, length thr_orn_rows, length plan_rows, length lex_rows, length height_rows).
Eval vm_compute in robust_counts.
Definition robust_mismatches := (thr_bad, thr_or_and_bad, thr_orn_bad, plan_bad, lex_bad, height_bad).
Eval vm_compute in robust_mismatches.
