(* C12 correspondence: the raw record the harness emits per case (primitive integers, which
   parse fast), its decoding into the model's types, and the functions that replay each
   recorded call on the model.  Static; the generated ValidateCasesGen.v imports it. *)
From Coq Require Import List NArith ZArith Bool Uint63.
Import ListNotations.
From Verif Require Import ValidateModel ValidateCtorModel.
Local Open Scope N_scope.

Definition i2n (i : int) : N := Z.to_N (Uint63.to_Z i).

(* r_head = [id; ctx; kind; parsed; typed; base; nonmall; signed; height; mixed; size;
             has_sat; wit_count; op_count; exec_stack]
   r_ths  = flattened (MAX, k, n) triples;  r_nodes = (kind, pk_cost, number of children, keys) in pre-order,
   key = id * 64 + paths * 4 + uncompressed * 2 + xonly
   r_rows    : code + 100 * pset + 100000 * strict            (Miniscript::validate)
   r_lim     : (code + 100 * limit + 1000 * base pset + 1000000 * strict, value)
   r_entries : code + 100 * entry + 10000 * pset + 10000000 * strict *)
Record rcase := mkR {
  r_head : list int; r_ths : list int; r_afters : list int; r_olders : list int;
  r_nodes : list (int * int * int * list int);
  r_rows : list int; r_lim : list (int * int); r_entries : list int }.

Definition hd_n (r : rcase) (k : nat) : N := i2n (nth k (r_head r) 0%uint63).
Definition hd_b (r : rcase) (k : nat) : bool := negb (hd_n r k =? 0).

Definition dec_ctx (n : N) : ctx := match n with 0 => CBare | 1 => CLegacy | 2 => CSegwitv0 | _ => CTap end.
Definition dec_base (n : N) : base := match n with 0 => BB | 1 => BK | 2 => BV | _ => BW end.
Definition dec_kind (n : N) : nkind :=
  match n with
  | 0 => KPkK | 1 => KPkH | 2 => KRawPkH | 3 => KMulti | 4 => KSortedMulti | 5 => KMultiA
  | 6 => KSortedMultiA | 7 => KDupIf | 8 => KOrI | 9 => KCheck | _ => KOther
  end.
Definition dec_key (w : int) : keyinfo :=
  let n := i2n w in mkKey (n / 64) (N.testbit n 1) (N.testbit n 0) ((n / 4) mod 16).
Definition dec_node (t : int * int * int * list int) : node :=
  let '(k, c, _, ks) := t in mkNode (dec_kind (i2n k)) (map dec_key ks) (i2n c).
Definition rc_arities (r : list (int * int * int * list int)) : list N :=
  map (fun t : int * int * int * list int => let '(_, _, a, _) := t in i2n a) r.
Fixpoint dec_triples (l : list int) : list (N * N * N) :=
  match l with
  | a :: b :: c :: r => (i2n a, i2n b, i2n c) :: dec_triples r
  | _ => []
  end.

Definition rc_id (r : rcase) : N := hd_n r 0.
Definition rc_ctx (r : rcase) : ctx := dec_ctx (hd_n r 1).
Definition rc_kind (r : rcase) : N := hd_n r 2.
Definition rc_sum (r : rcase) : summary :=
  mkSum (dec_base (hd_n r 5)) (hd_b r 6) (hd_b r 7) (hd_n r 8) (hd_b r 9)
        (map dec_node (r_nodes r)) (hd_n r 10)
        (if hd_b r 11 then Some (mkSat (hd_n r 12) (hd_n r 13) (hd_n r 14)) else None).
Definition rc_expr (r : rcase) : expr :=
  mkExpr true (dec_triples (r_ths r)) (map i2n (r_afters r)) (map i2n (r_olders r)) (hd_b r 4) (rc_sum r).

Definition base_code (b : base) : N := match b with BB => 0 | BK => 1 | BV => 2 | BW => 3 end.
Definition code_of_verr (e : verr) : N :=
  match e with
  | EDuplicateKeys => 1 | EIllegalDupIf => 2 | EIllegalMulti => 3 | EIllegalMultiA => 4 | EIllegalOrI => 5
  | EIllegalRawPkh => 6 | EMalleable => 7 | EMaxOpCount => 8 | EMaxScriptSize => 9 | EMaxWitnessItems => 10
  | EMaxExecStack => 11 | EMaxRecursiveDepth => 12 | EMixedTimeLocks => 13 | EMultipathLenMismatch => 14
  | ESiglessBranch => 15 | EKeyCompressed => 16 | EKeyUncompressed => 17 | EKeyXOnly => 18
  | EUnsatisfiable => 19 | ENonBase b => 20 + base_code b
  end.
Definition code_of_vres (r : vres) : N := match r with VOk => 0 | VErr e => code_of_verr e end.
Definition code_of_epres (r : epres) : N :=
  match r with
  | EOk => 0
  | EErr (EpValidation e) => code_of_verr e
  | EErr (EpParse PSyntax) => 30 | EErr (EpParse PThreshold) => 31 | EErr (EpParse PLockTime) => 32
  | EErr (EpParse PType) => 33 | EErr (EpParse PDepth) => 34
  | EErr (EpParse (PCtx CeXOnly)) => 40 | EErr (EpParse (PCtx CeUncompressed)) => 41
  | EErr (EpParse (PCtx CeMultiA)) => 42 | EErr (EpParse (PCtx CeMulti)) => 43
  | EErr (EpParse (PCtx CeScriptSize)) => 44
  | EErr (EpTop (TeNonBase b)) => 20 + base_code b
  | EErr (EpTop TeMultipath) => 50 | EErr (EpTop TeNonStandardBare) => 51
  end.

(* strict rows compare the error class; the others only accept / reject (DESIGN App. C) *)
Definition agree (strict impl model : N) : bool :=
  if strict =? 1 then impl =? model else Bool.eqb (impl =? 0) (model =? 0).

Definition getp (ps : list vparams) (i : N) : vparams := nth (N.to_nat i) ps VP_MAX.
(* limit index: 0 ops, 1 size, 2 witness items, 3 exec stack, 4 depth (record order) *)
Definition set_one_limit (p : vparams) (j v : N) : vparams :=
  set_limits p (if j =? 0 then v else max_opcode_count p) (if j =? 1 then v else max_script_size p)
               (if j =? 2 then v else max_witness_items p) (if j =? 3 then v else max_exec_stack_size p)
               (if j =? 4 then v else max_recursive_depth p).

Definition row_model (ps : list vparams) (s : summary) (i : N) : N :=
  code_of_vres (validate (getp ps i) s).
Definition lim_model (ps : list vparams) (s : summary) (bi j v : N) : N :=
  code_of_vres (validate (set_one_limit (getp ps bi) j v) s).

Definition first_key (x : expr) : keyinfo :=
  hd (mkKey 0 false false 1) (all_keys (s_nodes (x_sum x))).
Definition entry_model (ps : list vparams) (c : ctx) (x : expr) (e i : N) : N :=
  code_of_epres
    match e with
    | 1 => ms_from_str_with c VP_MAX x
    | 2 => ms_from_str c x
    | 3 => ms_from_str_insane c x
    | 4 => ms_from_str_with c (getp ps i) x
    | 20 => descriptor_from_str_inner c x
    | 24 => descriptor_from_str_inner CSegwitv0 x
    | 21 | 26 | 27 => wrapper_new c (x_sum x)
    (* constructor stream (verif-harness validate ctors): 28 = Wsh::new_sortedmulti (c = Segwitv0) /
       Sh::new_sortedmulti (c = Legacy) and the Descriptor:: shorthands, 29 = Sh::new_wsh_sortedmulti;
       33 = Pkh::new, 34 = Wpkh::new / Sh::new_wpkh, 35 = Tr::new(key, None) on the first key *)
    | 28 => new_sortedmulti c x
    | 29 => new_sortedmulti CSegwitv0 x
    | 36 => new_sortedmulti c x   (* Wsh|Sh|Bare::new(Miniscript::from_ast(Terminal::(Sorted)Multi(thresh))?) *)
    | 33 => key_ctor CBare (first_key x)
    | 34 => key_ctor CSegwitv0 (first_key x)
    | 35 => key_ctor CTap (first_key x)
    | 22 => tr_leaf_from_tree x
    | 23 => descriptor_from_str_inner CTap x
    | 25 => tr_new_leaf (x_sum x)
    | 30 => ms_decode_with c (getp ps i) true x
    | 31 => ms_decode c true x
    | 32 => ms_decode_consensus c true x
    | _ => EErr (EpParse PSyntax)
    end.

(* unpacked rows: (strict, a, b, implementation's code, model's code) *)
Definition rows_eval (ps : list vparams) (r : rcase) : list (N * N * N * N * N * N) :=
  let s := rc_sum r in let x := rc_expr r in let c := rc_ctx r in
  map (fun w => let n := i2n w in let cd := n mod 100 in let i := (n / 100) mod 1000 in let st := n / 100000 in
                (0, st, i, 0, cd, row_model ps s i)) (r_rows r)
  ++ map (fun wv : int * int => let n := i2n (fst wv) in let v := i2n (snd wv) in
                let cd := n mod 100 in let j := (n / 100) mod 10 in let bi := (n / 1000) mod 1000 in let st := n / 1000000 in
                (1, st, bi, j * 18446744073709551616 + v, cd, lim_model ps s bi j v)) (r_lim r)
  ++ map (fun w => let n := i2n w in let cd := n mod 100 in let e := (n / 100) mod 100 in
                let i := (n / 10000) mod 1000 in let st := n / 10000000 in
                (2, st, e, i, cd, entry_model ps c x e i)) (r_entries r)
  (* the library's ext.tree_height against the model's rule on the tree shape (objects only) *)
  ++ (if hd_b r 3 then [(3, 1, 0, 0, s_tree_height s, tree_height_of (rc_arities (r_nodes r)))] else []).

Definition ev_ok (t : N * N * N * N * N * N) : bool :=
  let '(_, st, _, _, impl, model) := t in agree st impl model.
Definition case_ok (ps : list vparams) (r : rcase) : bool := forallb ev_ok (rows_eval ps r).
Definition case_calls (r : rcase) : N :=
  N.of_nat (length (r_rows r) + length (r_lim r) + length (r_entries r) + (if hd_b r 3 then 1 else 0)).
(* calls on which both sides reject with different classes (advisory: a reordering of checks) *)
Definition case_class_diffs (ps : list vparams) (r : rcase) : N :=
  N.of_nat (length (filter (fun t : N * N * N * N * N * N => let '(_, _, _, _, impl, model) := t in
              negb (impl =? 0) && negb (model =? 0) && negb (impl =? model)) (rows_eval ps r))).
(* diagnosis: (case id, case kind, (row class, strict, a, b, implementation, model)) *)
Definition case_diag (ps : list vparams) (r : rcase) : list (N * N * (N * N * N * N * N * N)) :=
  map (fun t => (rc_id r, rc_kind r, t)) (filter (fun t => negb (ev_ok t)) (rows_eval ps r)).
