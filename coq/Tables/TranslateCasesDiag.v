(* Compiled only when TranslateCasesCheck.v fails: per domain, the failing translation cases
   (value id, what the model computes) and the value ids whose key-iteration observation differs. *)
From Verif Require Import TranslateRun TranslateCasesGen.

Definition code_of {A} (r : robs A) : N * N :=
  match r with ROK _ => (0, 0) | RET i => (1, i) | REO c => (2, c) | RPANIC => (3, 0) end%N.

Eval vm_compute in
  (map (fun d => let '(a, b) := tdom_diag d in (map (fun p => (fst p, code_of (snd p))) a, b)) tdoms,
   map (fun d => let '(a, b) := ddom_diag d in (map (fun p => (fst p, code_of (snd p))) a, b)) ddoms).
