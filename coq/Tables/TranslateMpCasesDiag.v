(* compiled only when TranslateMpCasesCheck.v fails: the differing cases as (descriptor index, kinds, observed, model) *)
From Coq Require Import List NArith Bool.
From Verif Require Import TranslateMpModel TranslateMpCasesDefs TranslateMpCasesGen.
Eval vm_compute in (map (fun c => (c, case_code c)) (filter (fun c => negb (case_ok c)) mp_cases)).
