(* C07 — definitions for the in-Coq part of the tie: a sample of every run's cases (the
   implementation's lift results and satisfier verdicts) is written to LiftCasesGen.v and
   compared with the model / specification by the kernel's evaluator (LiftCasesCheck.v).
   The bulk of the run goes through the extracted model (ocaml/driver_lift.ml); this file
   cross-checks extraction on every run.  No proofs. *)
From Coq Require Import List NArith Bool.
Import ListNotations.
From Verif Require Import Ast TypeCheck SatSpec LiftModel LiftLimits.

(* a miniscript in its context with the within_resource_limits verdict READ FROM THE IMPLEMENTATION,
   or a descriptor (which carries one such verdict per miniscript) *)
Inductive ltarget := TMs (c : ctx) (rl : bool) (m : ms) | TDesc (d : ldesc).
Definition lcase := (ltarget * lres)%type.                (* what was lifted, what the implementation returned *)
(* case index, key mask, preimage mask, held nLockTime, held nSequence, "satisfier found a satisfaction" *)
Definition lworld := (nat * N * N * option N * option N * bool)%type.
(* preimage index, its four images (sha256, hash256, ripemd160, hash160) *)
Definition lpre := (N * (bytes * bytes * bytes * bytes))%type.

(* keys 6 and 7 of the harness World are uncompressed *)
Definition unc_key (k : key) : bool := N.eqb k 6 || N.eqb k 7.

(* the model computes the verdict from the fragment ... *)
Definition target_lift (t : ltarget) : lres :=
  match t with TMs c _ m => lift_ctx c unc_key m | TDesc d => lift_desc_ctx unc_key d end.
(* ... and it must be the implementation's *)
Definition target_bits_ok (t : ltarget) : bool :=
  match t with
  | TMs c rl m => Bool.eqb (within_resource_limits c unc_key m) rl
  | TDesc d => list_eqb Bool.eqb (desc_bits (redesc unc_key d)) (desc_bits d)
  end.
Definition case_ok (c : lcase) : bool := target_bits_ok (fst c) && lres_eqb (target_lift (fst c)) (snd c).

Definition find_pre (tbl : list lpre) (sel : bytes * bytes * bytes * bytes -> bytes) (pm : N) (h : bytes) : option bytes :=
  match find (fun e => list_eqb N.eqb (sel (snd e)) h && N.testbit pm (fst e)) tbl with
  | Some _ => Some []        (* the preimage bytes are irrelevant to (non-)emptiness *)
  | None => None
  end.
Definition mk_assets (tbl : list lpre) (km pm : N) (l s : option N) : assets :=
  mkAssets (fun k => if N.testbit km k then Some [1%N] else None)
           (find_pre tbl (fun q => fst (fst (fst q))) pm)
           (find_pre tbl (fun q => snd (fst (fst q))) pm)
           (find_pre tbl (fun q => snd (fst q)) pm)
           (find_pre tbl (fun q => snd q) pm)
           (after_ok l) (older_ok s).
(* key bytes and sorting do not influence (non-)emptiness of the table (LiftProofs: any
   permutation will do) *)
Definition ke0 : keyenv := mkKeyEnv (fun _ => []) (fun _ => []) (fun ks => ks).
Definition target_spendable (A : assets) (t : ltarget) : bool :=
  match t with
  | TMs _ _ m => nonempty (all_sat ke0 A m)
  | TDesc d => desc_spendable ke0 A (fun _ => A) d
  end.
Definition world_ok (tbl : list lpre) (cases : list lcase) (w : lworld) : bool :=
  match w with
  | (idx, km, pm, l, s, b) =>
    match nth_error cases idx with
    | Some (t, LOk p) =>
      let A := mk_assets tbl km pm l s in
      Bool.eqb (leval A p) b && Bool.eqb (target_spendable A t) b
    | _ => false
    end
  end.

Fixpoint indexed {X} (i : nat) (l : list X) : list (nat * X) :=
  match l with [] => [] | x :: r => (i, x) :: indexed (S i) r end.
