(* C01 stage `rawpkh`, compared inside Coq: on every decoded script with raw key hashes of this run
   (RawPkhCasesGen.v) the implementation's script bytes, template and completed witness equal the model's
   (`encode`, `sat_dissat_r`, `satisfy_r`), and every witness the implementation returned is accepted by
   the Script semantics. Compilation fails otherwise (then c01.py compiles RawPkhCasesDiag.v). *)
From Verif Require Import RawPkhCasesDefs RawPkhCasesGen.
Local Open Scope N_scope.

Lemma rawpkh_cases_match_model_and_spend : forallb (all_ok rk_keys rk_valid rk_pre) rk_cases = true.
Proof. vm_compute. reflexivity. Qed.

(* Tap: x-only keys, `lookup_raw_pkh_x_only_pk` / `lookup_raw_pkh_tap_leaf_script_sig`, Schnorr signatures *)
Lemma rawpkh_tap_cases_match_model_and_spend : forallb (all_ok rk_xkeys rk_xvalid rk_pre) rk_tap_cases = true.
Proof. vm_compute. reflexivity. Qed.

(* (scripts, runs, runs with a returned witness [executed], runs where the raw lookups are incoherent or partial) *)
Eval vm_compute in
  (let cs := concat rk_cases ++ concat rk_tap_cases in
   (N.of_nat (length cs), count_runs (fun _ _ => true) cs,
    count_runs (fun _ r => match r_wit r with Some _ => true | None => false end) cs,
    count_runs (fun _ r => negb (N.eqb (r_rpk r) 255) || negb (N.eqb (r_rsig r) (N.land (r_sig r) (r_rpk r)))) cs)).
