(* C13: evaluation of the interpreter model inside Coq on cases sampled from a run.
   A case carries the miniscript the implementation decoded, the witness items, the
   environment (lock time, sequence, the (key, signature) pairs the implementation's own
   verification accepts, hashes of the elements) and the IMPLEMENTATION's observation
   (verdict class + ordered constraint list).  [ic_ok] compares that observation with
   InterpModel.interp / interp_pk; Tables/InterpCasesCheck.v evaluates it by vm_compute. *)
From Verif Require Export InterpModel.
Local Open Scope N_scope.

Record icase := mkIC {
  ic_ms : option ms;                       (* None: key-only output (Inner::PublicKey), key = ic_key *)
  ic_key : bytes;
  ic_items : list bytes;                   (* items fed to the evaluator, first = bottom *)
  ic_lock : N; ic_seq : N; ic_txv : N;
  ic_kb : list (N * bytes);                (* key index -> bytes pushed in the script *)
  ic_kh : list (N * bytes);                (* key index -> hash160 of those bytes *)
  ic_sig : list (bytes * bytes);           (* pairs accepted by the implementation's verify_sig *)
  ic_hash : list (ihk * (bytes * bytes));  (* kind, (input, digest) *)
  ic_kp : list bytes;                      (* byte strings that parse as public keys *)
  ic_expect : ioutcome
}.

Fixpoint lookN (l : list (N * bytes)) (k : N) : bytes :=
  match l with [] => [255] | (i, b) :: r => if N.eqb i k then b else lookN r k end.

Definition ihk_code (k : ihk) : N :=
  match k with KSha256 => 0 | KHash256 => 1 | KRipemd160 => 2 | KHash160 => 3 end.

Fixpoint lookH (l : list (ihk * (bytes * bytes))) (k : ihk) (inp : bytes) : bytes :=
  match l with
  | [] => [255]
  | (k', (i, o)) :: r => if N.eqb (ihk_code k) (ihk_code k') && bytes_eqb i inp then o else lookH r k inp
  end.

Definition env_of (c : icase) : env :=
  mkEnv SvBase (ic_lock c) (ic_seq c) (ic_txv c)
        (fun k s => existsb (fun p => bytes_eqb (fst p) k && bytes_eqb (snd p) s) (ic_sig c))
        (fun _ => true)
        (lookH (ic_hash c) KSha256) (lookH (ic_hash c) KHash256)
        (lookH (ic_hash c) KRipemd160) (lookH (ic_hash c) KHash160).

Definition ke_of (c : icase) : keyenv := mkKeyEnv (lookN (ic_kb c)) (lookN (ic_kh c)) (fun l => l).
Definition kp_of (c : icase) : bytes -> bool := fun b => existsb (bytes_eqb b) (ic_kp c).

Definition ierr_code (e : ierr) : N :=
  match e with
  | EStackEnd => 0 | EElemPush => 1 | EStackBool => 2 | EVerifyFailed => 3 | EPkEval => 4 | ESig => 5
  | EPkHashFail => 6 | EPubkeyParse => 7 | EPreimageLen => 8 | EAbsNotMet => 9 | EAbsInvalid => 10
  | ERelNotMet => 11 | ERelDisabled => 12 | EMultiInsufficient => 13 | EMultiMissingZero => 14
  | EMultiEval => 15 | ECouldNotEvaluate => 16 | EScriptSat => 17
  end.

Definition constr_eqb (a b : constr) : bool :=
  match a, b with
  | CsPk k s, CsPk k' s' => bytes_eqb k k' && bytes_eqb s s'
  | CsPkh h k s, CsPkh h' k' s' => bytes_eqb h h' && bytes_eqb k k' && bytes_eqb s s'
  | CsHash kd h p, CsHash kd' h' p' => N.eqb (ihk_code kd) (ihk_code kd') && bytes_eqb h h' && bytes_eqb p p'
  | CsOlder n, CsOlder n' => N.eqb (rel_norm n) (rel_norm n')
  | CsAfter n, CsAfter n' => N.eqb n n'
  | _, _ => false
  end.

Fixpoint constrs_eqb (a b : list constr) : bool :=
  match a, b with
  | [], [] => true
  | x :: r, y :: s => constr_eqb x y && constrs_eqb r s
  | _, _ => false
  end.

Definition ioutcome_eqb (a b : ioutcome) : bool :=
  match a, b with
  | IAccept x, IAccept y => constrs_eqb x y
  | IReject e x, IReject e' y => N.eqb (ierr_code e) (ierr_code e') && constrs_eqb x y
  | _, _ => false
  end.

Definition ic_run (c : icase) : ioutcome :=
  match ic_ms c with
  | Some m => interp (env_of c) (ke_of c) (kp_of c) m (astack_of_items (ic_items c))
  | None => interp_pk (env_of c) (ic_key c) (astack_of_items (ic_items c))
  end.

(* both forms of the model against the implementation's observation *)
Definition ic_ok (c : icase) : bool :=
  ioutcome_eqb (ic_run c) (ic_expect c) &&
  match ic_ms c with
  | Some m => ioutcome_eqb (interp_rec (env_of c) (ke_of c) (kp_of c) m (astack_of_items (ic_items c))) (ic_expect c)
  | None => true
  end.

Fixpoint failing_from (i : N) (l : list icase) : list N :=
  match l with
  | [] => []
  | c :: r => if ic_ok c then failing_from (i + 1) r else i :: failing_from (i + 1) r
  end.
Definition failing (l : list icase) : list N := failing_from 0 l.
