(* C20 tie, re-checked on every run: translate_pk results / error classes / translator call logs and the key
   iterators of the compiled library on this run's cases (Tables/TranslateCasesGen.v, generated) equal the
   model's (translate_iter, translate_desc, iter_pk, for_each_key), evaluated by the kernel. *)
From Verif Require Import TranslateRun TranslateCasesGen.

Theorem translate_cases_match_model : forallb tdom_ok tdoms = true.
Proof. vm_compute. reflexivity. Qed.

Theorem descriptor_cases_match_model : forallb ddom_ok ddoms = true.
Proof. vm_compute. reflexivity. Qed.
