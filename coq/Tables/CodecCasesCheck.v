(* C04: this run's sample of implementation observations equals the model (kernel evaluation).
   Expected output: `= [] : list (N * list N)`. *)
From Verif Require Import CodecCasesDefs CodecCasesGen.
Eval vm_compute in (failing codec_world codec_cases).
