(* C12 complete tie, re-checked on every run against the regenerated ParamTablesGen.v:
   every public ValidationParams constant equals the model's, field by field, and
   intersect / entails of the compiled library agree with the model on the generating set. *)
From Coq Require Import List NArith Bool.
Import ListNotations.
From Verif Require Import ValidateModel ParamTablesDefs ParamTablesGen ParamTablesConsts.
Local Open Scope N_scope.

Eval vm_compute in (failing_consts, failing_rows, g_nrows).

Theorem constants_match_model : forallb (fun b => b) const_checks = true.
Proof. vm_compute. reflexivity. Qed.

Theorem lattice_rows_match_model : forallb (forallb (prow_ok g_limtab)) g_rows = true.
Proof. vm_compute. reflexivity. Qed.

Theorem primitives_match_model :
  forallb (forallb pthr_ok) g_thr && forallb plock_ok g_locks && forallb (forallb pfi_ok) g_fi = true.
Proof. vm_compute. reflexivity. Qed.
