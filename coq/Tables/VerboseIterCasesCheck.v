(* C11 / C10 tie (VerbosePreOrderIter of iter/tree.rs): the FULL records yielded by the compiled
   library's `TreeLike::verbose_pre_order_iter()` (Tables/VerboseIterCasesGen.v, regenerated on
   every run by `verif-harness robust verbose`: per item the label of the node, the label of the
   parent or None, index, n_children_yielded, is_complete) are compared item by item with
   `verbose_order` of Ms/VerboseIterModel.v INSIDE Coq.

   [verbose_bad] must be the empty list.  An entry (i, j) says: row i differs, j is the position
   of the first differing item (the length of the shorter list if one is a prefix of the other;
   a row on which the implementation panicked has no items, so j = 0).  A row whose items all
   agree but whose number of items is not 2 * size - 1 is reported with j = that number.
   [verbose_bad_detail] shows, for the same entries, the two items at position j
   (implementation, model). *)
From Coq Require Import List NArith Bool.
From Verif Require Import Bytes RobustModel VerboseIterModel VerboseIterCasesGen.
Import ListNotations.
Local Open Scope N_scope.

Definition vobs_t : Type := (N * option N * N * N * bool)%type.

Definition oeqb (a b : option N) : bool :=
  match a, b with Some x, Some y => x =? y | None, None => true | _, _ => false end.
Definition vobs_eqb (a b : vobs_t) : bool :=
  let '(l1, p1, i1, n1, c1) := a in let '(l2, p2, i2, n2, c2) := b in
  (l1 =? l2) && oeqb p1 p2 && (i1 =? i2) && (n1 =? n2) && Bool.eqb c1 c2.

(* position of the first difference; None = equal lists *)
Fixpoint first_diff (j : N) (a b : list vobs_t) : option N :=
  match a, b with
  | [], [] => None
  | x :: r, y :: s => if vobs_eqb x y then first_diff (j + 1) r s else Some j
  | _, _ => Some j
  end.

Definition verbose_model (t : rtree) : list vobs_t :=
  match verbose_order (g_of_r t) with ROk ys => map vobs ys | _ => [] end.

Definition verbose_row_bad (row : rtree * list vobs_t) : option N :=
  let '(t, items) := row in
  match first_diff 0 items (verbose_model t) with
  | Some j => Some j
  | None => if nlen items =? 2 * N.of_nat (rsize t) - 1 then None else Some (nlen items)
  end.

Fixpoint verbose_bad_from (i : N) (rows : list (rtree * list vobs_t)) : list (N * N) :=
  match rows with
  | [] => []
  | r :: rest => match verbose_row_bad r with
                 | None => verbose_bad_from (i + 1) rest
                 | Some j => (i, j) :: verbose_bad_from (i + 1) rest
                 end
  end.
Definition verbose_bad : list (N * N) := verbose_bad_from 0 verbose_rows.

Definition verbose_bad_detail : list (N * N * option vobs_t * option vobs_t) :=
  map (fun ij : N * N =>
         let '(i, j) := ij in
         match nth_error verbose_rows (N.to_nat i) with
         | Some (t, items) => (i, j, nth_error items (N.to_nat j), nth_error (verbose_model t) (N.to_nat j))
         | None => (i, j, None, None)
         end) verbose_bad.

Definition verbose_counts : nat * nat * nat * nat :=
  (length verbose_rows,
   fold_left (fun a r => (a + length (snd r))%nat) verbose_rows 0%nat,
   fold_left (fun a r => (a + rsize (fst r))%nat) verbose_rows 0%nat,
   length verbose_texts).
(* (rows, items, tree nodes, texts) *)
Eval vm_compute in verbose_counts.
Eval vm_compute in verbose_bad.
Eval vm_compute in verbose_bad_detail.
