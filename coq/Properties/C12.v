(* C12 — Accepted scripts obey their context; validation switches mean what they say.
   Statements only; every proof is `exact <lemma>`.  Model: Ms/ValidateModel.v (tied to /repo on
   every run: constants and lattice completely, validate and the entry points by the
   correspondence run).  Specification side: Ms/ValidateSpec.v.

   Full property, with the status of each part on the pinned tree:
     lattice, monotone, switch_exact (14 of 15 switches), limit_exact, accepted_ok for every
     entry point that ends in `validate`, desc_implies_ms for tr(): PROVED.
     switch_exact for allow_compressed_keys: REFUTED (inert while x-only keys are allowed; this
       is the documented behaviour of validate_pk), strongest true variant proved.
     accepted_ok / desc_implies_ms for the wsh / sh / bare wrappers and for Tr::new: REFUTED (the
       wrappers never call validate; witnesses below for the classes that exist on /repo
       6b65f152: or_i / d: inside sh(), more than 201 executed opcodes), strongest true variants
       `_partial` / `_residual` proved.  The non-B, pk_h-key and Tr::new-leaf classes were
       repaired in /repo (a8ead875, bd3f29d9, 6b65f152) and are now positive statements.                                            *)
From Verif Require Import ValidateModel ValidateSpec ValidateProofs ValidateAccept ValidateSwitch
  ValidateExact ValidateEntry ValidateCtorModel ValidateCtorProofs.
From Coq Require Import List.
Local Open Scope N_scope.

(* ---- lattice --------------------------------------------------------------------------- *)
Theorem C12_lattice_meet : forall a b c : vparams,
  intersect a b = intersect b a /\
  intersect a (intersect b c) = intersect (intersect a b) c /\
  intersect a a = a /\
  vp_le (intersect a b) a /\ vp_le (intersect a b) b /\
  (vp_le c a -> vp_le c b -> vp_le c (intersect a b)).
Proof.
  exact (fun a b c => conj (intersect_comm a b) (conj (intersect_assoc a b c) (conj (intersect_idem a)
        (conj (intersect_lower_l a b) (conj (intersect_lower_r a b) (intersect_greatest a b c)))))).
Qed.
Print Assumptions C12_lattice_meet.

Theorem C12_lattice_entails : forall p q : vparams,
  (entails p q = true <-> vp_le p q) /\ vp_le p p /\
  (forall r, vp_le p q -> vp_le q r -> vp_le p r) /\ (vp_le p q -> vp_le q p -> p = q).
Proof.
  exact (fun p q => conj (entails_iff_le p q) (conj (vp_le_refl p)
        (conj (fun r => vp_le_trans p q r) (vp_le_antisym p q)))).
Qed.
Print Assumptions C12_lattice_entails.

Theorem C12_lattice_constants :
  entails VP_SANE VP_CONSENSUS = true /\ entails VP_CONSENSUS VP_MAX = true /\
  entails VP_CONSENSUS VP_SANE = false /\
  forall c, entails (ctx_sane c) (ctx_consensus c) = true /\
            entails (ctx_consensus c) VP_CONSENSUS = true /\
            entails (ctx_consensus c) VP_MAX = true /\
            entails (ctx_sane c) VP_SANE = true.
Proof. exact constants_chain. Qed.
Print Assumptions C12_lattice_constants.

(* ---- tightening never admits more ------------------------------------------------------ *)
Theorem C12_monotone : forall (p q : vparams) (s : summary),
  entails p q = true -> validate p s = VOk -> validate q s = VOk.
Proof. exact (fun p q s H => validate_monotone p q s (proj1 (entails_iff_le p q) H)). Qed.
Print Assumptions C12_monotone.

(* ---- each switch rejects exactly the scripts with its defect ---------------------------- *)
Theorem C12_switch_exact : forall (b : switch) (p : vparams) (s : summary),
  b <> SwCompressed -> all_on p -> (forall l, within l p s) ->
  (validate (sw_set b false p) s = VErr (sw_err b s) <-> defect b s) /\
  (validate (sw_set b false p) s = VOk <-> ~ defect b s).
Proof. exact switch_exact. Qed.
Print Assumptions C12_switch_exact.

(* the same statement for allow_compressed_keys is false ... *)
Theorem C12_switch_exact_compressed_refuted :
  exists p s, all_on p /\ (forall l, within l p s) /\ defect SwCompressed s /\
              validate (sw_set SwCompressed false p) s = VOk.
Proof. exact switch_compressed_refuted. Qed.
Print Assumptions C12_switch_exact_compressed_refuted.

(* ... what holds instead: the switch is inert while x-only keys are allowed, and together
   with allow_x_only_keys = false it leaves exactly the scripts with only uncompressed keys *)
Theorem C12_switch_exact_compressed_partial : forall (p : vparams) (s : summary),
  (allow_x_only_keys p = true ->
   validate (sw_set SwCompressed false p) s = validate (sw_set SwCompressed true p) s) /\
  (all_on p -> (forall l, within l p s) ->
   (validate (sw_set SwXOnly false (sw_set SwCompressed false p)) s = VOk <->
    forall k, In k (all_keys (s_nodes s)) -> key_uncompressed_only k)).
Proof.
  exact (fun p s => conj (switch_compressed_inert p s) (switch_compressed_with_xonly_off p s)).
Qed.
Print Assumptions C12_switch_exact_compressed_partial.

Theorem C12_limit_exact : forall (l : limit) (p : vparams) (s : summary),
  all_on p -> s_script_size s <= USIZE_MAX -> others_within l p s ->
  (validate p s = VErr (lim_err l) <-> lim_get l p < lim_fig l s) /\
  (validate p s = VOk <-> lim_fig l s <= lim_get l p).
Proof. exact limit_exact. Qed.
Print Assumptions C12_limit_exact.

(* the facts behind two defects, in the code's own terms *)
Theorem C12_defect_meaning : forall s : summary,
  (has_repeated_keys s = true <-> ~ NoDup (map k_id (all_keys (s_nodes s)))) /\
  (top_level_type_check s = TOk <->
     s_base s = BB /\ ~ multipath_mismatch (all_keys (s_nodes s))).
Proof. exact (fun s => conj (has_repeated_keys_iff s) (top_level_type_check_ok s)). Qed.
Print Assumptions C12_defect_meaning.

(* ---- accepted scripts obey their context ------------------------------------------------ *)
(* CONSENSUS of a context accepts exactly the scripts that obey the context's rules *)
Theorem C12_consensus_is_context_rules : forall (c : ctx) (s : summary),
  (validate (ctx_consensus c) s = VOk -> obeys c s) /\
  (figs_bounded s -> obeys c s -> validate (ctx_consensus c) s = VOk).
Proof. exact (fun c s => conj (consensus_sound c s) (consensus_complete c s)). Qed.
Print Assumptions C12_consensus_is_context_rules.

(* Miniscript::validate, from_str, from_str_insane, from_str_with_validation_params,
   decode, decode_consensus, decode_with_validation_params, tr() leaves *)
Theorem C12_accepted_ok : forall (c : ctx) (p : vparams) (x : expr) (d : bool),
  (entails p (ctx_consensus c) = true -> validate p (x_sum x) = VOk -> obeys c (x_sum x)) /\
  (entails p (ctx_consensus c) = true -> ms_from_str_with c p x = EOk ->
     obeys c (x_sum x) /\ obeys_parse c x) /\
  (ms_from_str c x = EOk -> obeys c (x_sum x) /\ obeys_parse c x) /\
  (ms_from_str_insane c x = EOk -> obeys c (x_sum x) /\ obeys_parse c x) /\
  (entails p (ctx_consensus c) = true -> ms_decode_with c p d x = EOk -> obeys c (x_sum x)) /\
  (ms_decode c d x = EOk -> obeys c (x_sum x)) /\
  (ms_decode_consensus c d x = EOk -> obeys c (x_sum x)) /\
  (tr_leaf_from_tree x = EOk -> obeys CTap (x_sum x) /\ obeys_parse CTap x).
Proof.
  exact (fun c p x d =>
    conj (fun H => accepted_ok_validate c p (x_sum x) (proj1 (entails_iff_le _ _) H))
    (conj (fun H => accepted_ok_ms_from_str_with c p x (proj1 (entails_iff_le _ _) H))
    (conj (accepted_ok_ms_from_str c x)
    (conj (accepted_ok_ms_from_str_insane c x)
    (conj (fun H => accepted_ok_ms_decode_with c p d x (proj1 (entails_iff_le _ _) H))
    (conj (accepted_ok_ms_decode_with c (ctx_sane c) d x (sane_le_consensus c))
    (conj (accepted_ok_ms_decode_with c (ctx_consensus c) d x (vp_le_refl _))
          (accepted_ok_tr_leaf x)))))))).
Qed.
Print Assumptions C12_accepted_ok.

(* Wsh / Sh / Bare ::from_str, ::new, Descriptor::from_str on them: accepted_ok is false *)
Theorem C12_accepted_ok_wrappers_refuted :
  (wrapper_from_tree CLegacy x_or_i = EOk /\ wrapper_new CLegacy (x_sum x_or_i) = EOk /\
   ~ obeys CLegacy (x_sum x_or_i)) /\
  (wrapper_from_tree CLegacy x_dupif = EOk /\ ~ obeys CLegacy (x_sum x_dupif)) /\
  (wrapper_from_tree CSegwitv0 x_ops_202 = EOk /\ wrapper_new CSegwitv0 (x_sum x_ops_202) = EOk /\
   ~ obeys CSegwitv0 (x_sum x_ops_202)).
Proof. exact accepted_ok_wrappers_refuted. Qed.
Print Assumptions C12_accepted_ok_wrappers_refuted.

(* what the wrappers do guarantee: the tree-stage rules, base type B, every key of a kind the
   context permits, consistent multipath lengths, the standard shape for bare *)
Theorem C12_accepted_ok_wrappers_partial : forall (c : ctx) (x : expr),
  (wrapper_from_tree c x = EOk ->
   obeys_parse c x /\ s_base (x_sum x) = BB /\
   (forall k, In k (all_keys (s_nodes (x_sum x))) -> key_legal c k) /\
   ~ multipath_mismatch (all_keys (s_nodes (x_sum x))) /\
   (c = CBare -> bare_shape (x_sum x))) /\
  (wrapper_new c (x_sum x) = EOk ->
   s_base (x_sum x) = BB /\ ~ multipath_mismatch (all_keys (s_nodes (x_sum x)))) /\
  (tr_new_leaf (x_sum x) = EOk ->
   s_base (x_sum x) = BB /\ ~ multipath_mismatch (all_keys (s_nodes (x_sum x)))) /\
  tr_new_leaf (x_sum x_pk_k) = EErr (EpTop (TeNonBase BK)).
Proof.
  exact (fun c x => conj (accepted_ok_wrappers_partial c x) (conj (wrapper_new_ok c (x_sum x))
        (conj (tr_new_leaf_ok (x_sum x)) tr_new_leaf_rejects_nonB))).
Qed.
Print Assumptions C12_accepted_ok_wrappers_partial.

(* ---- descriptor parser vs miniscript parser with consensus parameters ------------------- *)
Theorem C12_desc_implies_ms_tr : forall x : expr,
  descriptor_from_str_inner CTap x = EOk -> ms_from_str_with CTap (ctx_consensus CTap) x = EOk.
Proof. exact desc_implies_ms_tr. Qed.
Print Assumptions C12_desc_implies_ms_tr.

Theorem C12_desc_implies_ms_refuted :
  (descriptor_from_str_inner CLegacy x_or_i = EOk /\
   ms_from_str_with CLegacy (ctx_consensus CLegacy) x_or_i = EErr (EpValidation EIllegalOrI)) /\
  (descriptor_from_str_inner CLegacy x_dupif = EOk /\
   ms_from_str_with CLegacy (ctx_consensus CLegacy) x_dupif = EErr (EpValidation EIllegalDupIf)) /\
  (descriptor_from_str_inner CSegwitv0 x_ops_202 = EOk /\
   ms_from_str_with CSegwitv0 (ctx_consensus CSegwitv0) x_ops_202 = EErr (EpValidation EMaxOpCount)).
Proof. exact desc_implies_ms_refuted. Qed.
Print Assumptions C12_desc_implies_ms_refuted.

(* for a script the descriptor parser accepts, the miniscript parser with consensus parameters
   accepts it iff the context rules hold, i.e. (base type, key kinds and depth being established
   by the wrapper) iff no forbidden fragment occurs and size / op count / stack are in range *)
Theorem C12_desc_implies_ms_partial : forall (c : ctx) (x : expr),
  c <> CTap -> figs_bounded (x_sum x) -> descriptor_from_str_inner c x = EOk ->
  (ms_from_str_with c (ctx_consensus c) x = EOk <-> obeys c (x_sum x)) /\
  (ms_from_str_with c (ctx_consensus c) x = EOk <-> residual c (x_sum x)).
Proof.
  exact (fun c x H F D => conj (desc_implies_ms_partial c x H F D) (desc_implies_ms_residual c x H F D)).
Qed.
Print Assumptions C12_desc_implies_ms_partial.

(* ---- range rules of the primitive constructors ------------------------------------------ *)
Theorem C12_primitive_ranges : forall M k n : N,
  (threshold_new M k n = true <-> 1 <= k /\ k <= n /\ (M = 0 \/ n <= M)) /\
  (abs_lock_from_consensus n = true <-> 1 <= n /\ n <= 2147483647) /\
  (n < 4294967296 -> (rel_lock_from_consensus n = true <-> 1 <= n /\ n < 2147483648)).
Proof. exact (fun M k n => conj (threshold_range M k n) (conj (abs_lock_range n) (rel_lock_range n))). Qed.
Print Assumptions C12_primitive_ranges.

Theorem C12_threshold_from_iter : forall M k h n : N,
  (threshold_from_iter M k h n = true -> 1 <= k /\ k <= n /\ (M = 0 \/ n <= M)) /\
  (h <= n -> (threshold_from_iter M k h n = true <-> 1 <= k /\ k <= n /\ (M = 0 \/ n <= M))).
Proof. exact (fun M k h n => conj (threshold_from_iter_sound M k h n) (threshold_from_iter_exact M k h n)). Qed.
Print Assumptions C12_threshold_from_iter.

(* ---- programmatic constructors (Ms/ValidateCtorModel.v) ----------------------------------- *)
(* Wsh::new_sortedmulti / Sh::new_wsh_sortedmulti (c = CSegwitv0), Sh::new_sortedmulti (c = CLegacy) and
   the Descriptor::new_*_sortedmulti shorthands, AS REPAIRED (from_ast + Self::new): on the one-node
   expression a Threshold of keys denotes they are the parsing wrapper, so "returns Ok" yields the
   same predicate as for parsed wsh()/sh() descriptors (C12_accepted_ok_wrappers_partial). *)
Theorem C12_ctor_sortedmulti_accepted_ok : forall (c : ctx) (x : expr), leaf_expr x ->
  new_sortedmulti c x = wrapper_from_tree c x /\
  (new_sortedmulti c x = EOk ->
   obeys_parse c x /\ s_base (x_sum x) = BB /\
   (forall k, In k (all_keys (s_nodes (x_sum x))) -> key_legal c k) /\
   ~ multipath_mismatch (all_keys (s_nodes (x_sum x))) /\
   (c = CBare -> bare_shape (x_sum x))).
Proof. exact (fun c x L => conj (new_sortedmulti_is_wrapper c x L) (new_sortedmulti_accepted_ok c x L)). Qed.
Print Assumptions C12_ctor_sortedmulti_accepted_ok.

(* Pkh::new, Wpkh::new / Sh::new_wpkh, Tr::new(key, None): Ok exactly for the keys the context permits *)
Theorem C12_ctor_key_exact : forall (k : keyinfo),
  (pkh_new k = EOk <-> key_legal CLegacy k) /\ (wpkh_new k = EOk <-> key_legal CSegwitv0 k) /\
  (tr_new_key k = EOk <-> key_legal CTap k).
Proof. exact (fun k => conj (key_ctor_exact CBare k) (conj (key_ctor_exact CSegwitv0 k) (key_ctor_exact CTap k))). Qed.
Print Assumptions C12_ctor_key_exact.

(* REGRESSION DOCUMENTATION, about the PRE-FIX code (new_sortedmulti = Ok(Self { ms: Miniscript::sortedmulti(thresh) }),
   no check at all): it accepted wsh(sortedmulti(1,Ku,Kc)) with an uncompressed key and sh(sortedmulti(1,K1..K16))
   with a 547-byte redeem script; the repaired constructors refuse both with the classes of the text path. *)
Example C12_ctor_sortedmulti_prefix_refuted :
  (leaf_expr x_sm_unc /\ new_sortedmulti_prefix CSegwitv0 x_sm_unc = EOk /\
   ~ (forall k, In k (all_keys (s_nodes (x_sum x_sm_unc))) -> key_legal CSegwitv0 k) /\
   new_sortedmulti CSegwitv0 x_sm_unc = EErr (EpParse (PCtx CeUncompressed))) /\
  (leaf_expr x_sm_16 /\ new_sortedmulti_prefix CLegacy x_sm_16 = EOk /\
   ~ obeys_parse CLegacy x_sm_16 /\
   new_sortedmulti CLegacy x_sm_16 = EErr (EpParse (PCtx CeScriptSize))).
Proof. exact new_sortedmulti_prefix_refuted. Qed.

Example C12_ctor_nonvacuous :
  leaf_expr x_sm_ok /\ new_sortedmulti CSegwitv0 x_sm_ok = EOk /\ new_sortedmulti CLegacy x_sm_ok = EOk /\
  pkh_new (key_cn 1) = EOk /\ wpkh_new key_u1 = EErr (EpParse (PCtx CeUncompressed)).
Proof. exact ctor_nonvacuous. Qed.

(* ---- non-vacuity ------------------------------------------------------------------------ *)
Example C12_nonvacuous_entry_points :
  ms_from_str CSegwitv0 x_pk = EOk /\ ms_from_str_insane CLegacy x_pk = EOk /\
  wrapper_from_tree CBare x_pk = EOk /\ tr_leaf_from_tree x_pk = EOk /\
  ms_decode CSegwitv0 true x_pk = EOk /\ descriptor_from_str_inner CTap x_pk = EOk.
Proof. exact entry_points_nonvacuous. Qed.

Example C12_nonvacuous_switch :
  all_on VP_MAX /\ (forall l, within l VP_MAX (x_sum x_pk)) /\
  entails (ctx_sane CSegwitv0) (ctx_consensus CSegwitv0) = true /\
  validate (sw_set SwNonB false VP_MAX) (x_sum x_pk_k) = VErr (ENonBase BK) /\
  validate (sw_set SwNonB false VP_MAX) (x_sum x_pk) = VOk.
Proof. exact switch_nonvacuous. Qed.
