(* C07 -- the lifted policy is exactly the script's spending condition.  Statements only.

   FULL STATEMENT (properties.jsonl), proved here as C07_spending_condition (miniscripts) and
   C07_desc_spending_condition (descriptor wrappers, taproot trees):

       policy true in the world W   <->   some stack over W's material is accepted by the script

   World: a finite list W of stack elements (what the spender holds: signatures, preimages, and
   the public constants [], 01, 32 zero bytes, the script's public keys: [pub_in]).  What W can do
   is read off its material under the transaction environment e ([DenotSpec.assets_of e ke W]):
     W can sign for k         := some NON-EMPTY element of W verifies under key k   (e_sigok e (kb ke k))
     W knows a preimage of h  := some 32-byte element of W hashes to h
     after(t) / older(t)      := the transaction's nLockTime / nSequence meet t      (check_locktime / check_sequence,
                                 i.e. BIP65 incl. "sequence not final", BIP112 incl. version >= 2)
   and the lifted policy is evaluated by the truth table [leval] in that world.
   "A stack over W" := [incl w W]; "accepted" := the Script semantics (Exec.v) runs the ENCODED
   script on it to exactly one true element ([accepts e (enc ke m) w]).

   Hypotheses of the equivalence (all named, none about the fragment class): well-typed, base type B,
   [wf] (constructor invariants), liftable ([lift rl m = Some p]; within_resource_limits is the
   input bit rl); the empty signature never verifies; BIP67 sorting permutes; [keys_ok] (key table
   acceptable, pk_h commits to the keys' hash160); world elements shorter than 2^31 bytes;
   [kh_binds]: among W's material only the key itself has a committed key hash (no hash160
   collision inside the world) -- needed because the script of pk_h accepts ANY key with that hash.
   Directions:
     C07_hides_no_path     (<=)  Theorem B (accepts <-> exact relation R, every non-canonical
                                 acceptance included: over-satisfied thresh is a DISsatisfaction,
                                 or_b with both sides satisfied still satisfies `or`, non-zero hash
                                 dissatisfactions sit in dissatisfied `d` children) + CompleteScript
                                 (exact satisfaction from covered material => table entry) + lift_table.
     C07_invents_no_path   (=>)  lift_table + every table entry is built from W's material and the
                                 public constants + Theorem A.

   Also proved, for ALL fragments of all base types, all nestings/arities, all asset records:
   * C07_lift_table / C07_dissat_table   the table-level equivalence and its mutual invariant
   * C07_normalized_preserves_leval / C07_normalized_keeps_invariant   Policy::normalized as coded
   * C07_lift_iter_refines / C07_lift_never_panics   the iterative form = the recursive fold; no panic
   * C07_lift_desc_table   descriptor wrappers at table level
   * C07_satisfier_implies_policy, C07_policy_iff_satisfier   the MODEL of the library's satisfier
     (Ms/Sat.v) returns a satisfaction only if the policy is true (both modes), and in malleable mode
     exactly when it is true (k-of-n thresholds included; [thresh_fit] = no i64 overflow in the
     satisfier's sort key, dischargeable by CompleteThresh.fit_of_bound).

   Resource limits: the Script semantics of these theorems does not bound stack depth or opcode count;
   that a liftable script's satisfactions stay within the context's limits is what lift_check's first
   test is for.  Its verdict is computed by the model (LiftLimits.within_resource_limits, from the C09
   ExtData model) and tied, and the check executes the implementation's own witnesses with the
   instrumented semantics (ExecTr.trace_of_script) against the limits -- see notes/C07.md.

   Nothing is refuted: no direction fails on the faithful model.  Remaining limits (notes/C07.md):
   the descriptor statement covers the script part of each output type (inner script / tap leaf
   under its own environment / key signature); the output-type wrapping is C15 / C16. *)
From Verif Require Import Exec Ser Ast Types TypeCheck SatSpec Sat LiftModel TheoremA SatProofs FrameDissat CompleteProofs CompleteThresh CompleteNonMall
  DenotSpec LiftLimits LiftProofs LiftNormProofs LiftMainProofs LiftFullProofs.
From Coq Require Import Permutation.

(* BIP67 sorting only reorders keys *)
Definition sort_permutes (ke : keyenv) : Prop := forall ks, Permutation (ksort ke ks) ks.

Theorem C07_lift_table :
  forall (ke : keyenv), sort_permutes ke ->
  forall (A : assets) (rl : bool) (m : ms) (t : ty) (p : lpolicy),
    type_of m = ROk t -> ms_thresh_ok m -> lift rl m = Some p ->
    (leval A p = true <-> all_sat ke A m <> []).
Proof. exact lift_table_iff. Qed.
Print Assumptions C07_lift_table.

Theorem C07_dissat_table :
  forall (ke : keyenv), sort_permutes ke ->
  forall (A : assets) (rl : bool) (m : ms) (t : ty) (p : lpolicy),
    type_of m = ROk t -> lift rl m = Some p -> c_dissat (t_corr t) = true ->
    nonempty (all_dsat ke A m) = true.
Proof. exact lift_dissat_table. Qed.
Print Assumptions C07_dissat_table.

Theorem C07_normalized_preserves_leval :
  forall (A : assets) (p : lpolicy), lwf p -> leval A (normalized p) = leval A p.
Proof. exact normalized_leval. Qed.
Print Assumptions C07_normalized_preserves_leval.

Theorem C07_normalized_keeps_invariant : forall p : lpolicy, lwf p -> lwf (normalized p).
Proof. exact normalized_lwf. Qed.
Print Assumptions C07_normalized_keeps_invariant.

Theorem C07_lift_iter_refines : forall (rl : bool) (m : ms), lift_iter rl m = lift_full rl m.
Proof. exact lift_iter_refines. Qed.
Print Assumptions C07_lift_iter_refines.

Theorem C07_lift_never_panics : forall (rl : bool) (m : ms), lift_iter rl m <> LPanic.
Proof. exact lift_iter_never_panics. Qed.
Print Assumptions C07_lift_never_panics.

Theorem C07_lift_desc_table :
  forall (ke : keyenv), sort_permutes ke ->
  forall (A : assets) (Aleaf : nat -> assets), (forall i, same_avail A (Aleaf i)) ->
  forall (d : ldesc) (p : lpolicy), desc_ok d -> lift_desc d = LOk p ->
    leval A p = desc_spendable ke A Aleaf d.
Proof. exact lift_desc_table. Qed.
Print Assumptions C07_lift_desc_table.

Theorem C07_hides_no_path :
  forall (e : env) (ke : keyenv), sort_permutes ke -> (forall kbs, e_sigok e kbs [] = false) ->
  forall (W : wit) (rl : bool) (m : ms) (t : ty) (p : lpolicy),
    kh_binds e ke W ->
    type_of m = ROk t -> c_base (t_corr t) = BB -> wf e ke m -> lift rl m = Some p ->
    forall w, incl w W -> accepts e (enc ke m) w = true -> leval (assets_of e ke W) p = true.
Proof. exact lift_hides_no_path. Qed.
Print Assumptions C07_hides_no_path.

Theorem C07_invents_no_path :
  forall (e : env) (ke : keyenv), sort_permutes ke -> (forall kbs, e_sigok e kbs [] = false) ->
  forall (W : wit) (rl : bool) (m : ms) (t : ty) (p : lpolicy),
    keys_ok e ke -> (forall x, In x W -> (blen x < 2147483648)%N) -> pub_in ke m W ->
    type_of m = ROk t -> c_base (t_corr t) = BB -> wf e ke m -> lift rl m = Some p ->
    leval (assets_of e ke W) p = true -> exists w, incl w W /\ accepts e (enc ke m) w = true.
Proof. exact lift_invents_no_path. Qed.
Print Assumptions C07_invents_no_path.

Theorem C07_spending_condition :
  forall (e : env) (ke : keyenv), sort_permutes ke -> (forall kbs, e_sigok e kbs [] = false) ->
  forall (W : wit) (rl : bool) (m : ms) (t : ty) (p : lpolicy),
    keys_ok e ke -> (forall x, In x W -> (blen x < 2147483648)%N) -> pub_in ke m W -> kh_binds e ke W ->
    type_of m = ROk t -> c_base (t_corr t) = BB -> wf e ke m -> lift rl m = Some p ->
    (leval (assets_of e ke W) p = true <-> exists w, incl w W /\ accepts e (enc ke m) w = true).
Proof. exact lift_spending_condition. Qed.
Print Assumptions C07_spending_condition.

(* the same for the lift whose within_resource_limits verdict is COMPUTED by the model from the
   fragment and its context (Ms/LiftLimits.v over the C09 ExtData model) -- the function the
   correspondence run compares with the implementation, verdict included *)
Theorem C07_spending_condition_ctx :
  forall (e : env) (ke : keyenv), sort_permutes ke -> (forall kbs, e_sigok e kbs [] = false) ->
  forall (c : ctx) (unc : key -> bool) (W : wit) (m : ms) (t : ty) (p : lpolicy),
    keys_ok e ke -> (forall x, In x W -> (blen x < 2147483648)%N) -> pub_in ke m W -> kh_binds e ke W ->
    type_of m = ROk t -> c_base (t_corr t) = BB -> wf e ke m -> lift_ctx c unc m = LOk p ->
    (leval (assets_of e ke W) p = true <-> exists w, incl w W /\ accepts e (enc ke m) w = true).
Proof. exact lift_ctx_spending_condition. Qed.
Print Assumptions C07_spending_condition_ctx.

Theorem C07_desc_spending_condition :
  forall (ke : keyenv), sort_permutes ke ->
  forall (e : env) (eleaf : nat -> env) (W : wit) (d : ldesc) (p : lpolicy),
    desc_full_ok e eleaf ke W d -> lift_desc d = LOk p ->
    (leval (assets_of e ke W) p = true <-> desc_script_spendable e eleaf ke W d).
Proof. exact lift_desc_spending_condition. Qed.
Print Assumptions C07_desc_spending_condition.

Theorem C07_satisfier_implies_policy :
  forall (ke : keyenv), sort_permutes ke ->
  forall (A : assets) (se : senv) (f : fill), linked ke A se f ->
  forall (mall rhs rl : bool) (m : ms) (t : ty) (p : lpolicy) (bs : list bytes),
    type_of m = ROk t -> ms_thresh_ok m -> lift rl m = Some p ->
    satisfy ke se f mall rhs m = Some bs -> leval A p = true.
Proof. exact lift_satisfier_implies_policy. Qed.
Print Assumptions C07_satisfier_implies_policy.

Theorem C07_policy_iff_satisfier :
  forall (ke : keyenv) (A : assets) (se : senv) (f : fill), sort_permutes ke ->
  linked ke A se f -> locks_compatible se ->
  forall (rhs rl : bool) (m : ms) (t : ty) (p : lpolicy),
    type_of m = ROk t -> ms_thresh_ok m -> thresh_fit ke se rhs m -> lift rl m = Some p ->
    (leval A p = true <-> exists bs, satisfy ke se f true rhs m = Some bs).
Proof. exact lift_policy_iff_satisfier. Qed.
Print Assumptions C07_policy_iff_satisfier.

(* non-vacuity: concrete liftable scripts, what they lift to, and that both truth values occur *)
Example C07_ex_andor :
  lift true (MAndOr (MCheck (MPkK 0%N)) (MOlder 5%N) (MCheck (MPkH 1%N)))
  = Some (LThresh 1 [LThresh 2 [LKey 0%N; LOlder 5%N]; LKey 1%N]).
Proof. reflexivity. Qed.
Example C07_ex_flatten :
  lift true (MAndV (MVerify (MCheck (MPkK 0%N))) (MAndV (MVerify (MCheck (MPkK 1%N))) (MCheck (MPkK 2%N))))
  = Some (LThresh 3 [LKey 0%N; LKey 1%N; LKey 2%N]).
Proof. reflexivity. Qed.
Example C07_ex_constants :
  lift true (MOrI MFalse (MMulti 2 [0%N; 1%N; 2%N])) = Some (LThresh 2 [LKey 0%N; LKey 1%N; LKey 2%N])
  /\ lift true (MAndV (MVerify (MCheck (MPkK 0%N))) MTrue) = Some (LKey 0%N).
Proof. split; reflexivity. Qed.
Example C07_ex_errors :
  lift_full true (MCheck (MRawPkH [1%N])) = LErr ERawDescriptorLift
  /\ lift_full true (MAndV (MVerify (MAfter 10)) (MAfter 500000001)) = LErr EHeightTimelockCombination
  /\ lift_full false (MCheck (MPkK 0%N)) = LErr EBranchExceedResourceLimits.
Proof. repeat split; reflexivity. Qed.
Example C07_ex_typed :
  exists t, type_of (MAndOr (MCheck (MPkK 0%N)) (MOlder 5%N) (MCheck (MPkH 1%N))) = ROk t /\ c_base (t_corr t) = BB.
Proof. eexists. split; reflexivity. Qed.
(* the hypotheses of C07_spending_condition are jointly satisfiable, for a world where the policy
   is true (it holds a signature) and for one where it is false (the same without the signature) *)
Example C07_spending_condition_nonvacuous :
  forall W, W = fx_W \/ W = fx_W0 ->
  keys_ok fx_e fx_ke /\ (forall kbs, e_sigok fx_e kbs [] = false) /\ sort_permutes fx_ke /\
  (forall x, In x W -> (blen x < 2147483648)%N) /\ pub_in fx_ke fx_m W /\ kh_binds fx_e fx_ke W /\
  exists t, type_of fx_m = ROk t /\ c_base (t_corr t) = BB /\ wf fx_e fx_ke fx_m.
Proof. exact fx_hyps. Qed.
Example C07_spending_condition_true_world :
  exists p, lift true fx_m = Some p /\ leval (assets_of fx_e fx_ke fx_W) p = true.
Proof. exact fx_true. Qed.
Example C07_spending_condition_false_world :
  exists p, lift true fx_m = Some p /\ leval (assets_of fx_e fx_ke fx_W0) p = false.
Proof. exact fx_false. Qed.
Example C07_ex_both_values :
  let p := LThresh 1 [LThresh 2 [LKey 0%N; LOlder 5%N]; LKey 1%N] in
  let A1 := mkAssets (fun k => if N.eqb k 1 then Some [1%N] else None) (fun _ => None) (fun _ => None) (fun _ => None)
                     (fun _ => None) (fun _ => false) (fun _ => false) in
  let A0 := mkAssets (fun k => if N.eqb k 0 then Some [1%N] else None) (fun _ => None) (fun _ => None) (fun _ => None)
                     (fun _ => None) (fun _ => false) (fun _ => false) in
  leval A1 p = true /\ leval A0 p = false.
Proof. split; reflexivity. Qed.
