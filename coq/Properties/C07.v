(* C07 — the lifted policy is exactly the script's spending condition.  Statements only.

   FULL STATEMENT (properties.jsonl): for every liftable miniscript / descriptor and every
   asset world W (signatures, preimages, nLockTime, nSequence):
       leval W (lift d) = true   <->   exists witness w built from W, the script accepts w.

   What is proved here, for ALL fragments of all base types, all nestings/arities, all asset
   records (the model [lift] mirrors src/policy/mod.rs + Policy::normalized; the verdict of
   within_resource_limits is an input bit [rl], the theorems hold for both values):

   * C07_lift_table        leval A (lift m) = true  <->  the specification's satisfaction table
                           [all_sat ke A m] is non-empty.  Multisig leaves (multi, sortedmulti,
                           multi_a, sortedmulti_a) included; `thresh` by "some k-subset" <->
                           "count >= k".  Proved together with
   * C07_dissat_table      every fragment typed `d` that lifts has a dissatisfaction in the table
                           whatever the assets (the invariant or_b/or_d/or_c/andor/thresh need).
   * C07_normalized_preserves_leval / C07_normalized_keeps_invariant
                           Policy::normalized, as coded, preserves the truth table (for policies
                           obeying the Rust Threshold invariant 1 <= k <= n, which lift produces
                           and normalized maintains).
   * C07_lift_iter_refines / C07_lift_never_panics
                           the code's iterative form (rtl post-order + stack pops) computes the
                           recursive fold; its `stack.pop().unwrap()` sites are unreachable.
   * C07_lift_desc_table   descriptor wrappers: bare/sh/wsh/sh(wsh) = inner, pkh/wpkh/sh(wpkh) = key,
                           tr = key \/ or(leaves) (per-leaf signatures, same availability).
   * C07_script_direction_partial   "the policy invents no path": with Theorem A (now covering
                           the multisig leaves; script-number facts proved), if the lifted policy is
                           true under assets that are genuine for the transaction environment, a
                           witness exists that the Script semantics accepts on the ENCODED script
                           (every B-typed liftable script; liftable already excludes raw_pk_h).
   * C07_satisfier_implies_policy   the MODEL of the library's satisfier (Ms/Sat.v, both modes) returns
                           a satisfaction only when the lifted policy is true: the policy hides no
                           path the satisfier can take (via SatProofs.sat_in_table).
   * C07_policy_implies_satisfier_partial   conversely a true policy makes the malleable satisfier
                           model produce a witness (CompleteProofs.mall_complete: thresholds with
                           k = n only, hence _partial).

   NOT proved (hence _partial): the converse at Script level, "the policy hides no path":
       accepts e (enc ke m) w = true  (w over W's alphabet)  ->  leval A (lift m) = true.
   It needs Theorem B (execution => table, DESIGN 3.4), which the development does not have
   yet.  At TABLE level both directions are proved (C07_lift_table is an equivalence); per run
   the check compares, for every world over the atoms of each generated script, the
   implementation's lifted policy with the implementation's own malleable satisfier and with
   the extracted table. *)
From Verif Require Import Exec Ser Ast Types TypeCheck SatSpec Sat LiftModel TheoremA SatProofs CompleteProofs LiftProofs LiftNormProofs LiftMainProofs.
From Coq Require Import Permutation.

(* BIP67 sorting only reorders keys *)
Definition sort_permutes (ke : keyenv) : Prop := forall ks, Permutation (ksort ke ks) ks.

Theorem C07_lift_table :
  forall (ke : keyenv), sort_permutes ke ->
  forall (A : assets) (rl : bool) (m : ms) (t : ty) (p : lpolicy),
    type_of m = ROk t -> ms_thresh_ok m -> lift rl m = Some p ->
    (leval A p = true <-> all_sat ke A m <> []).
Proof. exact lift_table_iff. Qed.
Print Assumptions C07_lift_table.

Theorem C07_dissat_table :
  forall (ke : keyenv), sort_permutes ke ->
  forall (A : assets) (rl : bool) (m : ms) (t : ty) (p : lpolicy),
    type_of m = ROk t -> lift rl m = Some p -> c_dissat (t_corr t) = true ->
    nonempty (all_dsat ke A m) = true.
Proof. exact lift_dissat_table. Qed.
Print Assumptions C07_dissat_table.

Theorem C07_normalized_preserves_leval :
  forall (A : assets) (p : lpolicy), lwf p -> leval A (normalized p) = leval A p.
Proof. exact normalized_leval. Qed.
Print Assumptions C07_normalized_preserves_leval.

Theorem C07_normalized_keeps_invariant : forall p : lpolicy, lwf p -> lwf (normalized p).
Proof. exact normalized_lwf. Qed.
Print Assumptions C07_normalized_keeps_invariant.

Theorem C07_lift_iter_refines : forall (rl : bool) (m : ms), lift_iter rl m = lift_full rl m.
Proof. exact lift_iter_refines. Qed.
Print Assumptions C07_lift_iter_refines.

Theorem C07_lift_never_panics : forall (rl : bool) (m : ms), lift_iter rl m <> LPanic.
Proof. exact lift_iter_never_panics. Qed.
Print Assumptions C07_lift_never_panics.

Theorem C07_lift_desc_table :
  forall (ke : keyenv), sort_permutes ke ->
  forall (A : assets) (Aleaf : nat -> assets), (forall i, same_avail A (Aleaf i)) ->
  forall (d : ldesc) (p : lpolicy), desc_ok d -> lift_desc d = LOk p ->
    leval A p = desc_spendable ke A Aleaf d.
Proof. exact lift_desc_table. Qed.
Print Assumptions C07_lift_desc_table.

Theorem C07_script_direction_partial :
  forall (ke : keyenv), sort_permutes ke ->
  forall (e : env) (A : assets), assets_ok e ke A -> (forall kbs, e_sigok e kbs [] = false) ->
  forall (rl : bool) (m : ms) (t : ty) (p : lpolicy),
    type_of m = ROk t -> c_base (t_corr t) = BB -> wf e ke m ->
    lift rl m = Some p -> leval A p = true ->
    exists w, In w (all_sat ke A m) /\ accepts e (enc ke m) w = true.
Proof. exact lift_script_direction. Qed.
Print Assumptions C07_script_direction_partial.

Theorem C07_satisfier_implies_policy :
  forall (ke : keyenv), sort_permutes ke ->
  forall (A : assets) (se : senv) (f : fill), linked ke A se f ->
  forall (mall rhs rl : bool) (m : ms) (t : ty) (p : lpolicy) (bs : list bytes),
    type_of m = ROk t -> ms_thresh_ok m -> lift rl m = Some p ->
    satisfy ke se f mall rhs m = Some bs -> leval A p = true.
Proof. exact lift_satisfier_implies_policy. Qed.
Print Assumptions C07_satisfier_implies_policy.

Theorem C07_policy_implies_satisfier_partial :
  forall (ke : keyenv), sort_permutes ke ->
  forall (A : assets) (se : senv) (f : fill), linked ke A se f ->
  (forall t1 t2, se_after se t1 = true -> se_after se t2 = true ->
                 Bool.eqb (N.ltb t1 500000000) (N.ltb t2 500000000) = true) ->
  (forall t1 t2, se_older se t1 = true -> se_older se t2 = true ->
                 Bool.eqb (rel_is_time t1) (rel_is_time t2) = true) ->
  forall (rhs rl : bool) (m : ms) (t : ty) (p : lpolicy),
    type_of m = ROk t -> ms_thresh_ok m -> no_partial_thresh m ->
    lift rl m = Some p -> leval A p = true ->
    is_stack (s_stack (snd (sat_dissat ke se true rhs m))) = true.
Proof. exact lift_policy_implies_satisfier. Qed.
Print Assumptions C07_policy_implies_satisfier_partial.

(* non-vacuity: concrete liftable scripts, what they lift to, and that both truth values occur *)
Example C07_ex_andor :
  lift true (MAndOr (MCheck (MPkK 0%N)) (MOlder 5%N) (MCheck (MPkH 1%N)))
  = Some (LThresh 1 [LThresh 2 [LKey 0%N; LOlder 5%N]; LKey 1%N]).
Proof. reflexivity. Qed.
Example C07_ex_flatten :
  lift true (MAndV (MVerify (MCheck (MPkK 0%N))) (MAndV (MVerify (MCheck (MPkK 1%N))) (MCheck (MPkK 2%N))))
  = Some (LThresh 3 [LKey 0%N; LKey 1%N; LKey 2%N]).
Proof. reflexivity. Qed.
Example C07_ex_constants :
  lift true (MOrI MFalse (MMulti 2 [0%N; 1%N; 2%N])) = Some (LThresh 2 [LKey 0%N; LKey 1%N; LKey 2%N])
  /\ lift true (MAndV (MVerify (MCheck (MPkK 0%N))) MTrue) = Some (LKey 0%N).
Proof. split; reflexivity. Qed.
Example C07_ex_errors :
  lift_full true (MCheck (MRawPkH [1%N])) = LErr ERawDescriptorLift
  /\ lift_full true (MAndV (MVerify (MAfter 10)) (MAfter 500000001)) = LErr EHeightTimelockCombination
  /\ lift_full false (MCheck (MPkK 0%N)) = LErr EBranchExceedResourceLimits.
Proof. repeat split; reflexivity. Qed.
Example C07_ex_typed :
  exists t, type_of (MAndOr (MCheck (MPkK 0%N)) (MOlder 5%N) (MCheck (MPkH 1%N))) = ROk t /\ c_base (t_corr t) = BB.
Proof. eexists. split; reflexivity. Qed.
(* the hypotheses of C07_script_direction_partial are jointly satisfiable: a concrete
   environment, key table, asset record and script *)
Example C07_script_direction_nonvacuous :
  assets_ok ex_e ex_ke ex_A /\ (forall kbs, e_sigok ex_e kbs [] = false) /\ sort_permutes ex_ke /\
  exists t p, type_of ex_m = ROk t /\ c_base (t_corr t) = BB /\ wf ex_e ex_ke ex_m /\
              lift true ex_m = Some p /\ leval ex_A p = true.
Proof. exact lift_nonvacuous. Qed.
Example C07_ex_both_values :
  let p := LThresh 1 [LThresh 2 [LKey 0%N; LOlder 5%N]; LKey 1%N] in
  let A1 := mkAssets (fun k => if N.eqb k 1 then Some [1%N] else None) (fun _ => None) (fun _ => None) (fun _ => None)
                     (fun _ => None) (fun _ => false) (fun _ => false) in
  let A0 := mkAssets (fun k => if N.eqb k 0 then Some [1%N] else None) (fun _ => None) (fun _ => None) (fun _ => None)
                     (fun _ => None) (fun _ => false) (fun _ => false) in
  leval A1 p = true /\ leval A0 p = false.
Proof. split; reflexivity. Qed.
