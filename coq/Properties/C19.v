(* C19 — Equality, ordering and hashing are structural and mutually consistent.
   Statements only; every proof is `exact <lemma>` (Proofs/EqOrdProofs.v, Proofs/EqOrdCmpProofs.v).

   Model (Ms/EqOrdModel.v): `preorder` = what Terminal::pre_order_iter yields (discriminant, number
   of children, payload), `eq_iter` = the truncating zip with the per-pair rules of
   `impl PartialEq for Terminal`, `hash_iter` = the words fed to the Hasher, `cmp_iter` = the zip of
   display nodes of `impl Ord for Terminal` with the `unreachable!` arm as `Panic`, `clone_rec`.
   `eq_fixed` / `cmp_fixed` mirror the candidate repair notes/fixes/C19-*.diff.
   Specification: Coq's `=` on the AST `ms`; `spec_cmp` (lexicographic order of display sequences).

   FULL STATEMENTS (what the property demands of the code as it exists):
     eq_structural    : forall a b, eq_iter a b = true <-> a = b
     cmp_total_order  : forall kcmp total, cmp_iter never panics, is antisymmetric and transitive,
                        and cmp_iter a b = Ok Eq <-> a = b
     hash_eq_contract : forall a b, eq_iter a b = true -> hash_iter a = hash_iter b
   The faithful model VIOLATES all three (`*_refuted` below, witnesses are findings about /repo).
   Proved instead: the exact characterisation of eq_iter, its true half, the statements restricted to
   thresh-free / n-ary-free terms, and the full statements for the repaired definitions. *)
From Verif Require Import EqOrdModel EqOrdProofs EqOrdCmpProofs.

(* ---- key lemma: the pre-order of (tag, arity, payload) determines the tree; the iterator yields it *)
Theorem C19_preorder_inj : forall a b, preorder a = preorder b -> a = b.
Proof. exact preorder_inj. Qed.
Print Assumptions C19_preorder_inj.

Theorem C19_preorder_prefix_code : forall a b r1 r2, preorder a ++ r1 = preorder b ++ r2 -> a = b /\ r1 = r2.
Proof. exact preorder_app_inj. Qed.
Print Assumptions C19_preorder_prefix_code.

Theorem C19_preorder_iter_refines : forall m, preorder_stack (ms_size m) [m] = Some (preorder m).
Proof. exact preorder_iter_refines. Qed.
Print Assumptions C19_preorder_iter_refines.

(* ---- equality as coded *)
Theorem C19_eq_structural_refuted_k : exists a b, eq_iter a b = true /\ a <> b.
Proof. exact eq_structural_refuted_k. Qed.
Print Assumptions C19_eq_structural_refuted_k.

Theorem C19_eq_structural_refuted_arity : exists a b, eq_iter a b = true /\ a <> b.
Proof. exact eq_structural_refuted_arity. Qed.
Print Assumptions C19_eq_structural_refuted_arity.

Theorem C19_eq_structural_refuted_regroup :
  exists a b, eq_iter a b = true /\ a <> b /\ length (preorder a) = length (preorder b).
Proof. exact eq_structural_refuted_regroup. Qed.
Print Assumptions C19_eq_structural_refuted_regroup.

Theorem C19_eq_not_transitive_refuted :
  exists a b c, eq_iter b a = true /\ eq_iter a c = true /\ eq_iter b c = false.
Proof. exact eq_iter_not_transitive. Qed.
Print Assumptions C19_eq_not_transitive_refuted.

(* exact characterisation: `==` holds iff the pre-orders, with thresh k and n erased, are prefix-comparable *)
Theorem C19_eq_iter_characterised : forall a b,
  eq_iter a b = true <-> comparable (map erase (preorder a)) (map erase (preorder b)).
Proof. exact eq_iter_char. Qed.
Print Assumptions C19_eq_iter_characterised.

(* eq_structural_partial: the "if" half holds for all terms ... *)
Theorem C19_eq_structural_partial_complete : forall a b, a = b -> eq_iter a b = true.
Proof. exact eq_iter_complete. Qed.
Print Assumptions C19_eq_structural_partial_complete.

(* ... and the full equivalence for thresh-free terms *)
Theorem C19_eq_structural_partial_thresh_free : forall a b,
  thresh_free a -> thresh_free b -> (eq_iter a b = true <-> a = b).
Proof. exact eq_iter_structural_thresh_free. Qed.
Print Assumptions C19_eq_structural_partial_thresh_free.

Example C19_thresh_free_nonvacuous : thresh_free (MAndOr (MCheck (MPkK 0%N)) (MOlder 5%N) (MMulti 1%N [1; 2]%N)).
Proof. exact thresh_free_example. Qed.

Theorem C19_eq_sym : forall a b, eq_iter a b = eq_iter b a.
Proof. exact eq_iter_sym. Qed.
Print Assumptions C19_eq_sym.

(* ---- equality repaired: structural for all terms *)
Theorem C19_eq_fixed_structural : forall a b, eq_fixed a b = true <-> a = b.
Proof. exact eq_fixed_structural. Qed.
Print Assumptions C19_eq_fixed_structural.

(* ---- hashing *)
Theorem C19_hash_consistent : forall a b, a = b -> hash_iter a = hash_iter b.
Proof. exact hash_consistent. Qed.
Print Assumptions C19_hash_consistent.

Theorem C19_hash_eq_contract_refuted : exists a b, eq_iter a b = true /\ hash_iter a <> hash_iter b.
Proof. exact hash_eq_contract_refuted. Qed.
Print Assumptions C19_hash_eq_contract_refuted.

Theorem C19_hash_eq_contract_partial_thresh_free : forall a b,
  thresh_free a -> thresh_free b -> eq_iter a b = true -> hash_iter a = hash_iter b.
Proof. exact hash_eq_iter_thresh_free. Qed.
Print Assumptions C19_hash_eq_contract_partial_thresh_free.

Theorem C19_hash_eq_contract_fixed : forall a b, eq_fixed a b = true -> hash_iter a = hash_iter b.
Proof. exact hash_eq_fixed_consistent. Qed.
Print Assumptions C19_hash_eq_contract_fixed.

(* ---- cloning *)
Theorem C19_clone_eq : forall m, clone_rec m = m /\ eq_iter (clone_rec m) m = true /\ eq_fixed (clone_rec m) m = true.
Proof. exact (fun m => conj (clone_id m) (clone_eq m)). Qed.
Print Assumptions C19_clone_eq.

(* ---- ordering as coded *)
Theorem C19_cmp_total_order_refuted_panic : exists a b, cmp_iter N.compare a b = Panic 356.
Proof. exact cmp_total_refuted_panic. Qed.
Print Assumptions C19_cmp_total_order_refuted_panic.

Theorem C19_cmp_eq_refuted : exists a b, cmp_iter N.compare a b = Ok Eq /\ a <> b /\ eq_iter a b = false.
Proof. exact cmp_eq_refuted. Qed.
Print Assumptions C19_cmp_eq_refuted.

Theorem C19_cmp_eq_disagree_refuted : exists a b, eq_iter a b = true /\ cmp_iter N.compare a b = Ok Lt.
Proof. exact cmp_eq_disagree_refuted. Qed.
Print Assumptions C19_cmp_eq_disagree_refuted.

Theorem C19_cmp_transitive_refuted : exists a b c,
  cmp_iter N.compare a b = Ok Eq /\ cmp_iter N.compare b c = Ok Lt /\ cmp_iter N.compare a c = Ok Eq.
Proof. exact cmp_trans_refuted. Qed.
Print Assumptions C19_cmp_transitive_refuted.

(* cmp_total_order_partial: what holds of the code as it exists, for every key order that is total *)
Theorem C19_cmp_total_order_partial : forall kcmp, total_order kcmp ->
  (forall a, cmp_iter kcmp a a = Ok Eq) /\
  (forall a b c, cmp_iter kcmp a b = Ok c -> cmp_iter kcmp b a = Ok (CompOpp c)) /\
  (forall a b, nary_free a -> nary_free b -> cmp_iter kcmp a b = Ok (spec_cmp kcmp a b)).
Proof.
  exact (fun kcmp T => conj (cmp_iter_refl kcmp T) (conj (cmp_iter_antisym kcmp T) (cmp_iter_nary_free kcmp T))).
Qed.
Print Assumptions C19_cmp_total_order_partial.

(* the specification order is a total order whose Equal is structural equality *)
Theorem C19_spec_cmp_total_order : forall kcmp, total_order kcmp ->
  (forall a b, spec_cmp kcmp a b = Eq <-> a = b) /\
  (forall a b, spec_cmp kcmp b a = CompOpp (spec_cmp kcmp a b)) /\
  (forall a b c, spec_cmp kcmp a b = Lt -> spec_cmp kcmp b c = Lt -> spec_cmp kcmp a c = Lt).
Proof.
  exact (fun kcmp T => conj (spec_cmp_eq kcmp T) (conj (spec_cmp_antisym kcmp T) (spec_cmp_trans kcmp T))).
Qed.
Print Assumptions C19_spec_cmp_total_order.

(* ---- ordering repaired: never panics, total order, Equal coincides with (repaired) equality *)
Theorem C19_cmp_fixed_total_order : forall kcmp, total_order kcmp ->
  (forall a b, exists c, cmp_fixed kcmp a b = Ok c) /\
  (forall a b, cmp_fixed kcmp a b = Ok Eq <-> a = b) /\
  (forall a b c, cmp_fixed kcmp a b = Ok c -> cmp_fixed kcmp b a = Ok (CompOpp c)) /\
  (forall a b c, cmp_fixed kcmp a b = Ok Lt -> cmp_fixed kcmp b c = Ok Lt -> cmp_fixed kcmp a c = Ok Lt).
Proof. exact cmp_fixed_total_order. Qed.
Print Assumptions C19_cmp_fixed_total_order.

Theorem C19_cmp_fixed_eq_fixed : forall kcmp, total_order kcmp ->
  forall a b, cmp_fixed kcmp a b = Ok Eq <-> eq_fixed a b = true.
Proof. exact cmp_fixed_eq_fixed. Qed.
Print Assumptions C19_cmp_fixed_eq_fixed.

Example C19_key_order_nonvacuous : total_order N.compare.
Proof. exact key_order_example. Qed.

(* ---- descriptors (derived Eq/Ord of Descriptor, Sh, Wsh, Bare, Pkh, Wpkh, TapTree; Tr by hand, cache skipped):
        exactly as good as the miniscript-level impls they are built from *)
From Verif Require Import EqOrdDescModel EqOrdDescProofs.

Theorem C19_desc_eq_transfers : forall meq, (forall a b, meq a b = true <-> a = b) ->
  forall a b, desc_eq meq a b = true <-> a = b.
Proof. exact desc_eq_structural. Qed.
Print Assumptions C19_desc_eq_transfers.

Theorem C19_desc_eq_fixed_structural : forall a b, desc_eq eq_fixed a b = true <-> a = b.
Proof. exact desc_eq_fixed_structural. Qed.
Print Assumptions C19_desc_eq_fixed_structural.

Theorem C19_desc_eq_refuted :
  exists a b a' b', desc_eq eq_iter a b = true /\ a <> b /\ desc_eq eq_iter a' b' = true /\ a' <> b'.
Proof. exact desc_eq_refuted. Qed.
Print Assumptions C19_desc_eq_refuted.

Theorem C19_desc_cmp_refuted : exists a b c d,
  desc_cmp cmp_iter N.compare N.compare a b = EqOrdModel.Panic 356 /\
  desc_cmp cmp_iter N.compare N.compare c d = EqOrdModel.Ok Eq /\ c <> d.
Proof. exact desc_cmp_refuted. Qed.
Print Assumptions C19_desc_cmp_refuted.

(* desc_cmp_total_order_partial: proved here: no panic and Equal <-> structural equality (antisymmetry and
   transitivity of the descriptor order are not stated; they are checked per run by the oracle) *)
Theorem C19_desc_cmp_fixed_partial : forall kf kx, total_order kf -> total_order kx ->
  forall a b, exists c, desc_cmp cmp_fixed kf kx a b = EqOrdModel.Ok c /\ (c = Eq <-> a = b).
Proof. exact desc_cmp_fixed. Qed.
Print Assumptions C19_desc_cmp_fixed_partial.
