(* C19 — Equality, ordering and hashing are structural and mutually consistent.
   Statements only; every proof is `exact <lemma>` (Proofs/EqOrdProofs.v, EqOrdCmpProofs.v, EqOrdDescProofs.v,
   EqOrdPolProofs.v, EqOrdHashProofs.v).

   Model (Ms/EqOrdModel.v; /repo as of 32d9f676): `preorder` = what Terminal::pre_order_iter yields
   (discriminant, number of children, payload), `eq_iter` = the truncating zip with the per-pair rules of
   `impl PartialEq for Terminal`, `hash_iter` = the words fed to the Hasher, `cmp_iter` = the zip of display
   nodes of `impl Ord for Terminal` with the `unreachable!` arm as `Panic`, `clone_rec`;
   `desc_eq` / `desc_cmp` (Ms/EqOrdDescModel.v) = the derived / hand-written impls of the descriptor types.
   Specification: Coq's `=` on the AST `ms`; `spec_cmp` (lexicographic order of the display sequences).

   All statements of the property hold for the model, at full strength:
     eq_structural, hash_eq_contract, clone_eq, cmp_total_order (never panics; Equal <-> =; antisymmetric;
     transitive), cmp Equal <-> ==.
   History: until /repo 32d9f676 `==` ignored a thresh's k and arity and `cmp` ignored the arity of n-ary
   fragments (and could reach unreachable!); the then-faithful model and its refutations are kept, clearly
   labelled, in Proofs/EqOrdHistory.v and are not used here. *)
From Verif Require Import EqOrdModel EqOrdProofs EqOrdCmpProofs.

(* ---- key lemma: the pre-order of (tag, arity, payload) determines the tree; the iterator yields it *)
Theorem C19_preorder_inj : forall a b, preorder a = preorder b -> a = b.
Proof. exact preorder_inj. Qed.
Print Assumptions C19_preorder_inj.

Theorem C19_preorder_prefix_code : forall a b r1 r2, preorder a ++ r1 = preorder b ++ r2 -> a = b /\ r1 = r2.
Proof. exact preorder_app_inj. Qed.
Print Assumptions C19_preorder_prefix_code.

Theorem C19_preorder_iter_refines : forall m, preorder_stack (ms_size m) [m] = Some (preorder m).
Proof. exact preorder_iter_refines. Qed.
Print Assumptions C19_preorder_iter_refines.

(* ---- equality is structural: equal exactly when structurally identical *)
Theorem C19_eq_structural : forall a b, eq_iter a b = true <-> a = b.
Proof. exact eq_structural. Qed.
Print Assumptions C19_eq_structural.

Local Open Scope N_scope.
Example C19_eq_regression_witnesses :
  eq_iter (MThresh 1 [w_pk 0; w_spk 1]) (MThresh 2 [w_pk 0; w_spk 1]) = false /\
  eq_iter (MThresh 1 [w_pk 0; w_spk 1]) (MThresh 1 [w_pk 0; w_spk 1; w_spk 2]) = false /\
  eq_iter (MThresh 2 [MThresh 1 [w_pk 0; w_spk 1]; w_spk 2; w_spk 3])
          (MThresh 2 [MThresh 1 [w_pk 0; w_spk 1; w_spk 2]; w_spk 3]) = false.
Proof. exact eq_regression_witnesses. Qed.

(* ---- equal values hash equally (plain determinism and the Hash/Eq contract) *)
Theorem C19_hash_consistent : forall a b, a = b -> hash_iter a = hash_iter b.
Proof. exact hash_consistent. Qed.
Print Assumptions C19_hash_consistent.

Theorem C19_hash_eq_contract : forall a b, eq_iter a b = true -> hash_iter a = hash_iter b.
Proof. exact hash_eq_contract. Qed.
Print Assumptions C19_hash_eq_contract.

(* ---- cloning yields an equal value *)
Theorem C19_clone_eq : forall m, clone_rec m = m /\ eq_iter (clone_rec m) m = true.
Proof. exact (fun m => conj (clone_id m) (clone_eq m)). Qed.
Print Assumptions C19_clone_eq.

(* ---- ordering: never panics, is the specification order, a total order whose Equal is equality *)
Theorem C19_cmp_is_spec : forall kcmp, total_order kcmp -> forall a b, cmp_iter kcmp a b = Ok (spec_cmp kcmp a b).
Proof. exact cmp_iter_spec. Qed.
Print Assumptions C19_cmp_is_spec.

Theorem C19_cmp_total_order : forall kcmp, total_order kcmp ->
  (forall a b, exists c, cmp_iter kcmp a b = Ok c) /\
  (forall a b, cmp_iter kcmp a b = Ok Eq <-> a = b) /\
  (forall a b c, cmp_iter kcmp a b = Ok c -> cmp_iter kcmp b a = Ok (CompOpp c)) /\
  (forall a b c, cmp_iter kcmp a b = Ok Lt -> cmp_iter kcmp b c = Ok Lt -> cmp_iter kcmp a c = Ok Lt).
Proof. exact cmp_total_order. Qed.
Print Assumptions C19_cmp_total_order.

Theorem C19_cmp_eq_iff_eq : forall kcmp, total_order kcmp ->
  forall a b, cmp_iter kcmp a b = Ok Eq <-> eq_iter a b = true.
Proof. exact cmp_eq_iff_eq. Qed.
Print Assumptions C19_cmp_eq_iff_eq.

Theorem C19_spec_cmp_total_order : forall kcmp, total_order kcmp ->
  (forall a b, spec_cmp kcmp a b = Eq <-> a = b) /\
  (forall a b, spec_cmp kcmp b a = CompOpp (spec_cmp kcmp a b)) /\
  (forall a b c, spec_cmp kcmp a b = Lt -> spec_cmp kcmp b c = Lt -> spec_cmp kcmp a c = Lt).
Proof.
  exact (fun kcmp T => conj (spec_cmp_eq kcmp T) (conj (spec_cmp_antisym kcmp T) (spec_cmp_trans kcmp T))).
Qed.
Print Assumptions C19_spec_cmp_total_order.

Example C19_cmp_regression_witnesses :
  cmp_iter N.compare (MOrB (MMulti 1 [0; 1]) (w_spk 2)) (MOrB (MMulti 1 [0; 1; 2]) (w_spk 0)) = Ok Lt /\
  cmp_iter N.compare (MMulti 1 [0; 1]) (MMulti 1 [0; 1; 2]) = Ok Lt /\
  cmp_iter N.compare (MThresh 1 [w_pk 0; w_spk 1]) (MThresh 2 [w_pk 0; w_spk 1]) = Ok Lt.
Proof. exact cmp_regression_witnesses. Qed.

Example C19_key_order_nonvacuous : total_order N.compare.
Proof. exact key_order_example. Qed.

(* ---- descriptors (derived Eq/Ord of Descriptor, Sh, Wsh, Bare, Pkh, Wpkh, TapTree; Tr by hand, cache skipped) *)
From Verif Require Import EqOrdDescModel EqOrdDescProofs.

Theorem C19_desc_eq_structural : forall a b, desc_eq eq_iter a b = true <-> a = b.
Proof. exact desc_eq_iter_structural. Qed.
Print Assumptions C19_desc_eq_structural.

(* the descriptor order (variant order, then field-wise lexicographic; Tr: internal key, then tree) never panics
   and is a total order whose Equal is structural equality and coincides with == *)
Theorem C19_desc_cmp_total_order : forall kf kx, total_order kf -> total_order kx ->
  (forall a b, exists c, desc_cmp cmp_iter kf kx a b = EqOrdModel.Ok c) /\
  (forall a b, desc_cmp cmp_iter kf kx a b = EqOrdModel.Ok Eq <-> a = b) /\
  (forall a b c, desc_cmp cmp_iter kf kx a b = EqOrdModel.Ok c -> desc_cmp cmp_iter kf kx b a = EqOrdModel.Ok (CompOpp c)) /\
  (forall a b c, desc_cmp cmp_iter kf kx a b = EqOrdModel.Ok Lt -> desc_cmp cmp_iter kf kx b c = EqOrdModel.Ok Lt ->
                 desc_cmp cmp_iter kf kx a c = EqOrdModel.Ok Lt).
Proof. exact desc_cmp_total_order. Qed.
Print Assumptions C19_desc_cmp_total_order.

Theorem C19_desc_cmp_eq_iff_eq : forall kf kx, total_order kf -> total_order kx ->
  forall a b, desc_cmp cmp_iter kf kx a b = EqOrdModel.Ok Eq <-> desc_eq eq_iter a b = true.
Proof. exact desc_cmp_eq_iff_eq. Qed.
Print Assumptions C19_desc_cmp_eq_iff_eq.

Example C19_desc_cmp_examples :
  desc_cmp cmp_iter N.compare N.compare (DWsh (w_pk 0)) (DTr 0 []) = EqOrdModel.Ok Lt /\
  desc_cmp cmp_iter N.compare N.compare (DShWsh (w_pk 0)) (DSh (w_pk 0)) = EqOrdModel.Ok Lt /\
  desc_cmp cmp_iter N.compare N.compare (DTr 0 [(1, w_pk 0); (1, w_pk 1)]) (DTr 0 [(1, w_pk 1); (1, w_pk 0)]) = EqOrdModel.Ok Lt /\
  desc_cmp cmp_iter N.compare N.compare (DTr 0 [(1, w_pk 0); (1, w_pk 1)]) (DTr 0 []) = EqOrdModel.Ok Gt.
Proof. exact desc_cmp_examples. Qed.

(* ---- the spend-info cache of Tr is run-time state that ==, cmp do not read: a value is (structure, cache),
        and the answers depend on the structures only, for every history (fresh / warmed / clone of warmed) *)
Theorem C19_desc_eq_history_independent : forall meq a b c c',
  cdesc_eq meq (mkCD a c) (mkCD b c') = desc_eq meq a b.
Proof. exact cdesc_eq_history_independent. Qed.
Print Assumptions C19_desc_eq_history_independent.

Theorem C19_desc_cmp_history_independent : forall mcmp kf kx a b c c',
  cdesc_cmp mcmp kf kx (mkCD a c) (mkCD b c') = desc_cmp mcmp kf kx a b.
Proof. exact cdesc_cmp_history_independent. Qed.
Print Assumptions C19_desc_cmp_history_independent.

Theorem C19_desc_eq_structural_any_history : forall x y, cdesc_eq eq_iter x y = true <-> cd_desc x = cd_desc y.
Proof. exact cdesc_eq_structural. Qed.
Print Assumptions C19_desc_eq_structural_any_history.

(* the same laws for descriptor values with arbitrary cache histories (fresh / warmed / cloned) *)
Theorem C19_desc_cmp_total_order_any_history : forall kf kx, total_order kf -> total_order kx ->
  (forall x y, exists c, cdesc_cmp cmp_iter kf kx x y = EqOrdModel.Ok c) /\
  (forall x y, cdesc_cmp cmp_iter kf kx x y = EqOrdModel.Ok Eq <-> cd_desc x = cd_desc y) /\
  (forall x y c, cdesc_cmp cmp_iter kf kx x y = EqOrdModel.Ok c -> cdesc_cmp cmp_iter kf kx y x = EqOrdModel.Ok (CompOpp c)) /\
  (forall x y z, cdesc_cmp cmp_iter kf kx x y = EqOrdModel.Ok Lt -> cdesc_cmp cmp_iter kf kx y z = EqOrdModel.Ok Lt ->
                 cdesc_cmp cmp_iter kf kx x z = EqOrdModel.Ok Lt) /\
  (forall x y, cdesc_cmp cmp_iter kf kx x y = EqOrdModel.Ok Eq <-> cdesc_eq eq_iter x y = true).
Proof. exact cdesc_cmp_total_order. Qed.
Print Assumptions C19_desc_cmp_total_order_any_history.

(* ---- policies: derived == is structural; the hand-written Ord (variant_name, then contents; Or with odds; Thresh
        by k then children) never reaches unreachable! and is a total order whose Equal coincides with ==.
        (A semantic policy is a policy without And / Or; its Ord is the same match without those arms.) *)
From Verif Require Import EqOrdPolModel EqOrdPolProofs.

Theorem C19_policy_eq_structural : forall a b, cpol_eqb a b = true <-> a = b.
Proof. exact cpol_eqb_eq. Qed.
Print Assumptions C19_policy_eq_structural.

Theorem C19_policy_cmp_total_order : forall kcmp, total_order kcmp ->
  (forall a b, exists c, cpol_cmp kcmp a b = EqOrdModel.Ok c) /\
  (forall a b, cpol_cmp kcmp a b = EqOrdModel.Ok Eq <-> a = b) /\
  (forall a b c, cpol_cmp kcmp a b = EqOrdModel.Ok c -> cpol_cmp kcmp b a = EqOrdModel.Ok (CompOpp c)) /\
  (forall a b c, cpol_cmp kcmp a b = EqOrdModel.Ok Lt -> cpol_cmp kcmp b c = EqOrdModel.Ok Lt -> cpol_cmp kcmp a c = EqOrdModel.Ok Lt).
Proof. exact cpol_cmp_total_order. Qed.
Print Assumptions C19_policy_cmp_total_order.

Theorem C19_policy_cmp_eq_iff_eq : forall kcmp, total_order kcmp ->
  forall a b, cpol_cmp kcmp a b = EqOrdModel.Ok Eq <-> cpol_eqb a b = true.
Proof. exact cpol_cmp_eq_iff_eqb. Qed.
Print Assumptions C19_policy_cmp_eq_iff_eq.

Example C19_policy_cmp_examples :
  cpol_cmp N.compare (QOr [(9, QKey 0); (1, QKey 1)]) (QOr [(1, QKey 0); (9, QKey 1)]) = EqOrdModel.Ok Gt /\
  cpol_cmp N.compare (QOlder 1) (QOlder 65537) = EqOrdModel.Ok Lt /\
  cpol_cmp N.compare (QOlder 8388609) (QOlder 2) = EqOrdModel.Ok Gt /\
  cpol_cmp N.compare (QAnd [QKey 0; QKey 1]) (QAnd [QKey 0; QKey 1; QKey 2]) = EqOrdModel.Ok Lt /\
  cpol_cmp N.compare (QThresh 1 [QKey 0; QKey 1]) (QOr [(1, QKey 0); (1, QKey 1)]) = EqOrdModel.Ok Gt.
Proof. exact pol_cmp_examples. Qed.

(* ---- Hash of descriptors and of concrete policies (Ms/EqOrdHashModel.v, Proofs/EqOrdHashProofs.v):
        `desc_feed` / `cpol_feed` = the sequence of calls `Hash::hash` makes on the Hasher (derived impls: discriminant,
        then fields in declaration order; Vec: length prefix, elements; the hand-written `impl Hash for Tr`: internal key,
        tree, cache skipped), with `hash_raw` for the miniscripts inside; a key feeds itself as one opaque atom.
        `policy::Semantic` has no `Hash` impl in /repo (derive(Clone, PartialEq, Eq) only): nothing to state for it.
        (a) `==` implies equal feeds (the Hash/Eq contract; all the property requires);
        (b) the feed is a prefix code, hence injective: hashing is structural (stronger than required);
        (c) the derived `clone` is the identity on values. *)
From Verif Require Import EqOrdRun EqOrdDescModel EqOrdHashModel EqOrdHashProofs.

Theorem C19_ms_hash_raw_prefix_code : forall a b r1 r2, hash_raw a ++ r1 = hash_raw b ++ r2 -> a = b /\ r1 = r2.
Proof. exact hash_raw_app_inj. Qed.
Print Assumptions C19_ms_hash_raw_prefix_code.

Theorem C19_ms_hash_raw_inj : forall a b, hash_raw a = hash_raw b -> a = b.
Proof. exact hash_raw_inj. Qed.
Print Assumptions C19_ms_hash_raw_inj.

Theorem C19_desc_hash_eq_contract : forall a b, desc_eq eq_iter a b = true -> desc_feed a = desc_feed b.
Proof. exact desc_hash_eq_contract. Qed.
Print Assumptions C19_desc_hash_eq_contract.

Theorem C19_desc_hash_prefix_code : forall a b r1 r2, desc_feed a ++ r1 = desc_feed b ++ r2 -> a = b /\ r1 = r2.
Proof. exact desc_feed_app_inj. Qed.
Print Assumptions C19_desc_hash_prefix_code.

Theorem C19_desc_hash_structural : forall a b, desc_feed a = desc_feed b -> a = b.
Proof. exact desc_feed_inj. Qed.
Print Assumptions C19_desc_hash_structural.

Theorem C19_desc_hash_eq_iff : forall a b, desc_feed a = desc_feed b <-> desc_eq eq_iter a b = true.
Proof. exact desc_feed_eq_iff. Qed.
Print Assumptions C19_desc_hash_eq_iff.

(* values with a cache history (structure, spend-info cache) *)
Theorem C19_desc_hash_eq_contract_any_history : forall x y, cdesc_eq eq_iter x y = true -> cdesc_feed x = cdesc_feed y.
Proof. exact cdesc_hash_eq_contract. Qed.
Print Assumptions C19_desc_hash_eq_contract_any_history.

Theorem C19_desc_hash_history_independent : forall a c c', cdesc_feed (mkCD a c) = cdesc_feed (mkCD a c').
Proof. exact cdesc_feed_history_independent. Qed.
Print Assumptions C19_desc_hash_history_independent.

Theorem C19_desc_hash_structural_any_history : forall x y, cdesc_feed x = cdesc_feed y -> cd_desc x = cd_desc y.
Proof. exact cdesc_feed_inj. Qed.
Print Assumptions C19_desc_hash_structural_any_history.

Theorem C19_desc_clone_id : forall d, desc_clone d = d.
Proof. exact desc_clone_id. Qed.
Print Assumptions C19_desc_clone_id.

Theorem C19_policy_hash_eq_contract : forall a b, cpol_eqb a b = true -> cpol_feed a = cpol_feed b.
Proof. exact cpol_hash_eq_contract. Qed.
Print Assumptions C19_policy_hash_eq_contract.

Theorem C19_policy_hash_prefix_code : forall a b r1 r2, cpol_feed a ++ r1 = cpol_feed b ++ r2 -> a = b /\ r1 = r2.
Proof. exact cpol_feed_app_inj. Qed.
Print Assumptions C19_policy_hash_prefix_code.

Theorem C19_policy_hash_structural : forall a b, cpol_feed a = cpol_feed b -> a = b.
Proof. exact cpol_feed_inj. Qed.
Print Assumptions C19_policy_hash_structural.

Theorem C19_policy_hash_eq_iff : forall a b, cpol_feed a = cpol_feed b <-> cpol_eqb a b = true.
Proof. exact cpol_feed_eq_iff. Qed.
Print Assumptions C19_policy_hash_eq_iff.

(* concrete and semantic policies (the same model type; a semantic policy stays And/Or-free) *)
Theorem C19_policy_clone_id : forall p, cpol_clone p = p.
Proof. exact cpol_clone_id. Qed.
Print Assumptions C19_policy_clone_id.

Theorem C19_policy_clone_semantic : forall p, is_semantic p = true -> is_semantic (cpol_clone p) = true.
Proof. exact cpol_clone_semantic. Qed.
Print Assumptions C19_policy_clone_semantic.

Local Open Scope N_scope.
Example C19_desc_hash_examples :
  desc_feed (DTr 0 [(1, e_pk 1); (2, e_pk 2); (2, e_pk 3)]) <> desc_feed (DTr 0 [(2, e_pk 1); (2, e_pk 2); (1, e_pk 3)]) /\
  desc_feed (DTr 0 []) = [RI 5; RK 0; RI 0] /\
  desc_feed (DTr 0 [(0, e_pk 1)]) = [RI 5; RK 0; RI 1; RU 1; RC 0; RI 13; RI 2; RK 1] /\
  desc_feed (DWsh (MMulti 1 [0; 1])) = [RI 4; RI 26; RU 1; RU 2; RK 0; RK 1] /\
  desc_feed (DWsh (MSortedMulti 1 [0; 1])) = [RI 4; RI 27; RU 1; RU 2; RK 0; RK 1] /\
  desc_feed (DWsh (MMulti 2 [0; 1])) <> desc_feed (DWsh (MMulti 1 [0; 1])) /\
  desc_feed (DWsh (MMulti 1 [0; 1; 2])) <> desc_feed (DWsh (MMulti 1 [0; 1])) /\
  desc_feed (DShWsh (e_pk 0)) = [RI 3; RI 0; RI 13; RI 2; RK 0] /\
  desc_feed (DSh (e_pk 0)) = [RI 3; RI 2; RI 13; RI 2; RK 0] /\
  desc_feed (DShWpkh 0) = [RI 3; RI 1; RK 0] /\
  desc_eq eq_iter (DTr 0 [(0, e_pk 1)]) (DTr 0 [(0, e_pk 1)]) = true.
Proof. exact desc_feed_examples. Qed.

Example C19_policy_hash_examples :
  cpol_feed (QOr [(9, QKey 0); (1, QKey 1)]) = [RI 10; RU 2; RU 9; RI 2; RK 0; RU 1; RI 2; RK 1] /\
  cpol_feed (QOr [(1, QKey 0); (9, QKey 1)]) <> cpol_feed (QOr [(9, QKey 0); (1, QKey 1)]) /\
  cpol_feed (QThresh 1 [QKey 0; QKey 1]) = [RI 11; RU 1; RU 2; RI 2; RK 0; RI 2; RK 1] /\
  cpol_feed (QThresh 2 [QKey 0; QKey 1]) <> cpol_feed (QThresh 1 [QKey 0; QKey 1]) /\
  cpol_feed (QThresh 1 [QKey 0; QKey 1; QKey 2]) <> cpol_feed (QThresh 1 [QKey 0; QKey 1]) /\
  cpol_feed (QAnd [QKey 0; QKey 1]) = [RI 9; RU 2; RI 2; RK 0; RI 2; RK 1] /\
  cpol_feed (QAfter 500000000) = [RI 3; RI 1; RW 500000000] /\
  cpol_feed (QOlder 65537) = [RI 4; RW 65537] /\
  cpol_feed (QAnd [QAnd [QKey 0]; QKey 1]) <> cpol_feed (QAnd [QAnd [QKey 0; QKey 1]]) /\
  cpol_eqb (QOr [(9, QKey 0); (1, QKey 1)]) (QOr [(9, QKey 0); (1, QKey 1)]) = true.
Proof. exact cpol_feed_examples. Qed.
