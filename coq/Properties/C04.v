(* C04 — Script encoding and decoding are inverse and canonical; the predicted size is exact.
   Statements only; every proof is `exact <lemma>`.
   Models (no proofs inside): Ms/Ast.v (enc, encode — mirror of astelem.rs + script::Builder),
   Script/Ser.v (serialize, parse_script), Ms/LexModel.v (lex — mirror of lex.rs over
   instructions_minimal), Ms/DecodeModel.v (parse = decode.rs `decode`; decode_max =
   decode_with_validation_params(.., MAX)), Ms/CodecExt.v (script_size, pk_cost, hfv, gv),
   Ms/CodecSpec.v (ms_wf = the invariants of the Rust types; mtoks = expected tokens). *)
From Verif Require Import DecodeModel CodecSpec SerProofs LexProofs EncProofs DecodeProofs DecodeEnc DecodeNf DecodeRefute
  DecodeSound LexCanon DecodeCanon.
Local Open Scope N_scope.

(* [T1] ser_parse: the byte-level parser inverts the serialiser on well-formed structured
   scripts (minimal pushes, OP_n in range, opcode bytes that are neither pushes nor IF/ELSE/ENDIF). *)
Theorem C04_ser_parse : forall s, wf_script s -> parse_script (serialize s) = Some s.
Proof. exact ser_parse. Qed.
Print Assumptions C04_ser_parse.

(* ... and conversely every byte string that parses is the serialisation of what it parses to
   (the structured-script parser of the specification side is canonical) *)
Theorem C04_parse_ser : forall b s, is_bytes b -> parse_script b = Some s -> serialize s = b.
Proof. exact parse_ser. Qed.
Print Assumptions C04_parse_ser.

(* ... in particular on every encoding: the structured script is recovered from the bytes *)
Theorem C04_parse_encode : forall c ke, ksort_ok ke -> forall m, ms_wf c ke m ->
  parse_script (encode ke m) = Some (enc ke m).
Proof. exact parse_encode. Qed.
Print Assumptions C04_parse_encode.

(* [T1] script_size_ok: Miniscript::script_size (with the has_free_verify folding and the
   code's script_num_size / pk_len) is the length of the encoding, for every well-formed
   miniscript of every context — no typing needed. *)
Theorem C04_script_size_ok : forall c ke, ksort_ok ke -> forall m, ms_wf c ke m ->
  blen (encode ke m) = script_size c ke m.
Proof. exact script_size_ok. Qed.
Print Assumptions C04_script_size_ok.

(* ExtData::has_free_verify is exactly "the last opcode folds into its VERIFY form" *)
Theorem C04_free_verify : forall ke m, last_foldable (enc ke m) = hfv m.
Proof. exact hfv_last. Qed.
Print Assumptions C04_free_verify.

(* [T1] lex_enc: lexing the encoding yields the expected token list *)
Theorem C04_lex_enc : forall c ke, ksort_ok ke -> forall m, ms_wf c ke m ->
  lex (encode ke m) = LexOk (mtoks ke m).
Proof. exact lex_enc. Qed.
Print Assumptions C04_lex_enc.

(* [T2] decode_total: on every byte string, under every environment, the decoder answers
   with a miniscript or an error class: no panic site is reachable (every unwrap / assert of
   decode.rs is covered by the stack-discipline invariant) and 20 * #tokens + 8 machine steps
   suffice. *)
Theorem C04_decode_total : forall e b,
  (exists m, decode_max e b = OOk m) \/ (exists err, decode_max e b = OErr err).
Proof. exact decode_total. Qed.
Print Assumptions C04_decode_total.

Theorem C04_parse_no_panic : forall e toks n, parse e toks <> OPanic n.
Proof. exact parse_no_panic. Qed.
Print Assumptions C04_parse_no_panic.

Theorem C04_lex_never_out_of_fuel : forall b, lex b <> LexErr LeFuel.
Proof. exact lex_never_fuel. Qed.
Print Assumptions C04_lex_never_out_of_fuel.

(* [T2] decode_enc: decoding the encoding of a well-formed, well-typed (base B, V or K)
   miniscript succeeds and returns its DECODER NORMAL FORM nf m (and_v hoisted out of c:/v:/n:/
   and_b/... first operands and nested to the left, pk_h as expr_raw_pkh, sortedmulti(_a) as
   multi(_a) of the sorted keys), which has the SAME script (hence byte-identical encoding) and the
   SAME type.  AST identity is not claimed: c:and_v(v:X,pk_k) and and_v(v:X,c:pk_k) share a script.
   Hypotheses on the normal form: [lim_ok] = the limits the decoder itself applies while rebuilding
   (tree height <= 402 and the context's size limits at every inner node; the typing part of from_ast
   is DERIVED, type_nf), the leaf range checks and keys that decode back to their indices; [gv] at
   the top node.  The depth-402 finding (known_findings.txt) shows the limits hypothesis cannot be
   dropped: normalisation can deepen the tree by one.
   "Identical spending semantics" is a corollary of the identical script: the Script semantics
   (Script/Exec.v) is a function of enc m. *)
Theorem C04_decode_enc : forall e m t,
  ksort_ok (d_ke e) -> ms_wf (d_ctx e) (d_ke e) m ->
  type_of m = ROk t -> c_base (t_corr t) <> BW ->
  lim_ok e (nf (d_ke e) m) -> gv (d_ctx e) (d_ke e) (nf (d_ke e) m) = None ->
  decode_max e (encode (d_ke e) m) = OOk (nf (d_ke e) m) /\
  enc (d_ke e) (nf (d_ke e) m) = enc (d_ke e) m /\
  encode (d_ke e) (nf (d_ke e) m) = encode (d_ke e) m /\
  type_of (nf (d_ke e) m) = ROk t.
Proof. exact decode_enc. Qed.
Print Assumptions C04_decode_enc.

(* its three ingredients, each for ALL miniscripts *)
Theorem C04_nf_same_script : forall ke, ksort_ok ke -> forall m, enc ke (nf ke m) = enc ke m.
Proof. exact enc_nf. Qed.
Print Assumptions C04_nf_same_script.
Theorem C04_nf_same_type : forall ke m t, type_of m = ROk t -> type_of (nf ke m) = ROk t.
Proof. exact type_nf. Qed.
Print Assumptions C04_nf_same_type.
Theorem C04_nf_is_normal : forall ke m t, tne m -> type_of m = ROk t -> c_base (t_corr t) <> BW ->
  dnf KChain (nf ke m) = true.
Proof. exact dnf_nf. Qed.
Print Assumptions C04_nf_is_normal.

(* on miniscripts already in normal form the decoder returns EXACTLY the input AST *)
Theorem C04_decode_enc_partial : forall e m,
  ksort_ok (d_ke e) -> ms_wf (d_ctx e) (d_ke e) m ->
  dnf KChain m = true -> dec_ok e m ->
  gv (d_ctx e) (d_ke e) m = None -> (exists t, type_of m = ROk t) ->
  decode_max e (encode (d_ke e) m) = OOk m.
Proof. exact decode_dnf. Qed.
Print Assumptions C04_decode_enc_partial.

(* the parser alone: the token list of a normal-form miniscript parses back to it, nothing left over *)
Theorem C04_parse_dnf : forall e m, dnf KChain m = true -> dec_ok e m ->
  parse e (mtoks (d_ke e) m) = OOk (m, []).
Proof. exact parse_dnf. Qed.
Print Assumptions C04_parse_dnf.

(* [T2] decode_canonical: EVERY byte string the decoder accepts is the encoding of the miniscript it
   returns: the decoder never accepts a non-canonical script.  (True since /repo 22fc180a; before,
   NUMEQUAL VERIFY was the counter-example, see the regression theorem below.)
   Hypotheses: [is_bytes b] (all list elements < 256: the model's byte strings are lists of N);
   [denv_ok e] = what Ctx::Key::from_slice and the Rust types guarantee about the abstract key table:
   a decoded key serialises back to the bytes it was decoded from, x-only keys have 32 bytes and
   ECDSA keys 33 or 65, hash160 has 20 bytes; [ksort_ok] = the BIP67 sort only permutes.
   Proof: lexer canonicity (C04_lex_canonical) + parser soundness (C04_parse_sound: an "unparse"
   invariant of the non-terminal/terminal stacks preserved by every machine step) + lex_enc. *)
Theorem C04_decode_canonical : forall e b m,
  denv_ok e -> ksort_ok (d_ke e) -> is_bytes b ->
  decode_max e b = OOk m -> encode (d_ke e) m = b.
Proof. exact decode_canonical. Qed.
Print Assumptions C04_decode_canonical.

(* the lexer is canonical: the bytes are a function ([unlex]) of the tokens, hence lex is injective *)
Theorem C04_lex_canonical : forall b ts, is_bytes b -> lex b = LexOk ts -> unlex ts = b /\ Forall tokb ts.
Proof. exact lex_canonical. Qed.
Print Assumptions C04_lex_canonical.

(* the parser is sound: whatever it accepts is (unread rest) ++ (the token list of its result), and
   the result satisfies the invariants of the Rust types *)
Theorem C04_parse_sound : forall e, denv_ok e -> forall ts m rest,
  Forall tok_wf ts -> parse e ts = OOk (m, rest) ->
  ts = rev rest ++ mtoks (d_ke e) m /\ ms_wf (cx e) (d_ke e) m.
Proof. exact parse_sound. Qed.
Print Assumptions C04_parse_sound.

(* consequences: script_size of the result, computed in the decoder's own context (any of the four;
   Segwitv0 included since /repo 8a94baa9), is the length of the accepted script; decoding is
   injective on accepted scripts *)
Theorem C04_decode_size : forall e b m,
  denv_ok e -> ksort_ok (d_ke e) -> is_bytes b ->
  decode_max e b = OOk m -> script_size (d_ctx e) (d_ke e) m = blen b.
Proof. exact decode_size. Qed.
Print Assumptions C04_decode_size.
Theorem C04_decode_injective : forall e b1 b2 m,
  denv_ok e -> ksort_ok (d_ke e) -> is_bytes b1 -> is_bytes b2 ->
  decode_max e b1 = OOk m -> decode_max e b2 = OOk m -> b1 = b2.
Proof. exact decode_injective. Qed.
Print Assumptions C04_decode_injective.

(* the earlier partial statement (canonical on the image of the encoder; no hypothesis on the key
   table beyond those of decode_enc) is kept *)
Theorem C04_decode_canonical_partial : forall e m' t,
  ksort_ok (d_ke e) -> ms_wf (d_ctx e) (d_ke e) m' ->
  type_of m' = ROk t -> c_base (t_corr t) <> BW ->
  lim_ok e (nf (d_ke e) m') -> gv (d_ctx e) (d_ke e) (nf (d_ke e) m') = None ->
  forall m, decode_max e (encode (d_ke e) m') = OOk m -> encode (d_ke e) m = encode (d_ke e) m'.
Proof. exact decode_canonical_on_encodings. Qed.
Print Assumptions C04_decode_canonical_partial.

(* The former refutation of decode_canonical (until /repo 22fc180a: NUMEQUAL VERIFY lexed like
   NUMEQUALVERIFY) is now a regression example: the split script is refused by the lexer, the
   canonical one decodes. *)
Theorem C04_numequal_split_rejected :
  (forall k, k < 2 -> d_key wit_env (kb (d_ke wit_env) k) = Some k) /\
  decode_max wit_env wit_bytes = OErr (DeLex LeNonMinimalVerify) /\
  decode_max wit_env (encode wit_ke wit_ms) = OOk wit_ms /\ encode wit_ke wit_ms <> wit_bytes.
Proof. exact numequal_split_rejected_lemma. Qed.
Print Assumptions C04_numequal_split_rejected.

(* non-vacuity: the hypotheses of the theorems above are satisfiable (the witness is well formed) *)
Example C04_hypotheses_satisfiable : ms_wf Tap wit_ke wit_ms /\ ksort_ok wit_ke.
Proof. exact wit_wf. Qed.
Example C04_decode_enc_hypotheses_satisfiable :
  dnf KChain wit_ms = true /\ dec_ok wit_env wit_ms /\ gv Tap wit_ke wit_ms = None.
Proof. exact wit_dnf. Qed.
(* a miniscript that is NOT in normal form, c:and_v(v:pk(A),pk_k(B)), satisfies the hypotheses of
   decode_enc; its normal form is and_v(v:pk(A),pk(B)) *)
Example C04_decode_enc_nontrivial :
  ms_wf Tap wit_ke wit_ms2 /\ (exists t, type_of wit_ms2 = ROk t /\ c_base (t_corr t) <> BW) /\
  lim_ok wit_env (nf wit_ke wit_ms2) /\ gv Tap wit_ke (nf wit_ke wit_ms2) = None /\
  nf wit_ke wit_ms2 <> wit_ms2.
Proof. exact wit2_ok. Qed.
(* the hypotheses of decode_canonical are satisfiable and its premise is met by a real script *)
Example C04_decode_canonical_hypotheses_satisfiable :
  denv_ok wit_env /\ ksort_ok (d_ke wit_env) /\ is_bytes (encode wit_ke wit_ms) /\
  decode_max wit_env (encode wit_ke wit_ms) = OOk wit_ms.
Proof. exact wit_denv_ok. Qed.
