(* C04 — Script encoding and decoding are inverse and canonical; the predicted size is exact.
   Statements only; every proof is `exact <lemma>`.  Models: Ms/Ast.v (enc, encode),
   Script/Ser.v (serialize, parse_script), Ms/LexModel.v (lex), Ms/DecodeModel.v (parse,
   decode_max), Ms/CodecExt.v (script_size, pk_cost, hfv, gv). *)
From Verif Require Import DecodeModel DecodeRefute.
Local Open Scope N_scope.

(* decode_canonical — FULL statement, FALSE on the present tree:
     forall e b m, decode_max e b = OOk m -> encode (d_ke e) m = b.
   Refuted by the model (witness: and_v(v:multi_a(1,A,B),pk(A)) with 9d replaced by 9c 69);
   the same witness is re-found on the implementation by every run of the check. *)
Theorem C04_decode_canonical_refuted :
  exists (e : denv) (b : bytes) (m : ms),
    (forall k, k < 2 -> d_key e (kb (d_ke e) k) = Some k) /\
    decode_max e b = OOk m /\ encode (d_ke e) m <> b /\
    decode_max e (encode (d_ke e) m) = OOk m.
Proof. exact decode_canonical_refuted_lemma. Qed.
Print Assumptions C04_decode_canonical_refuted.
