(* C01 — every satisfaction the library returns actually spends the output.
   Statements only.  What is proved here (for every fragment nesting, every stack below,
   every asset set, every transaction environment):
     * C01_table_sound: every entry of the specification's satisfaction table, executed by
       the Script semantics on the ENCODED fragment, succeeds and leaves exactly what the
       fragment's base type promises (B: one true value, 1 if unit; V: nothing; K: key above
       a verifying signature; W: the value next to the carried element), and every
       dissatisfaction entry leaves exactly 0.  raw_pk_h (which only arises from decoding) is not covered: [no_multi].
     * C01_witness_script_accepts: hence a table satisfaction of a B-typed script is accepted
       as a witness-script input: final stack exactly one true element.
     * C01_model_satisfier_spends: the Gallina model of the library's satisfier (sat_dissat,
       minimum, minimum_mall, thresh with its stable sort, multi, multi_a, both modes) only
       outputs table entries, so everything it returns is accepted.
     * DESCRIPTOR LEVEL (Proofs/DescSpend*.v, model Ms/DescSpendModel.v): what the satisfier model
       returns, packaged the way each output-type wrapper packages it, is accepted by the
       output-type validation of Script/Spend.v (consensus + standardness), END TO END FROM BYTES:
       the byte-level parser recovers the script (C04 parse_encode: hypotheses ksort_ok / ms_wf
       instead of a parse hypothesis) and, for the pre-segwit types, parses the scriptSig built
       by the model of util.rs witness_to_scriptsig and evaluates it (push-only) to the items
       (DescSpendPush.scriptsig_roundtrip; the item 01 becomes OP_1, 81 becomes OP_1NEGATE, the
       empty item OP_0 - faithful to Builder::push_int - which is exactly what MINIMALDATA wants).
         C01_wsh_descriptor_spends_v2      P2WSH        witness items ++ [script]
         C01_sh_descriptor_spends          P2SH         scriptSig = pushes(items ++ [script])
         C01_shwsh_descriptor_spends       P2SH-P2WSH   scriptSig = push(witness program)
         C01_bare_descriptor_spends        bare         scriptSig = pushes(items)
         C01_tr_descriptor_spends          P2TR script path, witness items ++ [script; control]
         C01_*_spend_dispatch              the same through the dispatcher verify_spend on the
                                           scriptPubKey of the C16 model (to_p2wsh, to_p2sh, ...)
         C01_wpkh_spends, C01_shwpkh_spends (+ dispatch)   key-only types (not miniscripts)
         C01_pkh_spends (+ dispatch)       pkh(K): scriptSig = push(sig) push(key) against the P2PKH
                                           script, through verify_bare (Spend.v needs no P2PKH branch)
         C01_tr_keypath_spends (+ dispatch) taproot key path, witness [sig] against the output key;
         C01_tr_keypath_annex_rejected     [sig; annex] is rejected by Spend.v (annex unsupported)
       With these, every output type a Descriptor can have is covered.
       Both well-formedness predicates are carried: [wf] (TheoremA: semantic side conditions -
       hash images differ from the image of 32 zero bytes, multi only outside / multi_a only inside
       tapscript, thresh arity < 1000) and [ms_wf] (C04: BYTE LENGTHS of keys and hashes, which is
       what makes the serialisation parse back); neither implies the other.
       Resource limits stay explicit hypotheses, exactly those Spend.v applies to the type;
       C01_wsh_descriptor_spends_computable replaces three of them by the library's own computable
       figures (script_size - C04; static_ops and max_sat_elems - C09).
       [is_bytes] (every element < 256) is the typing invariant of bytes = list N; without it
       witness_to_scriptsig is not the identity on items (read_scriptint/push_int re-encode).
       The hash-length hypotheses (blen (e_sha256 ..) = 32 etc.) are needed because the hash
       functions of [env] are abstract.
   The model of the satisfier is compared with the implementation on every run, and
   independently every witness the implementation returns is executed.
   The script-number facts used (minimal encoding round-trips) are proved in ScriptNumProofs.v. *)
From Verif Require Import Exec Ser Spend Ast Types TypeCheck SatSpec Sat ExecLemmas TheoremA SatProofs.
From Verif Require Import CodecSpec SerProofs DescSpendModel DescSpendPush DescSpendProofs DescSpendBare.
From Verif Require DescSpendLimits DescSpendKeyOnly DescSpendExamples CodecExt ExtModel ExtProofs ExtSize.

Theorem C01_table_sound_partial :
  forall (e : env) (ke : keyenv) (A : assets), assets_ok e ke A -> (forall kbs, e_sigok e kbs [] = false) ->
  forall (m : ms) (t : ty), type_of m = ROk t -> wf e ke m -> no_multi m ->
    good e ke A m t /\ shape ke A m t.
Proof. exact theoremA_closed. Qed.
Print Assumptions C01_table_sound_partial.

Theorem C01_witness_script_accepts_partial :
  forall (e : env) (ke : keyenv) (A : assets), assets_ok e ke A -> (forall kbs, e_sigok e kbs [] = false) ->
  forall (m : ms) (t : ty), type_of m = ROk t -> c_base (t_corr t) = BB -> wf e ke m -> no_multi m ->
  forall w, In w (all_sat ke A m) -> accepts e (enc ke m) w = true.
Proof. exact witness_script_accepts. Qed.
Print Assumptions C01_witness_script_accepts_partial.

(* The model of the library's satisfier (Ms/Sat.v: both modes, every asset set) only returns
   table entries, hence: every satisfaction the MODEL returns for a B-typed script is accepted. *)
Theorem C01_model_satisfier_spends :
  forall (e : env) (ke : keyenv) (A : assets) (se : senv) (f : fill),
  linked ke A se f -> (forall ks, length (ksort ke ks) = length ks) ->
  assets_ok e ke A -> (forall kbs, e_sigok e kbs [] = false) ->
  forall (mall rhs : bool) (m : ms) (t : ty),
    type_of m = ROk t -> c_base (t_corr t) = BB -> wf e ke m -> no_multi m ->
    forall bs, satisfy ke se f mall rhs m = Some bs -> accepts e (enc ke m) (rev bs) = true.
Proof. exact model_satisfaction_spends. Qed.
Print Assumptions C01_model_satisfier_spends.

(* Descriptor level for P2WSH: the witness [items..., script] validates against the program
   sha256(script) under consensus + standardness rules, given that the serialised script parses
   back (C04's ser_parse) and that the size limits hold for this script and witness (C09). *)
Theorem C01_wsh_descriptor_spends :
  forall (e : env) (ke : keyenv) (A : assets) (se : senv) (f : fill),
  linked ke A se f -> (forall ks, length (ksort ke ks) = length ks) ->
  assets_ok (with_sv e SvWitnessV0) ke A -> (forall kbs, e_sigok e kbs [] = false) ->
  forall (mall rhs : bool) (m : ms) (t : ty),
    type_of m = ROk t -> c_base (t_corr t) = BB -> wf (with_sv e SvWitnessV0) ke m -> no_multi m ->
    forall bs, satisfy ke se f mall rhs m = Some bs ->
    let sb := serialize (enc ke m) in
    parse_script sb = Some (enc ke m) ->
    (blen sb <= 3600)%N -> (N.of_nat (length bs) <= 100)%N -> forallb (fun it => N.leb (blen it) 80) (rev bs) = true ->
    (count_nonpush_ops (enc ke m) <= 201)%N ->
    verify_wsh e (e_sha256 e sb) (bs ++ [sb]) = true.
Proof. exact model_wsh_spends. Qed.
Print Assumptions C01_wsh_descriptor_spends.

(* ================= descriptor level, end to end from bytes (Proofs/DescSpend*.v) ================= *)
Local Open Scope N_scope.

(* P2WSH without the parse hypothesis: C04's parse_encode supplies it from ksort_ok / ms_wf. *)
Theorem C01_wsh_descriptor_spends_v2 :
  forall (e : env) (ke : keyenv) (A : assets) (se : senv) (f : fill),
  linked ke A se f -> ksort_ok ke -> (forall kbs, e_sigok e kbs [] = false) ->
  forall (mall rhs : bool) (m : ms) (t : ty),
    type_of m = ROk t -> c_base (t_corr t) = BB -> no_multi m ->
  forall bs, satisfy ke se f mall rhs m = Some bs ->
    assets_ok (with_sv e SvWitnessV0) ke A -> wf (with_sv e SvWitnessV0) ke m -> ms_wf Segwitv0 ke m ->
    blen (encode ke m) <= 3600 -> N.of_nat (length bs) <= 100 ->
    forallb (fun it => N.leb (blen it) 80) (rev bs) = true ->
    count_nonpush_ops (enc ke m) <= 201 ->
    verify_wsh e (e_sha256 e (encode ke m)) (bs ++ [encode ke m]) = true.
Proof. exact wsh_spends_v2. Qed.
Print Assumptions C01_wsh_descriptor_spends_v2.

(* ... with the library's computable figures in place of three of the limits: script_size (exact,
   C04), static_ops of ExtData (exact when no multi_a, C09), max_sat_elems (C09 bound, class ext_safe) *)
Theorem C01_wsh_descriptor_spends_computable :
  forall (e : env) (ke : keyenv) (A : assets) (se : senv) (f : fill),
  linked ke A se f -> ksort_ok ke -> (forall kbs, e_sigok e kbs [] = false) ->
  forall (mall rhs : bool) (m : ms) (t : ty),
    type_of m = ROk t -> c_base (t_corr t) = BB -> no_multi m ->
  forall bs, satisfy ke se f mall rhs m = Some bs ->
    assets_ok (with_sv e SvWitnessV0) ke A -> wf (with_sv e SvWitnessV0) ke m -> ms_wf Segwitv0 ke m ->
  forall xc : ExtModel.xctx, ExtProofs.senv_ok xc se -> ExtModel.ext_safe ExtModel.as_written xc m = true ->
    ExtSize.no_multi_a m = true ->
    CodecExt.script_size Segwitv0 ke m <= 3600 ->
    ExtModel.static_ops (ExtModel.ext_of xc m) <= 201 ->
    (forall d, ExtModel.sat_data (ExtModel.ext_of xc m) = Some d -> ExtModel.sd_wcount d <= 100) ->
    forallb (fun it => N.leb (blen it) 80) (rev bs) = true ->
    verify_wsh e (e_sha256 e (encode ke m)) (bs ++ [encode ke m]) = true.
Proof. exact DescSpendLimits.wsh_spends_computable. Qed.
Print Assumptions C01_wsh_descriptor_spends_computable.

(* the scriptSig builder (model of util.rs witness_to_scriptsig) round-trips: whatever it returns
   serialises to bytes that parse back to it, and its push-only evaluation is the item list
   (last item on top) *)
Theorem C01_scriptsig_roundtrip :
  forall (items : list bytes) (ss : script), Forall is_bytes items -> witness_to_scriptsig items = Some ss ->
    parse_script (serialize ss) = Some ss /\ pushonly_stack ss [] = Some (rev items).
Proof. exact scriptsig_parse_stack. Qed.
Print Assumptions C01_scriptsig_roundtrip.

(* P2SH: sh(ms). scriptSig = witness_to_scriptsig (items ++ [redeem script]), empty witness.
   The 520-byte redeem-script limit is implied by the builder's own assert (it returned Some);
   the push-only rule and MINIMALDATA by C01_scriptsig_roundtrip; that the redeem script is not
   itself of witness-program form is DERIVED (such a script leaves two elements). *)
Theorem C01_sh_descriptor_spends :
  forall (e : env) (ke : keyenv) (A : assets) (se : senv) (f : fill),
  linked ke A se f -> ksort_ok ke -> (forall kbs, e_sigok e kbs [] = false) ->
  forall (mall rhs : bool) (m : ms) (t : ty),
    type_of m = ROk t -> c_base (t_corr t) = BB -> no_multi m ->
  forall bs, satisfy ke se f mall rhs m = Some bs ->
    assets_ok (with_sv e SvBase) ke A -> wf (with_sv e SvBase) ke m -> ms_wf Legacy ke m ->
    Forall is_bytes bs -> is_bytes (encode ke m) ->
  forall ss, witness_to_scriptsig (bs ++ [encode ke m]) = Some ss ->
    blen (serialize ss) <= 1650 -> count_nonpush_ops (enc ke m) <= 201 ->
    verify_sh e (e_hash160 e (encode ke m)) (serialize ss) [] = true.
Proof. exact sh_spends. Qed.
Print Assumptions C01_sh_descriptor_spends.

(* P2SH-P2WSH: sh(wsh(ms)). scriptSig = the push of the witness program (Sh::unsigned_script_sig),
   witness as for P2WSH. *)
Theorem C01_shwsh_descriptor_spends :
  forall (e : env) (ke : keyenv) (A : assets) (se : senv) (f : fill),
  linked ke A se f -> ksort_ok ke -> (forall kbs, e_sigok e kbs [] = false) ->
  forall (mall rhs : bool) (m : ms) (t : ty),
    type_of m = ROk t -> c_base (t_corr t) = BB -> no_multi m ->
  forall bs, satisfy ke se f mall rhs m = Some bs ->
    assets_ok (with_sv e SvWitnessV0) ke A -> wf (with_sv e SvWitnessV0) ke m -> ms_wf Segwitv0 ke m ->
    blen (e_sha256 e (encode ke m)) = 32 ->
    blen (encode ke m) <= 3600 -> N.of_nat (length bs) <= 100 ->
    forallb (fun it => N.leb (blen it) 80) (rev bs) = true ->
    count_nonpush_ops (enc ke m) <= 201 ->
    verify_sh e (e_hash160 e (spk_wsh e (encode ke m))) (ssig_shwsh e (encode ke m)) (bs ++ [encode ke m]) = true.
Proof. exact shwsh_spends. Qed.
Print Assumptions C01_shwsh_descriptor_spends.

(* bare: scriptPubKey = the script, scriptSig = witness_to_scriptsig items, empty witness *)
Theorem C01_bare_descriptor_spends :
  forall (e : env) (ke : keyenv) (A : assets) (se : senv) (f : fill),
  linked ke A se f -> ksort_ok ke -> (forall kbs, e_sigok e kbs [] = false) ->
  forall (mall rhs : bool) (m : ms) (t : ty),
    type_of m = ROk t -> c_base (t_corr t) = BB -> no_multi m ->
  forall bs, satisfy ke se f mall rhs m = Some bs ->
    assets_ok (with_sv e SvBase) ke A -> wf (with_sv e SvBase) ke m -> ms_wf Bare ke m ->
    Forall is_bytes bs ->
  forall ss, witness_to_scriptsig bs = Some ss ->
    blen (serialize ss) <= 1650 -> blen (encode ke m) <= 10000 -> count_nonpush_ops (enc ke m) <= 201 ->
    verify_bare e (encode ke m) (serialize ss) [] = true.
Proof. exact bare_spends. Qed.
Print Assumptions C01_bare_descriptor_spends.

(* P2TR script path: witness = items ++ [leaf script; control block], tapscript signature version.
   [commit_ok] is the oracle for the BIP341 commitment of (leaf script, control block) to the output
   key (C15 models it).  Holds for every satisfier environment, in particular se_tap se = true (the
   example below uses it); [wf] under SvTapscript allows multi_a and forbids multi. *)
Theorem C01_tr_descriptor_spends :
  forall (e : env) (ke : keyenv) (A : assets) (se : senv) (f : fill),
  linked ke A se f -> ksort_ok ke -> (forall kbs, e_sigok e kbs [] = false) ->
  forall (mall rhs : bool) (m : ms) (t : ty),
    type_of m = ROk t -> c_base (t_corr t) = BB -> no_multi m ->
  forall bs, satisfy ke se f mall rhs m = Some bs ->
  forall (commit_ok : bytes -> bytes -> bool) (outkey cb : bytes),
    assets_ok (with_sv e SvTapscript) ke A -> wf (with_sv e SvTapscript) ke m -> ms_wf Tap ke m ->
    commit_ok (encode ke m) cb = true -> not_annex cb ->
    N.of_nat (length bs) <= 1000 -> forallb (fun it => N.leb (blen it) 520) (rev bs) = true ->
    verify_tr e outkey commit_ok [] (bs ++ [encode ke m; cb]) = true.
Proof. exact tr_spends. Qed.
Print Assumptions C01_tr_descriptor_spends.

(* ---- the same through the dispatcher: verify_spend on the scriptPubKey of each output type ---- *)
Theorem C01_wsh_spend_dispatch :
  forall (e : env) (ke : keyenv) (A : assets) (se : senv) (f : fill),
  linked ke A se f -> ksort_ok ke -> (forall kbs, e_sigok e kbs [] = false) ->
  forall (mall rhs : bool) (m : ms) (t : ty),
    type_of m = ROk t -> c_base (t_corr t) = BB -> no_multi m ->
  forall bs, satisfy ke se f mall rhs m = Some bs ->
  forall commit_ok : bytes -> bytes -> bool,
    assets_ok (with_sv e SvWitnessV0) ke A -> wf (with_sv e SvWitnessV0) ke m -> ms_wf Segwitv0 ke m ->
    blen (e_sha256 e (encode ke m)) = 32 ->
    blen (encode ke m) <= 3600 -> N.of_nat (length bs) <= 100 ->
    forallb (fun it => N.leb (blen it) 80) (rev bs) = true ->
    count_nonpush_ops (enc ke m) <= 201 ->
    verify_spend e commit_ok (spk_wsh e (encode ke m)) [] (bs ++ [encode ke m]) = true.
Proof. exact wsh_dispatch. Qed.
Print Assumptions C01_wsh_spend_dispatch.

Theorem C01_sh_spend_dispatch :
  forall (e : env) (ke : keyenv) (A : assets) (se : senv) (f : fill),
  linked ke A se f -> ksort_ok ke -> (forall kbs, e_sigok e kbs [] = false) ->
  forall (mall rhs : bool) (m : ms) (t : ty),
    type_of m = ROk t -> c_base (t_corr t) = BB -> no_multi m ->
  forall bs, satisfy ke se f mall rhs m = Some bs ->
  forall commit_ok : bytes -> bytes -> bool,
    assets_ok (with_sv e SvBase) ke A -> wf (with_sv e SvBase) ke m -> ms_wf Legacy ke m ->
    blen (e_hash160 e (encode ke m)) = 20 ->
    Forall is_bytes bs -> is_bytes (encode ke m) ->
  forall ss, witness_to_scriptsig (bs ++ [encode ke m]) = Some ss ->
    blen (serialize ss) <= 1650 -> count_nonpush_ops (enc ke m) <= 201 ->
    verify_spend e commit_ok (spk_sh e (encode ke m)) (serialize ss) [] = true.
Proof. exact sh_dispatch. Qed.
Print Assumptions C01_sh_spend_dispatch.

Theorem C01_shwsh_spend_dispatch :
  forall (e : env) (ke : keyenv) (A : assets) (se : senv) (f : fill),
  linked ke A se f -> ksort_ok ke -> (forall kbs, e_sigok e kbs [] = false) ->
  forall (mall rhs : bool) (m : ms) (t : ty),
    type_of m = ROk t -> c_base (t_corr t) = BB -> no_multi m ->
  forall bs, satisfy ke se f mall rhs m = Some bs ->
  forall commit_ok : bytes -> bytes -> bool,
    assets_ok (with_sv e SvWitnessV0) ke A -> wf (with_sv e SvWitnessV0) ke m -> ms_wf Segwitv0 ke m ->
    blen (e_sha256 e (encode ke m)) = 32 -> blen (e_hash160 e (spk_wsh e (encode ke m))) = 20 ->
    blen (encode ke m) <= 3600 -> N.of_nat (length bs) <= 100 ->
    forallb (fun it => N.leb (blen it) 80) (rev bs) = true ->
    count_nonpush_ops (enc ke m) <= 201 ->
    verify_spend e commit_ok (spk_shwsh e (encode ke m)) (ssig_shwsh e (encode ke m)) (bs ++ [encode ke m]) = true.
Proof. exact shwsh_dispatch. Qed.
Print Assumptions C01_shwsh_spend_dispatch.

(* bare: that the dispatcher does not take the script for a P2SH / witness-program / taproot
   template is DERIVED (no encoding starts with OP_HASH160; the others leave two elements) *)
Theorem C01_bare_spend_dispatch :
  forall (e : env) (ke : keyenv) (A : assets) (se : senv) (f : fill),
  linked ke A se f -> ksort_ok ke -> (forall kbs, e_sigok e kbs [] = false) ->
  forall (mall rhs : bool) (m : ms) (t : ty),
    type_of m = ROk t -> c_base (t_corr t) = BB -> no_multi m ->
  forall bs, satisfy ke se f mall rhs m = Some bs ->
  forall commit_ok : bytes -> bytes -> bool,
    assets_ok (with_sv e SvBase) ke A -> wf (with_sv e SvBase) ke m -> ms_wf Bare ke m ->
    Forall is_bytes bs ->
  forall ss, witness_to_scriptsig bs = Some ss ->
    blen (serialize ss) <= 1650 -> blen (encode ke m) <= 10000 -> count_nonpush_ops (enc ke m) <= 201 ->
    verify_spend e commit_ok (spk_bare (encode ke m)) (serialize ss) [] = true.
Proof. exact bare_dispatch. Qed.
Print Assumptions C01_bare_spend_dispatch.

Theorem C01_tr_spend_dispatch :
  forall (e : env) (ke : keyenv) (A : assets) (se : senv) (f : fill),
  linked ke A se f -> ksort_ok ke -> (forall kbs, e_sigok e kbs [] = false) ->
  forall (mall rhs : bool) (m : ms) (t : ty),
    type_of m = ROk t -> c_base (t_corr t) = BB -> no_multi m ->
  forall bs, satisfy ke se f mall rhs m = Some bs ->
  forall (commit_ok : bytes -> bytes -> bool) (outkey cb : bytes),
    assets_ok (with_sv e SvTapscript) ke A -> wf (with_sv e SvTapscript) ke m -> ms_wf Tap ke m ->
    blen outkey = 32 ->
    commit_ok (encode ke m) cb = true -> not_annex cb ->
    N.of_nat (length bs) <= 1000 -> forallb (fun it => N.leb (blen it) 520) (rev bs) = true ->
    verify_spend e commit_ok (spk_tr outkey) [] (bs ++ [encode ke m; cb]) = true.
Proof. exact tr_dispatch. Qed.
Print Assumptions C01_tr_spend_dispatch.

(* ---- key-only output types (not miniscripts): witness [signature; key] ---- *)
Theorem C01_wpkh_spends :
  forall (e : env) (k sg : bytes), blen k = 33 ->
    e_keyok (with_sv e SvWitnessV0) k = true -> e_sigok e k sg = true -> sg <> [] ->
    verify_wpkh e (e_hash160 e k) [sg; k] = true.
Proof. exact wpkh_spends. Qed.
Print Assumptions C01_wpkh_spends.

Theorem C01_wpkh_spend_dispatch :
  forall (e : env) (commit_ok : bytes -> bytes -> bool) (k sg : bytes),
    blen k = 33 -> blen (e_hash160 e k) = 20 ->
    e_keyok (with_sv e SvWitnessV0) k = true -> e_sigok e k sg = true -> sg <> [] ->
    verify_spend e commit_ok (spk_wpkh e k) [] [sg; k] = true.
Proof. exact wpkh_dispatch. Qed.
Print Assumptions C01_wpkh_spend_dispatch.

Theorem C01_shwpkh_spends :
  forall (e : env) (k sg : bytes), blen k = 33 -> blen (e_hash160 e k) = 20 ->
    e_keyok (with_sv e SvWitnessV0) k = true -> e_sigok e k sg = true -> sg <> [] ->
    verify_sh e (e_hash160 e (spk_wpkh e k)) (ssig_shwpkh e k) [sg; k] = true.
Proof. exact shwpkh_spends. Qed.
Print Assumptions C01_shwpkh_spends.

Theorem C01_shwpkh_spend_dispatch :
  forall (e : env) (commit_ok : bytes -> bytes -> bool) (k sg : bytes),
    blen k = 33 -> blen (e_hash160 e k) = 20 -> blen (e_hash160 e (spk_wpkh e k)) = 20 ->
    e_keyok (with_sv e SvWitnessV0) k = true -> e_sigok e k sg = true -> sg <> [] ->
    verify_spend e commit_ok (spk_shwpkh e k) (ssig_shwpkh e k) [sg; k] = true.
Proof. exact shwpkh_dispatch. Qed.
Print Assumptions C01_shwpkh_spend_dispatch.

(* pkh(K): Pkh::get_satisfaction builds scriptSig = push_slice(sig) push_key(K) (plain data pushes,
   not witness_to_scriptsig), scriptPubKey = new_p2pkh(hash160 K).  Spend.v has no P2PKH branch and
   needs none: DUP HASH160 <h> EQUALVERIFY CHECKSIG is an ordinary script, validated by verify_bare,
   and the dispatcher falls through its four templates (first byte OP_DUP).  Any key length >= 2,
   in particular 33 (compressed) and 65 (uncompressed); which encodings are acceptable is e_keyok's
   business.  [2 <= blen sg] makes the signature push minimal (real ECDSA signatures: 9..73 bytes). *)
Theorem C01_pkh_spends :
  forall (e : env) (k sg : bytes), blen (e_hash160 e k) = 20 ->
    e_keyok (with_sv e SvBase) k = true -> e_sigok e k sg = true ->
    2 <= blen sg -> 2 <= blen k -> blen (ssig_pkh sg k) <= 1650 ->
    verify_bare e (spk_pkh e k) (ssig_pkh sg k) [] = true.
Proof. exact DescSpendKeyOnly.pkh_spends. Qed.
Print Assumptions C01_pkh_spends.

Theorem C01_pkh_spend_dispatch :
  forall (e : env) (commit_ok : bytes -> bytes -> bool) (k sg : bytes), blen (e_hash160 e k) = 20 ->
    e_keyok (with_sv e SvBase) k = true -> e_sigok e k sg = true ->
    2 <= blen sg -> 2 <= blen k -> blen (ssig_pkh sg k) <= 1650 ->
    verify_spend e commit_ok (spk_pkh e k) (ssig_pkh sg k) [] = true.
Proof. exact DescSpendKeyOnly.pkh_dispatch. Qed.
Print Assumptions C01_pkh_spend_dispatch.

(* taproot KEY PATH: witness = [signature], empty scriptSig; the signature is checked against the
   OUTPUT key.  Spend.v puts no length condition of its own on the signature: the 64-byte (default
   sighash) / 65-byte forms are part of what [e_sigok] accepts for tapscript-era keys. *)
Theorem C01_tr_keypath_spends :
  forall (e : env) (commit_ok : bytes -> bytes -> bool) (outkey sg : bytes),
    e_sigok e outkey sg = true ->
    verify_tr e outkey commit_ok [] (wit_tr_keypath sg) = true.
Proof. exact DescSpendKeyOnly.tr_keypath_spends. Qed.
Print Assumptions C01_tr_keypath_spends.

Theorem C01_tr_keypath_spend_dispatch :
  forall (e : env) (commit_ok : bytes -> bytes -> bool) (outkey sg : bytes),
    blen outkey = 32 -> e_sigok e outkey sg = true ->
    verify_spend e commit_ok (spk_tr outkey) [] (wit_tr_keypath sg) = true.
Proof. exact DescSpendKeyOnly.tr_keypath_dispatch. Qed.
Print Assumptions C01_tr_keypath_spend_dispatch.

(* the annex is not supported by Spend.v: [sig; annex] is rejected whatever the signature
   (the library never produces an annex) *)
Theorem C01_tr_keypath_annex_rejected :
  forall (e : env) (commit_ok : bytes -> bytes -> bool) (outkey sg a : bytes),
    verify_tr e outkey commit_ok [] [sg; 80 :: a] = false.
Proof. exact DescSpendKeyOnly.tr_keypath_annex_rejected. Qed.
Print Assumptions C01_tr_keypath_annex_rejected.

(* ---- non-vacuity, one per output type: a concrete world (Proofs/DescSpendExamples.v; script
   or_i(pk(K0),pk(K1)), satisfaction [sig; 01]) in which every hypothesis of the theorem holds, and
   in which verify_* and verify_spend are re-established by evaluation (vm_compute), independently
   of the theorems.  [common_hyps] is the conjunction of the hypotheses shared by all of them. *)
Import DescSpendExamples.
Example C01_wsh_nonvacuous :
  common_hyps ex_env SvWitnessV0 Segwitv0 ex_ke ex_A (ex_se false) (ex_f ex_ke) false true ex_m ex_bs /\
  blen (e_sha256 ex_env ex_sb) = 32 /\
  blen ex_sb <= 3600 /\ N.of_nat (length ex_bs) <= 100 /\ forallb (fun it => N.leb (blen it) 80) (rev ex_bs) = true /\
  count_nonpush_ops (enc ex_ke ex_m) <= 201 /\
  verify_wsh ex_env (e_sha256 ex_env ex_sb) (ex_bs ++ [ex_sb]) = true /\
  verify_spend ex_env ex_commit (spk_wsh ex_env ex_sb) [] (ex_bs ++ [ex_sb]) = true.
Proof. exact ex_wsh. Qed.

Example C01_sh_nonvacuous :
  common_hyps ex_env SvBase Legacy ex_ke ex_A (ex_se false) (ex_f ex_ke) false true ex_m ex_bs /\
  blen (e_hash160 ex_env ex_sb) = 20 /\
  Forall is_bytes ex_bs /\ is_bytes ex_sb /\
  witness_to_scriptsig (ex_bs ++ [ex_sb]) = Some [IPush ex_sig; INum 1; IPush ex_sb] /\
  blen (serialize ex_ss_sh) <= 1650 /\ count_nonpush_ops (enc ex_ke ex_m) <= 201 /\
  verify_sh ex_env (e_hash160 ex_env ex_sb) (serialize ex_ss_sh) [] = true /\
  verify_spend ex_env ex_commit (spk_sh ex_env ex_sb) (serialize ex_ss_sh) [] = true.
Proof. exact ex_sh. Qed.

(* in the same world the scriptSig made of plain DATA pushes (01 01 for the item 01 instead of
   OP_1) does not parse on the specification side (MINIMALDATA) and the spend is rejected:
   the OP_n forms of witness_to_scriptsig are load-bearing *)
Example C01_sh_plain_data_pushes_rejected :
  common_hyps ex_env SvBase Legacy ex_ke ex_A (ex_se false) (ex_f ex_ke) false true ex_m ex_bs /\
  Forall is_bytes ex_bs /\ is_bytes ex_sb /\
  blen (serialize (map IPush (ex_bs ++ [ex_sb]))) <= 1650 /\ count_nonpush_ops (enc ex_ke ex_m) <= 201 /\
  parse_script (serialize (map IPush (ex_bs ++ [ex_sb]))) = None /\
  verify_sh ex_env (e_hash160 ex_env ex_sb) (serialize (map IPush (ex_bs ++ [ex_sb]))) [] = false.
Proof. exact ex_sh_plain_pushes_rejected. Qed.

Example C01_shwsh_nonvacuous :
  common_hyps ex_env SvWitnessV0 Segwitv0 ex_ke ex_A (ex_se false) (ex_f ex_ke) false true ex_m ex_bs /\
  blen (e_sha256 ex_env ex_sb) = 32 /\ blen (e_hash160 ex_env (spk_wsh ex_env ex_sb)) = 20 /\
  blen ex_sb <= 3600 /\ N.of_nat (length ex_bs) <= 100 /\ forallb (fun it => N.leb (blen it) 80) (rev ex_bs) = true /\
  count_nonpush_ops (enc ex_ke ex_m) <= 201 /\
  verify_sh ex_env (e_hash160 ex_env (spk_wsh ex_env ex_sb)) (ssig_shwsh ex_env ex_sb) (ex_bs ++ [ex_sb]) = true /\
  verify_spend ex_env ex_commit (spk_shwsh ex_env ex_sb) (ssig_shwsh ex_env ex_sb) (ex_bs ++ [ex_sb]) = true.
Proof. exact ex_shwsh. Qed.

Example C01_bare_nonvacuous :
  common_hyps ex_env SvBase Bare ex_ke ex_A (ex_se false) (ex_f ex_ke) false true ex_m ex_bs /\
  Forall is_bytes ex_bs /\
  witness_to_scriptsig ex_bs = Some [IPush ex_sig; INum 1] /\
  blen (serialize ex_ss_bare) <= 1650 /\ blen ex_sb <= 10000 /\ count_nonpush_ops (enc ex_ke ex_m) <= 201 /\
  verify_bare ex_env ex_sb (serialize ex_ss_bare) [] = true /\
  verify_spend ex_env ex_commit (spk_bare ex_sb) (serialize ex_ss_bare) [] = true.
Proof. exact ex_bare. Qed.

Example C01_tr_nonvacuous :
  se_tap (ex_se true) = true /\
  common_hyps ex_env SvTapscript Tap ex_ke_tap ex_A (ex_se true) (ex_f ex_ke_tap) false true ex_m ex_bs /\
  blen ex_outkey = 32 /\ ex_commit ex_sb_tap ex_cb = true /\ not_annex ex_cb /\
  N.of_nat (length ex_bs) <= 1000 /\ forallb (fun it => N.leb (blen it) 520) (rev ex_bs) = true /\
  verify_tr ex_env ex_outkey ex_commit [] (ex_bs ++ [ex_sb_tap; ex_cb]) = true /\
  verify_spend ex_env ex_commit (spk_tr ex_outkey) [] (ex_bs ++ [ex_sb_tap; ex_cb]) = true.
Proof. exact ex_tr. Qed.

Example C01_wpkh_nonvacuous :
  blen ex_key = 33 /\ blen (e_hash160 ex_env ex_key) = 20 /\ blen (e_hash160 ex_env (spk_wpkh ex_env ex_key)) = 20 /\
  e_keyok (with_sv ex_env SvWitnessV0) ex_key = true /\ e_sigok ex_env ex_key ex_sig = true /\ ex_sig <> [] /\
  verify_spend ex_env ex_commit (spk_wpkh ex_env ex_key) [] [ex_sig; ex_key] = true /\
  verify_spend ex_env ex_commit (spk_shwpkh ex_env ex_key) (ssig_shwpkh ex_env ex_key) [ex_sig; ex_key] = true.
Proof. exact ex_wpkh. Qed.

Example C01_pkh_nonvacuous :
  (blen ex_key = 33 /\ blen ex_key_unc = 65) /\
  blen (e_hash160 ex_env ex_key) = 20 /\ blen (e_hash160 ex_env ex_key_unc) = 20 /\
  e_keyok (with_sv ex_env SvBase) ex_key = true /\ e_keyok (with_sv ex_env SvBase) ex_key_unc = true /\
  e_sigok ex_env ex_key ex_sig = true /\ e_sigok ex_env ex_key_unc ex_sig = true /\
  2 <= blen ex_sig /\ blen (ssig_pkh ex_sig ex_key) <= 1650 /\ blen (ssig_pkh ex_sig ex_key_unc) <= 1650 /\
  verify_bare ex_env (spk_pkh ex_env ex_key) (ssig_pkh ex_sig ex_key) [] = true /\
  verify_spend ex_env ex_commit (spk_pkh ex_env ex_key) (ssig_pkh ex_sig ex_key) [] = true /\
  verify_spend ex_env ex_commit (spk_pkh ex_env ex_key_unc) (ssig_pkh ex_sig ex_key_unc) [] = true.
Proof. exact ex_pkh. Qed.

Example C01_tr_keypath_nonvacuous :
  blen ex_outkey = 32 /\ blen ex_sig64 = 64 /\ blen ex_sig65 = 65 /\
  e_sigok ex_env_tr ex_outkey ex_sig64 = true /\ e_sigok ex_env_tr ex_outkey ex_sig65 = true /\
  verify_tr ex_env_tr ex_outkey ex_commit [] (wit_tr_keypath ex_sig64) = true /\
  verify_spend ex_env_tr ex_commit (spk_tr ex_outkey) [] (wit_tr_keypath ex_sig64) = true /\
  verify_spend ex_env_tr ex_commit (spk_tr ex_outkey) [] (wit_tr_keypath ex_sig65) = true /\
  verify_spend ex_env_tr ex_commit (spk_tr ex_outkey) [] [ex_sig64; 80 :: [1; 2]] = false.
Proof. exact ex_tr_keypath. Qed.

(* non-vacuity: a concrete well-typed script with a non-empty table *)
Example C01_nonvacuous :
  type_of (MAndV (MVerify (MCheck (MPkK 0%N))) (MOlder 5%N)) <> RErr NonZeroDupIf /\
  exists t, type_of (MOrD (MCheck (MPkK 0%N)) (MAndV (MVerify (MCheck (MPkH 1%N))) (MOlder 5%N))) = ROk t
            /\ c_base (t_corr t) = BB.
Proof. split; [discriminate|]. eexists. split; reflexivity. Qed.
