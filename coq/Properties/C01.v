(* C01 — every satisfaction the library returns actually spends the output.
   Statements only.  What is proved here (for every fragment nesting, every stack below,
   every asset set, every transaction environment):
     * C01_table_sound: every entry of the specification's satisfaction table, executed by
       the Script semantics on the ENCODED fragment, succeeds and leaves exactly what the
       fragment's base type promises (B: one true value, 1 if unit; V: nothing; K: key above
       a verifying signature; W: the value next to the carried element), and every
       dissatisfaction entry leaves exactly 0.  raw_pk_h (which only arises from decoding) is not covered: [no_multi].
     * C01_witness_script_accepts: hence a table satisfaction of a B-typed script is accepted
       as a witness-script input: final stack exactly one true element.
   The link "the implementation's output is a table entry" is established per run (the
   driver checks membership and, independently, executes every returned witness), and the
   model of the satisfier (Ms/Sat.v) is compared with the implementation on every run.
   The script-number facts used (minimal encoding round-trips) are proved in ScriptNumProofs.v. *)
From Verif Require Import Exec Ser Ast Types TypeCheck SatSpec ExecLemmas TheoremA.

Theorem C01_table_sound_partial :
  forall (e : env) (ke : keyenv) (A : assets), assets_ok e ke A -> (forall kbs, e_sigok e kbs [] = false) ->
  forall (m : ms) (t : ty), type_of m = ROk t -> wf e ke m -> no_multi m ->
    good e ke A m t /\ shape ke A m t.
Proof. exact theoremA_closed. Qed.
Print Assumptions C01_table_sound_partial.

Theorem C01_witness_script_accepts_partial :
  forall (e : env) (ke : keyenv) (A : assets), assets_ok e ke A -> (forall kbs, e_sigok e kbs [] = false) ->
  forall (m : ms) (t : ty), type_of m = ROk t -> c_base (t_corr t) = BB -> wf e ke m -> no_multi m ->
  forall w, In w (all_sat ke A m) -> accepts e (enc ke m) w = true.
Proof. exact witness_script_accepts. Qed.
Print Assumptions C01_witness_script_accepts_partial.

(* non-vacuity: a concrete well-typed script with a non-empty table *)
Example C01_nonvacuous :
  type_of (MAndV (MVerify (MCheck (MPkK 0%N))) (MOlder 5%N)) <> RErr NonZeroDupIf /\
  exists t, type_of (MOrD (MCheck (MPkK 0%N)) (MAndV (MVerify (MCheck (MPkH 1%N))) (MOlder 5%N))) = ROk t
            /\ c_base (t_corr t) = BB.
Proof. split; [discriminate|]. eexists. split; reflexivity. Qed.
