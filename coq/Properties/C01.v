(* C01 — every satisfaction the library returns actually spends the output.
   Statements only.  What is proved here (for every fragment nesting, every stack below,
   every asset set, every transaction environment):
     * C01_table_sound: every entry of the specification's satisfaction table, executed by
       the Script semantics on the ENCODED fragment, succeeds and leaves exactly what the
       fragment's base type promises (B: one true value, 1 if unit; V: nothing; K: key above
       a verifying signature; W: the value next to the carried element), and every
       dissatisfaction entry leaves exactly 0.  raw_pk_h (which only arises from decoding) is not covered: [no_multi].
     * C01_witness_script_accepts: hence a table satisfaction of a B-typed script is accepted
       as a witness-script input: final stack exactly one true element.
     * C01_model_satisfier_spends: the Gallina model of the library's satisfier (sat_dissat,
       minimum, minimum_mall, thresh with its stable sort, multi, multi_a, both modes) only
       outputs table entries, so everything it returns is accepted.
   The model of the satisfier is compared with the implementation on every run, and
   independently every witness the implementation returns is executed.
   The script-number facts used (minimal encoding round-trips) are proved in ScriptNumProofs.v. *)
From Verif Require Import Exec Ser Spend Ast Types TypeCheck SatSpec Sat ExecLemmas TheoremA SatProofs.

Theorem C01_table_sound_partial :
  forall (e : env) (ke : keyenv) (A : assets), assets_ok e ke A -> (forall kbs, e_sigok e kbs [] = false) ->
  forall (m : ms) (t : ty), type_of m = ROk t -> wf e ke m -> no_multi m ->
    good e ke A m t /\ shape ke A m t.
Proof. exact theoremA_closed. Qed.
Print Assumptions C01_table_sound_partial.

Theorem C01_witness_script_accepts_partial :
  forall (e : env) (ke : keyenv) (A : assets), assets_ok e ke A -> (forall kbs, e_sigok e kbs [] = false) ->
  forall (m : ms) (t : ty), type_of m = ROk t -> c_base (t_corr t) = BB -> wf e ke m -> no_multi m ->
  forall w, In w (all_sat ke A m) -> accepts e (enc ke m) w = true.
Proof. exact witness_script_accepts. Qed.
Print Assumptions C01_witness_script_accepts_partial.

(* The model of the library's satisfier (Ms/Sat.v: both modes, every asset set) only returns
   table entries, hence: every satisfaction the MODEL returns for a B-typed script is accepted. *)
Theorem C01_model_satisfier_spends :
  forall (e : env) (ke : keyenv) (A : assets) (se : senv) (f : fill),
  linked ke A se f -> (forall ks, length (ksort ke ks) = length ks) ->
  assets_ok e ke A -> (forall kbs, e_sigok e kbs [] = false) ->
  forall (mall rhs : bool) (m : ms) (t : ty),
    type_of m = ROk t -> c_base (t_corr t) = BB -> wf e ke m -> no_multi m ->
    forall bs, satisfy ke se f mall rhs m = Some bs -> accepts e (enc ke m) (rev bs) = true.
Proof. exact model_satisfaction_spends. Qed.
Print Assumptions C01_model_satisfier_spends.

(* Descriptor level for P2WSH: the witness [items..., script] validates against the program
   sha256(script) under consensus + standardness rules, given that the serialised script parses
   back (C04's ser_parse) and that the size limits hold for this script and witness (C09). *)
Theorem C01_wsh_descriptor_spends :
  forall (e : env) (ke : keyenv) (A : assets) (se : senv) (f : fill),
  linked ke A se f -> (forall ks, length (ksort ke ks) = length ks) ->
  assets_ok (with_sv e SvWitnessV0) ke A -> (forall kbs, e_sigok e kbs [] = false) ->
  forall (mall rhs : bool) (m : ms) (t : ty),
    type_of m = ROk t -> c_base (t_corr t) = BB -> wf (with_sv e SvWitnessV0) ke m -> no_multi m ->
    forall bs, satisfy ke se f mall rhs m = Some bs ->
    let sb := serialize (enc ke m) in
    parse_script sb = Some (enc ke m) ->
    (blen sb <= 3600)%N -> (N.of_nat (length bs) <= 100)%N -> forallb (fun it => N.leb (blen it) 80) (rev bs) = true ->
    (count_nonpush_ops (enc ke m) <= 201)%N ->
    verify_wsh e (e_sha256 e sb) (bs ++ [sb]) = true.
Proof. exact model_wsh_spends. Qed.
Print Assumptions C01_wsh_descriptor_spends.

(* non-vacuity: a concrete well-typed script with a non-empty table *)
Example C01_nonvacuous :
  type_of (MAndV (MVerify (MCheck (MPkK 0%N))) (MOlder 5%N)) <> RErr NonZeroDupIf /\
  exists t, type_of (MOrD (MCheck (MPkK 0%N)) (MAndV (MVerify (MCheck (MPkH 1%N))) (MOlder 5%N))) = ROk t
            /\ c_base (t_corr t) = BB.
Proof. split; [discriminate|]. eexists. split; reflexivity. Qed.
