(* C20 (closing open items of the extension) — statements only; every proof is `exact <lemma>`.

   (B) Proofs/TranslateDescNamed.v: the descriptor-level failure theorem NAMES the responsible site.
       `names_node fp fhp chk kk d e`: the failure e of `translate_desc_h` on d is
         - `TranslatorErr i` with a key or hash of d (text order list `datoms d`) that the mapping does not map, or
         - `OuterErr c` and either a key the wrapper checks itself (`key_site d cx k`: the key of pkh / wpkh / sh(wpkh), the
           internal key of tr) whose image k' has `check_pk cx (kk k') = Some c`, or a script node s (`script_site d cx j m`:
           the script m of bare / sh / wsh / sh(wsh), or the j-th leaf of tr in tree order; `In s (subterms m)`) all of whose
           keys and hashes are mapped and whose substitution `from_ast` rejects in the wrapper's context with c. *)
From Coq Require Import Permutation.
From Verif Require Import TranslateModel TranslateProofs EqOrdProofs.
From Verif Require Import TranslatePolModel TranslateHashModel TranslateHashProofs TranslateHashDescProofs TranslateHashFailProofs
  TranslateDescNamed.

Local Open Scope N_scope.

Theorem C20_desc_h_fail_names_node : forall fp fhp chk kk d e,
  translate_desc_h (fun _ => fp) (fun _ => fhp) chk kk d = TErr e ->
  (exists i a, e = TranslatorErr i /\ In a (datoms d) /\ atom_ok fp fhp a = false) \/
  (exists c, e = OuterErr c /\
     ((exists cx k k', key_site d cx k /\ fp k = Some k' /\ check_pk cx (kk k') = Some c) \/
      (exists cx j m s, script_site d cx j m /\ In s (subterms m) /\
                        (forall a, In a (matoms_pre s) -> atom_ok fp fhp a = true) /\
                        chk cx (map_atoms (total fp) (total_h fhp) s) = Some c))).
Proof. exact desc_h_fail_names_node. Qed.
Print Assumptions C20_desc_h_fail_names_node.

(* the named form refines C20_desc_h_fail_only: a named key / node makes the substituted descriptor unacceptable *)
Theorem C20_desc_h_named_refines_fail_only : forall fp fhp chk kk d e,
  names_node fp fhp chk kk d e ->
  (exists a, In a (datoms d) /\ atom_ok fp fhp a = false) \/
  (exists c, e = OuterErr c /\ ~ desc_ok chk kk (dmap (total fp) (total_h fhp) d)).
Proof. exact names_node_not_ok. Qed.
Print Assumptions C20_desc_h_named_refines_fail_only.

(* non-vacuity: a tr descriptor with two leaves whose leaf 1 node pk_k(2) is mapped to an uncompressed key (named: leaf 1,
   node pk_k(2), Tap, CUncompressed); the internal key mapped to an uncompressed key; wsh with the node pk_k(5) inside and_v
   mapped to an x-only key; wpkh with its key mapped to an uncompressed key *)
Example C20_desc_h_named_nonvacuous :
  let kk := fun k => if N.eqb k 31 then KUncompressed else if N.eqb k 40 then KCompressed else KXOnly in
  let chk := fun c => from_ast_chk c kk (fun _ => None) (fun _ => None) in
  let d := DTr 0 [(1, MAndV (MVerify (MSha256 [1])) (MCheck (MPkK 1))); (1, MCheck (MPkK 2))]%N in
  translate_desc_h (fun _ k => Some (if N.eqb k 2 then 31 else k)%N) (fun _ _ h => Some h) chk kk d = TErr (OuterErr CUncompressed) /\
  script_site d Tap (Some 1%nat) (MCheck (MPkK 2)) /\ In (MPkK 2) (subterms (MCheck (MPkK 2))) /\
  chk Tap (MPkK 31) = Some CUncompressed /\
  translate_desc_h (fun _ k => Some (if N.eqb k 0 then 31 else k)%N) (fun _ _ h => Some h) chk kk d = TErr (OuterErr CUncompressed) /\
  key_site d Tap 0%N /\ check_pk Tap (kk 31%N) = Some CUncompressed /\
  translate_desc_h (fun _ k => Some (k + 1)%N) (fun _ _ h => Some h) chk kk (DWsh (MAndV (MVerify (MCheck (MPkK 39))) (MCheck (MPkK 5))))
    = TErr (OuterErr CXOnly) /\
  chk Segwitv0 (MPkK 6) = Some CXOnly /\
  translate_desc_h (fun _ k => Some 31%N) (fun _ _ h => Some h) chk kk (DWpkh 40) = TErr (OuterErr CUncompressed).
Proof. exact desc_named_examples. Qed.
