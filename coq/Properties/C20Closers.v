(* C20 (closing open items of the extension) — statements only; every proof is `exact <lemma>`.

   (B) Proofs/TranslateDescNamed.v: the descriptor-level failure theorem NAMES the responsible site.
       `names_node fp fhp chk kk d e`: the failure e of `translate_desc_h` on d is
         - `TranslatorErr i` with a key or hash of d (text order list `datoms d`) that the mapping does not map, or
         - `OuterErr c` and either a key the wrapper checks itself (`key_site d cx k`: the key of pkh / wpkh / sh(wpkh), the
           internal key of tr) whose image k' has `check_pk cx (kk k') = Some c`, or a script node s (`script_site d cx j m`:
           the script m of bare / sh / wsh / sh(wsh), or the j-th leaf of tr in tree order; `In s (subterms m)`) all of whose
           keys and hashes are mapped and whose substitution `from_ast` rejects in the wrapper's context with c. *)
From Coq Require Import Permutation.
From Verif Require Import TranslateModel TranslateProofs EqOrdProofs.
From Verif Require Import TranslatePolModel TranslateHashModel TranslateHashProofs TranslateHashDescProofs TranslateHashFailProofs
  TranslateDescNamed.

Local Open Scope N_scope.

Theorem C20_desc_h_fail_names_node : forall fp fhp chk kk d e,
  translate_desc_h (fun _ => fp) (fun _ => fhp) chk kk d = TErr e ->
  (exists i a, e = TranslatorErr i /\ In a (datoms d) /\ atom_ok fp fhp a = false) \/
  (exists c, e = OuterErr c /\
     ((exists cx k k', key_site d cx k /\ fp k = Some k' /\ check_pk cx (kk k') = Some c) \/
      (exists cx j m s, script_site d cx j m /\ In s (subterms m) /\
                        (forall a, In a (matoms_pre s) -> atom_ok fp fhp a = true) /\
                        chk cx (map_atoms (total fp) (total_h fhp) s) = Some c))).
Proof. exact desc_h_fail_names_node. Qed.
Print Assumptions C20_desc_h_fail_names_node.

(* the named form refines C20_desc_h_fail_only: a named key / node makes the substituted descriptor unacceptable *)
Theorem C20_desc_h_named_refines_fail_only : forall fp fhp chk kk d e,
  names_node fp fhp chk kk d e ->
  (exists a, In a (datoms d) /\ atom_ok fp fhp a = false) \/
  (exists c, e = OuterErr c /\ ~ desc_ok chk kk (dmap (total fp) (total_h fhp) d)).
Proof. exact names_node_not_ok. Qed.
Print Assumptions C20_desc_h_named_refines_fail_only.

(* non-vacuity: a tr descriptor with two leaves whose leaf 1 node pk_k(2) is mapped to an uncompressed key (named: leaf 1,
   node pk_k(2), Tap, CUncompressed); the internal key mapped to an uncompressed key; wsh with the node pk_k(5) inside and_v
   mapped to an x-only key; wpkh with its key mapped to an uncompressed key *)
Example C20_desc_h_named_nonvacuous :
  let kk := fun k => if N.eqb k 31 then KUncompressed else if N.eqb k 40 then KCompressed else KXOnly in
  let chk := fun c => from_ast_chk c kk (fun _ => None) (fun _ => None) in
  let d := DTr 0 [(1, MAndV (MVerify (MSha256 [1])) (MCheck (MPkK 1))); (1, MCheck (MPkK 2))]%N in
  translate_desc_h (fun _ k => Some (if N.eqb k 2 then 31 else k)%N) (fun _ _ h => Some h) chk kk d = TErr (OuterErr CUncompressed) /\
  script_site d Tap (Some 1%nat) (MCheck (MPkK 2)) /\ In (MPkK 2) (subterms (MCheck (MPkK 2))) /\
  chk Tap (MPkK 31) = Some CUncompressed /\
  translate_desc_h (fun _ k => Some (if N.eqb k 0 then 31 else k)%N) (fun _ _ h => Some h) chk kk d = TErr (OuterErr CUncompressed) /\
  key_site d Tap 0%N /\ check_pk Tap (kk 31%N) = Some CUncompressed /\
  translate_desc_h (fun _ k => Some (k + 1)%N) (fun _ _ h => Some h) chk kk (DWsh (MAndV (MVerify (MCheck (MPkK 39))) (MCheck (MPkK 5))))
    = TErr (OuterErr CXOnly) /\
  chk Segwitv0 (MPkK 6) = Some CXOnly /\
  translate_desc_h (fun _ k => Some 31%N) (fun _ _ h => Some h) chk kk (DWpkh 40) = TErr (OuterErr CUncompressed).
Proof. exact desc_named_examples. Qed.

(* ==================================================================================================================
   (C) Script preservation as a byte-level rewrite of the ORIGINAL script (Ms/ScriptRewrite.v, Proofs/TranslateBytes.v).
   [rw s l]: the i-th data push of the structured script s (serialisation order, IF branches included) gets the payload
   [nth i l] when that is [Some b'], and stays when it is [None]; nothing else changes.  [pslots m]: for every data push of
   [enc ke m], in order, [None] for a number / empty push and [Some a] for the push of the atom a of m (key bytes, key hash,
   hash) -- a function of m alone.  [slots ke' g gh m] = the images of those atoms.  [rewrite_bytes b l] parses the
   serialised script b, rewrites, serialises.
   sortedmulti / sortedmulti_a are EXCLUDED ([no_sorted m]): their pushes are ordered by the serialised keys, so the position
   of a key's push is not a function of the term (C20_bytes_sorted_excluded below shows the statement fails for them); for
   those C20_tr_structure_script / C20_trh_structure_script (under the sort hypothesis on the key environments) remain. *)
From Verif Require Import CodecSpec ScriptRewrite TranslateBytes.
Import ListNotations.

(* enc commutes with the substitution of keys and hashes; no hypothesis on the key environments *)
Theorem C20_enc_commutes_with_subst : forall (ke ke' : keyenv) g gh m, no_sorted m = true ->
  rw (enc ke m) (slots ke' g gh m) = (enc ke' (map_atoms g gh m), []).
Proof. exact enc_map_atoms_rewrite. Qed.
Print Assumptions C20_enc_commutes_with_subst.

(* the designated positions are where the original atoms are pushed: rewriting with the original atoms is the identity *)
Theorem C20_rewrite_with_original_atoms_id : forall ke m, no_sorted m = true ->
  rw (enc ke m) (slots ke (fun k => k) (fun _ h => h) m) = (enc ke m, []).
Proof. exact rw_original_id. Qed.
Print Assumptions C20_rewrite_with_original_atoms_id.

(* byte level: the serialised script of the substituted term is the original serialised script with each key push /
   key-hash push / hash push replaced by the image's ([ms_wf]: C09's well-formedness, under which the script parses) *)
Theorem C20_script_bytes_rewrite : forall c ke ke' g gh m, ksort_ok ke -> ms_wf c ke m -> no_sorted m = true ->
  rewrite_bytes (encode ke m) (slots ke' g gh m) = Some (encode ke' (map_atoms g gh m)).
Proof. exact encode_map_atoms_rewrite. Qed.
Print Assumptions C20_script_bytes_rewrite.

(* ... and for translate_pk_ctx as coded (hash translation included) *)
Theorem C20_translate_script_bytes : forall c ke ke' fp fhp chk m m', ksort_ok ke -> ms_wf c ke m -> no_sorted m = true ->
  translate_iter_h (fun _ => fp) (fun _ => fhp) chk m = TOk m' ->
  rewrite_bytes (encode ke m) (slots ke' (total fp) (total_h fhp) m) = Some (encode ke' m').
Proof. exact translate_bytes. Qed.
Print Assumptions C20_translate_script_bytes.

(* non-vacuity: and_v(v:sha256(H),andor(pk(1),pkh(2),older(100))) under 33-byte keys; the five data pushes are
   [32] (number), H, key 1, [100] (number), hash160 of key 2; keys +10 in another environment, first hash byte changed *)
Definition cl_ke : keyenv := mkKeyEnv (fun k => 2 :: repeat k 32) (fun k => repeat k 20) (fun l => l).
Definition cl_ke' : keyenv := mkKeyEnv (fun k => 3 :: repeat k 32) (fun k => repeat (k + 100) 20) (fun l => rev l).
Definition cl_m : ms := MAndV (MVerify (MSha256 (repeat 1 32))) (MAndOr (MCheck (MPkK 1)) (MCheck (MPkH 2)) (MOlder 100)).
Example C20_bytes_nonvacuous :
  let g := fun k => k + 10 in
  let gh := fun (_ : hkind) (h : bytes) => match h with [] => [] | x :: r => (x + 1) :: r end in
  no_sorted cl_m = true /\
  pslots cl_m = [None; Some (PHash HSha256 (repeat 1 32)); Some (PKb 1); None; Some (PKh 2)] /\
  rewrite_bytes (encode cl_ke cl_m) (slots cl_ke' g gh cl_m) = Some (encode cl_ke' (map_atoms g gh cl_m)) /\
  encode cl_ke' (map_atoms g gh cl_m) <> encode cl_ke cl_m /\
  N.of_nat (length (encode cl_ke cl_m)) = 105.
Proof. cbv zeta. repeat split; try (vm_compute; reflexivity). vm_compute. discriminate. Qed.

(* why sortedmulti is excluded: the target environment sorts the two mapped keys the other way round, and the encoding of
   the translated term is NOT the positional rewrite of the original *)
Example C20_bytes_sorted_excluded :
  let m := MSortedMulti 1 [1; 2] in
  let g := fun k => k + 10 in
  no_sorted m = false /\
  fst (rw (enc cl_ke m) [Some (kb cl_ke' (g 1)); Some (kb cl_ke' (g 2))]) <> enc cl_ke' (map_atoms g (fun _ h => h) m).
Proof. cbv zeta. split; [reflexivity|]. vm_compute. discriminate. Qed.

(* ==================================================================================================================
   (B, second part) translate_pk with MULTIPATH target keys (Ms/TranslateMpModel.v, Proofs/TranslateMpProofs.v; found by the
   translate-mp stage): Tr::translate_pk goes through Tr::new, which re-runs the per-leaf top-level checks (base type B,
   multipath lengths), Wsh / Sh / Bare ::translate_pk do not.  [np k] = number of derivation paths of the target key k. *)
From Verif Require Import TranslateMpModel TranslateMpProofs.

(* without multipath target keys the extended model is translate_desc_h: the theorems of Properties/C20.v carry over *)
Theorem C20_desc_mp_agrees : forall fp fhp chk kk np d d', (forall k, np k <= 1) ->
  (forall ik ls, d = DTr ik ls -> forallb (fun l => base_is_b (snd l)) ls = true) ->
  translate_desc_h (fun _ => fp) (fun _ => fhp) chk kk d = TOk d' ->
  translate_desc_mp (fun _ => fp) (fun _ => fhp) chk kk np d = MpOk d'.
Proof. exact desc_mp_agrees. Qed.
Print Assumptions C20_desc_mp_agrees.

(* every failure named, multipath included: either what C20_desc_h_fail_names_node names, or (tr only) the j-th leaf, every
   key and hash of the descriptor being mapped, whose substitution mixes multipath lengths (or whose base type is not B) *)
Theorem C20_desc_mp_fail_names_node : forall fp fhp chk kk np d e,
  translate_desc_mp (fun _ => fp) (fun _ => fhp) chk kk np d = MpErr e ->
  (exists e0, e = MpT e0 /\ names_node fp fhp chk kk d e0) \/
  (exists ik ls j dep m, d = DTr ik ls /\ nth_error ls j = Some (dep, m) /\
      (forall a, In a (datoms d) -> atom_ok fp fhp a = true) /\
      ((e = MpLenMismatch /\ mp_mismatch np (map_atoms (total fp) (total_h fhp) m) = true) \/
       (e = MpNonBase /\ base_is_b m = false))).
Proof. exact desc_mp_fail_names. Qed.
Print Assumptions C20_desc_mp_fail_names_node.

(* ... and a length mismatch names two keys of that script: "a mapped key is illegal in the context" of the other one *)
Theorem C20_mp_mismatch_names_keys : forall np m, mp_mismatch np m = true ->
  exists k1 k2, In k1 (keys_pre m) /\ In k2 (keys_pre m) /\ 1 < np k1 /\ 1 < np k2 /\ np k1 <> np k2.
Proof. exact mp_mismatch_two_keys. Qed.
Print Assumptions C20_mp_mismatch_names_keys.

(* the wrappers disagree (model; confirmed on the real code by the translate-mp stage): keys 0,1 -> 10 (2 paths), 11 (3 paths)
   in ONE script: wsh and sh return a descriptor that the constructor's own top-level check rejects, tr refuses; lengths that
   differ only between the internal key and a leaf are accepted by tr *)
Example C20_mp_wrappers_disagree :
  let np := fun k : key => if N.eqb k 10 then 2 else if N.eqb k 11 then 3 else 1 in
  let kk := fun _ : key => KCompressed in
  let kkx := fun _ : key => KXOnly in
  let chk := fun kk c => from_ast_chk c kk (fun _ => None) (fun _ => None) in
  let body := MAndV (MVerify (MCheck (MPkK 0))) (MCheck (MPkK 1)) in
  let body' := MAndV (MVerify (MCheck (MPkK 10))) (MCheck (MPkK 11)) in
  let fpm := fun (_ : N) (k : key) => Some (k + 10) in
  let fhm := fun (_ : N) (_ : hkind) (h : bytes) => Some h in
  translate_desc_mp fpm fhm (chk kk) kk np (DWsh body) = MpOk (DWsh body') /\
  ctor_top np (DWsh body') = Some MpLenMismatch /\
  translate_desc_mp fpm fhm (chk kk) kk np (DSh body) = MpOk (DSh body') /\
  translate_desc_mp fpm fhm (chk kkx) kkx np (DTr 5 [(0, body)]) = MpErr MpLenMismatch /\
  translate_desc_mp fpm fhm (chk kkx) kkx np (DTr 0 [(0, MCheck (MPkK 1))]) = MpOk (DTr 10 [(0, MCheck (MPkK 11))]).
Proof. exact translate_mp_examples. Qed.
