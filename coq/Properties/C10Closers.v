(* C10 (closing an open item of Part D) — the depth hypothesis of C10_ms_text_fixpoint is derived
   from the accepted input.  Statements only; every proof is `exact <lemma>` (Proofs/MsTextDepth.v).

   The expression parser refuses more than MAX_RECURSION_DEPTH = 402 nested parentheses, so the tree
   it hands to `Miniscript::from_tree` is within the limit; the tree `Display` writes for the parsed
   AST is never deeper than the parsed one: the sugar `pk(K)`/`pkh(K)` has the depth of `c:pk_k(K)`,
   `t:X`/`l:X`/`u:X` are SHALLOWER than `and_v(X,1)`/`or_i(0,X)`/`or_i(X,0)`, `and_n(X,Y)` has the
   depth of `andor(X,Y,0)`, wrapper characters go into the name in front of the ':'.  Keys, hashes
   and `from_ast` are parameters as in Properties/C10.v. *)
From Coq Require Import List Arith NArith.
From Verif Require Import ChecksumModel ExprTreeModel MsTextModel MsTextProofs MsTextCompose MsTextDepth.
Import ListNotations.
Local Open Scope N_scope.

(* whatever tree from_tree accepts (any spelling, malformed or not), the printed tree of the result is
   not deeper; no hypothesis on the key / hash printers or on from_ast *)
Theorem C10_ms_print_not_deeper :
  forall (print_key : key -> tbytes) (parse_key : tbytes -> option key)
         (print_hash : hkind -> tbytes -> tbytes) (parse_hash : hkind -> tbytes -> option tbytes)
         (chk : ms -> bool) t m,
  from_tree parse_key parse_hash chk t = Ok m -> depth (to_tree print_key print_hash m) <= depth t.
Proof. exact from_tree_depth. Qed.
Print Assumptions C10_ms_print_not_deeper.

(* the depth hypothesis of C10_ms_text_roundtrip / C10_ms_text_fixpoint holds for every accepted text *)
Theorem C10_ms_accepted_depth :
  forall (print_key : key -> tbytes) (parse_key : tbytes -> option key)
         (print_hash : hkind -> tbytes -> tbytes) (parse_hash : hkind -> tbytes -> option tbytes)
         (chk : ms -> bool) s m,
  from_str_model parse_key parse_hash chk s = Ok m ->
  depth (to_tree print_key print_hash m) <= MAX_RECURSION_DEPTH.
Proof. exact accepted_depth. Qed.
Print Assumptions C10_ms_accepted_depth.

(* C10_ms_text_fixpoint without its depth hypothesis *)
Theorem C10_ms_text_fixpoint_unconditional :
  forall (print_key : key -> tbytes) (parse_key : tbytes -> option key)
         (print_hash : hkind -> tbytes -> tbytes) (parse_hash : hkind -> tbytes -> option tbytes)
         (chk : ms -> bool),
  (forall k, parse_key (print_key k) = Some k) ->
  (forall h b, parse_hash h (print_hash h b) = Some b) ->
  (forall k, forallb name_char (print_key k) = true) ->
  (forall h b, forallb name_char (print_hash h b) = true) ->
  forall s m, from_str_model parse_key parse_hash chk s = Ok m ->
  from_str_model parse_key parse_hash chk (ms_to_text print_key print_hash m) = Ok m /\
  (forall m', from_str_model parse_key parse_hash chk (ms_to_text print_key print_hash m) = Ok m' ->
              ms_to_text print_key print_hash m' = ms_to_text print_key print_hash m).
Proof. exact text_fixpoint_unconditional. Qed.
Print Assumptions C10_ms_text_fixpoint_unconditional.

(* non-vacuity: the instance of Properties/C10.v (decimal keys, unary hash bytes) satisfies the four
   hypotheses; the text "and_v(c:pk_k(1),1)" (expanded spelling, tree depth 2) is accepted, the result
   prints as "t:pk(1)" (tree depth 1: strictly shallower), which parses to the same AST; and a text
   whose printed form has the SAME depth ("or_b(pk(1),s:pk(2))", depth 2) *)
Definition cl_text1 : tbytes := [97;110;100;95;118;40;99;58;112;107;95;107;40;49;41;44;49;41].
Definition cl_ms1 : ms := MAndV (MCheck (MPkK 1)) MTrue.
Definition cl_text2 : tbytes := [111;114;95;98;40;112;107;40;49;41;44;115;58;112;107;40;50;41;41].
Definition cl_ms2 : ms := MOrB (MCheck (MPkK 1)) (MSwap (MCheck (MPkK 2))).
Example C10_closers_nonvacuous :
  (forall k, inst_parse_key (dec k) = Some k) /\
  (forall h b, inst_parse_hash h (inst_print_hash h b) = Some b) /\
  (forall k, forallb name_char (dec k) = true) /\
  (forall h b, forallb name_char (inst_print_hash h b) = true) /\
  from_str_model inst_parse_key inst_parse_hash (fun _ => true) cl_text1 = Ok cl_ms1 /\
  ms_to_text dec inst_print_hash cl_ms1 = [116;58;112;107;40;49;41] /\
  depth (to_tree dec inst_print_hash cl_ms1) = 1 /\
  from_str_model inst_parse_key inst_parse_hash (fun _ => true) (ms_to_text dec inst_print_hash cl_ms1) = Ok cl_ms1 /\
  from_str_model inst_parse_key inst_parse_hash (fun _ => true) cl_text2 = Ok cl_ms2 /\
  ms_to_text dec inst_print_hash cl_ms2 = cl_text2 /\
  depth (to_tree dec inst_print_hash cl_ms2) = 2.
Proof.
  split; [exact inst_key_rt|]. split; [exact inst_hash_rt|]. split; [exact dec_chars|].
  split; [exact inst_hash_chars|]. repeat split; vm_compute; reflexivity.
Qed.
