(* C10 (closing an open item of Part D) — the depth hypothesis of C10_ms_text_fixpoint is derived
   from the accepted input.  Statements only; every proof is `exact <lemma>` (Proofs/MsTextDepth.v).

   The expression parser refuses more than MAX_RECURSION_DEPTH = 402 nested parentheses, so the tree
   it hands to `Miniscript::from_tree` is within the limit; the tree `Display` writes for the parsed
   AST is never deeper than the parsed one: the sugar `pk(K)`/`pkh(K)` has the depth of `c:pk_k(K)`,
   `t:X`/`l:X`/`u:X` are SHALLOWER than `and_v(X,1)`/`or_i(0,X)`/`or_i(X,0)`, `and_n(X,Y)` has the
   depth of `andor(X,Y,0)`, wrapper characters go into the name in front of the ':'.  Keys, hashes
   and `from_ast` are parameters as in Properties/C10.v. *)
From Coq Require Import List Arith NArith.
From Verif Require Import ChecksumModel ExprTreeModel MsTextModel MsTextProofs MsTextCompose MsTextDepth.
Import ListNotations.
Local Open Scope N_scope.

(* whatever tree from_tree accepts (any spelling, malformed or not), the printed tree of the result is
   not deeper; no hypothesis on the key / hash printers or on from_ast *)
Theorem C10_ms_print_not_deeper :
  forall (print_key : key -> tbytes) (parse_key : tbytes -> option key)
         (print_hash : hkind -> tbytes -> tbytes) (parse_hash : hkind -> tbytes -> option tbytes)
         (chk : ms -> bool) t m,
  from_tree parse_key parse_hash chk t = Ok m -> depth (to_tree print_key print_hash m) <= depth t.
Proof. exact from_tree_depth. Qed.
Print Assumptions C10_ms_print_not_deeper.

(* the depth hypothesis of C10_ms_text_roundtrip / C10_ms_text_fixpoint holds for every accepted text *)
Theorem C10_ms_accepted_depth :
  forall (print_key : key -> tbytes) (parse_key : tbytes -> option key)
         (print_hash : hkind -> tbytes -> tbytes) (parse_hash : hkind -> tbytes -> option tbytes)
         (chk : ms -> bool) s m,
  from_str_model parse_key parse_hash chk s = Ok m ->
  depth (to_tree print_key print_hash m) <= MAX_RECURSION_DEPTH.
Proof. exact accepted_depth. Qed.
Print Assumptions C10_ms_accepted_depth.

(* C10_ms_text_fixpoint without its depth hypothesis *)
Theorem C10_ms_text_fixpoint_unconditional :
  forall (print_key : key -> tbytes) (parse_key : tbytes -> option key)
         (print_hash : hkind -> tbytes -> tbytes) (parse_hash : hkind -> tbytes -> option tbytes)
         (chk : ms -> bool),
  (forall k, parse_key (print_key k) = Some k) ->
  (forall h b, parse_hash h (print_hash h b) = Some b) ->
  (forall k, forallb name_char (print_key k) = true) ->
  (forall h b, forallb name_char (print_hash h b) = true) ->
  forall s m, from_str_model parse_key parse_hash chk s = Ok m ->
  from_str_model parse_key parse_hash chk (ms_to_text print_key print_hash m) = Ok m /\
  (forall m', from_str_model parse_key parse_hash chk (ms_to_text print_key print_hash m) = Ok m' ->
              ms_to_text print_key print_hash m' = ms_to_text print_key print_hash m).
Proof. exact text_fixpoint_unconditional. Qed.
Print Assumptions C10_ms_text_fixpoint_unconditional.

(* non-vacuity: the instance of Properties/C10.v (decimal keys, unary hash bytes) satisfies the four
   hypotheses; the text "and_v(c:pk_k(1),1)" (expanded spelling, tree depth 2) is accepted, the result
   prints as "t:pk(1)" (tree depth 1: strictly shallower), which parses to the same AST; and a text
   whose printed form has the SAME depth ("or_b(pk(1),s:pk(2))", depth 2) *)
Definition cl_text1 : tbytes := [97;110;100;95;118;40;99;58;112;107;95;107;40;49;41;44;49;41].
Definition cl_ms1 : ms := MAndV (MCheck (MPkK 1)) MTrue.
Definition cl_text2 : tbytes := [111;114;95;98;40;112;107;40;49;41;44;115;58;112;107;40;50;41;41].
Definition cl_ms2 : ms := MOrB (MCheck (MPkK 1)) (MSwap (MCheck (MPkK 2))).
Example C10_closers_nonvacuous :
  (forall k, inst_parse_key (dec k) = Some k) /\
  (forall h b, inst_parse_hash h (inst_print_hash h b) = Some b) /\
  (forall k, forallb name_char (dec k) = true) /\
  (forall h b, forallb name_char (inst_print_hash h b) = true) /\
  from_str_model inst_parse_key inst_parse_hash (fun _ => true) cl_text1 = Ok cl_ms1 /\
  ms_to_text dec inst_print_hash cl_ms1 = [116;58;112;107;40;49;41] /\
  depth (to_tree dec inst_print_hash cl_ms1) = 1 /\
  from_str_model inst_parse_key inst_parse_hash (fun _ => true) (ms_to_text dec inst_print_hash cl_ms1) = Ok cl_ms1 /\
  from_str_model inst_parse_key inst_parse_hash (fun _ => true) cl_text2 = Ok cl_ms2 /\
  ms_to_text dec inst_print_hash cl_ms2 = cl_text2 /\
  depth (to_tree dec inst_print_hash cl_ms2) = 2.
Proof.
  split; [exact inst_key_rt|]. split; [exact inst_hash_rt|]. split; [exact dec_chars|].
  split; [exact inst_hash_chars|]. repeat split; vm_compute; reflexivity.
Qed.

(* ==================================================================================================================
   Policies (Ms/PolTextModel.v; proofs Proofs/PolTextDepth.v): the depth premise of C10_pol_sem_text_fixpoint /
   C10_pol_conc_text_fixpoint (Properties/C10PolText.v) derived from the accepted input, as above for miniscripts.
   Semantic `and(..)` / `or(..)` respell `thresh` at the same level; the concrete `N@` odds are written into the node NAME
   (`with_prob`), not into an extra level; `UNSAT` / `TRIVIAL` are leaves.  Both statements are TRUE for the model. *)
From Verif Require Import PolTextModel PolTextProofs PolTextCompose PolTextDepth.

Theorem C10_pol_sem_print_not_deeper :
  forall (print_key : N -> tbytes) (parse_key : tbytes -> option N)
         (print_hash : phk -> N -> tbytes) (parse_hash : phk -> tbytes -> option N) t p,
  sem_from_tree parse_key parse_hash t = Ok p -> depth (sem_to_tree print_key print_hash p) <= depth t.
Proof. exact sem_from_tree_depth. Qed.
Print Assumptions C10_pol_sem_print_not_deeper.

Theorem C10_pol_conc_print_not_deeper :
  forall (print_key : N -> tbytes) (parse_key : tbytes -> option N)
         (print_hash : phk -> N -> tbytes) (parse_hash : phk -> tbytes -> option N) t p,
  conc_from_tree parse_key parse_hash t = Ok p -> depth (conc_to_tree print_key print_hash p) <= depth t.
Proof. exact conc_from_tree_depth. Qed.
Print Assumptions C10_pol_conc_print_not_deeper.

Theorem C10_pol_sem_text_fixpoint_unconditional :
  forall (print_key : N -> tbytes) (parse_key : tbytes -> option N)
         (print_hash : phk -> N -> tbytes) (parse_hash : phk -> tbytes -> option N),
  (forall k, parse_key (print_key k) = Some k) ->
  (forall h v, parse_hash h (print_hash h v) = Some v) ->
  (forall k, forallb name_char (print_key k) = true) ->
  (forall h v, forallb name_char (print_hash h v) = true) ->
  forall s p, sem_from_str parse_key parse_hash s = Ok p ->
  sem_from_str parse_key parse_hash (sem_to_text print_key print_hash p) = Ok p /\
  (forall q, sem_from_str parse_key parse_hash (sem_to_text print_key print_hash p) = Ok q ->
             sem_to_text print_key print_hash q = sem_to_text print_key print_hash p).
Proof. exact sem_text_fixpoint_unconditional. Qed.
Print Assumptions C10_pol_sem_text_fixpoint_unconditional.

Theorem C10_pol_conc_text_fixpoint_unconditional :
  forall (print_key : N -> tbytes) (parse_key : tbytes -> option N)
         (print_hash : phk -> N -> tbytes) (parse_hash : phk -> tbytes -> option N),
  (forall k, parse_key (print_key k) = Some k) ->
  (forall h v, parse_hash h (print_hash h v) = Some v) ->
  (forall k, forallb name_char (print_key k) = true) ->
  (forall h v, forallb name_char (print_hash h v) = true) ->
  forall s p, conc_from_str parse_key parse_hash s = Ok p ->
  conc_from_str parse_key parse_hash (conc_to_text print_key print_hash p) = Ok p /\
  (forall q, conc_from_str parse_key parse_hash (conc_to_text print_key print_hash p) = Ok q ->
             conc_to_text print_key print_hash q = conc_to_text print_key print_hash p).
Proof. exact conc_text_fixpoint_unconditional. Qed.
Print Assumptions C10_pol_conc_text_fixpoint_unconditional.

(* non-vacuity (instance of Proofs/PolTextCompose.v: decimal keys and hashes): "or(pk(1),3@and(pk(2),older(5)))" is accepted
   by the concrete parser, printed with the odds in the names at the same depth 3, and parsed back; "thresh(2,pk(1),pk(2),pk(3))"
   by the semantic parser *)
Definition cl_ptext1 : tbytes :=
  [111;114;40;112;107;40;49;41;44;51;64;97;110;100;40;112;107;40;50;41;44;111;108;100;101;114;40;53;41;41;41].
Definition cl_ptext2 : tbytes :=
  [116;104;114;101;115;104;40;50;44;112;107;40;49;41;44;112;107;40;50;41;44;112;107;40;51;41;41].
Example C10_pol_closers_nonvacuous :
  conc_from_str pinst_parse_key pinst_parse_hash cl_ptext1 = Ok (WOr [(1, WKey 1); (3, WAnd [WKey 2; WOlder 5])]) /\
  depth (conc_to_tree pinst_print_key pinst_print_hash (WOr [(1, WKey 1); (3, WAnd [WKey 2; WOlder 5])])) = 3 /\
  conc_from_str pinst_parse_key pinst_parse_hash
    (conc_to_text pinst_print_key pinst_print_hash (WOr [(1, WKey 1); (3, WAnd [WKey 2; WOlder 5])]))
    = Ok (WOr [(1, WKey 1); (3, WAnd [WKey 2; WOlder 5])]) /\
  sem_from_str pinst_parse_key pinst_parse_hash cl_ptext2 = Ok (SThresh 2 [SKey 1; SKey 2; SKey 3]) /\
  sem_to_text pinst_print_key pinst_print_hash (SThresh 2 [SKey 1; SKey 2; SKey 3]) = cl_ptext2.
Proof. repeat split; vm_compute; reflexivity. Qed.
