(* C09, executed-opcode count of the satisfactions the library can produce (statements only).
   Full-strength statement (open outside the class, NOT refuted):
     for every well-typed script m and every witness the satisfier returns, the instrumented run of the
     encoded script counts at most static_ops + max_exec_op_count consensus opcodes
     (ExtData::sat_op_count), for ALL constructors.
   Proved here: C09_ops_trace_table, the traced Theorem A, for ALL constructors with the path-sensitive
   bound [pcms] (every IF decision read off the state Theorem A gives; thresh: every choice of exactly k
   satisfied children; multi: n keys in both modes); and (_partial) the comparison with ExtData's figure
   on the computable class [ops_traced] = "pcms is within the figure", which strictly contains
   [ops_covered] (C09_ops_traced_strict: it contains the script on which the all-executions form is
   refuted; C09_ops_traced_orb_thresh: skipped multis below or_b / thresh).  Still outside
   (C09_ops_traced_open): pcms maximises over all alternatives of the table, ExtData over those with a
   figure; a statically unsatisfiable branch (sat_data = None) that contains a multi is counted by pcms
   only.  No table satisfaction takes such a branch, so nothing is refuted there. *)
From Verif Require Import Exec Ser Spend Ast Types TypeCheck SatSpec Sat TheoremA SatProofs.
From Verif Require Import ExecTr ExtModel ExtProofs ExtSize ExtOps OpsTraceBase OpsTrace OpsTraceMain DescSpendExamples.
Local Open Scope N_scope.

(* traced Theorem A: every table (dis)satisfaction, from every stack below it, every constructor *)
Theorem C09_ops_trace_table (e : env) (ke : keyenv) (A : assets) :
  assets_ok e ke A -> (forall kbs, e_sigok e kbs [] = false) ->
  forall m t, type_of m = ROk t -> wf e ke m -> no_multi m -> multi_small m = true ->
  forall c w rest al,
    (In w (all_sat ke A m) -> bnd e (enc ke m) (mkSt (instk (c_base (t_corr t)) c w rest) al) (fst (pcms m))) /\
    (In w (all_dsat ke A m) -> bnd e (enc ke m) (mkSt (instk (c_base (t_corr t)) c w rest) al) (snd (pcms m))).
Proof. exact (ops_trace_table e ke A). Qed.
Print Assumptions C09_ops_trace_table.

Theorem C09_table_sat_ops_within_figure_partial (e : env) (ke : keyenv) (A : assets) :
  assets_ok e ke A -> (forall kbs, e_sigok e kbs [] = false) ->
  forall fx c (m : ms) (t : ty), type_of m = ROk t -> c_base (t_corr t) = BB -> wf e ke m -> no_multi m ->
  no_multi_a m = true -> multi_small m = true -> ops_traced fx c m = true ->
  forall w, In w (all_sat ke A m) -> forall t0,
  exists v t' n, exec_tr e (enc ke m) (mkSt w []) t0 = Ok (mkSt [v] [], t') /\ truthy v = true
                 /\ sat_op_count (ext_of_gen fx c m) = Some n
                 /\ count_ops (enc ke m) + (tr_cms t' - tr_cms t0) <= n.
Proof. exact (table_sat_ops_within_figure e ke A). Qed.
Print Assumptions C09_table_sat_ops_within_figure_partial.

(* everything the satisfier MODEL returns (either mode) executes within the announced op count *)
Theorem C09_satisfier_ops_bound_partial (e : env) (ke : keyenv) (A : assets) (se : senv) (f : fill) :
  linked ke A se f -> (forall ks, length (ksort ke ks) = length ks) ->
  assets_ok e ke A -> (forall kbs, e_sigok e kbs [] = false) ->
  forall fx c (mall rhs : bool) (m : ms) (t : ty),
    type_of m = ROk t -> c_base (t_corr t) = BB -> wf e ke m -> no_multi m ->
    no_multi_a m = true -> multi_small m = true -> ops_traced fx c m = true ->
    forall bs, satisfy ke se f mall rhs m = Some bs -> forall t0,
    exists v t' n, exec_tr e (enc ke m) (mkSt (rev bs) []) t0 = Ok (mkSt [v] [], t') /\ truthy v = true
                   /\ sat_op_count (ext_of_gen fx c m) = Some n
                   /\ count_ops (enc ke m) + (tr_cms t' - tr_cms t0) <= n.
Proof. exact (satisfier_ops_bound e ke A se f). Qed.
Print Assumptions C09_satisfier_ops_bound_partial.

Theorem C09_ops_covered_traced fx c m : ops_covered fx c m = true -> ops_traced fx c m = true.
Proof. exact (ops_covered_traced fx c m). Qed.
Print Assumptions C09_ops_covered_traced.

Theorem C09_ops_traced_strict :
  ops_covered as_written cx_segwit rf_ms = false /\ ops_traced as_written cx_segwit rf_ms = true
  /\ pcms rf_ms = (3, 3) /\ sat_op_count (ext_of_gen as_written cx_segwit rf_ms) = Some 19.
Proof. exact ops_traced_strict. Qed.
Print Assumptions C09_ops_traced_strict.

Theorem C09_ops_traced_orb_thresh :
  ops_covered as_written cx_segwit ot_orb = false /\ ops_traced as_written cx_segwit ot_orb = true
  /\ pcms ot_orb = (3, 0) /\ ast_cms ot_orb = 6
  /\ ops_covered as_written cx_segwit ot_thr = false /\ ops_traced as_written cx_segwit ot_thr = true
  /\ pcms ot_thr = (3, 0) /\ ast_cms ot_thr = 8.
Proof. exact ops_traced_orb_thresh. Qed.
Print Assumptions C09_ops_traced_orb_thresh.

Theorem C09_ops_traced_open :
  (exists t, type_of ot_open = ROk t) /\ ops_traced as_written cx_segwit ot_open = false /\ fst (pcms ot_open) = 3
  /\ option_map sd_eops (sat_data (ext_of_gen as_written cx_segwit ot_open)) = Some 0
  /\ sat_data (ext_of_gen as_written cx_segwit (MAndV (MVerify (MMulti 1 [1; 2; 3])) MFalse)) = None
  /\ forall ke A, all_sat ke A (MAndV (MVerify (MMulti 1 [1; 2; 3])) MFalse) = [].
Proof. exact ops_traced_open. Qed.
Print Assumptions C09_ops_traced_open.

Example C09_ops_trace_nonvacuous :
  linked ex_ke ex_A (ex_se false) (ex_f ex_ke) /\ assets_ok ot_e ex_ke ex_A
  /\ (exists t, type_of ot_ms = ROk t /\ c_base (t_corr t) = BB) /\ wf ot_e ex_ke ot_ms /\ no_multi ot_ms
  /\ no_multi_a ot_ms = true /\ multi_small ot_ms = true
  /\ ops_covered as_written cx_segwit ot_ms = false /\ ops_traced as_written cx_segwit ot_ms = true
  /\ (exists bs, satisfy ex_ke (ex_se false) (ex_f ex_ke) false true ot_ms = Some bs
        /\ exists st' t', exec_tr ot_e (enc ex_ke ot_ms) (mkSt (rev bs) []) (mkTrace 0 0) = Ok (st', t')
             /\ stk st' = [[1]]
             /\ count_ops (enc ex_ke ot_ms) + tr_cms t' <= 22
             /\ sat_op_count (ext_of_gen as_written cx_segwit ot_ms) = Some 22).
Proof. exact ot_nonvacuous. Qed.
