(* C15 — Taproot outputs commit to exactly the described script tree.
   Statements only; every proof is `exact <lemma>` (lemmas in Proofs/TapTree*.v).
   Model: Ms/TapTreeModel.v.  Hashes, keys and the tweak are abstract; branchH is commutative
   because rust-bitcoin's TapNodeHash::from_node_hashes sorts its two arguments, and the tweak
   law says the BIP341 check accepts the (output key, parity) produced by the tweak — both are
   hypotheses of the theorems that use them, never axioms.
   All theorems quantify over ALL binary trees; the bound 128 appears where the code has it. *)
From Coq Require Import List NArith Arith.
Import ListNotations.
From Verif Require Import TapTreeModel TapTreeProofs TapTreeShapeProofs TapTreeMerkleProofs TapTreeIterProofs TapTreeSummary.

(* depth list <-> tree round trip for any shape; the builder (fed with the brace stream of t,
   directly or through the token walk of Tr::from_tree) and TapTree::combine produce
   depths_of_tree t exactly when height t <= 128, and the depth error above. *)
Theorem C15_depths_rt : forall (leaf : Type),
  (forall t : tree leaf, tree_of_depths leaf (depths_of_tree leaf t) = Some t) /\
  (forall dl t, tree_of_depths leaf dl = Some t -> dl = depths_of_tree leaf t) /\
  (forall t, height leaf t <= 128 ->
     build_tree leaf t = TOk (depths_of_tree leaf t) /\
     parse_tokens leaf (tokens_of_tree leaf t) = TOk (depths_of_tree leaf t) /\
     api_build leaf t = TOk (depths_of_tree leaf t)) /\
  (forall t, 128 < height leaf t ->
     build_tree leaf t = TErr ErrDepth /\
     parse_tokens leaf (tokens_of_tree leaf t) = TErr ErrDepth /\
     api_build leaf t = TErr ErrDepth).
Proof. exact depths_rt. Qed.
Print Assumptions C15_depths_rt.

(* BIP341: folding branchH along a leaf's path, starting from the leaf hash, gives the root *)
Theorem C15_spec_path_ok :
  forall (leaf hash : Type) (leafH : leaf -> hash) (branchH : hash -> hash -> hash),
  (forall a b, branchH a b = branchH b a) ->
  forall (t : tree leaf) l p,
  In (l, p) (paths leaf hash leafH branchH t) ->
  fold_path leaf hash leafH branchH l p = root leaf hash leafH branchH t.
Proof. exact spec_path_ok. Qed.
Print Assumptions C15_spec_path_ok.

(* the iterative single-pass algorithm with index patching, on the depth list of any tree,
   returns without panic the pre-order vector of sibling hashes, whose first entry is root t *)
Theorem C15_algo_root :
  forall (leaf hash : Type) (leafH : leaf -> hash) (branchH : hash -> hash -> hash)
         (dl : dlist leaf) (t : tree leaf),
  tree_of_depths leaf dl = Some t ->
  exists ns, nodes_from_tap_tree leaf hash leafH branchH dl = TOk ns
             /\ ns = layout leaf hash leafH branchH (root leaf hash leafH branchH t) t
             /\ merkle_root_of leaf hash ns = Some (root leaf hash leafH branchH t).
Proof. exact algo_root. Qed.
Print Assumptions C15_algo_root.

(* the leaves iterator (merkle stack + BitStack128) on that vector yields, without panic for
   height <= 128, every leaf in order with depth = path length and merkle branch = spec path;
   the (depth, leaf) sequence it yields is the depth list *)
Theorem C15_algo_paths :
  forall (leaf hash : Type) (leafH : leaf -> hash) (branchH : hash -> hash -> hash)
         (dl : dlist leaf) (t : tree leaf),
  tree_of_depths leaf dl = Some t -> height leaf t <= 128 ->
  exists ns its,
    nodes_from_tap_tree leaf hash leafH branchH dl = TOk ns /\
    leaves_iter leaf hash ns = TOk its /\
    its = map (fun lp : leaf * list hash => (fst lp, length (snd lp), snd lp)) (paths leaf hash leafH branchH t) /\
    map (fun it : item leaf hash => (snd (fst it), fst (fst it))) its = dl.
Proof. exact algo_paths. Qed.
Print Assumptions C15_algo_paths.

(* output key = tweak internal (root t); every control block (parity, internal, path) that the
   spend info yields verifies against the output key, leaves in the order of the depth list *)
Theorem C15_commit :
  forall (leaf hash : Type) (leafH : leaf -> hash) (branchH : hash -> hash -> hash)
         (key okey parity : Type) (tweak : key -> option hash -> okey * parity)
         (tweak_check : okey -> parity -> key -> hash -> bool),
  (forall a b, branchH a b = branchH b a) ->
  (forall k r, tweak_check (fst (tweak k (Some r))) (snd (tweak k (Some r))) k r = true) ->
  forall (ik : key) (dl : dlist leaf) (t : tree leaf),
  tree_of_depths leaf dl = Some t -> height leaf t <= 128 ->
  exists si cbs,
    from_tr leaf hash leafH branchH key okey parity tweak ik (Some dl) = TOk si /\
    (si_okey _ _ _ _ _ si, si_parity _ _ _ _ _ si) = tweak ik (Some (root leaf hash leafH branchH t)) /\
    si_internal _ _ _ _ _ si = ik /\
    control_blocks leaf hash key okey parity si = TOk cbs /\
    map fst cbs = map snd dl /\
    Forall (fun lc => cb_verify leaf hash leafH branchH key okey parity tweak_check
                        (si_okey _ _ _ _ _ si) (fst lc) (snd lc) = true) cbs.
Proof. exact commit. Qed.
Print Assumptions C15_commit.

Theorem C15_commit_keyspend_only :
  forall (leaf hash : Type) (leafH : leaf -> hash) (branchH : hash -> hash -> hash)
         (key okey parity : Type) (tweak : key -> option hash -> okey * parity) (ik : key),
  from_tr leaf hash leafH branchH key okey parity tweak ik None
  = TOk (mkSI leaf hash key okey parity ik (fst (tweak ik None)) (snd (tweak ik None)) []).
Proof. exact commit_keyspend_only. Qed.
Print Assumptions C15_commit_keyspend_only.

(* to_tap_tree (the conversion to rust-bitcoin's TapTree used by the PSBT output update) returns
   the described tree without panic *)
Theorem C15_to_tap_tree :
  forall (leaf hash : Type) (leafH : leaf -> hash) (branchH : hash -> hash -> hash)
         (dl : dlist leaf) (t : tree leaf),
  tree_of_depths leaf dl = Some t -> height leaf t <= 128 ->
  exists ns, nodes_from_tap_tree leaf hash leafH branchH dl = TOk ns /\
             to_tap_tree leaf hash ns = TOk (Some t).
Proof. exact to_tap_tree_ok. Qed.
Print Assumptions C15_to_tap_tree.

(* address(network) and script_pubkey are those of tweak internal (root t) *)
Theorem C15_address :
  forall (leaf hash : Type) (leafH : leaf -> hash) (branchH : hash -> hash -> hash)
         (key okey parity : Type) (tweak : key -> option hash -> okey * parity)
         (network address spk : Type) (addr_of : network -> okey -> address) (spk_of : okey -> spk)
         (ik : key) (dl : dlist leaf) (t : tree leaf) (n : network),
  tree_of_depths leaf dl = Some t ->
  exists si,
    from_tr leaf hash leafH branchH key okey parity tweak ik (Some dl) = TOk si /\
    tr_address leaf hash key okey parity network address addr_of n si
      = addr_of n (fst (tweak ik (Some (root leaf hash leafH branchH t)))) /\
    tr_script_pubkey leaf hash key okey parity spk spk_of si
      = spk_of (fst (tweak ik (Some (root leaf hash leafH branchH t)))).
Proof. exact address_of_output_key. Qed.
Print Assumptions C15_address.

(* leaves, order and depths are invariant under key translation and under print-then-parse of
   the brace syntax (spend-info iteration: last conjunct of C15_algo_paths) *)
Theorem C15_preserved : forall (leaf : Type),
  (forall (leafB : Type) (g : leaf -> leafB) (t : tree leaf),
     translate_dl leaf leafB (fun l => Some (g l)) (depths_of_tree leaf t)
       = TOk (depths_of_tree leafB (map_tree leaf leafB g t)) /\
     tree_of_depths leafB (depths_of_tree leafB (map_tree leaf leafB g t)) = Some (map_tree leaf leafB g t) /\
     height leafB (map_tree leaf leafB g t) = height leaf t) /\
  (forall (leafB : Type) (f : leaf -> option leafB) dl dl',
     translate_dl leaf leafB f dl = TOk dl' ->
     map fst dl' = map fst dl /\ Forall2 (fun p q => f (snd p) = Some (snd q)) dl dl') /\
  (forall t : tree leaf, print_tokens leaf (depths_of_tree leaf t) = tokens_of_tree leaf t) /\
  (forall t : tree leaf, height leaf t <= 128 ->
     parse_tokens leaf (print_tokens leaf (depths_of_tree leaf t)) = TOk (depths_of_tree leaf t)).
Proof. exact preserved. Qed.
Print Assumptions C15_preserved.

(* the property in one statement: for every tree t of height <= 128 and every internal key, the
   descriptor obtained from the text of t (or from TapTree::combine) has the depth list of t,
   its output key is the internal key tweaked by BIP341's root of t, and the spend info yields
   one verifying control block per leaf of t, in order *)
Theorem C15_end_to_end :
  forall (leaf hash : Type) (leafH : leaf -> hash) (branchH : hash -> hash -> hash)
         (key okey parity : Type) (tweak : key -> option hash -> okey * parity)
         (tweak_check : okey -> parity -> key -> hash -> bool),
  (forall a b, branchH a b = branchH b a) ->
  (forall k r, tweak_check (fst (tweak k (Some r))) (snd (tweak k (Some r))) k r = true) ->
  forall (ik : key) (t : tree leaf), height leaf t <= 128 ->
  exists dl si cbs,
    parse_tokens leaf (tokens_of_tree leaf t) = TOk dl /\
    api_build leaf t = TOk dl /\
    tree_of_depths leaf dl = Some t /\
    from_tr leaf hash leafH branchH key okey parity tweak ik (Some dl) = TOk si /\
    (si_okey _ _ _ _ _ si, si_parity _ _ _ _ _ si) = tweak ik (Some (root leaf hash leafH branchH t)) /\
    control_blocks leaf hash key okey parity si = TOk cbs /\
    map fst cbs = map snd (depths_of_tree leaf t) /\
    Forall (fun lc => cb_verify leaf hash leafH branchH key okey parity tweak_check
                        (si_okey _ _ _ _ _ si) (fst lc) (snd lc) = true) cbs.
Proof. exact end_to_end. Qed.
Print Assumptions C15_end_to_end.

(* ---- non-vacuity: the hypotheses are satisfiable and the bound is sharp ---- *)
Example C15_ex_hypotheses :
  (forall a b, ex_branchH a b = ex_branchH b a) /\
  (forall k r, ex_tweak_check (fst (ex_tweak k (Some r))) (snd (ex_tweak k (Some r))) k r = true) /\
  tree_of_depths N (depths_of_tree N ex_tree) = Some ex_tree /\ height N ex_tree <= 128.
Proof. exact (conj ex_branchH_comm (conj ex_tweak_law (conj eq_refl (proj1 (Nat.leb_le 3 128) eq_refl)))). Qed.

Example C15_ex_run :
  match from_tr N N ex_leafH ex_branchH N N bool ex_tweak 7%N (Some (depths_of_tree N ex_tree)) with
  | TOk si => match control_blocks N N N N bool si with
              | TOk cbs => forallb (fun lc => cb_verify N N ex_leafH ex_branchH N N bool ex_tweak_check
                                               (si_okey _ _ _ _ _ si) (fst lc) (snd lc)) cbs
                           && Nat.eqb (length cbs) 5
              | _ => false end
  | _ => false end = true.
Proof. vm_compute. reflexivity. Qed.

Example C15_ex_depth_128_accepted_129_rejected :
  height N (chainR 128 0) = 128 /\
  build_tree N (chainR 128 0) = TOk (depths_of_tree N (chainR 128 0)) /\
  build_tree N (chainL 128 0) = TOk (depths_of_tree N (chainL 128 0)) /\
  build_tree N (chainR 129 0) = TErr ErrDepth /\ api_build N (chainL 129 0) = TErr ErrDepth /\
  (exists its, (ns <-- nodes_from_tap_tree N N ex_leafH ex_branchH (depths_of_tree N (chainL 128 0)) ;;
                leaves_iter N N ns) = TOk its /\ length its = 129).
Proof.
  split; [vm_compute; reflexivity|]. split; [vm_compute; reflexivity|]. split; [vm_compute; reflexivity|].
  split; [vm_compute; reflexivity|]. split; [vm_compute; reflexivity|].
  eexists. split; [vm_compute; reflexivity | vm_compute; reflexivity].
Qed.

(* above the bound the BitStack128 shift overflows: the iterator panics at depth 129 (the code
   relies on the TapTree having been validated) *)
Example C15_ex_iter_panics_at_129 :
  (ns <-- nodes_from_tap_tree N N ex_leafH ex_branchH (depths_of_tree N (chainL 129 0)) ;; leaves_iter N N ns)
  = TPanic 20.
Proof. vm_compute. reflexivity. Qed.
