(* C15 — Taproot outputs commit to exactly the described script tree.
   Statements only; every proof is `exact <lemma>` (lemmas in Proofs/TapTreeProofs.v).
   Hashes, keys and the tweak are abstract; branchH is commutative because rust-bitcoin's
   TapNodeHash::from_node_hashes sorts its two arguments (hypothesis, not an axiom). *)
From Coq Require Import List NArith.
Import ListNotations.
From Verif Require Import TapTreeModel TapTreeProofs.

Theorem C15_spec_path_ok :
  forall (leaf hash : Type) (leafH : leaf -> hash) (branchH : hash -> hash -> hash),
  (forall a b, branchH a b = branchH b a) ->
  forall (t : tree leaf) l p,
  In (l, p) (paths leaf hash leafH branchH t) ->
  fold_path leaf hash leafH branchH l p = root leaf hash leafH branchH t.
Proof. exact spec_path_ok. Qed.
Print Assumptions C15_spec_path_ok.
