(* C11 — "No input can crash or hang the library".  Statements only; proofs are `exact lemma`.

   FULL STATEMENT (the property):  for every input — text given to any parser, bytes given to
   the script decoder, (spk, scriptSig, witness) given to the interpreter, a structurally valid
   PSBT with arbitrary field contents given to the updater/finaliser, an Assets value given to
   the planner — the library returns a value (Ok or an error VALUE): it does not panic, does
   not overflow the native stack, does not loop, does not allocate without bound.

   PARTIAL BY NATURE (DESIGN 5/C11, 11): a theorem about an executable model cannot exhibit a
   native stack overflow, an allocation failure or the run time of compiled code.  What is
   proved here, for the MODELLED functions (Ms/RobustModel.v; every Rust panic site inside
   them is an explicit [RPanic] outcome, partial operations are partial):
     - threshold_ctor_total : Threshold::{new, from_iter, set_maximum, or, and, or_n, and_n,
       forget_maximum, map, translate(_ref), translate_by_index, map_from_post_order_iter},
       its Display helper and ThresholdError's Display never reach a panic site, and every
       constructor establishes / preserves  1 <= k <= n  and  (MAX = 0 \/ n <= MAX);
     - lex_total : the script byte cursor under the lexer (rust-bitcoin's minimal-push
       instruction iterator, written with an explicit index cursor, read_scriptint, and
       lex.rs's token loop) never indexes or slices out of bounds on ANY byte string and
       stops within len(script) steps;
     - planner_total / planner_has_key_total : plan.rs is_key_direct_child_of and
       Assets::has_ecdsa_key AS WRITTEN (after the repair of DESIGN 10-f, /repo 540253fb) are
       total and meet the doc comment's specification; planner_repair_conservative : the
       repair agrees with the earlier code wherever that returned (it panicked on an empty
       key path: Example planner_regression_witness);
     - pre_order_iter_total : iter/tree.rs PreOrderIter yields the recursive pre-order in
       exactly n = size steps (n are necessary and sufficient) with a stack that never
       exceeds  max(1, max arity) * height  entries;
     - post_order_iter_total / post_order_iter_correct : PostOrderIter never reaches its unwrap /
       stack[idx] panic sites, never runs out of the stated fuel, yields exactly n items, and
       these are the recursive post-order with index = output position and child_indices = the
       output positions of the children (any arity); rtl_post_order_iter_correct: the same for
       RtlPostOrderIter (right-to-left post-order);
     - depth_guard_sound / forgetful_guard_unsound : the 402 depth guard bounds the real
       nesting depth exactly when tree_height takes ALL children into account.
   The other theorems the design lists for C11 live with the builders that own the models:
   tree_total (C10, expression/mod.rs), decode_total (C04), ord_total/eq_total (C19; refuted:
   DESIGN 10-d), interp_total (C13), lift_total/policy_total (C18; refuted: DESIGN 10-e).
   Everything else is covered by the `robust` engine (tools/props/c11.py) and the panic-site
   inventory, which also names the runtime behaviours that are outside any model:
   native stack depth of recursive code, allocation size, run time, third-party crates.  *)
From Coq Require Import List NArith Bool.
From Verif Require Import Bytes RobustModel RobustProofs RobustLexProofs RobustTreeProofs RobustPostProofs RobustDepthProofs RobustIterSpec RobustIterProofs RobustTapTreeModel RobustTapTreeProofs.
Import ListNotations.
Local Open Scope N_scope.

Theorem threshold_ctor_total :
  (forall A MAX k (l : list A), (forall s, thr_new MAX k l <> RPanic s) /\
       (forall t, thr_new MAX k l = ROk t -> thr_wf MAX t /\ t = mkThr k l)) /\
  (forall A MAX k hint (l : list A), (forall s, thr_from_iter MAX k hint l <> RPanic s) /\
       (forall t, thr_from_iter MAX k hint l = ROk t -> thr_wf MAX t /\ t = mkThr k l)) /\
  (forall A NEWMAX (t : thr A), (forall s, thr_set_maximum NEWMAX t <> RPanic s) /\
       (forall t', thr_set_maximum NEWMAX t = ROk t' -> thr_wf NEWMAX t')) /\
  (forall A MAX (l r : A), MAX <> 1 ->
       (exists t, thr_or MAX l r = ROk t /\ thr_wf MAX t) /\ (exists t, thr_and MAX l r = ROk t /\ thr_wf MAX t)) /\
  (forall A (l : list A), l <> [] ->
       (exists t, thr_or_n l = ROk t /\ thr_wf 0 t) /\ (exists t, thr_and_n l = ROk t /\ thr_wf 0 t)) /\
  (forall A MAX (t : thr A), thr_wf MAX t -> thr_wf 0 (thr_forget_maximum t)) /\
  (forall A B MAX (f : A -> B) (t : thr A), thr_wf MAX t -> thr_wf MAX (thr_map f t)) /\
  (forall A B MAX (f : A -> routcome B) (t : thr A), thr_wf MAX t ->
       (forall t', thr_translate f t = ROk t' -> thr_wf MAX t') /\
       ((forall x s, f x <> RPanic s) -> forall s, thr_translate f t <> RPanic s)) /\
  (forall A B MAX (f : N -> routcome B) (t : thr A), thr_wf MAX t ->
       (forall t', thr_translate_by_index f t = ROk t' -> thr_wf MAX t') /\
       ((forall x s, f x <> RPanic s) -> forall s, thr_translate_by_index f t <> RPanic s)) /\
  (forall A U MAX (t : thr A) (ci : list N) (processed : list U),
       thr_wf MAX t -> length ci = length (t_inner t) -> (forall n, In n ci -> n < nlen processed) ->
       exists t', thr_map_post_order t ci processed = ROk t' /\ thr_wf MAX t') /\
  (forall A MAX show_k (t : thr A), thr_wf MAX t -> exists items, thr_display_items show_k t = ROk items) /\
  (forall MAX k n, validate_k_n MAX k n = false -> exists c, thr_err_display (thr_error_of MAX k n) = ROk c).
Proof. exact threshold_ctor_total_proof. Qed.
Print Assumptions threshold_ctor_total.

(* agreement of from_iter with new under an honest size hint (the early return is not a second behaviour) *)
Theorem threshold_from_iter_agrees : forall A MAX k hint (l : list A), hint <= nlen l ->
  (exists t, thr_from_iter MAX k hint l = ROk t) <-> (exists t, thr_new MAX k l = ROk t).
Proof. exact thr_from_iter_agrees. Qed.
Print Assumptions threshold_from_iter_agrees.

Theorem lex_total : forall script : bytes,
  (exists ts, lex_model script = ROk ts) \/ (exists e, lex_model script = RErr e /\ e <> E_OUT_OF_FUEL).
Proof. exact lex_total_proof. Qed.
Print Assumptions lex_total.

Theorem lex_never_indexes_out_of_bounds : forall (script : bytes) (site : N), lex_model script <> RPanic site.
Proof. exact lex_never_panics. Qed.
Print Assumptions lex_never_indexes_out_of_bounds.

(* plan.rs is_key_direct_child_of AS WRITTEN (after /repo 540253fb, which repaired DESIGN 10-f):
   total, and true exactly when the doc comment's relation holds *)
Theorem planner_total : forall pk_paths dp,
  exists b, child_of pk_paths dp = ROk b /\ (b = true <-> child_of_spec pk_paths dp).
Proof. exact planner_total_proof. Qed.
Print Assumptions planner_total.

(* Assets::has_ecdsa_key (what provider_lookup_ecdsa_sig calls) never panics and finds exactly
   the ECDSA-capable asset keys with the key's fingerprint that are direct parents *)
Theorem planner_has_key_total : forall keys pk_fp pk_paths,
  exists b, has_ecdsa_key keys pk_fp pk_paths = ROk b /\
    (b = true <-> exists a, In a keys /\ ak_ecdsa a = true /\ pk_fp = ak_fp a /\ child_of_spec pk_paths (ak_path a)).
Proof. exact planner_has_key_total_proof. Qed.
Print Assumptions planner_has_key_total.

(* the repair changed nothing where the earlier code (len - 1 on the path) returned *)
Theorem planner_repair_conservative : forall pk_paths dp b,
  child_of_before_540253fb pk_paths dp = ROk b -> child_of pk_paths dp = ROk b.
Proof. exact planner_repair_conservative_proof. Qed.
Print Assumptions planner_repair_conservative.

Theorem pre_order_iter_total_C11 : forall t : rtree,
  pre_run (rsize t) [t] = Some (preorder t) /\
  pre_steps (rsize t) [t] = rsize t /\
  (forall fuel, (fuel < rsize t)%nat -> pre_run fuel [t] = None) /\
  (forall fuel, (pre_max_stack fuel [t] <= Nat.max 1 (rarity t) * rheight t)%nat).
Proof. exact pre_order_iter_total. Qed.
Print Assumptions pre_order_iter_total_C11.

(* PostOrderIter (with child indices and parent stack positions), modelled with its panic sites
   (nth_child(idx).unwrap(), self.stack[idx]) and explicit fuel: no panic, fuel suffices,
   exactly n = size items are yielded. *)
Theorem post_order_iter_total_C11 : forall t : rtree,
  exists ys, post_order t = ROk ys /\ length ys = rsize t.
Proof. exact post_order_iter_total. Qed.
Print Assumptions post_order_iter_total_C11.

(* ... and, for EVERY finite tree of any arity, what it yields is the recursive specification
   (RobustIterSpec.post_spec):  (b) the labels are the recursive post-order,  (d) index is the
   position in the output,  (c) child_indices are the output positions of the children: the
   bottom-up builder that looks its children up at child_indices (rebuild: what
   Miniscript::from_ast-style reconstruction, Threshold::map_from_post_order_iter and the Arc
   rebuilding of translate_pk rely on) rebuilds every subtree in post-order, the last one being
   the tree itself. *)
Theorem post_order_iter_correct_C11 : forall t : rtree,
  exists ys, post_order t = ROk ys /\
    length ys = rsize t /\
    map y_label ys = postorder t /\
    (forall i y, nth_error ys i = Some y -> y_index y = N.of_nat i) /\
    rebuild ys = subtrees_post t /\
    last (rebuild ys) rdummy = t /\
    ys = post_spec t 0.
Proof. exact post_order_iter_correct. Qed.
Print Assumptions post_order_iter_correct_C11.

(* RtlPostOrderIter = PostOrderIter over the Rtl adaptor with every child_indices reversed:
   yields the right-to-left post-order (children last to first, then the node), index = output
   position, and Rtl::nary_index's `len - idx - 1` never underflows nor indexes out of range
   behind nth_child's guard *)
Theorem rtl_post_order_iter_correct_C11 : forall t : rtree,
  rtl_post_order t = ROk (rtl_spec t) /\
  length (rtl_spec t) = rsize t /\
  map y_label (rtl_spec t) = rtl_postorder t /\
  (forall i y, nth_error (rtl_spec t) i = Some y -> y_index y = N.of_nat i) /\
  (forall n s, rtl_nth_child t n <> RPanic s).
Proof. exact rtl_post_order_correct. Qed.
Print Assumptions rtl_post_order_iter_correct_C11.

(* The taproot tree builder behind every `tr(KEY,{..})` text (TapTreeBuilder::{push_inner_node,
   push_leaf, finalize} driven by Tr::from_tree's pre-order loop; Ms/RobustTapTreeModel.v): for
   EVERY shape of the `{..}` expression the result is the list of leaf depths in order when the
   tree is at most 128 deep and TapTreeDepthError otherwise.  Hence no `current_height -= 1` /
   `+= 1` overflow, no `1 << current_height` with a shift >= 128, not the
   `assert!(!depths_leaves.is_empty())` of finalize, and the while loop's fuel is never exhausted. *)
Theorem tap_tree_builder_total : forall t : tshape,
  (theight t <= 128 -> tap_parse t = ROk (tdepths t 0)) /\
  (128 < theight t -> tap_parse t = RErr E_TAPTREE_DEPTH).
Proof. exact tap_parse_total_proof. Qed.
Print Assumptions tap_tree_builder_total.

Theorem tap_tree_builder_never_panics : forall (t : tshape) (site : N), tap_parse t <> RPanic site.
Proof. exact tap_parse_never_panics. Qed.
Print Assumptions tap_tree_builder_never_panics.

(* The depth guard (from_ast / validate compare ExtData::tree_height with 402): when every
   constructor computes 0 for a leaf and 1 + max of ALL its children (the formula the tie checks
   against the compiled ExtData for every constructor on every run), the guard bounds the REAL
   nesting depth (rheight counts a leaf as 1, hence 403) ... *)
Theorem depth_guard_sound : forall t : rtree, depth_guard (lib_height t) = true -> (rheight t <= 403)%nat.
Proof. exact depth_guard_sound_proof. Qed.
Print Assumptions depth_guard_sound.

(* ... and a formula that forgets one child position lets trees of ANY depth through (the shape
   of seeded change C11-2: and_or without its third child) *)
Theorem forgetful_guard_unsound : forall n : nat,
  depth_guard (forgetful_height (chain_c n)) = true /\ rheight (chain_c n) = S n.
Proof. exact forgetful_guard_unsound_proof. Qed.
Print Assumptions forgetful_guard_unsound.

(* non-vacuity: the hypotheses are satisfiable and the models compute *)
Example threshold_wf_example : thr_new 20 2 [1; 2; 3] = ROk (mkThr 2 [1; 2; 3]) /\ thr_wf 20 (mkThr 2 [1; 2; 3]).
Proof. split; [reflexivity|]. unfold thr_wf; cbn; repeat split; try (left; reflexivity); try (right; discriminate); discriminate. Qed.

Example threshold_rejects : thr_new 20 0 [1] = RErr E_THRESHOLD /\ thr_new 20 3 [1; 2] = RErr E_THRESHOLD /\ thr_new 2 1 [1; 2; 3] = RErr E_THRESHOLD.
Proof. repeat split. Qed.

(* 21 <pk33> OP_CHECKSIG lexes; a push running past the end is an error value *)
Example lex_example_ok : exists ts, lex_model (33 :: repeat 2 33 ++ [172]) = ROk ts.
Proof. eexists. vm_compute. reflexivity. Qed.
Example lex_example_truncated : lex_model [33; 2; 2] = RErr E_EARLY_END.
Proof. vm_compute. reflexivity. Qed.
Example lex_example_pushdata4 : lex_model [78; 255; 255; 255; 255] = RErr E_EARLY_END.
Proof. vm_compute. reflexivity. Qed.

Example planner_ok_example : child_of [[1; 2; 3]] [1; 2] = ROk true /\ child_of [[]] [1; 2] = ROk false.
Proof. split; vm_compute; reflexivity. Qed.
(* the input on which the code before 540253fb panicked (kept as the regression witness) *)
Example planner_regression_witness :
  child_of_before_540253fb [[]] [1; 2] = RPanic P_SUB_UNDERFLOW /\ has_ecdsa_key [mkAssetKey 7 [1; 2] true] 7 [[]] = ROk false.
Proof. split; vm_compute; reflexivity. Qed.

Example pre_order_example :
  pre_run 5 [RNode 1 [RNode 2 [RNode 3 []]; RNode 4 []]] = Some [1; 2; 3; 4].
Proof. vm_compute. reflexivity. Qed.

Example post_order_example :
  option_map (map (fun y => (y_label y, y_index y, y_children y)))
    (match post_order (RNode 1 [RNode 2 [RNode 3 []]; RNode 4 []]) with ROk ys => Some ys | _ => None end)
  = Some [(3, 0, []); (2, 1, [0]); (4, 2, []); (1, 3, [1; 2])].
Proof. vm_compute. reflexivity. Qed.

(* a 4-ary node, a unary chain and leaves: the child indices point at the children, the rebuilt
   last tree is the input *)
Example post_order_nary_example :
  let t := RNode 9 [RNode 1 []; RNode 2 [RNode 3 []]; RNode 4 []; RNode 5 [RNode 6 []; RNode 7 []]] in
  option_map (map (fun y => (y_label y, y_index y, y_children y)))
    (match post_order t with ROk ys => Some ys | _ => None end)
  = Some [(1, 0, []); (3, 1, []); (2, 2, [1]); (4, 3, []); (6, 4, []); (7, 5, []); (5, 6, [4; 5]); (9, 7, [0; 2; 3; 6])]
  /\ last (rebuild (post_spec t 0)) rdummy = t.
Proof. vm_compute. split; reflexivity. Qed.

(* {{a,b},c}: depths 2 2 1; a left spine of 128 branches is accepted with a leaf at depth 128
   (the complete_128 flag), 129 are an error value; the builder's panic sites exist in the model:
   a push_leaf at height 129 would shift by 129 *)
Example tap_tree_examples :
  tap_parse (TB (TB TL TL) TL) = ROk [2; 2; 1] /\
  hd_error (match tap_parse (left_spine 128) with ROk d => d | _ => [] end) = Some 128 /\
  tap_parse (left_spine 129) = RErr E_TAPTREE_DEPTH /\
  tb_push_leaf (mkTBuilder [] 0 false 129) = RPanic P_SHIFT /\
  tb_finalize tb_new = RPanic P_ASSERT.
Proof. vm_compute. repeat split; reflexivity. Qed.

Example rtl_post_order_example :
  option_map (map (fun y => (y_label y, y_index y, y_children y)))
    (match rtl_post_order (RNode 1 [RNode 2 [RNode 3 []]; RNode 4 []; RNode 5 []]) with ROk ys => Some ys | _ => None end)
  = Some [(5, 0, []); (4, 1, []); (3, 2, []); (2, 3, [2]); (1, 4, [3; 1; 0])].
Proof. vm_compute. reflexivity. Qed.
