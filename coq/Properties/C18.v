(* C18 — Policy transformations preserve meaning.
   Statements only; every proof is `exact <lemma>`.  Model: Ms/PolSemantic.v, Ms/PolConcrete.v;
   specification: Ms/PolTruth.v ([evalA rho p] = truth table over independent atoms,
   [eval w p] = truth in a world with an age and a lock time). *)
From Coq Require Import List NArith Bool Arith.
Import ListNotations.
From Verif Require Import PolSemantic PolConcrete PolTruth PolSemanticProofs.

(* normalized(): same truth table (all policies, all assignments) *)
Theorem C18_normalized_eval : forall rho p, evalA rho (normalized p) = evalA rho p.
Proof. exact normalized_eval. Qed.
Print Assumptions C18_normalized_eval.

(* normalized(): result is in normal form (hence no Trivial/Unsatisfiable below the root and
   every Threshold::new inside succeeded), and is a fixed point *)
Theorem C18_normalized_normal_form : forall p,
  is_normal (normalized p) = true /\ no_inner_const (normalized p) = true /\
  wf (normalized p) = true /\ normalized (normalized p) = normalized p.
Proof.
  exact (fun p => conj (normalized_normal p) (conj (normalized_no_inner_const p)
        (conj (normalized_wf p) (normalized_idempotent p)))).
Qed.
Print Assumptions C18_normalized_normal_form.

(* sorted(): same truth table *)
Theorem C18_sorted_eval : forall rho p, evalA rho (sorted p) = evalA rho p.
Proof. exact sorted_eval. Qed.
Print Assumptions C18_sorted_eval.

(* at_age(a): exactly the policy with every relative lock not passable at age a switched off;
   at age a itself nothing changes; only passable locks remain *)
Theorem C18_at_age_exact : forall a p,
  (forall rho, evalA rho (at_age a p) = evalA (restrict_age a rho) p) /\
  (forall w, w_age w = a -> eval w (at_age a p) = eval w p) /\
  (forall t, In (SOlder t) (leaves_of (at_age a p)) -> csv_ok t a = true).
Proof.
  exact (fun a p => conj (fun rho => at_age_eval a rho p)
        (conj (fun w => at_age_world w a p) (at_age_only_passable a p))).
Qed.
Print Assumptions C18_at_age_exact.

Theorem C18_at_lock_time_exact : forall n p,
  (forall rho, evalA rho (at_lock_time n p) = evalA (restrict_lock n rho) p) /\
  (forall w, w_lock w = n -> eval w (at_lock_time n p) = eval w p) /\
  (forall t, In (SAfter t) (leaves_of (at_lock_time n p)) -> cltv_ok t n = true).
Proof.
  exact (fun n p => conj (fun rho => at_lock_time_eval n rho p)
        (conj (fun w => at_lock_time_world w n p) (at_lock_time_only_passable n p))).
Qed.
Print Assumptions C18_at_lock_time_exact.
