(* C18 — Policy transformations preserve meaning.
   Statements only; every proof is `exact <lemma>`.
   Model: Ms/PolSemantic.v (policy::semantic), Ms/PolConcrete.v (policy::concrete lift, time-lock info).
   Specification: Ms/PolTruth.v
     [evalA rho p]  truth table over independent atoms (every distinct leaf is an atom),
     [eval w p]     truth in a world (signing keys, known preimages, age, lock time),
     [implies], [is_min_sigs], [evalC], [paths]/[has_mixed_path].
   Where the faithful model violates the full-strength statement there is a [_refuted] theorem with
   the witness (a finding about the code, listed in known_findings.txt) next to the strongest
   variant that holds. *)
From Coq Require Import List NArith Bool Arith.
Import ListNotations.
From Verif Require Import PolSemantic PolConcrete PolTruth
  PolSemanticProofs PolMinKeysProofs PolEntailsProofs PolConcreteProofs PolOracleProofs.

(* ---------------------------------------------------------------- normalized / sorted *)
Theorem C18_normalized_eval : forall rho p, evalA rho (normalized p) = evalA rho p.
Proof. exact normalized_eval. Qed.
Print Assumptions C18_normalized_eval.

(* normal form: no constants below the root, >= 2 children, 1 <= k <= n, no and under and, no or
   under or; every Threshold::new inside succeeded; fixed point *)
Theorem C18_normalized_normal_form : forall p,
  is_normal (normalized p) = true /\ no_inner_const (normalized p) = true /\
  wf (normalized p) = true /\ normalized (normalized p) = normalized p.
Proof.
  exact (fun p => conj (normalized_normal p) (conj (normalized_no_inner_const p)
        (conj (normalized_wf p) (normalized_idempotent p)))).
Qed.
Print Assumptions C18_normalized_normal_form.

Theorem C18_sorted_eval : forall rho p, evalA rho (sorted p) = evalA rho p.
Proof. exact sorted_eval. Qed.
Print Assumptions C18_sorted_eval.

(* ---------------------------------------------------------------- at_age / at_lock_time *)
(* exactly the policy with every relative lock not passable at age a switched off; at age a
   itself nothing changes; only passable locks remain *)
Theorem C18_at_age_exact : forall a p,
  (forall rho, evalA rho (at_age a p) = evalA (restrict_age a rho) p) /\
  (forall w, w_age w = a -> eval w (at_age a p) = eval w p) /\
  (forall t, In (SOlder t) (leaves_of (at_age a p)) -> csv_ok t a = true).
Proof.
  exact (fun a p => conj (fun rho => at_age_eval a rho p)
        (conj (fun w => at_age_world w a p) (at_age_only_passable a p))).
Qed.
Print Assumptions C18_at_age_exact.

Theorem C18_at_lock_time_exact : forall n p,
  (forall rho, evalA rho (at_lock_time n p) = evalA (restrict_lock n rho) p) /\
  (forall w, w_lock w = n -> eval w (at_lock_time n p) = eval w p) /\
  (forall t, In (SAfter t) (leaves_of (at_lock_time n p)) -> cltv_ok t n = true).
Proof.
  exact (fun n p => conj (fun rho => at_lock_time_eval n rho p)
        (conj (fun w => at_lock_time_world w n p) (at_lock_time_only_passable n p))).
Qed.
Print Assumptions C18_at_lock_time_exact.

(* ---------------------------------------------------------------- minimum_n_keys *)
(* full statement:  forall p, wf p = true -> is_min_sigs p (min_keys p)
   — false on the code as it is (a repeated key is counted once per leaf): *)
Theorem C18_min_keys_exact_refuted :
  exists p, wf p = true /\ min_keys p = Some 2 /\
            exists rho, evalA rho p = true /\ sigcount rho p = 1.
Proof. exact min_keys_exact_refuted. Qed.
Print Assumptions C18_min_keys_exact_refuted.

(* exact when no key occurs twice *)
Theorem C18_min_keys_exact_nodup : forall p, NoDup (keys_of p) -> is_min_sigs p (min_keys p).
Proof. exact min_keys_exact_nodup. Qed.
Print Assumptions C18_min_keys_exact_nodup.

(* for every policy: None exactly when unsatisfiable; Some m is reached by a satisfying assignment
   with at most m signatures and no satisfying assignment switches on fewer than m key leaves *)
Theorem C18_min_keys_sound : forall p,
  match min_keys p with
  | None => forall rho, evalA rho p = false
  | Some m => (exists rho, evalA rho p = true /\ sigcount rho p <= m) /\
              (forall rho, evalA rho p = true -> m <= kcount rho p)
  end.
Proof. exact min_keys_sound. Qed.
Print Assumptions C18_min_keys_sound.

(* ---------------------------------------------------------------- entails *)
(* full statement:  n_terminals p <= 20 -> entails p q = ESome b -> (b = true <-> implies p q)
   — false on the code as it is (Unsatisfiable/Trivial are matched before normalizing): *)
Theorem C18_entails_exact_refuted :
  exists a b, wf a = true /\ wf b = true /\ entails a b = ESome false /\ implies a b.
Proof. exact entails_exact_refuted. Qed.
Print Assumptions C18_entails_exact_refuted.

(* exact outside the class [entails_defect]; in particular on normalized arguments *)
Theorem C18_entails_exact_except : forall a b,
  entails_defect a b = false -> n_terminals a <= ENTAILMENT_MAX_TERMINALS ->
  exists r, entails a b = ESome r /\ (r = true <-> implies a b).
Proof. exact entails_exact_except. Qed.
Print Assumptions C18_entails_exact_except.

Theorem C18_entails_exact_normal : forall a b,
  is_normal a = true -> is_normal b = true -> n_terminals a <= ENTAILMENT_MAX_TERMINALS ->
  exists r, entails a b = ESome r /\ (r = true <-> implies a b).
Proof. exact entails_exact_normal. Qed.
Print Assumptions C18_entails_exact_normal.

(* inside the class the answer is always the wrong one *)
Theorem C18_entails_defect_wrong : forall a b,
  entails_defect a b = true -> n_terminals a <= ENTAILMENT_MAX_TERMINALS ->
  entails a b = ESome false /\ implies a b.
Proof. exact entails_defect_wrong. Qed.
Print Assumptions C18_entails_defect_wrong.

(* the recursion terminates within the fuel of the model, no panic site or debug assertion is
   reached, None exactly above 20 terminals *)
Theorem C18_entails_total : forall a b, exists r, entails a b = r /\ r <> EFuel /\ r <> EPanic /\
  (r = ENone <-> ENTAILMENT_MAX_TERMINALS < n_terminals a).
Proof. exact entails_total. Qed.
Print Assumptions C18_entails_total.

(* a positive answer is an implication in every world (ages, lock times included); the converse
   fails by design because lock times are independent atoms for the procedure *)
Theorem C18_entails_sound_worlds : forall a b,
  entails a b = ESome true -> forall w, eval w a = true -> eval w b = true.
Proof. exact entails_sound_worlds. Qed.
Print Assumptions C18_entails_sound_worlds.
Theorem C18_entails_worlds_incomplete :
  exists a b, entails a b = ESome false /\ forall w, eval w a = true -> eval w b = true.
Proof. exact entails_worlds_incomplete. Qed.
Print Assumptions C18_entails_worlds_incomplete.

(* ---------------------------------------------------------------- lift of concrete policies *)
(* full statement:  cwf p = true -> lift p = LOk s -> forall rho, evalA rho s = evalC rho p
   — false on the code as it is (And lifts with the constant threshold 2; a 1-ary And panics): *)
Theorem C18_concrete_lift_refuted :
  (exists p s rho, cwf p = true /\ lift p = LOk s /\ evalA rho s <> evalC rho p) /\
  (exists p, cwf p = true /\ lift p = LPanic 1).
Proof. exact concrete_lift_refuted. Qed.
Print Assumptions C18_concrete_lift_refuted.

(* holds when every And has exactly two children (all the string parser can build) *)
Theorem C18_concrete_lift_binary : forall p s,
  and_arity_bad p = false -> lift p = LOk s -> forall rho, evalA rho s = evalC rho p.
Proof. exact concrete_lift_binary. Qed.
Print Assumptions C18_concrete_lift_binary.

(* what lift computes in general, that its result is normalized, and when it refuses *)
Theorem C18_concrete_lift_general : forall p,
  (forall s, lift p = LOk s -> is_normal s = true /\ forall rho, evalA rho s = evalC2 rho p) /\
  (lift p = LErrTimelock <-> check_timelocks p = false).
Proof.
  exact (fun p => conj (fun s E => conj (lift_normal p s E) (fun rho => lift_eval rho p s E))
                       (lift_err_iff p)).
Qed.
Print Assumptions C18_concrete_lift_general.

(* ---------------------------------------------------------------- mixed time locks *)
(* never misses: some satisfying path needs a height- and a time-based lock of one kind
   => check_timelocks rejects (all policies) *)
Theorem C18_mixed_sound : forall p, has_mixed_path p -> check_timelocks p = false.
Proof. exact mixed_sound. Qed.
Print Assumptions C18_mixed_sound.

(* full statement:  cwf p = true -> (check_timelocks p = false <-> has_mixed_path p)
   — false on the code as it is (the check is syntactic): *)
Theorem C18_mixed_exact_refuted :
  exists p, cwf p = true /\ check_timelocks p = false /\ ~ has_mixed_path p.
Proof. exact mixed_exact_refuted. Qed.
Print Assumptions C18_mixed_exact_refuted.

(* exact when every sub-policy is satisfiable *)
Theorem C18_mixed_exact : forall p, cwf p = true -> all_sat p = true ->
  (check_timelocks p = false <-> has_mixed_path p).
Proof. exact mixed_exact. Qed.
Print Assumptions C18_mixed_exact.

(* ---------------------------------------------------------------- the per-run oracle *)
(* the executable truth-table checks that Tables/PolicyCasesCheck.v applies to the
   implementation's own outputs decide the propositions used above *)
Theorem C18_oracle_decides :
  (forall p o, cex_equiv p o = None <-> forall rho, evalA rho p = evalA rho o) /\
  (forall a p o, cex_age a p o = None <-> forall rho, evalA (restrict_age a rho) p = evalA rho o) /\
  (forall n p o, cex_lock n p o = None <-> forall rho, evalA (restrict_lock n rho) p = evalA rho o) /\
  (forall c o, cex_lift c o = None <-> forall rho, evalC rho c = evalA rho o) /\
  (forall p q, implies_b p q = true <-> implies p q) /\
  (forall p, is_min_sigs p (min_sigs_b p)) /\
  (forall c, mixed_b c = true <-> has_mixed_path c).
Proof.
  exact (conj cex_equiv_spec (conj cex_age_spec (conj cex_lock_spec (conj cex_lift_spec
        (conj implies_b_spec (conj min_sigs_b_spec mixed_b_spec)))))).
Qed.
Print Assumptions C18_oracle_decides.

(* ---------------------------------------------------------------- non-vacuity *)
Example C18_nonvacuous_normal :
  is_normal (SThresh 2 [SKey 0; SThresh 1 [SKey 1; SOlder 5]; SAfter 100]) = true /\
  entails_defect (SThresh 2 [SKey 0; SKey 1]) (SThresh 1 [SKey 0; SKey 2]) = false /\
  entails (SThresh 2 [SKey 0; SKey 1]) (SThresh 1 [SKey 0; SKey 2]) = ESome true /\
  entails (SThresh 1 [SKey 0; SKey 2]) (SThresh 2 [SKey 0; SKey 1]) = ESome false.
Proof. vm_compute. repeat split; reflexivity. Qed.
Example C18_nonvacuous_concrete :
  let p := CThresh 2 [COlder 5; COlder 4194309; CKey 0] in
  cwf p = true /\ all_sat p = true /\ and_arity_bad p = false /\ check_timelocks p = false /\
  lift (CAnd [CKey 0; COr [CKey 1; COlder 5]]) = LOk (SThresh 2 [SKey 0; SThresh 1 [SKey 1; SOlder 5]]) /\
  NoDup (keys_of (SThresh 2 [SKey 0; SKey 1; SKey 2])) /\ min_keys (SThresh 2 [SKey 0; SKey 1; SKey 2]) = Some 2.
Proof.
  cbv zeta. repeat split; try reflexivity.
  repeat constructor; simpl; intuition discriminate.
Qed.
