(* C18 — Policy transformations preserve meaning.
   Statements only; every proof is `exact <lemma>`.
   Model: Ms/PolSemantic.v (policy::semantic), Ms/PolConcrete.v (policy::concrete lift, time-lock info).
   Specification: Ms/PolTruth.v
     [evalA rho p]  truth table over independent atoms (every distinct leaf is an atom),
     [eval w p]     truth in a world (signing keys, known preimages, age, lock time),
     [implies], [is_min_sigs], [evalC], [paths]/[has_mixed_path].
   Where the faithful model violates the full-strength statement there is a [_refuted] theorem with
   the witness (a finding about the code, listed in known_findings.txt) next to the strongest
   variant that holds.  Four earlier findings (entails on un-normalized arguments, And lifted
   2-of-n, syntactic mixed-time-lock check, lift re-checking unsatisfiable branches) are repaired in /repo; their theorems are now the
   full statements. *)
From Coq Require Import List NArith Bool Arith.
Import ListNotations.
From Verif Require Import PolSemantic PolConcrete PolTruth
  PolSemanticProofs PolMinKeysProofs PolEntailsProofs PolConcreteProofs PolOracleProofs.

(* ---------------------------------------------------------------- normalized / sorted *)
Theorem C18_normalized_eval : forall rho p, evalA rho (normalized p) = evalA rho p.
Proof. exact normalized_eval. Qed.
Print Assumptions C18_normalized_eval.

(* normal form: no constants below the root, >= 2 children, 1 <= k <= n, no and under and, no or
   under or; every Threshold::new inside succeeded; fixed point *)
Theorem C18_normalized_normal_form : forall p,
  is_normal (normalized p) = true /\ no_inner_const (normalized p) = true /\
  wf (normalized p) = true /\ normalized (normalized p) = normalized p.
Proof.
  exact (fun p => conj (normalized_normal p) (conj (normalized_no_inner_const p)
        (conj (normalized_wf p) (normalized_idempotent p)))).
Qed.
Print Assumptions C18_normalized_normal_form.

Theorem C18_sorted_eval : forall rho p, evalA rho (sorted p) = evalA rho p.
Proof. exact sorted_eval. Qed.
Print Assumptions C18_sorted_eval.

(* ---------------------------------------------------------------- at_age / at_lock_time *)
(* exactly the policy with every relative lock not passable at age a switched off; at age a
   itself nothing changes; only passable locks remain *)
Theorem C18_at_age_exact : forall a p,
  (forall rho, evalA rho (at_age a p) = evalA (restrict_age a rho) p) /\
  (forall w, w_age w = a -> eval w (at_age a p) = eval w p) /\
  (forall t, In (SOlder t) (leaves_of (at_age a p)) -> csv_ok t a = true).
Proof.
  exact (fun a p => conj (fun rho => at_age_eval a rho p)
        (conj (fun w => at_age_world w a p) (at_age_only_passable a p))).
Qed.
Print Assumptions C18_at_age_exact.

Theorem C18_at_lock_time_exact : forall n p,
  (forall rho, evalA rho (at_lock_time n p) = evalA (restrict_lock n rho) p) /\
  (forall w, w_lock w = n -> eval w (at_lock_time n p) = eval w p) /\
  (forall t, In (SAfter t) (leaves_of (at_lock_time n p)) -> cltv_ok t n = true).
Proof.
  exact (fun n p => conj (fun rho => at_lock_time_eval n rho p)
        (conj (fun w => at_lock_time_world w n p) (at_lock_time_only_passable n p))).
Qed.
Print Assumptions C18_at_lock_time_exact.

(* ---------------------------------------------------------------- minimum_n_keys *)
(* full statement:  forall p, wf p = true -> is_min_sigs p (min_keys p)
   — false on the code as it is (a repeated key is counted once per leaf): *)
Theorem C18_min_keys_exact_refuted :
  exists p, wf p = true /\ min_keys p = Some 2 /\
            exists rho, evalA rho p = true /\ sigcount rho p = 1.
Proof. exact min_keys_exact_refuted. Qed.
Print Assumptions C18_min_keys_exact_refuted.

(* exact when no key occurs twice *)
Theorem C18_min_keys_exact_nodup : forall p, NoDup (keys_of p) -> is_min_sigs p (min_keys p).
Proof. exact min_keys_exact_nodup. Qed.
Print Assumptions C18_min_keys_exact_nodup.

(* for every policy: None exactly when unsatisfiable; Some m is reached by a satisfying assignment
   with at most m signatures and no satisfying assignment switches on fewer than m key leaves *)
Theorem C18_min_keys_sound : forall p,
  match min_keys p with
  | None => forall rho, evalA rho p = false
  | Some m => (exists rho, evalA rho p = true /\ sigcount rho p <= m) /\
              (forall rho, evalA rho p = true -> m <= kcount rho p)
  end.
Proof. exact min_keys_sound. Qed.
Print Assumptions C18_min_keys_sound.

(* ---------------------------------------------------------------- entails *)
(* entailment answers agree with truth-table implication (atoms independent), every pair of
   arguments up to the terminal guard  [repaired in /repo 51c85bfb: arguments are normalized
   before Unsatisfiable/Trivial are matched] *)
Theorem C18_entails_exact : forall a b,
  n_terminals a <= ENTAILMENT_MAX_TERMINALS ->
  exists r, entails a b = ESome r /\ (r = true <-> implies a b).
Proof. exact entails_exact. Qed.
Print Assumptions C18_entails_exact.

(* the recursion terminates within the fuel of the model, no panic site or debug assertion is
   reached, None exactly above 20 terminals *)
Theorem C18_entails_total : forall a b, exists r, entails a b = r /\ r <> EFuel /\ r <> EPanic /\
  (r = ENone <-> ENTAILMENT_MAX_TERMINALS < n_terminals a).
Proof. exact entails_total. Qed.
Print Assumptions C18_entails_total.

(* a positive answer is an implication in every world (ages, lock times included); the converse
   fails by design because lock times are independent atoms for the procedure *)
Theorem C18_entails_sound_worlds : forall a b,
  entails a b = ESome true -> forall w, eval w a = true -> eval w b = true.
Proof. exact entails_sound_worlds. Qed.
Print Assumptions C18_entails_sound_worlds.
Theorem C18_entails_worlds_incomplete :
  exists a b, entails a b = ESome false /\ forall w, eval w a = true -> eval w b = true.
Proof. exact entails_worlds_incomplete. Qed.
Print Assumptions C18_entails_worlds_incomplete.

(* ---------------------------------------------------------------- lift of concrete policies *)
(* concrete policies lift to equivalent abstract ones: every policy, every arity of And / Or
   (0 and 1 included), every assignment; the result is normalized; no panic outcome exists
   [repaired in /repo 780a529d] *)
Theorem C18_concrete_lift : forall p s, lift p = LOk s ->
  is_normal s = true /\ forall rho, evalA rho s = evalC rho p.
Proof. exact (fun p s E => conj (lift_normal p s E) (fun rho => concrete_lift rho p s E)). Qed.
Print Assumptions C18_concrete_lift.

(* lift refuses exactly the policies check_timelocks refuses and lifts every other one
   [repaired in /repo 243891a5: the check is made once, for the whole policy] *)
Theorem C18_lift_refusal_exact : forall p,
  (lift p = LErrTimelock <-> check_timelocks p = false) /\
  (check_timelocks p = true -> lift p = LOk (lift_unchecked p)).
Proof. exact lift_refusal_exact. Qed.
Print Assumptions C18_lift_refusal_exact.

(* ---------------------------------------------------------------- mixed time locks *)
(* the mixed-time-lock check fires exactly when some satisfying path needs both a height-based
   and a time-based lock of the same kind: every policy whose thresholds respect 1 <= k <= n
   (the invariant of the Threshold type)  [repaired in /repo b588aa3a] *)
Theorem C18_mixed_exact : forall p, cwf p = true ->
  (check_timelocks p = false <-> has_mixed_path p).
Proof. exact mixed_exact. Qed.
Print Assumptions C18_mixed_exact.

(* the soundness direction needs no hypothesis at all *)
Theorem C18_mixed_sound : forall p, has_mixed_path p -> check_timelocks p = false.
Proof. exact mixed_sound. Qed.
Print Assumptions C18_mixed_sound.

(* ---------------------------------------------------------------- the per-run oracle *)
(* the executable truth-table checks that Tables/PolicyCasesCheck.v applies to the
   implementation's own outputs decide the propositions used above *)
Theorem C18_oracle_decides :
  (forall p o, cex_equiv p o = None <-> forall rho, evalA rho p = evalA rho o) /\
  (forall a p o, cex_age a p o = None <-> forall rho, evalA (restrict_age a rho) p = evalA rho o) /\
  (forall n p o, cex_lock n p o = None <-> forall rho, evalA (restrict_lock n rho) p = evalA rho o) /\
  (forall c o, cex_lift c o = None <-> forall rho, evalC rho c = evalA rho o) /\
  (forall p q, implies_b p q = true <-> implies p q) /\
  (forall p, is_min_sigs p (min_sigs_b p)) /\
  (forall c, mixed_b c = true <-> has_mixed_path c).
Proof.
  exact (conj cex_equiv_spec (conj cex_age_spec (conj cex_lock_spec (conj cex_lift_spec
        (conj implies_b_spec (conj min_sigs_b_spec mixed_b_spec)))))).
Qed.
Print Assumptions C18_oracle_decides.

(* ---------------------------------------------------------------- non-vacuity *)
Example C18_nonvacuous_semantic :
  is_normal (SThresh 2 [SKey 0; SThresh 1 [SKey 1; SOlder 5]; SAfter 100]) = true /\
  entails (SThresh 2 [SKey 0; SKey 1]) (SThresh 1 [SKey 0; SKey 2]) = ESome true /\
  entails (SThresh 1 [SKey 0; SKey 2]) (SThresh 2 [SKey 0; SKey 1]) = ESome false /\
  entails STriv (SThresh 1 [STriv; SKey 0]) = ESome true /\
  entails (SThresh 2 [SUnsat; SKey 0]) (SKey 1) = ESome true.
Proof. vm_compute. repeat split; reflexivity. Qed.
Example C18_nonvacuous_concrete :
  let p := CThresh 2 [COlder 5; COlder 4194309; CKey 0] in
  cwf p = true /\ check_timelocks p = false /\
  check_timelocks (CAnd [CAfter 1; CAnd [CAfter 500000001; CUnsat]]) = true /\
  lift (CAnd [CKey 0; CKey 1; CKey 2]) = LOk (SThresh 3 [SKey 0; SKey 1; SKey 2]) /\
  lift (CAnd [CKey 0]) = LOk (SKey 0) /\ lift (CAnd []) = LOk STriv /\ lift (COr []) = LOk SUnsat /\
  lift (COr [CKey 0; CAnd [CAnd [CAfter 1; CAfter 500000001]; CUnsat]]) = LOk (SKey 0) /\
  NoDup (keys_of (SThresh 2 [SKey 0; SKey 1; SKey 2])) /\ min_keys (SThresh 2 [SKey 0; SKey 1; SKey 2]) = Some 2.
Proof.
  cbv zeta. repeat split; try reflexivity.
  repeat constructor; simpl; intuition discriminate.
Qed.
