(* C09 — static size and resource figures are true upper bounds. Statements only; proofs in
   Proofs/ExtProofs.v over the model Ms/ExtModel.v (extra_props.rs) and Ms/Sat.v (satisfier). *)
From Verif Require Import TypeCheck ExtModel ExtProofs.

(* The full-strength statement [wit_bounds_stmt as_written] — for every well-typed script, context,
   asset environment and mode, a satisfaction returned by the satisfier model has at most
   max_witness_stack_count elements, max_witness_stack_size bytes and (pre-segwit)
   max_script_sig_size scriptSig bytes — is FALSE for the code as written, four independent ways: *)
Theorem C09_wit_bounds_refuted_thresh : ~ wit_bounds_stmt as_written.
Proof. exact wit_bounds_refuted_thresh. Qed.
Print Assumptions C09_wit_bounds_refuted_thresh.

Theorem C09_wit_bounds_refuted_dupif : ~ wit_bounds_stmt as_written.
Proof. exact wit_bounds_refuted_dupif. Qed.
Print Assumptions C09_wit_bounds_refuted_dupif.

Theorem C09_wit_bounds_refuted_unc : ~ wit_bounds_stmt as_written.
Proof. exact wit_bounds_refuted_unc. Qed.
Print Assumptions C09_wit_bounds_refuted_unc.

Theorem C09_wit_bounds_refuted_andv : ~ wit_bounds_stmt as_written.
Proof. exact wit_bounds_refuted_andv. Qed.
Print Assumptions C09_wit_bounds_refuted_andv.
