(* C09 — static size and resource figures are true upper bounds. Statements only; proofs in
   Proofs/Ext*.v over the model Ms/ExtModel.v (extra_props.rs, script_size, descriptor weights,
   Plan accounting) and Ms/Sat.v (satisfier). *)
From Verif Require Import TypeCheck ExtModel ExtProofs ExtLemmas ExtThresh ExtSatSide ExtBounds.
Local Open Scope N_scope.

(* ---- the witness bounds (DESIGN 5/C09 wit_bounds) ----
   Full strength: [wit_bounds_stmt as_written] — for every well-typed script, every context, every
   asset environment and both modes, a satisfaction returned by the satisfier model has at most
   max_witness_stack_count elements, max_witness_stack_size bytes and (pre-segwit)
   max_script_sig_size scriptSig bytes. It is FALSE for the code as written, four independent ways
   (each witness is a finding about /repo, see known_findings.txt): *)
Theorem C09_wit_bounds_refuted_thresh : ~ wit_bounds_stmt as_written.
Proof. exact wit_bounds_refuted_thresh. Qed.
Print Assumptions C09_wit_bounds_refuted_thresh.

Theorem C09_wit_bounds_refuted_dupif : ~ wit_bounds_stmt as_written.
Proof. exact wit_bounds_refuted_dupif. Qed.
Print Assumptions C09_wit_bounds_refuted_dupif.

Theorem C09_wit_bounds_refuted_unc : ~ wit_bounds_stmt as_written.
Proof. exact wit_bounds_refuted_unc. Qed.
Print Assumptions C09_wit_bounds_refuted_unc.

Theorem C09_wit_bounds_refuted_andv : ~ wit_bounds_stmt as_written.
Proof. exact wit_bounds_refuted_andv. Qed.
Print Assumptions C09_wit_bounds_refuted_andv.

(* What IS true, for every rule set [fx] (the code as written or any subset of the four candidate
   repairs), every script of the computable class [ext_safe fx c] (a construct whose rule is
   defective is either repaired by [fx] or absent; children whose dissatisfaction a parent's
   satisfaction uses have a dissatisfaction figure, which the type system's `d` gives; k <= n),
   every asset environment, both modes: satisfaction and (where a figure exists) dissatisfaction
   are covered. The class is evaluated on every generated script of a run (evidence:
   theorem_class_coverage). Missing for full strength: [type_of m = ROk _ -> ext_safe all_fixed c m]
   (d-typed => dissatisfaction figure) is checked per run, not proved. *)
Theorem C09_wit_bounds_partial :
  forall fx c ke se mall rhs m,
    senv_ok c se -> ksort_len_ok ke -> ext_safe fx c m = true ->
    bounded se (sat_data (ext_of_gen fx c m)) (snd (sat_dissat ke se mall rhs m))
    /\ dbounded se (dissat_data (ext_of_gen fx c m)) (fst (sat_dissat ke se mall rhs m)).
Proof. exact wit_bounds_gen. Qed.
Print Assumptions C09_wit_bounds_partial.

Theorem C09_wit_bounds_root :
  forall fx c ke se mall rhs m l,
    senv_ok c se -> ksort_len_ok ke -> ext_safe fx c m = true ->
    s_stack (snd (sat_dissat ke se mall rhs m)) = WStack l ->
    exists d, sat_data (ext_of_gen fx c m) = Some d
              /\ N.of_nat (length l) <= sd_wcount d
              /\ ph_sum se l <= sd_wsize d
              /\ (se_tap se = false -> ssig_sum se l <= sd_ssig d).
Proof. exact wit_bounds_root. Qed.
Print Assumptions C09_wit_bounds_root.

(* the arithmetic heart of the threshold rule, for all k and all child lists: with the first
   [quota] children (by decreasing sat - dissat) satisfied, the five-pass computation dominates
   every choice of exactly min(quota, n) satisfied children *)
Theorem C09_threshold_topk :
  forall strict k (T : list trip),
    Forall okT T -> nflags T = Nat.min (quota strict k) (length T) ->
    exists sd, th_sat_data strict k (map fst T) = Some sd
               /\ V sd_wcount T <= sd_wcount sd /\ V sd_wsize T <= sd_wsize sd /\ V sd_ssig T <= sd_ssig sd.
Proof. exact th_sat_data_bound. Qed.
Print Assumptions C09_threshold_topk.

Example C09_nonvacuous :
  senv_ok cx_segwit se_key3 /\ ksort_len_ok ke0
  /\ ext_safe as_written cx_segwit (MOrD (MCheck (MPkK 3)) (MAndV (MVerify (MCheck (MPkK 1))) (MOlder 10))) = true
  /\ ext_safe all_fixed cx_segwit w_thresh = true
  /\ ext_safe as_written cx_segwit w_thresh = false
  /\ s_stack (snd (sat_dissat ke0 se_key3 false true (MOrD (MCheck (MPkK 3)) (MAndV (MVerify (MCheck (MPkK 1))) (MOlder 10)))))
     = WStack [PhSig 3].
Proof. exact wit_bounds_nonvacuous. Qed.
