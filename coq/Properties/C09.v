(* C09 — static size and resource figures are true upper bounds. Statements only; proofs in
   Proofs/Ext*.v over the model Ms/ExtModel.v (extra_props.rs, script_size, descriptor weights,
   Plan accounting) and Ms/Sat.v (satisfier). *)
From Verif Require Import CodecSpec.
From Verif Require Import ExecTr TypeCheck ExtModel ExtProofs ExtLemmas ExtThresh ExtSatSide ExtBounds ExtTyped ExtDesc ExtSize ExtExec ExtOps ExtCodec ExtDepth ExtTlSpec ExtTlProofs ExtTlConv ExtKoModel ExtKoProofs.
From Verif Require TheoremA.
Local Open Scope N_scope.

(* ---- the witness bounds (DESIGN 5/C09 wit_bounds) ----
   Full strength: [wit_bounds_stmt as_written] — for every well-typed script, every context, every
   asset environment and both modes, a satisfaction returned by the satisfier model has at most
   max_witness_stack_count elements, max_witness_stack_size bytes and (pre-segwit)
   max_script_sig_size scriptSig bytes.

   THE CODE AS WRITTEN ([as_written]: /repo with 937818d4 thresh i<k, 1f19b621 d: +2 bytes/+1 item,
   cce56f21 pk_h uncompressed 66, 556af94a and_v dissatisfaction figure). Proved for every script of
   the computable class [ext_safe as_written c]: children whose dissatisfaction a parent's
   satisfaction uses have a dissatisfaction figure (what the type system's `d` gives), thresh has
   k <= n, an or_i branch without dissatisfaction figure is syntactically never dissatisfied by the
   satisfier ([nostk]), multi_a only in Tap. Satisfaction AND (where a figure exists)
   dissatisfaction are covered, for every asset environment, both modes.
   (Class form; C09_wit_bounds below removes the class for well-typed scripts.) *)
Theorem C09_wit_bounds_code_partial :
  forall c ke se mall rhs m,
    senv_ok c se -> ksort_len_ok ke -> ext_safe as_written c m = true ->
    bounded se (sat_data (ext_of c m)) (snd (sat_dissat ke se mall rhs m))
    /\ dbounded se (dissat_data (ext_of c m)) (fst (sat_dissat ke se mall rhs m)).
Proof. exact (wit_bounds_gen as_written). Qed.
Print Assumptions C09_wit_bounds_code_partial.

(* ---- FULL STRENGTH for the code as written: every well-typed script ----
   [ext_struct_ok c m] is what the constructors and the context rules guarantee and typing does not
   see: Threshold::new's k <= n for thresh, multi_a / sortedmulti_a only in Tapscript. With it,
   every well-typed script is in the class ext_safe (Proofs/ExtTyped.v: type `d` => a
   dissatisfaction figure exists; a missing figure => the satisfier never returns a stack), so the
   witness bounds hold for every well-typed script, context, asset environment and mode. *)
Theorem C09_typed_in_class :
  forall c m t, type_of m = ROk t -> ext_struct_ok c m = true -> ext_safe as_written c m = true.
Proof. exact typed_ext_safe. Qed.
Print Assumptions C09_typed_in_class.

Theorem C09_d_has_dissat_figure :
  forall c m t, type_of m = ROk t -> ext_struct_ok c m = true -> c_dissat (t_corr t) = true ->
                exists d, dissat_data (ext_of c m) = Some d.
Proof. exact typed_d_has_dissat_figure. Qed.
Print Assumptions C09_d_has_dissat_figure.

Theorem C09_wit_bounds :
  forall c ke se mall rhs m t,
    senv_ok c se -> ksort_len_ok ke -> type_of m = ROk t -> ext_struct_ok c m = true ->
    bounded se (sat_data (ext_of c m)) (snd (sat_dissat ke se mall rhs m))
    /\ dbounded se (dissat_data (ext_of c m)) (fst (sat_dissat ke se mall rhs m)).
Proof. exact wit_bounds_typed. Qed.
Print Assumptions C09_wit_bounds.

(* the same for EVERY rule set (any setting of the four switches): which switch a bound needs is
   part of [ext_safe fx c] *)
Theorem C09_wit_bounds_partial :
  forall fx c ke se mall rhs m,
    senv_ok c se -> ksort_len_ok ke -> ext_safe fx c m = true ->
    bounded se (sat_data (ext_of_gen fx c m)) (snd (sat_dissat ke se mall rhs m))
    /\ dbounded se (dissat_data (ext_of_gen fx c m)) (fst (sat_dissat ke se mall rhs m)).
Proof. exact wit_bounds_gen. Qed.
Print Assumptions C09_wit_bounds_partial.

Theorem C09_wit_bounds_root :
  forall fx c ke se mall rhs m l,
    senv_ok c se -> ksort_len_ok ke -> ext_safe fx c m = true ->
    s_stack (snd (sat_dissat ke se mall rhs m)) = WStack l ->
    exists d, sat_data (ext_of_gen fx c m) = Some d
              /\ N.of_nat (length l) <= sd_wcount d
              /\ ph_sum se l <= sd_wsize d
              /\ (se_tap se = false -> ssig_sum se l <= sd_ssig d).
Proof. exact wit_bounds_root. Qed.
Print Assumptions C09_wit_bounds_root.

(* HISTORICAL — about the rule set [pre_fix] of the tree BEFORE the four fix commits, not about the
   code that exists: the full-strength statement was false four independent ways. Kept because the
   witnesses are the regression inputs of the check (corpus of harness/src/ext.rs). *)
Theorem C09_hist_wit_bounds_refuted_thresh : ~ wit_bounds_stmt pre_fix.
Proof. exact wit_bounds_refuted_thresh. Qed.
Print Assumptions C09_hist_wit_bounds_refuted_thresh.

Theorem C09_hist_wit_bounds_refuted_dupif : ~ wit_bounds_stmt pre_fix.
Proof. exact wit_bounds_refuted_dupif. Qed.
Print Assumptions C09_hist_wit_bounds_refuted_dupif.

Theorem C09_hist_wit_bounds_refuted_unc : ~ wit_bounds_stmt pre_fix.
Proof. exact wit_bounds_refuted_unc. Qed.
Print Assumptions C09_hist_wit_bounds_refuted_unc.

Theorem C09_hist_wit_bounds_refuted_andv : ~ wit_bounds_stmt pre_fix.
Proof. exact wit_bounds_refuted_andv. Qed.
Print Assumptions C09_hist_wit_bounds_refuted_andv.

(* the arithmetic heart of the threshold rule, for all k and all child lists: with the first
   [quota] children (by decreasing sat - dissat) satisfied, the five-pass computation dominates
   every choice of exactly min(quota, n) satisfied children *)
Theorem C09_threshold_topk :
  forall strict k (T : list trip),
    Forall okT T -> nflags T = Nat.min (quota strict k) (length T) ->
    exists sd, th_sat_data strict k (map fst T) = Some sd
               /\ V sd_wcount T <= sd_wcount sd /\ V sd_wsize T <= sd_wsize sd /\ V sd_ssig T <= sd_ssig sd.
Proof. exact th_sat_data_bound. Qed.
Print Assumptions C09_threshold_topk.

(* ---- descriptor weights (DESIGN 5/C09 desc_weight): bare / sh / wsh / sh(wsh) ----
   max_weight_to_satisfy covers what the satisfaction weighs beyond the unsatisfied input
   (4 WU per scriptSig byte incl. the growth of its length prefix, 1 WU per witness byte incl. the
   item count, the witness script / redeem script and their prefixes). *)
Theorem C09_desc_weight_partial :
  forall fx dk c ke se mall rhs m l,
    senv_ok c se -> ksort_len_ok ke -> ext_safe fx c m = true -> se_tap se = false ->
    s_stack (snd (sat_dissat ke se mall rhs m)) = WStack l ->
    exists w, desc_weight fx dk c m = Some w
              /\ desc_measured dk se l (script_size_gen fx c m) <= w.
Proof. exact desc_weight_bound. Qed.
Print Assumptions C09_desc_weight_partial.

(* taproot: one leaf's formula covers a script-path spend through that leaf;
   Tr::max_weight_to_satisfy is at least every satisfiable leaf's formula and (since /repo
   265ff19b) at least the key-path spend, whatever the tree. *)
Theorem C09_tr_leaf_weight :
  forall se d l ssz depth,
    within se d l -> tr_measured se l ssz depth <= tr_leaf_weight depth ssz (sd_wcount d + 1) (sd_wsize d).
Proof. exact tr_leaf_weight_bound. Qed.
Print Assumptions C09_tr_leaf_weight.
Theorem C09_tr_tree_weight :
  forall leaves d ssz el sz,
    In (d, ssz, Some (el, sz)) leaves ->
    exists w, tr_tree_weight leaves = Some w /\ tr_leaf_weight d ssz el sz <= w.
Proof. exact tr_tree_weight_ge. Qed.
Print Assumptions C09_tr_tree_weight.
Theorem C09_tr_tree_weight_keyspend :
  forall leaves, exists w, tr_tree_weight leaves = Some w /\ tr_keyspend_weight <= w.
Proof. exact tr_tree_weight_keyspend. Qed.
Print Assumptions C09_tr_tree_weight_keyspend.

(* ---- figures about the script itself ----
   static_ops is EXACTLY the number of opcodes above OP_16 of the encoded script (what consensus
   counts whether executed or not), in the contexts that have an opcode limit; has_free_verify says
   exactly when the encoder fuses VERIFY into the last opcode. (script_size = encoded length is
   proved by the C04 development; pk_cost is treated below.) *)
Theorem C09_static_ops_exact :
  forall fx c ke m, no_multi_a m = true -> count_ops (enc ke m) = static_ops (ext_of_gen fx c m).
Proof. exact static_ops_exact. Qed.
Print Assumptions C09_static_ops_exact.
Theorem C09_has_free_verify_exact :
  forall fx c ke m, fv_script (enc ke m) = has_free_verify (ext_of_gen fx c m).
Proof. exact fv_enc. Qed.
Print Assumptions C09_has_free_verify_exact.

(* pk_cost (the figure the context limit checks read) against script_size (exact, C04):
   equal on the class size_wf (which contains uncompressed keys since /repo 4c5160f8) *)
Theorem C09_pk_cost_is_size_partial :
  forall fx c m, size_wf fx c m = true -> pk_cost (ext_of_gen fx c m) = script_size_gen fx c m.
Proof. exact ext_pk_cost_is_size. Qed.
Print Assumptions C09_pk_cost_is_size_partial.

(* ---- executed resources (DESIGN 5/C09 exec_bounds) ----
   PARTIAL. Proved: the instrumented semantics used by the per-run oracle computes the same final
   state as the Script semantics (so its counters describe the real execution), for all scripts,
   states and traces; the op-count bound follows below (C09_exec_ops). NOT proved: stack depth <=
   max_witness_stack_count + max_exec_stack_count for every satisfaction; it is judged per run
   on every satisfaction the implementation returns (sat engine | extracted exec_tr); that oracle
   found the multi and thresh exec-stack defects repaired by /repo 1919c6c7 and 0676c51a. *)
Theorem C09_exec_tr_agrees_partial :
  forall e s st t,
    match exec_tr e s st t with
    | Ok (st', _) => exec e s st = Ok st'
    | Fail => exec e s st = Fail
    end.
Proof. exact exec_tr_agrees. Qed.
Print Assumptions C09_exec_tr_agrees_partial.

(* ---- executed opcode count (DESIGN 5/C09 exec_bounds, op-count half) ----
   For EVERY successful execution of the encoded script — any environment, any initial stack, hence
   every satisfaction the satisfier can return — the consensus opcode count (all opcodes above OP_16
   of the script, executed or not, plus the keys of every executed CHECKMULTISIG, measured by the
   instrumented semantics) is at most static_ops + ast_cms, where ast_cms is the all-paths multisig
   key bound of the AST. Contexts with an opcode limit (no multi_a), multi with at most 20 keys. *)
Theorem C09_exec_ops :
  forall fx c ke m e st t st' t',
    no_multi_a m = true -> multi_small m = true ->
    exec_tr e (enc ke m) st t = Ok (st', t') ->
    count_ops (enc ke m) + (tr_cms t' - tr_cms t) <= static_ops (ext_of_gen fx c m) + ast_cms m.
Proof. exact exec_ops_bound. Qed.
Print Assumptions C09_exec_ops.

(* ... which is within the library's figure static_ops + max_exec_op_count on the computable class
   ops_covered (all-paths bound <= figure). PARTIAL: the class contains every script without
   multi/sortedmulti (C09_ops_covered_cms_free) and, per run, is evaluated on every generated script
   (evidence: ops_class_coverage); outside it are scripts where a multisig sits on a path that no
   satisfaction takes (e.g. under d:/j: on the dissatisfied side, or in an unsatisfiable branch). *)
Theorem C09_exec_ops_within_figure_partial :
  forall fx c ke m e st t st' t',
    no_multi_a m = true -> multi_small m = true -> ops_covered fx c m = true ->
    exec_tr e (enc ke m) st t = Ok (st', t') ->
    exists n, sat_op_count (ext_of_gen fx c m) = Some n
              /\ count_ops (enc ke m) + (tr_cms t' - tr_cms t) <= n.
Proof. exact exec_ops_within_figure. Qed.
Print Assumptions C09_exec_ops_within_figure_partial.

Theorem C09_ops_covered_cms_free :
  forall fx c m, cms_free m = true -> sat_data (ext_of_gen fx c m) <> None -> ops_covered fx c m = true.
Proof. exact cms_free_covered. Qed.
Print Assumptions C09_ops_covered_cms_free.

Example C09_ops_nonvacuous :
  ops_covered as_written cx_segwit (MAndV (MVerify (MCheck (MPkK 0))) (MMulti 2 [1; 2; 3])) = true
  /\ ops_covered as_written cx_segwit (MOrB (MMulti 1 [1; 2]) (MAlt (MMulti 2 [3; 4; 5]))) = true
  /\ ast_cms (MOrB (MMulti 1 [1; 2]) (MAlt (MMulti 2 [3; 4; 5]))) = 5.
Proof. vm_compute. auto. Qed.

(* the class cannot be widened in the all-executions formulation: outside ops_covered there is a
   well-typed script in ext_safe with an ACCEPTED execution (a non-canonical dissatisfaction of
   j:and_b(multi, a:sha256): valid signature, wrong preimage) whose counted ops, 22, exceed the figure,
   19. The script is malleable and the library's satisfier never produces this witness (it
   dissatisfies j: with the empty vector, which skips the body): a limit of the formulation, not a
   defect of the figure. What remains open for these scripts is the statement restricted to
   satisfier-produced witnesses. *)
Theorem C09_exec_ops_all_executions_refuted :
  exists tym st' t' n,
    type_of rf_ms = ROk tym /\ ext_safe as_written cx_segwit rf_ms = true
    /\ no_multi_a rf_ms = true /\ multi_small rf_ms = true
    /\ ops_covered as_written cx_segwit rf_ms = false
    /\ exec_tr rf_env (enc rf_ke rf_ms) (mkSt rf_wit []) (mkTrace 0 5) = Ok (st', t')
    /\ stk st' = [[1]]
    /\ sat_op_count (ext_of_gen as_written cx_segwit rf_ms) = Some n
    /\ n < count_ops (enc rf_ke rf_ms) + tr_cms t'.
Proof. exact exec_ops_all_executions_refuted. Qed.
Print Assumptions C09_exec_ops_all_executions_refuted.

(* ---- execution stack depth (max_exec_stack_count) ----
   For EVERY successful execution of the encoded script of a well-typed, well-formed fragment - any
   environment, any initial stack and altstack, hence every satisfaction and dissatisfaction, all
   fragments including thresh / multi / multi_a - the number of stack + altstack elements (tr_depth,
   the running maximum kept by the instrumented semantics exec_tr, taken after every instruction
   and after every IF/NOTIF pop) never rises more than [dgrow m] above its value at the start.
   dgrow is the model's static growth bound (Ms/ExtModel.v). *)
Theorem C09_exec_depth_growth :
  forall e ke m tym st t st' t',
    type_of m = ROk tym -> TheoremA.wf e ke m ->
    exec_tr e (enc ke m) st t = Ok (st', t') ->
    tr_depth t' <= N.max (tr_depth t) (depth_of st + dgrow m).
Proof. exact exec_depth_growth. Qed.
Print Assumptions C09_exec_depth_growth.

(* ... which is within initial depth + max_exec_stack_count on the computable class depth_covered
   (growth bound <= figure). PARTIAL: the class is evaluated per run on every generated script
   (evidence: depth_class_coverage); outside it are scripts with a never-true left operand of or_d
   (or_d(0,..): IFDUP is counted although it cannot duplicate), an or_d whose left operand always
   consumes an element that the type system does not record (or_d(or_d(pk,pk),pk), or_i), and scripts
   whose deeper branch has no satisfaction (the figure ignores it, the all-executions bound does not). *)
Theorem C09_exec_depth_within_figure_partial :
  forall fx c e ke m tym st t st' t',
    type_of m = ROk tym -> TheoremA.wf e ke m -> depth_covered fx c m = true ->
    exec_tr e (enc ke m) st t = Ok (st', t') ->
    exists d, sat_data (ext_of_gen fx c m) = Some d
              /\ tr_depth t' <= N.max (tr_depth t) (depth_of st + sd_estack d).
Proof. exact exec_depth_within_figure. Qed.
Print Assumptions C09_exec_depth_within_figure_partial.

(* the form the stack-size limit check uses: from a witness of at most max_witness_stack_count
   elements (C09_wit_bounds) the depth stays within max_witness_stack_count + max_exec_stack_count *)
Theorem C09_exec_depth_limit_partial :
  forall fx c e ke m tym items st' t',
    type_of m = ROk tym -> TheoremA.wf e ke m -> depth_covered fx c m = true ->
    exec_tr e (enc ke m) (mkSt items []) (mkTrace 0 (depth_of (mkSt items []))) = Ok (st', t') ->
    exists d, sat_data (ext_of_gen fx c m) = Some d
              /\ (N.of_nat (length items) <= sd_wcount d -> tr_depth t' <= sd_wcount d + sd_estack d).
Proof. exact exec_depth_limit. Qed.
Print Assumptions C09_exec_depth_limit_partial.

(* not vacuous, and tight: the growth bound of multi equals the figure n + 2 and is attained *)
Example C09_depth_nonvacuous :
  depth_covered as_written cx_segwit (MAndV (MVerify (MCheck (MPkK 0))) (MMulti 2 [1; 2; 3])) = true
  /\ depth_covered as_written cx_segwit
       (MThresh 2 [MCheck (MPkK 0); MSwap (MCheck (MPkK 1)); MSwap (MDupIf (MVerify (MOlder 10)))]) = true
  /\ depth_covered as_written cx_segwit (MOrD (MMulti 1 [1; 2]) (MAndV (MVerify (MCheck (MPkH 3))) (MOlder 5))) = true
  /\ dgrow (MMulti 2 [1; 2; 3]) = 5
  /\ match exec_tr rf_env (enc rf_ke (MMulti 1 [3; 4; 5])) (mkSt [[48]; []] []) (mkTrace 0 2),
           sat_data (ext_of_gen as_written cx_segwit (MMulti 1 [3; 4; 5])) with
     | Ok (st', t'), Some d =>
       stk st' = [[1]] /\ tr_depth t' = 2 + sd_estack d /\ dgrow (MMulti 1 [3; 4; 5]) = sd_estack d
     | _, _ => False
     end.
Proof. vm_compute. repeat split; reflexivity. Qed.

(* ---- against the REAL encoded length (C04: script_size_ok) ----
   Miniscript::script_size and, for every fragment a context admits, ExtData::pk_cost are the length
   of the encoding; the descriptor weight bound is stated over blen (encode ke m) for every
   well-typed well-formed script (no class, no model script size left in the statement). *)
Theorem C09_script_size_is_len :
  forall fx c ke m, ksort_ok ke -> ms_wf c ke m -> blen (encode ke m) = script_size_gen fx (xctx_of c ke) m.
Proof. exact ext_script_size_is_len. Qed.
Print Assumptions C09_script_size_is_len.

Theorem C09_pk_cost_is_len :
  forall c ke m, ksort_ok ke -> ms_wf c ke m -> ctx_frag_ok c m = true ->
                 pk_cost (ext_of (xctx_of c ke) m) = blen (encode ke m).
Proof. exact ext_pk_cost_is_len. Qed.
Print Assumptions C09_pk_cost_is_len.

Theorem C09_desc_weight :
  forall dk c ke se mall rhs m t l,
    senv_ok (xctx_of c ke) se -> ksort_ok ke -> ms_wf c ke m ->
    type_of m = ROk t -> ext_struct_ok (xctx_of c ke) m = true -> se_tap se = false ->
    s_stack (snd (sat_dissat ke se mall rhs m)) = WStack l ->
    exists w, desc_weight as_written dk (xctx_of c ke) m = Some w
              /\ desc_measured dk se l (blen (encode ke m)) <= w.
Proof. exact desc_weight_bound_len. Qed.
Print Assumptions C09_desc_weight.

(* ---- Plan accounting (DESIGN 5/C09 plan_sizes): "announced >= real" is refuted three ways for
   the accounting as written (findings plan:omits-script, plan:shwsh-scriptsig-push,
   plan:legacy-varint-of-count); it is exact for taproot plans. *)
Theorem C09_plan_witness_refuted :
  exists sizes ssz, plan_witness_size PSegwitNative sizes < plan_real_witness PSegwitNative sizes ssz.
Proof. exact plan_witness_refuted. Qed.
Print Assumptions C09_plan_witness_refuted.
Theorem C09_plan_shwsh_scriptsig_refuted :
  exists sizes ssz, plan_scriptsig_size PShWsh sizes < plan_real_scriptsig PShWsh sizes ssz false.
Proof. exact plan_shwsh_scriptsig_refuted. Qed.
Print Assumptions C09_plan_shwsh_scriptsig_refuted.
Theorem C09_plan_legacy_varint_refuted :
  exists sizes, plan_scriptsig_size PLegacy sizes < plan_real_scriptsig PLegacy sizes 0 false.
Proof. exact plan_legacy_varint_refuted. Qed.
Print Assumptions C09_plan_legacy_varint_refuted.
Theorem C09_plan_taproot_exact :
  forall sizes ssz,
    plan_witness_size PTaproot sizes = plan_real_witness PTaproot sizes ssz
    /\ plan_scriptsig_size PTaproot sizes = plan_real_scriptsig PTaproot sizes ssz false.
Proof. exact plan_taproot_exact. Qed.
Print Assumptions C09_plan_taproot_exact.

(* ---- tree_height and the recursion-depth checks (Ms/ExtTlSpec.v, Proofs/ExtTlProofs.v) ----
   The field is the height of the AST (leaves 0) for EVERY AST, rule set and context. Hence
   validate_non_top_level's check `tree_height > max_recursive_depth` rejects exactly the ASTs higher
   than the limit; from_ast's check `(tree_height as u32) > 402` does so for heights below 2^32, and with
   no side condition for a tree all of whose sub-fragments went through from_ast. *)
Theorem C09_tree_height_exact :
  forall fx c m, tree_height (ext_of_gen fx c m) = ms_height m.
Proof. exact tree_height_is_height. Qed.
Print Assumptions C09_tree_height_exact.
Theorem C09_validate_depth_exact :
  forall fx c m limit, validate_depth_ok limit (ext_of_gen fx c m) = true <-> ms_height m <= limit.
Proof. exact validate_depth_exact. Qed.
Print Assumptions C09_validate_depth_exact.
Theorem C09_from_ast_depth_exact :
  forall fx c m, ms_height m < U32_MOD ->
    (from_ast_depth_ok (ext_of_gen fx c m) = true <-> ms_height m <= MAX_RECURSION_DEPTH).
Proof. exact from_ast_depth_exact. Qed.
Print Assumptions C09_from_ast_depth_exact.
Theorem C09_built_by_from_ast_exact :
  forall fx c m, built_by_from_ast fx c m = true <-> ms_height m <= MAX_RECURSION_DEPTH.
Proof. exact built_by_from_ast_exact. Qed.
Print Assumptions C09_built_by_from_ast_exact.

(* ---- timelock_info ----
   Flags: csv_with_height / csv_with_time / cltv_with_height / cltv_with_time are set iff an
   older / after leaf of that unit occurs in the AST.
   contains_combination, exact w.r.t. the syntactic specification [tl_mixes]: two lock leaves of the
   same kind and different unit whose lowest common ancestor is and_v, and_b, the (X, Y) pair of
   andor, or a thresh with k >= 2 under two different children (k <= 1: like a disjunction, as the code does).
   Satisfying paths ([sat_paths]: one operand of an or, X and Y or Z of andor, every choice of exactly
   k children of a thresh, `0` has none): path-mixing => flag for EVERY AST; every leaf a path needs
   is in the flags. The converse is refuted: and_v(v:older(1),and_v(v:older(4194305),0)) is well typed,
   has the flag and no satisfying path (the field over-approximates on unsatisfiable conjunctions). *)
Theorem C09_timelock_flags_exact :
  forall fx c m l, tl_flag (timelock_info (ext_of_gen fx c m)) l = true <-> In l (lock_leaves m).
Proof. exact timelock_flags_exact. Qed.
Print Assumptions C09_timelock_flags_exact.
Theorem C09_timelock_comb_exact :
  forall fx c m, tl_comb (timelock_info (ext_of_gen fx c m)) = true <-> tl_mixes m.
Proof. exact timelock_comb_exact. Qed.
Print Assumptions C09_timelock_comb_exact.
Theorem C09_timelock_comb_sound_paths :
  forall fx c m, path_mix m -> tl_comb (timelock_info (ext_of_gen fx c m)) = true.
Proof. exact timelock_comb_sound_paths. Qed.
Print Assumptions C09_timelock_comb_sound_paths.
Theorem C09_timelock_flags_cover_paths :
  forall fx c m p l, In p (sat_paths m) -> In l p -> tl_flag (timelock_info (ext_of_gen fx c m)) l = true.
Proof. exact timelock_flags_cover_paths. Qed.
Print Assumptions C09_timelock_flags_cover_paths.
Theorem C09_timelock_comb_paths_converse_refuted :
  exists m t, type_of m = ROk t
              /\ (forall fx c, tl_comb (timelock_info (ext_of_gen fx c m)) = true)
              /\ ~ path_mix m.
Proof. exact timelock_comb_paths_converse_refuted. Qed.
Print Assumptions C09_timelock_comb_paths_converse_refuted.
(* The converse holds on the computable class [tl_total] (Proofs/ExtTlConv.v): every operand of a
   conjunction (and_v, and_b, andor's X and Y, every child of a thresh) has a satisfying path and
   thresh has 1 <= k <= n. There the flag is EXACT for satisfying paths, and a flag is set iff some
   satisfying path needs a leaf of that kind and unit. *)
Theorem C09_timelock_comb_exact_paths :
  forall fx c m, tl_total m = true ->
    (tl_comb (timelock_info (ext_of_gen fx c m)) = true <-> path_mix m).
Proof. exact timelock_comb_exact_paths. Qed.
Print Assumptions C09_timelock_comb_exact_paths.
Theorem C09_timelock_flags_exact_paths :
  forall fx c m l, tl_total m = true ->
    (tl_flag (timelock_info (ext_of_gen fx c m)) l = true <-> exists p, In p (sat_paths m) /\ In l p).
Proof. exact timelock_flags_exact_paths. Qed.
Print Assumptions C09_timelock_flags_exact_paths.
Example C09_tl_total_nonvacuous :
  tl_total tl_and_mixed = true /\ tl_total (tl_thresh_mixed 2) = true /\ tl_total tl_converse_witness = false
  /\ tl_total (MOrD (MCheck (MPkK 0)) (MAndV (MVerify (MCheck (MPkK 1))) (MOlder 10))) = true.
Proof. exact tl_total_nonvacuous. Qed.
Example C09_tl_nonvacuous :
  ms_height (tl_chain 401) = 402 /\ built_by_from_ast as_written tl_cx0 (tl_chain 401) = true
  /\ ms_height (tl_chain 402) = 403 /\ built_by_from_ast as_written tl_cx0 (tl_chain 402) = false
  /\ from_ast_depth_ok (ext_of tl_cx0 (tl_chain 402)) = false
  /\ path_mix tl_and_mixed /\ tl_comb (timelock_info (ext_of tl_cx0 tl_and_mixed)) = true
  /\ ~ path_mix tl_or_mixed /\ ~ tl_mixes tl_or_mixed /\ tl_comb (timelock_info (ext_of tl_cx0 tl_or_mixed)) = false
  /\ lock_leaves tl_or_mixed = [(LRel, UHeight); (LRel, UTime)]
  /\ (exists t, type_of (tl_thresh_mixed 2) = ROk t)
  /\ tl_comb (timelock_info (ext_of tl_cx0 (tl_thresh_mixed 1))) = false
  /\ tl_comb (timelock_info (ext_of tl_cx0 (tl_thresh_mixed 2))) = true
  /\ path_mix (tl_thresh_mixed 2) /\ ~ path_mix (tl_thresh_mixed 1).
Proof. exact tl_nonvacuous. Qed.

(* ---- key-only descriptors pkh / wpkh / sh(wpkh) (Ms/ExtKoModel.v, Proofs/ExtKoProofs.v) ----
   Their satisfaction has one shape, <sig> <key>. For a signature of at most 72 bytes (low-S DER +
   sighash byte; 73 with its push opcode / length prefix: the library's stated assumption) and a key
   of 33 or 65 bytes (pkh) resp. 33 bytes (wpkh, sh(wpkh): the constructors refuse uncompressed keys)
   the constant max_weight_to_satisfy covers the weight beyond the unsatisfied input and the deprecated
   max_satisfaction_weight covers the absolute weight. Tight at 72 bytes; false for a 73-byte (high-S)
   signature, which is why the hypothesis is there. *)
Theorem C09_pkh_weight :
  forall sig key, sig <= 72 -> key = 33 \/ key = 65 ->
    pkh_measured sig key <= pkh_weight (key + 1) /\ pkh_measured_abs sig key <= pkh_old_weight (key + 1).
Proof. exact pkh_weight_bound. Qed.
Print Assumptions C09_pkh_weight.
Theorem C09_wpkh_weight :
  forall sig, sig <= 72 ->
    wpkh_measured sig 33 <= wpkh_weight /\ wpkh_measured_abs sig 33 <= wpkh_old_weight
    /\ sh_wpkh_measured sig 33 <= sh_wpkh_weight /\ sh_wpkh_measured_abs sig 33 <= sh_wpkh_old_weight.
Proof. exact wpkh_weight_bound. Qed.
Print Assumptions C09_wpkh_weight.
Example C09_keyonly_weight_tight :
  pkh_measured 72 33 = pkh_weight 34 /\ pkh_measured 72 65 = pkh_weight 66
  /\ wpkh_measured 72 33 = wpkh_weight /\ sh_wpkh_measured 72 33 = sh_wpkh_weight.
Proof. exact keyonly_weight_tight. Qed.
Example C09_keyonly_weight_needs_low_s :
  pkh_weight 34 < pkh_measured 73 33 /\ wpkh_weight < wpkh_measured 73 33.
Proof. exact keyonly_weight_needs_low_s. Qed.

(* ---- the raw key hash leaf (expr_raw_pkh; arises only when a script is decoded from bytes) ----
   With a satisfier that resolves the hash the satisfaction is [sig item; key item] and the
   dissatisfaction [empty; key item]. THE CODE AS WRITTEN (since /repo 46f3eb21: pk_h(None) assumes a
   66-byte key item outside Tap), every rule set: for every key form the resolver can return --
   compressed or uncompressed in the ECDSA contexts, x-only in Tap -- both are within the figures.
   Full strength for the leaf. The regression Example is about the figure before that commit (34). *)
Theorem C09_raw_pkh_bound :
  forall fx c h r,
    (if xc_schnorr c then rawres_xonly r else rawres_compressed r \/ rawres_uncompressed r) ->
    exists s d, sat_data (ext_of_gen fx c (MRawPkH h)) = Some s /\ dissat_data (ext_of_gen fx c (MRawPkH h)) = Some d
                /\ items_within (raw_sat_items r) s /\ items_within (raw_dissat_items r) d.
Proof. exact raw_pkh_bound. Qed.
Print Assumptions C09_raw_pkh_bound.
Example C09_raw_pkh_bound_tight :
  forall fx c h, xc_schnorr c = false ->
    exists s, sat_data (ext_of_gen fx c (MRawPkH h)) = Some s /\ sd_wsize s = items_sum (raw_sat_items (mkRawRes 73 66)).
Proof. exact raw_pkh_bound_tight. Qed.
Example C09_hist_raw_pkh_pre_46f3eb21_undershoot :
  forall fx,
    exists r s d, rawres_uncompressed r
                  /\ sat_data (ext_pk_h_none_34 fx false) = Some s /\ dissat_data (ext_pk_h_none_34 fx false) = Some d
                  /\ sd_wsize s < items_sum (raw_sat_items r) /\ sd_ssig s < items_sum (raw_sat_items r)
                  /\ sd_wsize d < items_sum (raw_dissat_items r).
Proof. exact raw_pkh_pre_46f3eb21_undershoot. Qed.
Example C09_ko_nonvacuous :
  rawres_compressed (mkRawRes 73 34) /\ rawres_xonly (mkRawRes 66 33) /\ rawres_uncompressed (mkRawRes 73 66)
  /\ items_sum (raw_sat_items (mkRawRes 73 34)) = 107 /\ items_sum (raw_sat_items (mkRawRes 66 33)) = 99.
Proof. exact ko_nonvacuous. Qed.

Example C09_nonvacuous :
  senv_ok cx_segwit se_key3 /\ ksort_len_ok ke0
  /\ ext_safe as_written cx_segwit (MOrD (MCheck (MPkK 3)) (MAndV (MVerify (MCheck (MPkK 1))) (MOlder 10))) = true
  /\ ext_safe as_written cx_segwit w_thresh = true
  /\ ext_safe pre_fix cx_segwit w_thresh = false
  /\ s_stack (snd (sat_dissat ke0 se_key3 false true (MOrD (MCheck (MPkK 3)) (MAndV (MVerify (MCheck (MPkK 1))) (MOlder 10)))))
     = WStack [PhSig 3].
Proof. exact wit_bounds_nonvacuous. Qed.
