(* C11 (no input can ... loop) / C10 (the printer the text round trip relies on): statements about
   `VerbosePreOrderIter` of iter/tree.rs (model: Ms/VerboseIterModel.v, proofs: Proofs/VerboseIterProofs.v).
   Statements only. *)
From Coq Require Import List NArith Bool.
From Verif Require Import Bytes RobustModel VerboseIterModel VerboseIterProofs.
From Verif Require Import ExprTreeModel MsTextModel DisplayIterModel DisplayIterProofs MsTextCompose DisplayIterRoundTrip.
Import ListNotations.
Local Open Scope N_scope.

(* For EVERY finite tree over any label type: the loop `for item in t.verbose_pre_order_iter()`
   (1) yields exactly the recursive specification (node before its first child, again after each
       child, is_complete on the last of these; a leaf once), never reaching the `unwrap` of
       `nth_child` on None;
   (2) needs exactly nodes + edges = 2 * size - 1 successful calls of `next`: with that much fuel or
       more the result is the same, with less the loop has not finished (so the number of iterations
       is that number, and the iteration terminates);
   (3) no amount of fuel leads to a panic;
   (4,5) the number of items is size + (size - 1);
   (6) the items with n_children_yielded = 0, with their `index`, are the pre-order enumeration
       0, 1, 2, ... of the nodes;
   (7) the items carrying the index of a node are exactly n_children + 1 many. *)
Theorem verbose_iter_correct_C11 : forall (A : Type) (t : gtree A),
  verbose_order t = ROk (verbose_spec t None 0) /\
  (forall f, verbose_run f 0 [v_initial t None] =
             if (verbose_yields t <=? f)%nat then ROk (verbose_spec t None 0) else RErr E_OUT_OF_FUEL) /\
  (forall f s, verbose_run f 0 [v_initial t None] <> RPanic s) /\
  length (verbose_spec t None 0) = verbose_yields t /\
  verbose_yields t = (gsize t + (gsize t - 1))%nat /\
  map lab_idx (first_yields (verbose_spec t None 0)) = combine (gpreorder t) (nseq 0 (gsize t)) /\
  (forall y, In y (verbose_spec t None 0) ->
     length (yields_of_index (vi_index y) (verbose_spec t None 0)) = S (length (gchildren (vi_node y)))).
Proof. exact verbose_iter_correct. Qed.
Print Assumptions verbose_iter_correct_C11.

(* On the trees of the existing iterator models (RobustModel.rtree): the first yields with their
   indices are the enumerated output of the PreOrderIter model. *)
Theorem verbose_iter_vs_pre_order_C11 : forall t : rtree,
  exists ys, verbose_order (g_of_r t) = ROk ys /\
  length ys = (rsize t + (rsize t - 1))%nat /\
  map lab_idx (first_yields ys) = combine (preorder t) (nseq 0 (rsize t)) /\
  pre_run (rsize t) [t] = Some (map (fun y => glabel (vi_node y)) (first_yields ys)).
Proof. exact verbose_iter_rtree. Qed.
Print Assumptions verbose_iter_vs_pre_order_C11.

(* non-vacuity on a concrete three-level tree:  1(2(4,5),3(6(7))) *)
Definition ex_tree : rtree := RNode 1 [RNode 2 [RNode 4 []; RNode 5 []]; RNode 3 [RNode 6 [RNode 7 []]]].
Example verbose_example :
  match verbose_order (g_of_r ex_tree) with ROk ys => map vobs ys | _ => [] end =
  [ (1, None, 0, 0, false);
    (2, Some 1, 1, 0, false); (4, Some 2, 2, 0, true); (2, Some 1, 1, 1, false); (5, Some 2, 3, 0, true); (2, Some 1, 1, 2, true);
    (1, None, 0, 1, false);
    (3, Some 1, 4, 0, false); (6, Some 3, 5, 0, false); (7, Some 6, 6, 0, true); (6, Some 3, 5, 1, true); (3, Some 1, 4, 1, true);
    (1, None, 0, 2, true) ].
Proof. vm_compute. reflexivity. Qed.
Example verbose_example_fuel :
  verbose_run 12 0 [v_initial (g_of_r ex_tree) None] = RErr E_OUT_OF_FUEL /\
  (exists ys, verbose_run 13 0 [v_initial (g_of_r ex_tree) None] = ROk ys /\ length ys = 13%nat).
Proof. split; [vm_compute; reflexivity|]. eexists. split; vm_compute; reflexivity. Qed.

(* ---------------------------------------------------------------------------------------------
   C10: the printer of miniscript/display.rs AS CODED - `conditional_fmt(DisplayTypes::None)`, a
   loop over the verbose pre-order items of the private `DisplayNode` tree (Ms/DisplayIterModel.v:
   `display_item` is the loop body, `dtree` is `as_node`/`nary_index`/`fragment_name`/`is_wrapper`
   for the full AST incl. the synthetic k / key / hash / lock-time children and the sugar
   t: l: u: pk() pkh() and_n) - equals the recursive printer of MsTextModel.v ... *)
Theorem display_iter_tree_eq_recursive_C10 : forall t : gtree dlabel,
  display_iter_tree t = ROk (drec false t).
Proof. exact display_iter_tree_eq_recursive. Qed.
Print Assumptions display_iter_tree_eq_recursive_C10.

Theorem display_iter_eq_recursive_C10 :
  forall (print_key : key -> tbytes) (print_hash : hkind -> tbytes -> tbytes) (m : ms),
  display_iter print_key print_hash m = ROk (ms_to_text print_key print_hash m).
Proof. exact display_iter_eq_recursive. Qed.
Print Assumptions display_iter_eq_recursive_C10.

(* ... so C10's round trip and fixed point hold for the text the loop writes (same hypotheses as
   C10_ms_text_roundtrip / C10_ms_text_fixpoint of Properties/C10.v) *)
Theorem display_iter_roundtrip_C10 :
  forall (print_key : key -> tbytes) (parse_key : tbytes -> option key)
         (print_hash : hkind -> tbytes -> tbytes) (parse_hash : hkind -> tbytes -> option tbytes)
         (chk : ms -> bool),
  (forall k, parse_key (print_key k) = Some k) ->
  (forall h b, parse_hash h (print_hash h b) = Some b) ->
  (forall k, forallb name_char (print_key k) = true) ->
  (forall h b, forallb name_char (print_hash h b) = true) ->
  forall m, ms_text_ok chk m = true -> depth (to_tree print_key print_hash m) <= MAX_RECURSION_DEPTH ->
  exists s, display_iter print_key print_hash m = ROk s /\
            from_str_model parse_key parse_hash chk s = Ok m.
Proof. exact display_iter_roundtrip. Qed.
Print Assumptions display_iter_roundtrip_C10.

Theorem display_iter_fixpoint_C10 :
  forall (print_key : key -> tbytes) (parse_key : tbytes -> option key)
         (print_hash : hkind -> tbytes -> tbytes) (parse_hash : hkind -> tbytes -> option tbytes)
         (chk : ms -> bool),
  (forall k, parse_key (print_key k) = Some k) ->
  (forall h b, parse_hash h (print_hash h b) = Some b) ->
  (forall k, forallb name_char (print_key k) = true) ->
  (forall h b, forallb name_char (print_hash h b) = true) ->
  forall s m, from_str_model parse_key parse_hash chk s = Ok m ->
  depth (to_tree print_key print_hash m) <= MAX_RECURSION_DEPTH ->
  exists s1, display_iter print_key print_hash m = ROk s1 /\
             from_str_model parse_key parse_hash chk s1 = Ok m /\
             (forall m', from_str_model parse_key parse_hash chk s1 = Ok m' ->
                         display_iter print_key print_hash m' = ROk s1).
Proof. exact display_iter_fixpoint. Qed.
Print Assumptions display_iter_fixpoint_C10.

(* non-vacuity: and_v(v:pk(0),l:thresh(2,pk(1),s:pk(2),a:pkh(3))) - 29 items, keys printed in decimal *)
Definition ex_disp_ms : ms :=
  MAndV (MVerify (MCheck (MPkK 0)))
        (MOrI MFalse (MThresh 2 [MCheck (MPkK 1); MSwap (MCheck (MPkK 2)); MAlt (MCheck (MPkH 3))])).
Example display_iter_example :
  display_iter dec (fun _ s => s) ex_disp_ms =
  ROk [97; 110; 100; 95; 118; 40; 118; 58; 112; 107; 40; 48; 41; 44; 108; 58; 116; 104; 114; 101;
       115; 104; 40; 50; 44; 112; 107; 40; 49; 41; 44; 115; 58; 112; 107; 40; 50; 41; 44; 97;
       58; 112; 107; 104; 40; 51; 41; 41; 41] /\
  match verbose_order (dtree dec (fun _ s => s) ex_disp_ms) with ROk ys => length ys | _ => O end = 29%nat.
Proof. split; vm_compute; reflexivity. Qed.
