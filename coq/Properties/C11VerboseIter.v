(* C11 (no input can ... loop) / C10 (the printer the text round trip relies on): statements about
   `VerbosePreOrderIter` of iter/tree.rs (model: Ms/VerboseIterModel.v, proofs: Proofs/VerboseIterProofs.v).
   Statements only. *)
From Coq Require Import List NArith Bool.
From Verif Require Import Bytes RobustModel VerboseIterModel VerboseIterProofs.
Import ListNotations.
Local Open Scope N_scope.

(* For EVERY finite tree over any label type: the loop `for item in t.verbose_pre_order_iter()`
   (1) yields exactly the recursive specification (node before its first child, again after each
       child, is_complete on the last of these; a leaf once), never reaching the `unwrap` of
       `nth_child` on None;
   (2) needs exactly nodes + edges = 2 * size - 1 successful calls of `next`: with that much fuel or
       more the result is the same, with less the loop has not finished (so the number of iterations
       is that number, and the iteration terminates);
   (3) no amount of fuel leads to a panic;
   (4,5) the number of items is size + (size - 1);
   (6) the items with n_children_yielded = 0, with their `index`, are the pre-order enumeration
       0, 1, 2, ... of the nodes;
   (7) the items carrying the index of a node are exactly n_children + 1 many. *)
Theorem verbose_iter_correct_C11 : forall (A : Type) (t : gtree A),
  verbose_order t = ROk (verbose_spec t None 0) /\
  (forall f, verbose_run f 0 [v_initial t None] =
             if (verbose_yields t <=? f)%nat then ROk (verbose_spec t None 0) else RErr E_OUT_OF_FUEL) /\
  (forall f s, verbose_run f 0 [v_initial t None] <> RPanic s) /\
  length (verbose_spec t None 0) = verbose_yields t /\
  verbose_yields t = (gsize t + (gsize t - 1))%nat /\
  map lab_idx (first_yields (verbose_spec t None 0)) = combine (gpreorder t) (nseq 0 (gsize t)) /\
  (forall y, In y (verbose_spec t None 0) ->
     length (yields_of_index (vi_index y) (verbose_spec t None 0)) = S (length (gchildren (vi_node y)))).
Proof. exact verbose_iter_correct. Qed.
Print Assumptions verbose_iter_correct_C11.

(* On the trees of the existing iterator models (RobustModel.rtree): the first yields with their
   indices are the enumerated output of the PreOrderIter model. *)
Theorem verbose_iter_vs_pre_order_C11 : forall t : rtree,
  exists ys, verbose_order (g_of_r t) = ROk ys /\
  length ys = (rsize t + (rsize t - 1))%nat /\
  map lab_idx (first_yields ys) = combine (preorder t) (nseq 0 (rsize t)) /\
  pre_run (rsize t) [t] = Some (map (fun y => glabel (vi_node y)) (first_yields ys)).
Proof. exact verbose_iter_rtree. Qed.
Print Assumptions verbose_iter_vs_pre_order_C11.

(* non-vacuity on a concrete three-level tree:  1(2(4,5),3(6(7))) *)
Definition ex_tree : rtree := RNode 1 [RNode 2 [RNode 4 []; RNode 5 []]; RNode 3 [RNode 6 [RNode 7 []]]].
Example verbose_example :
  match verbose_order (g_of_r ex_tree) with ROk ys => map vobs ys | _ => [] end =
  [ (1, None, 0, 0, false);
    (2, Some 1, 1, 0, false); (4, Some 2, 2, 0, true); (2, Some 1, 1, 1, false); (5, Some 2, 3, 0, true); (2, Some 1, 1, 2, true);
    (1, None, 0, 1, false);
    (3, Some 1, 4, 0, false); (6, Some 3, 5, 0, false); (7, Some 6, 6, 0, true); (6, Some 3, 5, 1, true); (3, Some 1, 4, 1, true);
    (1, None, 0, 2, true) ].
Proof. vm_compute. reflexivity. Qed.
Example verbose_example_fuel :
  verbose_run 12 0 [v_initial (g_of_r ex_tree) None] = RErr E_OUT_OF_FUEL /\
  (exists ys, verbose_run 13 0 [v_initial (g_of_r ex_tree) None] = ROk ys /\ length ys = 13%nat).
Proof. split; [vm_compute; reflexivity|]. eexists. split; vm_compute; reflexivity. Qed.
