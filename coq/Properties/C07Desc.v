(* C07 at DESCRIPTOR level -- the lifted policy against the output-type validation of Script/Spend.v
   (script hash / witness program, standardness limits, byte-level parse, Script semantics), not only
   against the script part.  Statements only; proofs in
   Proofs/LiftDesc{Wsh,World,Types,WorldTypes,WorldTap,Examples,TypesEx,TapEx}.v.

   Composition of existing theorems: C07_hides_no_path / C07_policy_iff_satisfier (Proofs/Lift*.v),
   C04 parse_encode and script_size_ok, C09 wit_bounds_root / static_ops_exact / ext_pk_cost_is_len /
   typed_ext_safe, C01 *_spends (Proofs/DescSpend*.v).

   P2WSH
     C07_lift_ctx_within                        lift_ctx c unc m = LOk p  =>  within_resource_limits c unc m = true
     C07_ctx_records_agree                      the ExtData of LiftLimits' context record [lx_ctx c unc] is that of
                                                C01/C09's [xctx_of c ke] on every well-formed script (all contexts)
     C07_wsh_hides_no_path               (<=)   verify_wsh accepts items ++ [sb'] for the program sha256(encode m),
                                                items from the world W  =>  policy true in W.  sb' is ANY last item;
                                                collision-freeness of sha256 on (sb', encode m) is a hypothesis.
     C07_wsh_invents_no_path_within_limits (=>) lift_ctx Segwitv0 unc m = LOk p (verdict COMPUTED), policy true for
                                                the caller's assets  =>  the satisfier model returns bs and
                                                verify_wsh accepts bs ++ [encode m]: 3600-byte script, 100 items,
                                                80-byte items, 201 non-push ops, parse, execution, clean stack.
     C07_wsh_spending_condition          (<=>)  the equivalence for a world W, no satisfier-side hypothesis left
                                                ([wsh_world_ok]: conditions on the world, the key table, the script).
   Remaining named hypotheses and why (notes/C07.md, section "Descriptor level"):
     ctx_frag_ok Segwitv0 m    no multi_a in a P2WSH script (check_global_consensus_validity; [wf] under
                               SvWitnessV0 says the same semantically, ctx_frag_ok is its computable form)
     unc_agrees ke unc         the [unc] fed to lift_ctx is the key table's compressedness
     small_material .. 80      keys and signatures of at most 80 bytes (the library has no static figure for
                               the 80-byte item rule)
     thresh_fit / max_elems < 2^55   no i64 overflow in the satisfier's sort key
     kh_binds, collision-freeness    cryptographic, stated on the finite world / on the one pair. *)
From Verif Require Import Exec Ser Spend Ast Types TypeCheck SatSpec Sat LiftModel LiftLimits TheoremA SatProofs FrameDissat
  CompleteThresh CompleteNonMall DenotSpec LiftFullProofs CodecSpec.
From Verif Require Import DescSpendModel LiftDescWsh LiftDescWorld LiftDescTypes LiftDescWorldTypes LiftDescWorldTap LiftDescSsig LiftDescExamples LiftDescTypesEx LiftDescTapEx.
From Verif Require DescSpendExamples.
From Verif Require SerProofs.
From Verif Require CodecExt ExtModel ExtProofs ExtCodec.
Local Open Scope N_scope.

Theorem C07_lift_ctx_within :
  forall (c : ctx) (unc : key -> bool) (m : ms) (p : lpolicy),
    lift_ctx c unc m = LOk p -> within_resource_limits c unc m = true.
Proof. exact lift_ctx_within. Qed.
Print Assumptions C07_lift_ctx_within.

Theorem C07_ctx_records_agree :
  forall (fx : ExtModel.fixes) (c : ctx) (unc : key -> bool) (ke : keyenv) (m : ms),
    unc_agrees ke unc -> ms_wf c ke m ->
    ExtModel.ext_of_gen fx (lx_ctx c unc) m = ExtModel.ext_of_gen fx (ExtCodec.xctx_of c ke) m.
Proof. exact lx_ext_eq. Qed.
Print Assumptions C07_ctx_records_agree.

Theorem C07_wsh_hides_no_path :
  forall (e : env) (ke : keyenv), ksort_ok ke -> (forall kbs, e_sigok e kbs [] = false) ->
  forall (W : wit) (rl : bool) (m : ms) (t : ty) (p : lpolicy),
    kh_binds (with_sv e SvWitnessV0) ke W ->
    type_of m = ROk t -> c_base (t_corr t) = BB -> wf (with_sv e SvWitnessV0) ke m -> ms_wf Segwitv0 ke m ->
    lift rl m = Some p ->
    forall (items : list bytes) (sb' : bytes),
      (e_sha256 e sb' = e_sha256 e (encode ke m) -> sb' = encode ke m) ->
      incl items W ->
      verify_wsh e (e_sha256 e (encode ke m)) (items ++ [sb']) = true ->
      leval (assets_of (with_sv e SvWitnessV0) ke W) p = true.
Proof. exact wsh_hides_no_path. Qed.
Print Assumptions C07_wsh_hides_no_path.

Theorem C07_wsh_invents_no_path_within_limits :
  forall (e : env) (ke : keyenv), ksort_ok ke -> (forall kbs, e_sigok e kbs [] = false) ->
  forall (A : assets) (se : senv) (f : fill),
    linked ke A se f -> locks_compatible se ->
  forall (unc : key -> bool) (rhs : bool) (m : ms) (t : ty) (p : lpolicy),
    type_of m = ROk t -> c_base (t_corr t) = BB ->
    assets_ok (with_sv e SvWitnessV0) ke A -> wf (with_sv e SvWitnessV0) ke m -> ms_wf Segwitv0 ke m ->
    ExtCodec.ctx_frag_ok Segwitv0 m = true ->
    unc_agrees ke unc -> ExtProofs.senv_ok (ExtCodec.xctx_of Segwitv0 ke) se ->
    thresh_fit ke se rhs m -> small_material ke A 80 ->
    lift_ctx Segwitv0 unc m = LOk p ->
    leval A p = true ->
    exists bs, satisfy ke se f true rhs m = Some bs /\
               verify_wsh e (e_sha256 e (encode ke m)) (bs ++ [encode ke m]) = true.
Proof. exact wsh_invents_no_path_within_limits. Qed.
Print Assumptions C07_wsh_invents_no_path_within_limits.

(* [wsh_spendable e ke W m] := exists items sb', incl items W /\
                               verify_wsh e (e_sha256 e (encode ke m)) (items ++ [sb']) = true *)
Theorem C07_wsh_spending_condition :
  forall (e : env) (ke : keyenv), ksort_ok ke -> (forall kbs, e_sigok e kbs [] = false) ->
  forall (W : wit) (unc : key -> bool) (m : ms) (p : lpolicy),
    wsh_world_ok e ke W m -> unc_agrees ke unc -> lift_ctx Segwitv0 unc m = LOk p ->
    (leval (assets_of (with_sv e SvWitnessV0) ke W) p = true <-> wsh_spendable e ke W m).
Proof. exact wsh_spending_condition. Qed.
Print Assumptions C07_wsh_spending_condition.

(* ---- non-vacuity: wsh(or_d(pk(K0),and_v(v:pk(K1),older(10)))), nSequence 12, three worlds ---- *)
Example C07_wsh_nonvacuous :
  forall W, W = dx_W0 \/ W = dx_WA \/ W = dx_WB ->
  ksort_ok dx_ke /\ (forall kbs, e_sigok dx_e kbs [] = false) /\
  wsh_world_ok dx_e dx_ke W dx_m /\ unc_agrees dx_ke dx_unc /\ lift_ctx Segwitv0 dx_unc dx_m = LOk dx_p.
Proof. exact dx_world_ok. Qed.
Example C07_wsh_both_values :
  leval (assets_of (with_sv dx_e SvWitnessV0) dx_ke dx_WA) dx_p = true /\
  leval (assets_of (with_sv dx_e SvWitnessV0) dx_ke dx_WB) dx_p = true /\
  leval (assets_of (with_sv dx_e SvWitnessV0) dx_ke dx_W0) dx_p = false.
Proof. exact dx_values. Qed.
(* the validation re-established by evaluation, independently of the theorems *)
Example C07_wsh_validation_by_evaluation :
  verify_wsh dx_e (e_sha256 dx_e (encode dx_ke dx_m)) ([dx_sig 0] ++ [encode dx_ke dx_m]) = true /\
  verify_wsh dx_e (e_sha256 dx_e (encode dx_ke dx_m)) ([dx_sig 1; []] ++ [encode dx_ke dx_m]) = true /\
  verify_wsh dx_e (e_sha256 dx_e (encode dx_ke dx_m)) ([[]; []] ++ [encode dx_ke dx_m]) = false.
Proof. exact dx_verify. Qed.
(* hence, by the theorem, in the world without signatures NO witness over its material spends *)
Example C07_wsh_false_world_unspendable : ~ wsh_spendable dx_e dx_ke dx_W0 dx_m.
Proof. exact dx_unspendable. Qed.

(* ================================================================================================
   The other script-bearing output types and the dispatcher verify_spend (Proofs/LiftDescTypes.v,
   LiftDescWorldTypes.v).  Same composition; the limits each validation applies are DERIVED from the
   computed verdict of lift_ctx in the output type's context, except where the library has no figure:
     * P2SH: 520-byte redeem script and 201 opcodes derived; the 1650-byte scriptSig rule is a
       HYPOTHESIS -- Legacy::check_local_policy_validity bounds max_script_sig_size, which counts the
       satisfaction items and not the push of the redeem script that Sh::get_satisfaction appends, so the
       verdict does not imply Core's rule on the whole scriptSig (notes/C07.md);
     * bare: 10000 bytes and 201 opcodes derived; the Bare context has no scriptSig rule: hypothesis;
     * P2TR script path: 1000 items derived (max_witness_stack_count + max_exec_stack_count <= 1000),
       520-byte items from the material's sizes; the BIP341 commitment is the oracle commit_ok (C15).
   [material_all P ke A]: every key of the table, every signature and every preimage held satisfies P. *)
Local Notation sbytes := SerProofs.is_bytes.

Theorem C07_shwsh_invents_no_path_within_limits :
  forall (e : env) (ke : keyenv), ksort_ok ke -> (forall kbs, e_sigok e kbs [] = false) ->
  forall (A : assets) (se : senv) (f : fill), linked ke A se f -> locks_compatible se ->
  forall (unc : key -> bool) (rhs : bool) (m : ms) (t : ty) (p : lpolicy),
    type_of m = ROk t -> c_base (t_corr t) = BB ->
    assets_ok (with_sv e SvWitnessV0) ke A -> wf (with_sv e SvWitnessV0) ke m -> ms_wf Segwitv0 ke m ->
    ExtCodec.ctx_frag_ok Segwitv0 m = true -> unc_agrees ke unc ->
    ExtProofs.senv_ok (ExtCodec.xctx_of Segwitv0 ke) se -> thresh_fit ke se rhs m -> small_material ke A 80 ->
    lift_ctx Segwitv0 unc m = LOk p -> leval A p = true ->
    blen (e_sha256 e (encode ke m)) = 32 ->
    exists bs, satisfy ke se f true rhs m = Some bs /\
      verify_sh e (e_hash160 e (spk_wsh e (encode ke m))) (ssig_shwsh e (encode ke m)) (bs ++ [encode ke m]) = true.
Proof. exact shwsh_invents_no_path. Qed.
Print Assumptions C07_shwsh_invents_no_path_within_limits.

Theorem C07_wsh_dispatch_invents_no_path :
  forall (e : env) (ke : keyenv), ksort_ok ke -> (forall kbs, e_sigok e kbs [] = false) ->
  forall (A : assets) (se : senv) (f : fill), linked ke A se f -> locks_compatible se ->
  forall (unc : key -> bool) (rhs : bool) (m : ms) (t : ty) (p : lpolicy),
    type_of m = ROk t -> c_base (t_corr t) = BB ->
    assets_ok (with_sv e SvWitnessV0) ke A -> wf (with_sv e SvWitnessV0) ke m -> ms_wf Segwitv0 ke m ->
    ExtCodec.ctx_frag_ok Segwitv0 m = true -> unc_agrees ke unc ->
    ExtProofs.senv_ok (ExtCodec.xctx_of Segwitv0 ke) se -> thresh_fit ke se rhs m -> small_material ke A 80 ->
    lift_ctx Segwitv0 unc m = LOk p -> leval A p = true ->
  forall commit_ok : bytes -> bytes -> bool,
    blen (e_sha256 e (encode ke m)) = 32 ->
    exists bs, satisfy ke se f true rhs m = Some bs /\
      verify_spend e commit_ok (spk_wsh e (encode ke m)) [] (bs ++ [encode ke m]) = true.
Proof. exact wsh_dispatch_invents. Qed.
Print Assumptions C07_wsh_dispatch_invents_no_path.

Theorem C07_shwsh_dispatch_invents_no_path :
  forall (e : env) (ke : keyenv), ksort_ok ke -> (forall kbs, e_sigok e kbs [] = false) ->
  forall (A : assets) (se : senv) (f : fill), linked ke A se f -> locks_compatible se ->
  forall (unc : key -> bool) (rhs : bool) (m : ms) (t : ty) (p : lpolicy),
    type_of m = ROk t -> c_base (t_corr t) = BB ->
    assets_ok (with_sv e SvWitnessV0) ke A -> wf (with_sv e SvWitnessV0) ke m -> ms_wf Segwitv0 ke m ->
    ExtCodec.ctx_frag_ok Segwitv0 m = true -> unc_agrees ke unc ->
    ExtProofs.senv_ok (ExtCodec.xctx_of Segwitv0 ke) se -> thresh_fit ke se rhs m -> small_material ke A 80 ->
    lift_ctx Segwitv0 unc m = LOk p -> leval A p = true ->
  forall commit_ok : bytes -> bytes -> bool,
    blen (e_sha256 e (encode ke m)) = 32 -> blen (e_hash160 e (spk_wsh e (encode ke m))) = 20 ->
    exists bs, satisfy ke se f true rhs m = Some bs /\
      verify_spend e commit_ok (spk_shwsh e (encode ke m)) (ssig_shwsh e (encode ke m)) (bs ++ [encode ke m]) = true.
Proof. exact shwsh_dispatch_invents. Qed.
Print Assumptions C07_shwsh_dispatch_invents_no_path.

Theorem C07_sh_invents_no_path_partial :
  forall (e : env) (ke : keyenv), ksort_ok ke -> (forall kbs, e_sigok e kbs [] = false) ->
  forall (A : assets) (se : senv) (f : fill), linked ke A se f -> locks_compatible se ->
  forall (unc : key -> bool) (rhs : bool) (m : ms) (t : ty) (p : lpolicy),
    type_of m = ROk t -> c_base (t_corr t) = BB ->
    assets_ok (with_sv e SvBase) ke A -> wf (with_sv e SvBase) ke m ->
    unc_agrees ke unc -> thresh_fit ke se rhs m ->
    material_all sbytes ke A -> material_all (fun b => blen b < 73) ke A ->
    leval A p = true ->
    ms_wf Legacy ke m -> ExtCodec.ctx_frag_ok Legacy m = true ->
    ExtProofs.senv_ok (ExtCodec.xctx_of Legacy ke) se -> sbytes (encode ke m) ->
    lift_ctx Legacy unc m = LOk p ->
    (forall bs ss, satisfy ke se f true rhs m = Some bs ->
                   witness_to_scriptsig (bs ++ [encode ke m]) = Some ss -> blen (serialize ss) <= 1650) ->
    exists bs ss, satisfy ke se f true rhs m = Some bs /\ witness_to_scriptsig (bs ++ [encode ke m]) = Some ss /\
      verify_sh e (e_hash160 e (encode ke m)) (serialize ss) [] = true.
Proof. exact sh_invents_no_path. Qed.
Print Assumptions C07_sh_invents_no_path_partial.

Theorem C07_sh_dispatch_invents_no_path_partial :
  forall (e : env) (ke : keyenv), ksort_ok ke -> (forall kbs, e_sigok e kbs [] = false) ->
  forall (A : assets) (se : senv) (f : fill), linked ke A se f -> locks_compatible se ->
  forall (unc : key -> bool) (rhs : bool) (m : ms) (t : ty) (p : lpolicy),
    type_of m = ROk t -> c_base (t_corr t) = BB ->
    assets_ok (with_sv e SvBase) ke A -> wf (with_sv e SvBase) ke m ->
    unc_agrees ke unc -> thresh_fit ke se rhs m ->
    material_all sbytes ke A -> material_all (fun b => blen b < 73) ke A ->
    leval A p = true ->
  forall commit_ok : bytes -> bytes -> bool,
    ms_wf Legacy ke m -> ExtCodec.ctx_frag_ok Legacy m = true ->
    ExtProofs.senv_ok (ExtCodec.xctx_of Legacy ke) se -> sbytes (encode ke m) ->
    blen (e_hash160 e (encode ke m)) = 20 ->
    lift_ctx Legacy unc m = LOk p ->
    (forall bs ss, satisfy ke se f true rhs m = Some bs ->
                   witness_to_scriptsig (bs ++ [encode ke m]) = Some ss -> blen (serialize ss) <= 1650) ->
    exists bs ss, satisfy ke se f true rhs m = Some bs /\ witness_to_scriptsig (bs ++ [encode ke m]) = Some ss /\
      verify_spend e commit_ok (spk_sh e (encode ke m)) (serialize ss) [] = true.
Proof. exact sh_dispatch_invents. Qed.
Print Assumptions C07_sh_dispatch_invents_no_path_partial.

Theorem C07_bare_invents_no_path_partial :
  forall (e : env) (ke : keyenv), ksort_ok ke -> (forall kbs, e_sigok e kbs [] = false) ->
  forall (A : assets) (se : senv) (f : fill), linked ke A se f -> locks_compatible se ->
  forall (unc : key -> bool) (rhs : bool) (m : ms) (t : ty) (p : lpolicy),
    type_of m = ROk t -> c_base (t_corr t) = BB ->
    assets_ok (with_sv e SvBase) ke A -> wf (with_sv e SvBase) ke m ->
    unc_agrees ke unc -> thresh_fit ke se rhs m ->
    material_all sbytes ke A -> material_all (fun b => blen b < 73) ke A ->
    leval A p = true ->
    ms_wf Bare ke m -> ExtCodec.ctx_frag_ok Bare m = true ->
    ExtProofs.senv_ok (ExtCodec.xctx_of Bare ke) se ->
    lift_ctx Bare unc m = LOk p ->
    (forall bs ss, satisfy ke se f true rhs m = Some bs ->
                   witness_to_scriptsig bs = Some ss -> blen (serialize ss) <= 1650) ->
    exists bs ss, satisfy ke se f true rhs m = Some bs /\ witness_to_scriptsig bs = Some ss /\
      verify_bare e (encode ke m) (serialize ss) [] = true.
Proof. exact bare_invents_no_path. Qed.
Print Assumptions C07_bare_invents_no_path_partial.

Theorem C07_tr_invents_no_path_within_limits :
  forall (e : env) (ke : keyenv), ksort_ok ke -> (forall kbs, e_sigok e kbs [] = false) ->
  forall (A : assets) (se : senv) (f : fill), linked ke A se f -> locks_compatible se ->
  forall (unc : key -> bool) (rhs : bool) (m : ms) (t : ty) (p : lpolicy),
    type_of m = ROk t -> c_base (t_corr t) = BB ->
    assets_ok (with_sv e SvTapscript) ke A -> wf (with_sv e SvTapscript) ke m -> ms_wf Tap ke m ->
    ExtCodec.ctx_frag_ok Tap m = true -> unc_agrees ke unc ->
    ExtProofs.senv_ok (ExtCodec.xctx_of Tap ke) se -> thresh_fit ke se rhs m -> small_material ke A 520 ->
    lift_ctx Tap unc m = LOk p -> leval A p = true ->
  forall (commit_ok : bytes -> bytes -> bool) (outkey cb : bytes),
    commit_ok (encode ke m) cb = true -> not_annex cb ->
    exists bs, satisfy ke se f true rhs m = Some bs /\
      verify_tr e outkey commit_ok [] (bs ++ [encode ke m; cb]) = true.
Proof. exact tr_invents_no_path. Qed.
Print Assumptions C07_tr_invents_no_path_within_limits.

Theorem C07_tr_dispatch_invents_no_path :
  forall (e : env) (ke : keyenv), ksort_ok ke -> (forall kbs, e_sigok e kbs [] = false) ->
  forall (A : assets) (se : senv) (f : fill), linked ke A se f -> locks_compatible se ->
  forall (unc : key -> bool) (rhs : bool) (m : ms) (t : ty) (p : lpolicy),
    type_of m = ROk t -> c_base (t_corr t) = BB ->
    assets_ok (with_sv e SvTapscript) ke A -> wf (with_sv e SvTapscript) ke m -> ms_wf Tap ke m ->
    ExtCodec.ctx_frag_ok Tap m = true -> unc_agrees ke unc ->
    ExtProofs.senv_ok (ExtCodec.xctx_of Tap ke) se -> thresh_fit ke se rhs m -> small_material ke A 520 ->
    lift_ctx Tap unc m = LOk p -> leval A p = true ->
  forall (commit_ok : bytes -> bytes -> bool) (outkey cb : bytes),
    blen outkey = 32 -> commit_ok (encode ke m) cb = true -> not_annex cb ->
    exists bs, satisfy ke se f true rhs m = Some bs /\
      verify_spend e commit_ok (spk_tr outkey) [] (bs ++ [encode ke m; cb]) = true.
Proof. exact tr_dispatch_invents. Qed.
Print Assumptions C07_tr_dispatch_invents_no_path.

(* ---- (<=) ---- *)
Theorem C07_shwsh_hides_no_path :
  forall (e : env) (ke : keyenv), ksort_ok ke -> (forall kbs, e_sigok e kbs [] = false) ->
  forall (W : wit) (rl : bool) (m : ms) (t : ty) (p : lpolicy),
    type_of m = ROk t -> c_base (t_corr t) = BB -> lift rl m = Some p ->
    kh_binds (with_sv e SvWitnessV0) ke W -> wf (with_sv e SvWitnessV0) ke m -> ms_wf Segwitv0 ke m ->
    blen (e_sha256 e (encode ke m)) = 32 ->
    (forall rb, e_hash160 e rb = e_hash160 e (spk_wsh e (encode ke m)) -> rb = spk_wsh e (encode ke m)) ->
    forall (ssig : bytes) (items : list bytes) (sb' : bytes),
      (e_sha256 e sb' = e_sha256 e (encode ke m) -> sb' = encode ke m) -> incl items W ->
      verify_sh e (e_hash160 e (spk_wsh e (encode ke m))) ssig (items ++ [sb']) = true ->
      leval (assets_of (with_sv e SvWitnessV0) ke W) p = true.
Proof. exact shwsh_hides_no_path. Qed.
Print Assumptions C07_shwsh_hides_no_path.

Theorem C07_sh_hides_no_path :
  forall (e : env) (ke : keyenv), ksort_ok ke -> (forall kbs, e_sigok e kbs [] = false) ->
  forall (W : wit) (rl : bool) (m : ms) (t : ty) (p : lpolicy),
    type_of m = ROk t -> c_base (t_corr t) = BB -> lift rl m = Some p ->
    kh_binds (with_sv e SvBase) ke W -> wf (with_sv e SvBase) ke m -> ms_wf Legacy ke m ->
    (forall rb, e_hash160 e rb = e_hash160 e (encode ke m) -> rb = encode ke m) ->
    forall ssig : bytes,
      (forall ss rb st, parse_script ssig = Some ss -> pushonly_stack ss [] = Some (rb :: st) -> incl st W) ->
      verify_sh e (e_hash160 e (encode ke m)) ssig [] = true ->
      leval (assets_of (with_sv e SvBase) ke W) p = true.
Proof. exact sh_hides_no_path. Qed.
Print Assumptions C07_sh_hides_no_path.

Theorem C07_bare_hides_no_path :
  forall (e : env) (ke : keyenv), ksort_ok ke -> (forall kbs, e_sigok e kbs [] = false) ->
  forall (W : wit) (rl : bool) (m : ms) (t : ty) (p : lpolicy),
    type_of m = ROk t -> c_base (t_corr t) = BB -> lift rl m = Some p ->
    kh_binds (with_sv e SvBase) ke W -> wf (with_sv e SvBase) ke m -> ms_wf Bare ke m ->
    forall (ssig : bytes) (witness : list bytes),
      (forall ss st, parse_script ssig = Some ss -> pushonly_stack ss [] = Some st -> incl st W) ->
      verify_bare e (encode ke m) ssig witness = true ->
      leval (assets_of (with_sv e SvBase) ke W) p = true.
Proof. exact bare_hides_no_path. Qed.
Print Assumptions C07_bare_hides_no_path.

Theorem C07_tr_hides_no_path :
  forall (e : env) (ke : keyenv), ksort_ok ke -> (forall kbs, e_sigok e kbs [] = false) ->
  forall (W : wit) (rl : bool) (m : ms) (t : ty) (p : lpolicy),
    type_of m = ROk t -> c_base (t_corr t) = BB -> lift rl m = Some p ->
  forall (commit_ok : bytes -> bytes -> bool) (outkey : bytes),
    kh_binds (with_sv e SvTapscript) ke W -> wf (with_sv e SvTapscript) ke m -> ms_wf Tap ke m ->
    forall (ssig : bytes) (items : list bytes) (sb' cb : bytes),
      (commit_ok sb' cb = true -> sb' = encode ke m) -> incl items W ->
      verify_tr e outkey commit_ok ssig (items ++ [sb'; cb]) = true ->
      leval (assets_of (with_sv e SvTapscript) ke W) p = true.
Proof. exact tr_hides_no_path. Qed.
Print Assumptions C07_tr_hides_no_path.

Theorem C07_wsh_dispatch_hides_no_path :
  forall (e : env) (ke : keyenv), ksort_ok ke -> (forall kbs, e_sigok e kbs [] = false) ->
  forall (W : wit) (rl : bool) (m : ms) (t : ty) (p : lpolicy),
    type_of m = ROk t -> c_base (t_corr t) = BB -> lift rl m = Some p ->
  forall commit_ok : bytes -> bytes -> bool,
    kh_binds (with_sv e SvWitnessV0) ke W -> wf (with_sv e SvWitnessV0) ke m -> ms_wf Segwitv0 ke m ->
    blen (e_sha256 e (encode ke m)) = 32 ->
    forall (ssig : bytes) (items : list bytes) (sb' : bytes),
      (e_sha256 e sb' = e_sha256 e (encode ke m) -> sb' = encode ke m) -> incl items W ->
      verify_spend e commit_ok (spk_wsh e (encode ke m)) ssig (items ++ [sb']) = true ->
      leval (assets_of (with_sv e SvWitnessV0) ke W) p = true.
Proof. exact wsh_dispatch_hides. Qed.
Print Assumptions C07_wsh_dispatch_hides_no_path.

Theorem C07_shwsh_dispatch_hides_no_path :
  forall (e : env) (ke : keyenv), ksort_ok ke -> (forall kbs, e_sigok e kbs [] = false) ->
  forall (W : wit) (rl : bool) (m : ms) (t : ty) (p : lpolicy),
    type_of m = ROk t -> c_base (t_corr t) = BB -> lift rl m = Some p ->
  forall commit_ok : bytes -> bytes -> bool,
    kh_binds (with_sv e SvWitnessV0) ke W -> wf (with_sv e SvWitnessV0) ke m -> ms_wf Segwitv0 ke m ->
    blen (e_sha256 e (encode ke m)) = 32 -> blen (e_hash160 e (spk_wsh e (encode ke m))) = 20 ->
    (forall rb, e_hash160 e rb = e_hash160 e (spk_wsh e (encode ke m)) -> rb = spk_wsh e (encode ke m)) ->
    forall (ssig : bytes) (items : list bytes) (sb' : bytes),
      (e_sha256 e sb' = e_sha256 e (encode ke m) -> sb' = encode ke m) -> incl items W ->
      verify_spend e commit_ok (spk_shwsh e (encode ke m)) ssig (items ++ [sb']) = true ->
      leval (assets_of (with_sv e SvWitnessV0) ke W) p = true.
Proof. exact shwsh_dispatch_hides. Qed.
Print Assumptions C07_shwsh_dispatch_hides_no_path.

Theorem C07_sh_dispatch_hides_no_path :
  forall (e : env) (ke : keyenv), ksort_ok ke -> (forall kbs, e_sigok e kbs [] = false) ->
  forall (W : wit) (rl : bool) (m : ms) (t : ty) (p : lpolicy),
    type_of m = ROk t -> c_base (t_corr t) = BB -> lift rl m = Some p ->
  forall commit_ok : bytes -> bytes -> bool,
    kh_binds (with_sv e SvBase) ke W -> wf (with_sv e SvBase) ke m -> ms_wf Legacy ke m ->
    blen (e_hash160 e (encode ke m)) = 20 ->
    (forall rb, e_hash160 e rb = e_hash160 e (encode ke m) -> rb = encode ke m) ->
    forall ssig : bytes,
      (forall ss rb st, parse_script ssig = Some ss -> pushonly_stack ss [] = Some (rb :: st) -> incl st W) ->
      verify_spend e commit_ok (spk_sh e (encode ke m)) ssig [] = true ->
      leval (assets_of (with_sv e SvBase) ke W) p = true.
Proof. exact sh_dispatch_hides. Qed.
Print Assumptions C07_sh_dispatch_hides_no_path.

Theorem C07_tr_dispatch_hides_no_path :
  forall (e : env) (ke : keyenv), ksort_ok ke -> (forall kbs, e_sigok e kbs [] = false) ->
  forall (W : wit) (rl : bool) (m : ms) (t : ty) (p : lpolicy),
    type_of m = ROk t -> c_base (t_corr t) = BB -> lift rl m = Some p ->
  forall (commit_ok : bytes -> bytes -> bool) (outkey : bytes),
    kh_binds (with_sv e SvTapscript) ke W -> wf (with_sv e SvTapscript) ke m -> ms_wf Tap ke m ->
    blen outkey = 32 ->
    forall (ssig : bytes) (items : list bytes) (sb' cb : bytes),
      (commit_ok sb' cb = true -> sb' = encode ke m) -> incl items W ->
      verify_spend e commit_ok (spk_tr outkey) ssig (items ++ [sb'; cb]) = true ->
      leval (assets_of (with_sv e SvTapscript) ke W) p = true.
Proof. exact tr_dispatch_hides. Qed.
Print Assumptions C07_tr_dispatch_hides_no_path.

(* ---- the equivalence for a world, through the dispatcher and for P2SH-P2WSH ---- *)
Theorem C07_wsh_dispatch_spending_condition :
  forall (e : env) (ke : keyenv), ksort_ok ke -> (forall kbs, e_sigok e kbs [] = false) ->
  forall (W : wit) (unc : key -> bool) (m : ms) (p : lpolicy),
    wsh_world_ok e ke W m -> unc_agrees ke unc -> lift_ctx Segwitv0 unc m = LOk p ->
  forall commit_ok : bytes -> bytes -> bool,
    blen (e_sha256 e (encode ke m)) = 32 ->
    (leval (assets_of (with_sv e SvWitnessV0) ke W) p = true <->
     exists items sb', incl items W /\ verify_spend e commit_ok (spk_wsh e (encode ke m)) [] (items ++ [sb']) = true).
Proof. exact wsh_dispatch_spending_condition. Qed.
Print Assumptions C07_wsh_dispatch_spending_condition.

Theorem C07_shwsh_spending_condition :
  forall (e : env) (ke : keyenv), ksort_ok ke -> (forall kbs, e_sigok e kbs [] = false) ->
  forall (W : wit) (unc : key -> bool) (m : ms) (p : lpolicy),
    wsh_world_ok e ke W m -> unc_agrees ke unc -> lift_ctx Segwitv0 unc m = LOk p ->
    blen (e_sha256 e (encode ke m)) = 32 ->
    (forall rb, e_hash160 e rb = e_hash160 e (spk_wsh e (encode ke m)) -> rb = spk_wsh e (encode ke m)) ->
    (leval (assets_of (with_sv e SvWitnessV0) ke W) p = true <->
     exists ssig items sb', incl items W /\
       verify_sh e (e_hash160 e (spk_wsh e (encode ke m))) ssig (items ++ [sb']) = true).
Proof. exact shwsh_spending_condition. Qed.
Print Assumptions C07_shwsh_spending_condition.

Theorem C07_shwsh_dispatch_spending_condition :
  forall (e : env) (ke : keyenv), ksort_ok ke -> (forall kbs, e_sigok e kbs [] = false) ->
  forall (W : wit) (unc : key -> bool) (m : ms) (p : lpolicy),
    wsh_world_ok e ke W m -> unc_agrees ke unc -> lift_ctx Segwitv0 unc m = LOk p ->
  forall commit_ok : bytes -> bytes -> bool,
    blen (e_sha256 e (encode ke m)) = 32 -> blen (e_hash160 e (spk_wsh e (encode ke m))) = 20 ->
    (forall rb, e_hash160 e rb = e_hash160 e (spk_wsh e (encode ke m)) -> rb = spk_wsh e (encode ke m)) ->
    (leval (assets_of (with_sv e SvWitnessV0) ke W) p = true <->
     exists ssig items sb', incl items W /\
       verify_spend e commit_ok (spk_shwsh e (encode ke m)) ssig (items ++ [sb']) = true).
Proof. exact shwsh_dispatch_spending_condition. Qed.
Print Assumptions C07_shwsh_dispatch_spending_condition.

(* ---- P2TR script path through one leaf with a given control block: the equivalence for a world.
   [tr_world_ok e ke W m]: keys_ok, keys and world elements <= 520 bytes, pub_in, kh_binds, typed B, wf
   under SvTapscript, ms_wf Tap, ctx_frag_ok Tap, max_elems < 2^55.  The control block commits to this
   leaf ([commit_ok (encode m) cb]) and to nothing else (binding, on this control block). ---- *)
Theorem C07_tr_leaf_spending_condition :
  forall (e : env) (ke : keyenv), ksort_ok ke -> (forall kbs, e_sigok e kbs [] = false) ->
  forall (W : wit) (unc : key -> bool) (m : ms) (p : lpolicy),
    tr_world_ok e ke W m -> unc_agrees ke unc -> lift_ctx Tap unc m = LOk p ->
  forall (commit_ok : bytes -> bytes -> bool) (outkey cb : bytes),
    commit_ok (encode ke m) cb = true -> not_annex cb ->
    (forall sb', commit_ok sb' cb = true -> sb' = encode ke m) ->
    (leval (assets_of (with_sv e SvTapscript) ke W) p = true <->
     exists items sb', incl items W /\ verify_tr e outkey commit_ok [] (items ++ [sb'; cb]) = true).
Proof. exact tr_leaf_spending_condition. Qed.
Print Assumptions C07_tr_leaf_spending_condition.

Theorem C07_tr_leaf_dispatch_spending_condition :
  forall (e : env) (ke : keyenv), ksort_ok ke -> (forall kbs, e_sigok e kbs [] = false) ->
  forall (W : wit) (unc : key -> bool) (m : ms) (p : lpolicy),
    tr_world_ok e ke W m -> unc_agrees ke unc -> lift_ctx Tap unc m = LOk p ->
  forall (commit_ok : bytes -> bytes -> bool) (outkey cb : bytes),
    commit_ok (encode ke m) cb = true -> not_annex cb ->
    (forall sb', commit_ok sb' cb = true -> sb' = encode ke m) ->
    blen outkey = 32 ->
    (leval (assets_of (with_sv e SvTapscript) ke W) p = true <->
     exists items sb', incl items W /\ verify_spend e commit_ok (spk_tr outkey) [] (items ++ [sb'; cb]) = true).
Proof. exact tr_leaf_dispatch_spending_condition. Qed.
Print Assumptions C07_tr_leaf_dispatch_spending_condition.

(* ---- non-vacuity of the "invents no path" theorems of the other output types: the world of C01's
   descriptor examples (or_i(pk(K0),pk(K1)), K0's signature available) satisfies their hypotheses.
   [inv_hyps e sv c ke A se f unc rhs m p] is the conjunction of the hypotheses they share:
   ksort_ok, the empty signature never verifies, linked, locks_compatible, typed B, assets_ok, wf, ms_wf,
   ctx_frag_ok, unc_agrees, senv_ok, thresh_fit, lift_ctx c unc m = LOk p, leval A p = true. ---- *)
Import DescSpendExamples.
Example C07_segwit_invents_nonvacuous :
  inv_hyps ex_env SvWitnessV0 Segwitv0 ex_ke ex_A (ex_se false) (ex_f ex_ke) (ex_unc ex_ke) true ex_m ex_p /\
  small_material ex_ke ex_A 80 /\
  blen (e_sha256 ex_env (encode ex_ke ex_m)) = 32 /\ blen (e_hash160 ex_env (spk_wsh ex_env (encode ex_ke ex_m))) = 20.
Proof. exact ex_segwit_hyps. Qed.
Example C07_legacy_invents_nonvacuous :
  inv_hyps ex_env SvBase Legacy ex_ke ex_A (ex_se false) (ex_f ex_ke) (ex_unc ex_ke) true ex_m ex_p /\
  material_all sbytes ex_ke ex_A /\ material_all (fun b => blen b < 73) ex_ke ex_A /\
  sbytes (encode ex_ke ex_m) /\ blen (e_hash160 ex_env (encode ex_ke ex_m)) = 20 /\
  (forall bs ss, satisfy ex_ke (ex_se false) (ex_f ex_ke) true true ex_m = Some bs ->
                 witness_to_scriptsig (bs ++ [encode ex_ke ex_m]) = Some ss -> blen (serialize ss) <= 1650).
Proof. exact ex_legacy_hyps. Qed.
Example C07_bare_invents_nonvacuous :
  inv_hyps ex_env SvBase Bare ex_ke ex_A (ex_se false) (ex_f ex_ke) (ex_unc ex_ke) true ex_m ex_p /\
  material_all sbytes ex_ke ex_A /\ material_all (fun b => blen b < 73) ex_ke ex_A /\
  (forall bs ss, satisfy ex_ke (ex_se false) (ex_f ex_ke) true true ex_m = Some bs ->
                 witness_to_scriptsig bs = Some ss -> blen (serialize ss) <= 1650).
Proof. exact ex_bare_hyps. Qed.
Example C07_tap_invents_nonvacuous :
  inv_hyps ex_env SvTapscript Tap ex_ke_tap ex_A (ex_se true) (ex_f ex_ke_tap) (ex_unc ex_ke_tap) true ex_m ex_p /\
  small_material ex_ke_tap ex_A 520 /\ blen ex_outkey = 32 /\
  ex_commit (encode ex_ke_tap ex_m) ex_cb = true /\ not_annex ex_cb.
Proof. exact ex_tap_hyps. Qed.

(* ---- the 1650-byte scriptSig rule and the Legacy verdict.  sh(thresh(13, c:pk_h(K0), ac:pk_h(K1), ..,
   ac:pk_h(K12))), compressed keys, 72-byte signatures, all available: well-typed B, 363-byte redeem script,
   91 opcodes, max_script_sig_size 1404; the satisfier model returns a satisfaction whose scriptSig
   (items ++ [redeem script]) is longer than 1650 bytes, so verify_sh rejects it in EVERY environment.
   Until /repo e37a8a3d the verdict was TRUE for it (the library compared only the items with the limit):
   found here as a model-level fact, reproduced on the real library by C01's sat engine, repaired; the
   model mirrors the repaired test and the verdict is now FALSE.  The P2SH theorems above still carry the
   scriptSig rule as a hypothesis (`_partial`); deriving it from the repaired verdict is open. ---- *)
Example C07_sh_scriptsig_rule_now_refused :
  (exists t, type_of sx_m = ROk t /\ c_base (t_corr t) = BB) /\
  within_resource_limits Legacy (CodecExt.is_uncompressed sx_ke) sx_m = false /\
  lift_ctx Legacy (CodecExt.is_uncompressed sx_ke) sx_m <> LOk sx_p /\ leval sx_A sx_p = true /\
  blen (encode sx_ke sx_m) <= 520 /\
  exists bs ss, satisfy sx_ke sx_se sx_f true true sx_m = Some bs /\
                witness_to_scriptsig (bs ++ [encode sx_ke sx_m]) = Some ss /\
                1650 < blen (serialize ss) /\
                forall e h, verify_sh e h (serialize ss) [] = false.
Proof. exact sx_scriptsig_rule_now_refused. Qed.

(* non-vacuity of the P2TR leaf equivalence: 32-byte keys, the same script, nSequence 12, a commitment
   oracle accepting exactly (this leaf, this control block); both truth values; the validation by
   evaluation (script path through verify_tr and through the dispatcher) *)
Example C07_tr_leaf_nonvacuous :
  forall W, W = tx_W0 \/ W = tx_WA \/ W = tx_WB ->
  ksort_ok tx_ke /\ (forall kbs, e_sigok tx_e kbs [] = false) /\
  tr_world_ok tx_e tx_ke W tx_m /\ unc_agrees tx_ke tx_unc /\ lift_ctx Tap tx_unc tx_m = LOk tx_p /\
  tx_commit (encode tx_ke tx_m) tx_cb = true /\ not_annex tx_cb /\
  (forall sb', tx_commit sb' tx_cb = true -> sb' = encode tx_ke tx_m) /\ blen tx_outkey = 32.
Proof. exact tx_world_ok. Qed.
Example C07_tr_leaf_both_values :
  leval (assets_of (with_sv tx_e SvTapscript) tx_ke tx_WA) tx_p = true /\
  leval (assets_of (with_sv tx_e SvTapscript) tx_ke tx_WB) tx_p = true /\
  leval (assets_of (with_sv tx_e SvTapscript) tx_ke tx_W0) tx_p = false.
Proof. exact tx_values. Qed.
Example C07_tr_leaf_validation_by_evaluation :
  verify_tr tx_e tx_outkey tx_commit [] ([tx_sig 0] ++ [encode tx_ke tx_m; tx_cb]) = true /\
  verify_spend tx_e tx_commit (spk_tr tx_outkey) [] ([tx_sig 1; []] ++ [encode tx_ke tx_m; tx_cb]) = true /\
  verify_tr tx_e tx_outkey tx_commit [] ([[]; []] ++ [encode tx_ke tx_m; tx_cb]) = false.
Proof. exact tx_verify. Qed.

(* ---- P2SH, unconditional since /repo e37a8a3d (Proofs/LiftDescSsig.v): the 1650-byte scriptSig rule is
   DERIVED.  The repaired Legacy verdict bounds max_script_sig_size + pk_cost + push_opcode_size(pk_cost);
   C09 wit_bounds_root bounds the nominal size of the satisfier's placeholders by max_script_sig_size;
   the BYTES witness_to_scriptsig emits for the items are at most that nominal size, and the last push is
   the redeem script, whose length is pk_cost.  One new named hypothesis: the satisfier's key-size constant
   covers each key's push, [blen (kb ke k) + 1 <= se_pklen se k] (Ctx::pk_len is 34 / 66 for 33- / 65-byte
   keys).  These subsume C07_sh_invents_no_path_partial / C07_sh_dispatch_invents_no_path_partial, which
   are kept (they hold for every verdict rule, the pre-repair one included).  Bare stays partial: the
   library's Bare context has no scriptSig test at all. ---- *)
Theorem C07_sh_invents_no_path_within_limits :
  forall (e : env) (ke : keyenv), ksort_ok ke -> (forall kbs, e_sigok e kbs [] = false) ->
  forall (A : assets) (se : senv) (f : fill), linked ke A se f -> locks_compatible se ->
  forall (unc : key -> bool) (rhs : bool) (m : ms) (t : ty) (p : lpolicy),
    type_of m = ROk t -> c_base (t_corr t) = BB ->
    assets_ok (with_sv e SvBase) ke A -> wf (with_sv e SvBase) ke m ->
    unc_agrees ke unc -> thresh_fit ke se rhs m ->
    material_all sbytes ke A -> material_all (fun b => blen b < 73) ke A ->
    leval A p = true ->
    ms_wf Legacy ke m -> ExtCodec.ctx_frag_ok Legacy m = true ->
    ExtProofs.senv_ok (ExtCodec.xctx_of Legacy ke) se ->
    (forall k, blen (kb ke k) + 1 <= se_pklen se k) ->
    sbytes (encode ke m) ->
    lift_ctx Legacy unc m = LOk p ->
    exists bs ss, satisfy ke se f true rhs m = Some bs /\ witness_to_scriptsig (bs ++ [encode ke m]) = Some ss /\
      verify_sh e (e_hash160 e (encode ke m)) (serialize ss) [] = true.
Proof. exact sh_invents_no_path_within_limits. Qed.
Print Assumptions C07_sh_invents_no_path_within_limits.

Theorem C07_sh_dispatch_invents_no_path_within_limits :
  forall (e : env) (ke : keyenv), ksort_ok ke -> (forall kbs, e_sigok e kbs [] = false) ->
  forall (A : assets) (se : senv) (f : fill), linked ke A se f -> locks_compatible se ->
  forall (unc : key -> bool) (rhs : bool) (m : ms) (t : ty) (p : lpolicy),
    type_of m = ROk t -> c_base (t_corr t) = BB ->
    assets_ok (with_sv e SvBase) ke A -> wf (with_sv e SvBase) ke m ->
    unc_agrees ke unc -> thresh_fit ke se rhs m ->
    material_all sbytes ke A -> material_all (fun b => blen b < 73) ke A ->
    leval A p = true ->
    ms_wf Legacy ke m -> ExtCodec.ctx_frag_ok Legacy m = true ->
    ExtProofs.senv_ok (ExtCodec.xctx_of Legacy ke) se ->
    (forall k, blen (kb ke k) + 1 <= se_pklen se k) ->
    sbytes (encode ke m) ->
    lift_ctx Legacy unc m = LOk p ->
  forall commit_ok : bytes -> bytes -> bool,
    blen (e_hash160 e (encode ke m)) = 20 ->
    exists bs ss, satisfy ke se f true rhs m = Some bs /\ witness_to_scriptsig (bs ++ [encode ke m]) = Some ss /\
      verify_spend e commit_ok (spk_sh e (encode ke m)) (serialize ss) [] = true.
Proof. exact sh_dispatch_invents_within_limits. Qed.
Print Assumptions C07_sh_dispatch_invents_no_path_within_limits.

(* the bytes of the scriptSig against C09's nominal figure (the lemma the derivation rests on) *)
Theorem C07_scriptsig_bytes_le_figure :
  forall (e : env) (ke : keyenv) (A : assets) (se : senv) (f : fill),
    linked ke A se f -> assets_ok e ke A -> se_tap se = false ->
    (forall k, blen (kb ke k) + 1 <= se_pklen se k) ->
    material_all sbytes ke A -> material_all (fun b => blen b < 73) ke A ->
  forall (l : list ph) (bs : list bytes) (sb : bytes) (ss : script),
    fill_all f l = Some bs -> sbytes sb -> witness_to_scriptsig (bs ++ [sb]) = Some ss ->
    blen (serialize ss) <= ExtProofs.ssig_sum se l + blen sb + ExtModel.push_opcode_size (blen sb).
Proof. exact scriptsig_bytes_le. Qed.
Print Assumptions C07_scriptsig_bytes_le_figure.

(* non-vacuity: C01's example world also satisfies the new hypothesis (33-byte keys, pk_len 34) *)
Example C07_legacy_keys_covered : forall k, blen (kb ex_ke k) + 1 <= se_pklen (ex_se false) k.
Proof. intros k. vm_compute. discriminate. Qed.
