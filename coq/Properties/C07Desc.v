(* C07 at DESCRIPTOR level -- the lifted policy against the output-type validation of Script/Spend.v
   (script hash / witness program, standardness limits, byte-level parse, Script semantics), not only
   against the script part.  Statements only; proofs in Proofs/LiftDesc{Wsh,World,Types,Examples}.v.

   Composition of existing theorems: C07_hides_no_path / C07_policy_iff_satisfier (Proofs/Lift*.v),
   C04 parse_encode and script_size_ok, C09 wit_bounds_root / static_ops_exact / ext_pk_cost_is_len /
   typed_ext_safe, C01 *_spends (Proofs/DescSpend*.v).

   P2WSH
     C07_lift_ctx_within                        lift_ctx c unc m = LOk p  =>  within_resource_limits c unc m = true
     C07_ctx_records_agree                      the ExtData of LiftLimits' context record [lx_ctx c unc] is that of
                                                C01/C09's [xctx_of c ke] on every well-formed script (all contexts)
     C07_wsh_hides_no_path               (<=)   verify_wsh accepts items ++ [sb'] for the program sha256(encode m),
                                                items from the world W  =>  policy true in W.  sb' is ANY last item;
                                                collision-freeness of sha256 on (sb', encode m) is a hypothesis.
     C07_wsh_invents_no_path_within_limits (=>) lift_ctx Segwitv0 unc m = LOk p (verdict COMPUTED), policy true for
                                                the caller's assets  =>  the satisfier model returns bs and
                                                verify_wsh accepts bs ++ [encode m]: 3600-byte script, 100 items,
                                                80-byte items, 201 non-push ops, parse, execution, clean stack.
     C07_wsh_spending_condition          (<=>)  the equivalence for a world W, no satisfier-side hypothesis left
                                                ([wsh_world_ok]: conditions on the world, the key table, the script).
   Remaining named hypotheses and why (notes/C07.md, section "Descriptor level"):
     ctx_frag_ok Segwitv0 m    no multi_a in a P2WSH script (check_global_consensus_validity; [wf] under
                               SvWitnessV0 says the same semantically, ctx_frag_ok is its computable form)
     unc_agrees ke unc         the [unc] fed to lift_ctx is the key table's compressedness
     small_material .. 80      keys and signatures of at most 80 bytes (the library has no static figure for
                               the 80-byte item rule)
     thresh_fit / max_elems < 2^55   no i64 overflow in the satisfier's sort key
     kh_binds, collision-freeness    cryptographic, stated on the finite world / on the one pair. *)
From Verif Require Import Exec Ser Spend Ast Types TypeCheck SatSpec Sat LiftModel LiftLimits TheoremA SatProofs FrameDissat
  CompleteThresh CompleteNonMall DenotSpec LiftFullProofs CodecSpec.
From Verif Require Import LiftDescWsh LiftDescWorld LiftDescExamples.
From Verif Require CodecExt ExtModel ExtProofs ExtCodec.
Local Open Scope N_scope.

Theorem C07_lift_ctx_within :
  forall (c : ctx) (unc : key -> bool) (m : ms) (p : lpolicy),
    lift_ctx c unc m = LOk p -> within_resource_limits c unc m = true.
Proof. exact lift_ctx_within. Qed.
Print Assumptions C07_lift_ctx_within.

Theorem C07_ctx_records_agree :
  forall (fx : ExtModel.fixes) (c : ctx) (unc : key -> bool) (ke : keyenv) (m : ms),
    unc_agrees ke unc -> ms_wf c ke m ->
    ExtModel.ext_of_gen fx (lx_ctx c unc) m = ExtModel.ext_of_gen fx (ExtCodec.xctx_of c ke) m.
Proof. exact lx_ext_eq. Qed.
Print Assumptions C07_ctx_records_agree.

Theorem C07_wsh_hides_no_path :
  forall (e : env) (ke : keyenv), ksort_ok ke -> (forall kbs, e_sigok e kbs [] = false) ->
  forall (W : wit) (rl : bool) (m : ms) (t : ty) (p : lpolicy),
    kh_binds (with_sv e SvWitnessV0) ke W ->
    type_of m = ROk t -> c_base (t_corr t) = BB -> wf (with_sv e SvWitnessV0) ke m -> ms_wf Segwitv0 ke m ->
    lift rl m = Some p ->
    forall (items : list bytes) (sb' : bytes),
      (e_sha256 e sb' = e_sha256 e (encode ke m) -> sb' = encode ke m) ->
      incl items W ->
      verify_wsh e (e_sha256 e (encode ke m)) (items ++ [sb']) = true ->
      leval (assets_of (with_sv e SvWitnessV0) ke W) p = true.
Proof. exact wsh_hides_no_path. Qed.
Print Assumptions C07_wsh_hides_no_path.

Theorem C07_wsh_invents_no_path_within_limits :
  forall (e : env) (ke : keyenv), ksort_ok ke -> (forall kbs, e_sigok e kbs [] = false) ->
  forall (A : assets) (se : senv) (f : fill),
    linked ke A se f -> locks_compatible se ->
  forall (unc : key -> bool) (rhs : bool) (m : ms) (t : ty) (p : lpolicy),
    type_of m = ROk t -> c_base (t_corr t) = BB ->
    assets_ok (with_sv e SvWitnessV0) ke A -> wf (with_sv e SvWitnessV0) ke m -> ms_wf Segwitv0 ke m ->
    ExtCodec.ctx_frag_ok Segwitv0 m = true ->
    unc_agrees ke unc -> ExtProofs.senv_ok (ExtCodec.xctx_of Segwitv0 ke) se ->
    thresh_fit ke se rhs m -> small_material ke A 80 ->
    lift_ctx Segwitv0 unc m = LOk p ->
    leval A p = true ->
    exists bs, satisfy ke se f true rhs m = Some bs /\
               verify_wsh e (e_sha256 e (encode ke m)) (bs ++ [encode ke m]) = true.
Proof. exact wsh_invents_no_path_within_limits. Qed.
Print Assumptions C07_wsh_invents_no_path_within_limits.

(* [wsh_spendable e ke W m] := exists items sb', incl items W /\
                               verify_wsh e (e_sha256 e (encode ke m)) (items ++ [sb']) = true *)
Theorem C07_wsh_spending_condition :
  forall (e : env) (ke : keyenv), ksort_ok ke -> (forall kbs, e_sigok e kbs [] = false) ->
  forall (W : wit) (unc : key -> bool) (m : ms) (p : lpolicy),
    wsh_world_ok e ke W m -> unc_agrees ke unc -> lift_ctx Segwitv0 unc m = LOk p ->
    (leval (assets_of (with_sv e SvWitnessV0) ke W) p = true <-> wsh_spendable e ke W m).
Proof. exact wsh_spending_condition. Qed.
Print Assumptions C07_wsh_spending_condition.

(* ---- non-vacuity: wsh(or_d(pk(K0),and_v(v:pk(K1),older(10)))), nSequence 12, three worlds ---- *)
Example C07_wsh_nonvacuous :
  forall W, W = dx_W0 \/ W = dx_WA \/ W = dx_WB ->
  ksort_ok dx_ke /\ (forall kbs, e_sigok dx_e kbs [] = false) /\
  wsh_world_ok dx_e dx_ke W dx_m /\ unc_agrees dx_ke dx_unc /\ lift_ctx Segwitv0 dx_unc dx_m = LOk dx_p.
Proof. exact dx_world_ok. Qed.
Example C07_wsh_both_values :
  leval (assets_of (with_sv dx_e SvWitnessV0) dx_ke dx_WA) dx_p = true /\
  leval (assets_of (with_sv dx_e SvWitnessV0) dx_ke dx_WB) dx_p = true /\
  leval (assets_of (with_sv dx_e SvWitnessV0) dx_ke dx_W0) dx_p = false.
Proof. exact dx_values. Qed.
(* the validation re-established by evaluation, independently of the theorems *)
Example C07_wsh_validation_by_evaluation :
  verify_wsh dx_e (e_sha256 dx_e (encode dx_ke dx_m)) ([dx_sig 0] ++ [encode dx_ke dx_m]) = true /\
  verify_wsh dx_e (e_sha256 dx_e (encode dx_ke dx_m)) ([dx_sig 1; []] ++ [encode dx_ke dx_m]) = true /\
  verify_wsh dx_e (e_sha256 dx_e (encode dx_ke dx_m)) ([[]; []] ++ [encode dx_ke dx_m]) = false.
Proof. exact dx_verify. Qed.
(* hence, by the theorem, in the world without signatures NO witness over its material spends *)
Example C07_wsh_false_world_unspendable : ~ wsh_spendable dx_e dx_ke dx_W0 dx_m.
Proof. exact dx_unspendable. Qed.
