(* C10, policy text layer (statements only; proofs in Proofs/PolTextProofs.v and Proofs/PolTextCompose.v;
   model Ms/PolTextModel.v): `Display` and `FromTree` / `FromStr` of policy::Concrete and policy::Semantic.

   Property text: "Formatting any descriptor, miniscript, POLICY or descriptor key and parsing the result gives
   back an equal object, and formatting is a fixed point after one round trip; aliases and syntactic sugar never
   change meaning".

   Keys and hashes are opaque atoms: hypotheses `parse (print x) = Some x` and, for the text-level statements,
   "the printed form consists of name characters" (no ( ) { } , #).
   [conc_text_ok] / [sem_text_ok] are the parsers' OWN checks (arity of and/or, 1 <= odds <= u32::MAX, threshold
   1 <= k <= n with k a u32, lock values 1 .. 2^31-1; semantic: n >= 2): C10_pol_*_parse_valid shows every accepted
   value satisfies them, so the fixed-point statements need no validity hypothesis.
   The unrestricted statement ("ANY policy value") is REFUTED by values the public enum constructors build:
   C10_pol_sem_unrestricted_refuted, C10_pol_conc_unrestricted_refuted (findings, see notes/C10-poltext.md). *)
From Coq Require Import List Bool NArith.
From Verif Require Import ExprTreeModel MsTextModel PolSemantic PolConcrete PolTextModel PolTextProofs PolTextCompose PolTextTotal PolTextTotalConc.
Import ListNotations.
Local Open Scope N_scope.

(* ---------------------------------------------------------------- tree level, semantic *)
Theorem C10_pol_sem_print_parse :
  forall (print_key : N -> tbytes) (parse_key : tbytes -> option N)
         (print_hash : phk -> N -> tbytes) (parse_hash : phk -> tbytes -> option N),
  (forall k, parse_key (print_key k) = Some k) ->
  (forall h v, parse_hash h (print_hash h v) = Some v) ->
  forall p, sem_text_ok p = true ->
  sem_from_tree parse_key parse_hash (sem_to_tree print_key print_hash p) = Ok p.
Proof. exact sem_print_parse. Qed.
Print Assumptions C10_pol_sem_print_parse.

Theorem C10_pol_sem_parse_valid :
  forall (parse_key : tbytes -> option N) (parse_hash : phk -> tbytes -> option N),
  forall t p, sem_from_tree parse_key parse_hash t = Ok p -> sem_text_ok p = true.
Proof. exact sem_parse_valid. Qed.
Print Assumptions C10_pol_sem_parse_valid.

(* any accepted tree (any spelling: `thresh(k,..)` with 1 < k < n, `and(..)`, `or(..)`): its value is parsed back
   from its printed tree, and any parse of the printed tree prints identically: one round trip reaches the fixed
   point, the printed form is canonical; sugar (`and` = n-of-n, `or` = 1-of-n) never changes the value *)
Theorem C10_pol_sem_print_fixpoint :
  forall (print_key : N -> tbytes) (parse_key : tbytes -> option N)
         (print_hash : phk -> N -> tbytes) (parse_hash : phk -> tbytes -> option N),
  (forall k, parse_key (print_key k) = Some k) ->
  (forall h v, parse_hash h (print_hash h v) = Some v) ->
  forall t p, sem_from_tree parse_key parse_hash t = Ok p ->
  sem_from_tree parse_key parse_hash (sem_to_tree print_key print_hash p) = Ok p /\
  (forall q, sem_from_tree parse_key parse_hash (sem_to_tree print_key print_hash p) = Ok q ->
             sem_to_tree print_key print_hash q = sem_to_tree print_key print_hash p).
Proof. exact sem_print_fixpoint. Qed.
Print Assumptions C10_pol_sem_print_fixpoint.

(* ---------------------------------------------------------------- tree level, concrete *)
Theorem C10_pol_conc_print_parse :
  forall (print_key : N -> tbytes) (parse_key : tbytes -> option N)
         (print_hash : phk -> N -> tbytes) (parse_hash : phk -> tbytes -> option N),
  (forall k, parse_key (print_key k) = Some k) ->
  (forall h v, parse_hash h (print_hash h v) = Some v) ->
  forall p, conc_text_ok p = true ->
  conc_from_tree parse_key parse_hash (conc_to_tree print_key print_hash p) = Ok p.
Proof. exact conc_print_parse. Qed.
Print Assumptions C10_pol_conc_print_parse.

Theorem C10_pol_conc_parse_valid :
  forall (parse_key : tbytes -> option N) (parse_hash : phk -> tbytes -> option N),
  forall t p, conc_from_tree parse_key parse_hash t = Ok p -> conc_text_ok p = true.
Proof. exact conc_parse_valid. Qed.
Print Assumptions C10_pol_conc_parse_valid.

(* `or(a,b)` (odds absent = 1) and `or(1@a,1@b)` parse to the same value, printed with the odds *)
Theorem C10_pol_conc_print_fixpoint :
  forall (print_key : N -> tbytes) (parse_key : tbytes -> option N)
         (print_hash : phk -> N -> tbytes) (parse_hash : phk -> tbytes -> option N),
  (forall k, parse_key (print_key k) = Some k) ->
  (forall h v, parse_hash h (print_hash h v) = Some v) ->
  forall t p, conc_from_tree parse_key parse_hash t = Ok p ->
  conc_from_tree parse_key parse_hash (conc_to_tree print_key print_hash p) = Ok p /\
  (forall q, conc_from_tree parse_key parse_hash (conc_to_tree print_key print_hash p) = Ok q ->
             conc_to_tree print_key print_hash q = conc_to_tree print_key print_hash p).
Proof. exact conc_print_fixpoint. Qed.
Print Assumptions C10_pol_conc_print_fixpoint.

(* the parsers do not reach a Panic site (stack.pop().unwrap(), assert_eq!(stack.len(), 1)) on printed forms.
   On ARBITRARY trees: C10_pol_sem_from_tree_total / C10_pol_conc_from_tree_total below. *)
Theorem C10_pol_printed_never_panics :
  forall (print_key : N -> tbytes) (parse_key : tbytes -> option N)
         (print_hash : phk -> N -> tbytes) (parse_hash : phk -> tbytes -> option N),
  (forall k, parse_key (print_key k) = Some k) ->
  (forall h v, parse_hash h (print_hash h v) = Some v) ->
  (forall p, conc_text_ok p = true ->
     forall s, conc_from_tree parse_key parse_hash (conc_to_tree print_key print_hash p) <> Panic s) /\
  (forall p, sem_text_ok p = true ->
     forall s, sem_from_tree parse_key parse_hash (sem_to_tree print_key print_hash p) <> Panic s).
Proof. exact pol_printed_never_panics. Qed.
Print Assumptions C10_pol_printed_never_panics.

(* from_tree of both types reaches neither `stack.pop().unwrap()` nor the final `assert_eq!(stack.len(), 1)` on ANY
   expression tree (also serves C11): whenever a composite fragment pops its arguments, each of its children was a
   non-skipped subtree that pushed exactly one value, or an error was returned before. *)
Theorem C10_pol_sem_from_tree_total :
  forall (parse_key : tbytes -> option N) (parse_hash : phk -> tbytes -> option N),
  forall t q, sem_from_tree parse_key parse_hash t <> Panic q.
Proof. exact sem_from_tree_total. Qed.
Print Assumptions C10_pol_sem_from_tree_total.

Theorem C10_pol_conc_from_tree_total :
  forall (parse_key : tbytes -> option N) (parse_hash : phk -> tbytes -> option N),
  forall t q, conc_from_tree parse_key parse_hash t <> Panic q.
Proof. exact conc_from_tree_total. Qed.
Print Assumptions C10_pol_conc_from_tree_total.

(* ---------------------------------------------------------------- text level (composed with C10_tree_print_parse) *)
Theorem C10_pol_to_tree_well_formed :
  forall (print_key : N -> tbytes) (print_hash : phk -> N -> tbytes),
  (forall k, forallb name_char (print_key k) = true) ->
  (forall h v, forallb name_char (print_hash h v) = true) ->
  (forall p, well_formed (conc_to_tree print_key print_hash p) = true) /\
  (forall p, well_formed (sem_to_tree print_key print_hash p) = true).
Proof. exact pol_to_tree_well_formed. Qed.
Print Assumptions C10_pol_to_tree_well_formed.

Theorem C10_pol_sem_text_roundtrip :
  forall (print_key : N -> tbytes) (parse_key : tbytes -> option N)
         (print_hash : phk -> N -> tbytes) (parse_hash : phk -> tbytes -> option N),
  (forall k, parse_key (print_key k) = Some k) ->
  (forall h v, parse_hash h (print_hash h v) = Some v) ->
  (forall k, forallb name_char (print_key k) = true) ->
  (forall h v, forallb name_char (print_hash h v) = true) ->
  forall p, sem_text_ok p = true -> depth (sem_to_tree print_key print_hash p) <= MAX_RECURSION_DEPTH ->
  sem_from_str parse_key parse_hash (sem_to_text print_key print_hash p) = Ok p.
Proof. exact sem_text_roundtrip. Qed.
Print Assumptions C10_pol_sem_text_roundtrip.

(* <Concrete as FromStr>::from_str = tree parser, from_tree, check_timelocks *)
Theorem C10_pol_conc_text_roundtrip :
  forall (print_key : N -> tbytes) (parse_key : tbytes -> option N)
         (print_hash : phk -> N -> tbytes) (parse_hash : phk -> tbytes -> option N),
  (forall k, parse_key (print_key k) = Some k) ->
  (forall h v, parse_hash h (print_hash h v) = Some v) ->
  (forall k, forallb name_char (print_key k) = true) ->
  (forall h v, forallb name_char (print_hash h v) = true) ->
  forall p, conc_text_ok p = true -> check_timelocks (erase p) = true ->
  depth (conc_to_tree print_key print_hash p) <= MAX_RECURSION_DEPTH ->
  conc_from_str parse_key parse_hash (conc_to_text print_key print_hash p) = Ok p.
Proof. exact conc_text_roundtrip. Qed.
Print Assumptions C10_pol_conc_text_roundtrip.

Theorem C10_pol_sem_text_fixpoint :
  forall (print_key : N -> tbytes) (parse_key : tbytes -> option N)
         (print_hash : phk -> N -> tbytes) (parse_hash : phk -> tbytes -> option N),
  (forall k, parse_key (print_key k) = Some k) ->
  (forall h v, parse_hash h (print_hash h v) = Some v) ->
  (forall k, forallb name_char (print_key k) = true) ->
  (forall h v, forallb name_char (print_hash h v) = true) ->
  forall s p, sem_from_str parse_key parse_hash s = Ok p ->
  depth (sem_to_tree print_key print_hash p) <= MAX_RECURSION_DEPTH ->
  sem_from_str parse_key parse_hash (sem_to_text print_key print_hash p) = Ok p /\
  (forall q, sem_from_str parse_key parse_hash (sem_to_text print_key print_hash p) = Ok q ->
             sem_to_text print_key print_hash q = sem_to_text print_key print_hash p).
Proof. exact sem_text_fixpoint. Qed.
Print Assumptions C10_pol_sem_text_fixpoint.

Theorem C10_pol_conc_text_fixpoint :
  forall (print_key : N -> tbytes) (parse_key : tbytes -> option N)
         (print_hash : phk -> N -> tbytes) (parse_hash : phk -> tbytes -> option N),
  (forall k, parse_key (print_key k) = Some k) ->
  (forall h v, parse_hash h (print_hash h v) = Some v) ->
  (forall k, forallb name_char (print_key k) = true) ->
  (forall h v, forallb name_char (print_hash h v) = true) ->
  forall s p, conc_from_str parse_key parse_hash s = Ok p ->
  depth (conc_to_tree print_key print_hash p) <= MAX_RECURSION_DEPTH ->
  conc_from_str parse_key parse_hash (conc_to_text print_key print_hash p) = Ok p /\
  (forall q, conc_from_str parse_key parse_hash (conc_to_text print_key print_hash p) = Ok q ->
             conc_to_text print_key print_hash q = conc_to_text print_key print_hash p).
Proof. exact conc_text_fixpoint. Qed.
Print Assumptions C10_pol_conc_text_fixpoint.

(* ---------------------------------------------------------------- refutations of the unrestricted statement
   FULL STATEMENT (fails): for EVERY value p of the type (Threshold invariant 1 <= k <= n kept),
   from_tree (to_tree p) = Ok p.
   Semantic: Thresh(1 of [pk(1)]) prints as `and(pk(1))`; the parser demands two or more children of `and`.
   Concrete: And([a,b,c]) prints as `and(a,b,c)`; the parser demands exactly two children (likewise Or). *)
Theorem C10_pol_sem_unrestricted_refuted :
  exists p, wf p = true /\
    sem_from_tree pinst_parse_key pinst_parse_hash (sem_to_tree pinst_print_key pinst_print_hash p) = Err (PMs EArity).
Proof. exact sem_unrestricted_roundtrip_refuted. Qed.
Print Assumptions C10_pol_sem_unrestricted_refuted.

Theorem C10_pol_conc_unrestricted_refuted :
  exists p, cwf (erase p) = true /\
    conc_from_tree pinst_parse_key pinst_parse_hash (conc_to_tree pinst_print_key pinst_print_hash p) = Err (PMs EArity).
Proof. exact conc_unrestricted_roundtrip_refuted. Qed.
Print Assumptions C10_pol_conc_unrestricted_refuted.

(* ---------------------------------------------------------------- non-vacuity *)
Definition ex_conc : wpol :=
  WOr [(3, WAnd [WKey 1; WOlder 144]);
       (1, WThresh 2 [WKey 2; WKey 3; WOr [(1, WSha256 7); (2, WAfter 500000001)]])].
Definition ex_sem : spol :=
  SThresh 2 [SKey 1; SThresh 1 [SKey 2; SOlder 144]; SThresh 2 [SKey 3; SKey 4; SHash160 9]; SThresh 3 [SKey 5; SKey 6; SAfter 10]].

Example C10_pol_nonvacuous :
  (forall k, pinst_parse_key (pinst_print_key k) = Some k) /\
  (forall h v, pinst_parse_hash h (pinst_print_hash h v) = Some v) /\
  (forall k, forallb name_char (pinst_print_key k) = true) /\
  (forall h v, forallb name_char (pinst_print_hash h v) = true) /\
  conc_text_ok ex_conc = true /\ check_timelocks (erase ex_conc) = true /\
  depth (conc_to_tree pinst_print_key pinst_print_hash ex_conc) = 4 /\
  firstn 30 (conc_to_text pinst_print_key pinst_print_hash ex_conc) =
    (* "or(3@and(pk(1),older(144)),1@t" *)
    [111;114;40;51;64;97;110;100;40;112;107;40;49;41;44;111;108;100;101;114;40;49;52;52;41;41;44;49;64;116] /\
  conc_from_str pinst_parse_key pinst_parse_hash (conc_to_text pinst_print_key pinst_print_hash ex_conc) = Ok ex_conc /\
  sem_text_ok ex_sem = true /\
  firstn 24 (sem_to_text pinst_print_key pinst_print_hash ex_sem) =
    (* "thresh(2,pk(1),or(pk(2)," *)
    [116;104;114;101;115;104;40;50;44;112;107;40;49;41;44;111;114;40;112;107;40;50;41;44] /\
  sem_from_str pinst_parse_key pinst_parse_hash (sem_to_text pinst_print_key pinst_print_hash ex_sem) = Ok ex_sem.
Proof.
  split; [exact pinst_key_rt|]. split; [exact pinst_hash_rt|]. split; [exact pinst_key_chars|].
  split; [exact pinst_hash_chars|]. repeat split; vm_compute; reflexivity.
Qed.

(* aliases: the spellings `or(pk(1),pk(2))`, `or(1@pk(1),pk(2))`, `or(1@pk(1),1@pk(2))` mean the same concrete
   value; semantic `and(pk(1),pk(2),pk(3))` is the 3-of-3 threshold, `or(..)` the 1-of-3 one, and the
   `thresh(3,..)` / `thresh(1,..)` spellings of those are refused (IllegalAnd / IllegalOr), never re-interpreted *)
Definition txt (s : list N) : tbytes := s.
Example C10_pol_alias_examples :
  let cfs := conc_from_str pinst_parse_key pinst_parse_hash in
  let sfs := sem_from_str pinst_parse_key pinst_parse_hash in
  let v := WOr [(1, WKey 1); (1, WKey 2)] in
  (* or(pk(1),pk(2)) *)
  cfs (txt [111;114;40;112;107;40;49;41;44;112;107;40;50;41;41]) = Ok v /\
  (* or(1@pk(1),pk(2)) *)
  cfs (txt [111;114;40;49;64;112;107;40;49;41;44;112;107;40;50;41;41]) = Ok v /\
  (* or(1@pk(1),1@pk(2)) = the printed form *)
  cfs (txt [111;114;40;49;64;112;107;40;49;41;44;49;64;112;107;40;50;41;41]) = Ok v /\
  conc_to_text pinst_print_key pinst_print_hash v = txt [111;114;40;49;64;112;107;40;49;41;44;49;64;112;107;40;50;41;41] /\
  (* or(0@pk(1),pk(2)) : IllegalZero *)
  cfs (txt [111;114;40;48;64;112;107;40;49;41;44;112;107;40;50;41;41]) = Err (PxPol PNumZero) /\
  (* and(pk(1),pk(2),pk(3)) *)
  sfs (txt [97;110;100;40;112;107;40;49;41;44;112;107;40;50;41;44;112;107;40;51;41;41]) = Ok (SThresh 3 [SKey 1; SKey 2; SKey 3]) /\
  (* thresh(3,pk(1),pk(2),pk(3)) *)
  sfs (txt [116;104;114;101;115;104;40;51;44;112;107;40;49;41;44;112;107;40;50;41;44;112;107;40;51;41;41]) = Err (PxPol PIllegalAnd) /\
  (* thresh(1,pk(1),pk(2),pk(3)) *)
  sfs (txt [116;104;114;101;115;104;40;49;44;112;107;40;49;41;44;112;107;40;50;41;44;112;107;40;51;41;41]) = Err (PxPol PIllegalOr).
Proof. repeat split; vm_compute; reflexivity. Qed.
