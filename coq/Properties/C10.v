(* C10 — Text forms round-trip and the descriptor checksum detects corruption.
   Statements only; every proof is `exact <lemma>`.

   Part A (this section): the BIP-380 checksum of src/descriptor/checksum.rs, model
   Ms/ChecksumModel.v (engine over bech32's Engine<u64>, verify_checksum), vocabulary
   Ms/ChecksumSpec.v.  Strings are byte lists; a "substitution" changes the character at a
   position and keeps the length, [hamming s s'] counts the changed positions.

   [rejected o]            : o is an Err (never Ok, never Panic).
   [sep_replaced p s']     : the substituted position is the separator '#' itself and no other
                             '#' remains: s' carries no checksum any more, verify_checksum
                             returns it whole; the expression parser then rejects it
                             (C10_sep_replaced_rejected below, Part B). *)
From Coq Require Import List Arith NArith.
From Verif Require Import ChecksumModel ChecksumSpec ChecksumTheorems ExprTreeModel ExprTreeTotal ExprTreeRt ExprTreeGrammar.
From Verif Require Import TypeCheck MsTextModel MsTextProofs MsTextCompose.
Import ListNotations.
Local Open Scope N_scope.

(* the residue is GF(2)-linear (affine in the start state) in the symbol stream *)
Theorem C10_ck_linear : forall xs ys s1 s2,
  length xs = length ys -> Forall (fun x => x < 32) xs -> Forall (fun x => x < 32) ys ->
  s1 < 2 ^ 40 -> s2 < 2 ^ 40 ->
  polymod_from (N.lxor s1 s2) (zipxor xs ys) = N.lxor (polymod_from s1 xs) (polymod_from s2 ys).
Proof. exact ck_linear_lemma. Qed.
Print Assumptions C10_ck_linear.

(* the checksum the library prints is the one it accepts *)
Theorem C10_ck_printed_accepted : forall s cs,
  desc_checksum s = Ok cs -> verify_checksum (s ++ HASH :: cs) = Ok s.
Proof. exact ck_printed_accepted_lemma. Qed.
Print Assumptions C10_ck_printed_accepted.

(* no index / expect / subtraction of the modelled code can fire, for any byte string  (-> C11) *)
Theorem C10_ck_total : forall s, no_panic (desc_checksum s) /\ no_panic (verify_checksum s).
Proof. exact ck_total_lemma. Qed.
Print Assumptions C10_ck_total.

(* ANY single-character substitution, in the payload or in the checksum, ANY length *)
Theorem C10_ck_one_char : forall s p s',
  verify_checksum s = Ok p -> In HASH s ->
  length s' = length s -> hamming s s' = 1%nat ->
  rejected (verify_checksum s') \/ sep_replaced p s'.
Proof. exact ck_one_char_lemma. Qed.
Print Assumptions C10_ck_one_char.

(* one or two substitutions, payload up to 501 characters (510 with '#' and checksum).
   Reduction by linearity to a complete finite check (Proofs/ChecksumSweep.v): for each of the
   3007 local residues a changed character can leave and each distance 1..676 symbols, the
   propagated residue is not the residue of another single change and has >= 2 non-zero fields. *)
Theorem C10_ck_two_chars : forall s p s',
  verify_checksum s = Ok p -> In HASH s -> (length p <= 501)%nat ->
  length s' = length s -> (1 <= hamming s s' <= 2)%nat ->
  rejected (verify_checksum s') \/ sep_replaced p s'.
Proof. exact ck_two_chars_lemma. Qed.
Print Assumptions C10_ck_two_chars.

(* any number of substitutions inside one group of three payload characters changes the
   checksum, for every length *)
Theorem C10_ck_one_group : forall pre g g' post cs cs',
  (length pre mod 3 = 0)%nat -> length g = length g' -> (length g = 3%nat \/ post = []) ->
  (1 <= length g <= 3)%nat -> g <> g' ->
  desc_checksum (pre ++ g ++ post) = Ok cs -> desc_checksum (pre ++ g' ++ post) = Ok cs' -> cs' <> cs.
Proof. exact ck_one_group_desc. Qed.
Print Assumptions C10_ck_one_group.

(* the modelled engine computes BIP-380's descsum_create (reference algorithm transcribed in
   ChecksumModel.v), for every byte string; CHAR_MAP is the inverse of the BIP's INPUT_CHARSET *)
Theorem C10_ck_is_bip380 : forall s cs, desc_checksum s = Ok cs <-> bip380_create s = Some cs.
Proof. exact ck_bip380_full. Qed.
Print Assumptions C10_ck_is_bip380.

(* FULL STATEMENT, not yet proved (kept visible):
   ck_four_in_group : verify_checksum s = Ok p -> In HASH s -> length p <= 501 -> length s' = length s ->
     1 <= hamming s s' <= 4 -> (forall i, nth i s 0 <> nth i s' 0 -> group0 (nth i s 0) = true /\ group0 (nth i s' 0) = true) ->
     rejected (verify_checksum s').
   Proved parts: one or two substitutions (C10_ck_two_chars, no group restriction) and any
   substitutions inside one group of three (C10_ck_one_group).  Missing: three and four in-group
   substitutions spread over different groups (minimum distance 5 of the BCH code over the
   first 676 symbol positions); exercised by the substitution campaign of the check only. *)

Definition ex_payload : bytes := [114; 97; 119; 40; 100; 101; 97; 100; 98; 101; 101; 102; 41].   (* raw(deadbeef) *)
Definition ex_cs : bytes := [56; 57; 102; 56; 115; 112; 120; 109].                                   (* 89f8spxm *)

(* ======================================================================================
   Part B: the expression-tree parser of src/expression/mod.rs (model Ms/ExprTreeModel.v). *)

(* No string makes Tree::from_str_inner panic: the node count and maximum depth computed by
   parse_pre_check are exactly what the second pass needs (the three capacity assertions hold),
   `expect("'(' only occurs after a node name")` cannot fire and every index is in range.  (-> C11) *)
Theorem C10_tree_total : forall s, no_panic_t (from_str_inner s).
Proof. exact tree_total_lemma. Qed.
Print Assumptions C10_tree_total.

(* tree_rt, first half: the text of a well-formed tree (names are runs of alphabet characters other
   than ( ) { } , #; a node has parentheses iff it has children; depth within the library's limit)
   parses to exactly the node vector of that tree (names, positions, parent / last-child /
   right-sibling indices). *)
Theorem C10_tree_print_parse : forall t,
  well_formed t = true -> depth t <= MAX_RECURSION_DEPTH ->
  from_str_inner (print t) = Ok (tree_nodes t).
Proof. exact tree_print_parse_lemma. Qed.
Print Assumptions C10_tree_print_parse.

(* tree_rt, second half: whatever from_str_inner returns is the node vector of a (structurally
   well-formed) tree whose text is exactly the input without its checksum. *)
Theorem C10_tree_parse_print : forall s0 nodes, from_str_inner s0 = Ok nodes ->
  exists s t, verify_checksum s0 = Ok s /\ swf t = true /\ depth t <= MAX_RECURSION_DEPTH /\
              print t = s /\ nodes = tree_nodes t.
Proof. exact tree_parse_print_lemma. Qed.
Print Assumptions C10_tree_parse_print.

(* The second disjunct of C10_ck_one_char cannot slip through the expression parser: if a
   checksummed expression whose root has children is accepted, the same string with its
   separator '#' replaced (so that no checksum is recognised any more) is rejected
   (TrailingCharacter: text continues after the parenthesis that closes the root).
   Every descriptor is such an expression (pkh(..), wsh(..), tr(..), ...). *)
Theorem C10_sep_replaced_rejected : forall p cs x nodes,
  from_str_inner (p ++ HASH :: cs) = Ok nodes -> verify_checksum (p ++ HASH :: cs) = Ok p ->
  (exists nd, nth_error nodes 0 = Some nd /\ nd_parens nd <> PNone) ->
  verify_checksum (p ++ x :: cs) = Ok (p ++ x :: cs) ->
  rejected_t (from_str_inner (p ++ x :: cs)).
Proof. exact sep_replaced_rejected_lemma. Qed.
Print Assumptions C10_sep_replaced_rejected.

(* ---------------------------------------------------------------------------------------------
   Part C (miniscript text layer): model Ms/MsTextModel.v of `Display for Terminal` ([to_tree]; the
   text is [print (to_tree m)]) and of `FromTree for Miniscript` ([from_tree], the loop over the
   right-to-left post order with its stack), tied to the real printer and parser on every run by
   Tables/MsTextCasesCheck.v.  Keys and hashes are opaque atoms: the theorems hold for every
   printer/parser pair with `parse (print x) = Some x`; `Miniscript::from_ast` is an arbitrary
   boolean [chk] (instantiated with the type check for the tie), so the statements are about the
   layer below the type system and hold for every such check.

   ms_rt, printing side: every AST whose thresholds and lock times are in the ranges the parser
   enforces and whose composite nodes pass from_ast ([ms_text_ok]) is parsed back from its printed
   tree: sugar (pk, pkh, t: l: u:, and_n), wrapper prefixes and argument lists are unambiguous. *)
Theorem C10_ms_print_parse :
  forall (print_key : key -> tbytes) (parse_key : tbytes -> option key)
         (print_hash : hkind -> tbytes -> tbytes) (parse_hash : hkind -> tbytes -> option tbytes)
         (chk : ms -> bool),
  (forall k, parse_key (print_key k) = Some k) ->
  (forall h b, parse_hash h (print_hash h b) = Some b) ->
  forall m, ms_text_ok chk m = true ->
  from_tree parse_key parse_hash chk (to_tree print_key print_hash m) = Ok m.
Proof. exact print_parse. Qed.
Print Assumptions C10_ms_print_parse.

(* ms_rt, parsing side: whatever from_tree accepts (any tree: any spelling, any wrapper prefix) is
   an AST that its own printed form parses back to, and printing that again gives the same tree:
   one parse reaches a fixed point of print/parse.  (Uses [parse_valid]: every AST the parser
   returns satisfies [ms_text_ok].) *)
Theorem C10_ms_print_fixpoint :
  forall (print_key : key -> tbytes) (parse_key : tbytes -> option key)
         (print_hash : hkind -> tbytes -> tbytes) (parse_hash : hkind -> tbytes -> option tbytes)
         (chk : ms -> bool),
  (forall k, parse_key (print_key k) = Some k) ->
  (forall h b, parse_hash h (print_hash h b) = Some b) ->
  forall t m, from_tree parse_key parse_hash chk t = Ok m ->
  from_tree parse_key parse_hash chk (to_tree print_key print_hash m) = Ok m /\
  (forall m', from_tree parse_key parse_hash chk (to_tree print_key print_hash m) = Ok m' ->
              to_tree print_key print_hash m' = to_tree print_key print_hash m).
Proof. exact print_fixpoint. Qed.
Print Assumptions C10_ms_print_fixpoint.

(* the parser's own checks: every AST it returns is within the printable range *)
Theorem C10_ms_parse_valid :
  forall (parse_key : tbytes -> option key) (parse_hash : hkind -> tbytes -> option tbytes) (chk : ms -> bool)
         t m, from_tree parse_key parse_hash chk t = Ok m -> ms_text_ok chk m = true.
Proof. exact parse_valid. Qed.
Print Assumptions C10_ms_parse_valid.

(* alias_meaning: sugar and aliases parse to the same AST as their expansions.  [to_tree_sp sp m]
   writes m with, at every node that has two spellings, the sugar ([sp] true: pk(K), pkh(K), t:X,
   l:X, u:X, and_n(X,Y)) or the expansion ([sp] false: c:pk_k(K), c:pk_h(K), and_v(X,1), or_i(0,X),
   or_i(X,0), andor(X,Y,0)), independently per node and at any nesting depth; all 2^n mixed spellings
   parse to m (so any two of them parse to the same AST).  [ms_all_ok] = [ms_text_ok] plus from_ast
   at c:pk_k / c:pk_h, which only the expanded spelling evaluates.  Stated for trees of this shape
   (children spelled by the same rule), not for arbitrary malformed subtrees. *)
Theorem C10_ms_alias_meaning :
  forall (print_key : key -> tbytes) (parse_key : tbytes -> option key)
         (print_hash : hkind -> tbytes -> tbytes) (parse_hash : hkind -> tbytes -> option tbytes)
         (chk : ms -> bool),
  (forall k, parse_key (print_key k) = Some k) ->
  (forall h b, parse_hash h (print_hash h b) = Some b) ->
  forall (sp : ms -> bool) m, ms_all_ok chk m = true ->
  from_tree parse_key parse_hash chk (to_tree_sp print_key print_hash sp m) = Ok m.
Proof. exact alias_meaning. Qed.
Print Assumptions C10_ms_alias_meaning.

(* non-vacuity: an instance of the parameters that satisfies the hypotheses (keys printed in
   decimal, hashes verbatim, from_ast = the type check), and a typed miniscript with sugar,
   wrappers, a threshold, a multi and both lock kinds:
   "and_v(v:pk(1),and_v(v:older(9),thresh(2,pkh(2),s:pk(3),a:and_n(multi(1,4,5),tv:after(7)),al:pk(6))))" *)
Definition ex_chk (m : ms) : bool := match type_of m with ROk _ => true | RErr _ => false end.
Definition ex_parse_key (s : tbytes) : option key := dval s 0.
Definition ex_ms : ms :=
  MAndV (MVerify (MCheck (MPkK 1)))
   (MAndV (MVerify (MOlder 9))
        (MThresh 2 [MCheck (MPkH 2); MSwap (MCheck (MPkK 3));
                    MAlt (MAndOr (MMulti 1 [4; 5]) (MAndV (MVerify (MAfter 7)) MTrue) MFalse);
                    MAlt (MOrI MFalse (MCheck (MPkK 6)))])).
Example C10_ms_nonvacuous :
  (forall k, ex_parse_key (dec k) = Some k) /\
  (forall (h : hkind) (b : tbytes), (fun _ s => Some s) h ((fun _ s => s) h b) = Some b) /\
  ms_text_ok ex_chk ex_ms = true /\
  print (to_tree dec (fun _ s => s) ex_ms) =
    [97;110;100;95;118;40;118;58;112;107;40;49;41;44;97;110;100;95;118;40;118;58;111;108;100;101;114;40;57;41;
     44;116;104;114;101;115;104;40;50;44;112;107;104;40;50;41;44;115;58;112;107;40;51;41;44;97;58;97;110;100;
     95;110;40;109;117;108;116;105;40;49;44;52;44;53;41;44;116;118;58;97;102;116;101;114;40;55;41;41;44;97;
     108;58;112;107;40;54;41;41;41;41] /\
  from_tree ex_parse_key (fun _ s => Some s) ex_chk (to_tree dec (fun _ s => s) ex_ms) = Ok ex_ms.
Proof.
  split; [exact dval_dec|]. split; [reflexivity|].
  split; [vm_compute; reflexivity|]. split; vm_compute; reflexivity.
Qed.

(* the same AST in the fully expanded spelling and in a mixed one: different trees, same parse *)
Example C10_ms_alias_nonvacuous :
  ms_all_ok ex_chk ex_ms = true /\
  print (to_tree_sp dec (fun _ s => s) (fun _ => false) ex_ms) =
    (* "and_v(vc:pk_k(1),and_v(v:older(9),thresh(2,c:pk_h(2),sc:pk_k(3),a:andor(multi(1,4,5),and_v(v:after(7),1),0),a:or_i(0,c:pk_k(6)))))" *)
    [97;110;100;95;118;40;118;99;58;112;107;95;107;40;49;41;44;97;110;100;95;118;40;118;58;111;108;100;101;114;
     40;57;41;44;116;104;114;101;115;104;40;50;44;99;58;112;107;95;104;40;50;41;44;115;99;58;112;107;95;107;
     40;51;41;44;97;58;97;110;100;111;114;40;109;117;108;116;105;40;49;44;52;44;53;41;44;97;110;100;95;118;
     40;118;58;97;102;116;101;114;40;55;41;44;49;41;44;48;41;44;97;58;111;114;95;105;40;48;44;99;58;112;
     107;95;107;40;54;41;41;41;41;41] /\
  to_tree_sp dec (fun _ s => s) (fun _ => true) ex_ms = to_tree dec (fun _ s => s) ex_ms /\
  to_tree_sp dec (fun _ s => s) (fun _ => false) ex_ms <> to_tree dec (fun _ s => s) ex_ms /\
  from_tree ex_parse_key (fun _ s => Some s) ex_chk (to_tree_sp dec (fun _ s => s) (fun _ => false) ex_ms) = Ok ex_ms /\
  from_tree ex_parse_key (fun _ s => Some s) ex_chk
    (to_tree_sp dec (fun _ s => s) (fun m => match m with MAndV _ _ => true | _ => false end) ex_ms) = Ok ex_ms.
Proof.
  split; [vm_compute; reflexivity|]. split; [vm_compute; reflexivity|]. split; [vm_compute; reflexivity|].
  split; [vm_compute; discriminate|]. split; vm_compute; reflexivity.
Qed.

(* ---------------------------------------------------------------------------------------------
   Composition of Part B (text <-> tree) with the miniscript text layer (tree <-> AST).
   [from_str_model] = Tree::from_str, then the node vector read back as a tree, then from_tree
   (`Miniscript::from_str` without `validate`); [ms_to_text m] = [print (to_tree m)].

   link 1: the node vector of any tree reads back as that tree *)
Theorem C10_tree_of_nodes : forall t, tree_of_nodes (tree_nodes t) = Some t.
Proof. exact tree_of_nodes_flatten. Qed.
Print Assumptions C10_tree_of_nodes.

(* link 2: every name Display writes (fragment names, wrapper prefixes with ':', decimal numbers,
   keys, hashes) consists of name characters, parentheses iff children - provided printed keys and
   hashes do (no ( ) { } , # and inside the descriptor alphabet) *)
Theorem C10_ms_to_tree_well_formed :
  forall (print_key : key -> tbytes) (print_hash : hkind -> tbytes -> tbytes),
  (forall k, forallb name_char (print_key k) = true) ->
  (forall h b, forallb name_char (print_hash h b) = true) ->
  forall m, well_formed (to_tree print_key print_hash m) = true.
Proof. exact to_tree_well_formed. Qed.
Print Assumptions C10_ms_to_tree_well_formed.

(* ms_rt at text level.  The depth hypothesis is the expression parser's own limit
   (MAX_RECURSION_DEPTH = 402 nested parentheses), stated on the printed tree. *)
Theorem C10_ms_text_roundtrip :
  forall (print_key : key -> tbytes) (parse_key : tbytes -> option key)
         (print_hash : hkind -> tbytes -> tbytes) (parse_hash : hkind -> tbytes -> option tbytes)
         (chk : ms -> bool),
  (forall k, parse_key (print_key k) = Some k) ->
  (forall h b, parse_hash h (print_hash h b) = Some b) ->
  (forall k, forallb name_char (print_key k) = true) ->
  (forall h b, forallb name_char (print_hash h b) = true) ->
  forall m, ms_text_ok chk m = true -> depth (to_tree print_key print_hash m) <= MAX_RECURSION_DEPTH ->
  from_str_model parse_key parse_hash chk (ms_to_text print_key print_hash m) = Ok m.
Proof. exact text_roundtrip. Qed.
Print Assumptions C10_ms_text_roundtrip.

(* fixed point at text level: whatever text parses (any spelling, with or without checksum), the
   printed text of the result parses to the same AST and prints identically again *)
Theorem C10_ms_text_fixpoint :
  forall (print_key : key -> tbytes) (parse_key : tbytes -> option key)
         (print_hash : hkind -> tbytes -> tbytes) (parse_hash : hkind -> tbytes -> option tbytes)
         (chk : ms -> bool),
  (forall k, parse_key (print_key k) = Some k) ->
  (forall h b, parse_hash h (print_hash h b) = Some b) ->
  (forall k, forallb name_char (print_key k) = true) ->
  (forall h b, forallb name_char (print_hash h b) = true) ->
  forall s m, from_str_model parse_key parse_hash chk s = Ok m ->
  depth (to_tree print_key print_hash m) <= MAX_RECURSION_DEPTH ->
  from_str_model parse_key parse_hash chk (ms_to_text print_key print_hash m) = Ok m /\
  (forall m', from_str_model parse_key parse_hash chk (ms_to_text print_key print_hash m) = Ok m' ->
              ms_to_text print_key print_hash m' = ms_to_text print_key print_hash m).
Proof. exact text_fixpoint. Qed.
Print Assumptions C10_ms_text_fixpoint.

(* non-vacuity: an instance satisfying all four hypotheses (decimal keys, unary hash bytes), the
   example miniscript extended with a hash, within the depth limit, round trip at text level *)
Definition ex_ms2 : ms := MAndV (MVerify (MSha256 [3; 0; 2])) ex_ms.
Example C10_ms_text_nonvacuous :
  (forall k, inst_parse_key (dec k) = Some k) /\
  (forall h b, inst_parse_hash h (inst_print_hash h b) = Some b) /\
  (forall k, forallb name_char (dec k) = true) /\
  (forall h b, forallb name_char (inst_print_hash h b) = true) /\
  ms_text_ok ex_chk ex_ms2 = true /\
  depth (to_tree dec inst_print_hash ex_ms2) = 6 /\
  firstn 24 (ms_to_text dec inst_print_hash ex_ms2) =
    (* "and_v(v:sha256(11100110)" *)
    [97;110;100;95;118;40;118;58;115;104;97;50;53;54;40;49;49;49;48;48;49;49;48;41] /\
  from_str_model inst_parse_key inst_parse_hash ex_chk (ms_to_text dec inst_print_hash ex_ms2) = Ok ex_ms2.
Proof.
  split; [exact inst_key_rt|]. split; [exact inst_hash_rt|]. split; [exact dec_chars|].
  split; [exact inst_hash_chars|]. split; [vm_compute; reflexivity|]. split; [vm_compute; reflexivity|].
  split; vm_compute; reflexivity.
Qed.

(* ---- non-vacuity of the tree theorems: "a(b,c{d})" *)
Definition ex_tree : etree :=
  ENode [97] PRound [ENode [98] PNone []; ENode [99] PCurly [ENode [100] PNone []]].
Example C10_tree_nonvacuous :
  well_formed ex_tree = true /\ depth ex_tree = 2 /\
  print ex_tree = [97; 40; 98; 44; 99; 123; 100; 125; 41] /\
  from_str_inner (print ex_tree) = Ok (tree_nodes ex_tree) /\
  length (tree_nodes ex_tree) = 4%nat /\
  (* the checksummed BIP-380 vector parses, its root "raw" has children, and with the separator
     replaced by 'x' it is rejected *)
  (exists nodes nd, from_str_inner (ex_payload ++ HASH :: ex_cs) = Ok nodes /\ nth_error nodes 0 = Some nd /\ nd_parens nd = PRound) /\
  from_str_inner (ex_payload ++ 120 :: ex_cs) = Err (TETrailingCharacter 13).
Proof.
  repeat split; try (vm_compute; reflexivity).
  eexists. eexists. split; [vm_compute; reflexivity|]. split; reflexivity.
Qed.

(* ---- non-vacuity: BIP-380's own test vector "raw(deadbeef)#89f8spxm" *)

Example C10_ck_nonvacuous :
  desc_checksum ex_payload = Ok ex_cs /\
  verify_checksum (ex_payload ++ HASH :: ex_cs) = Ok ex_payload /\
  In HASH (ex_payload ++ HASH :: ex_cs) /\
  (* two substitutions: 'r'->'s', '9'->'8' *)
  hamming (ex_payload ++ HASH :: ex_cs) ([115; 97; 119; 40; 100; 101; 97; 100; 98; 101; 101; 102; 41] ++ HASH :: [56; 56; 102; 56; 115; 112; 120; 109]) = 2%nat /\
  verify_checksum ([115; 97; 119; 40; 100; 101; 97; 100; 98; 101; 101; 102; 41] ++ HASH :: [56; 56; 102; 56; 115; 112; 120; 109]) = Err InvalidChecksum /\
  (* the separator replaced by 'x': the second disjunct is inhabited *)
  sep_replaced ex_payload (ex_payload ++ 120 :: ex_cs).
Proof.
  repeat split; try (vm_compute; reflexivity).
  - apply in_or_app. right. left. reflexivity.
  - vm_compute. discriminate.
  - vm_compute. intuition discriminate.
Qed.
