(* C05 — Fragment typing equals the Miniscript specification's tables.
   This file contains statements only; every proof is `exact <lemma>`.
   [refines dev impl spec] = (impl rejects <-> spec rejects) /\ (alpha impl <= spec)
                              /\ (dev \/ alpha impl = spec).                            *)
From Verif Require Import Types Spec TypesSpec.

Theorem C05_correctness_wrappers : forall x : corr,
  refines false (c_cast_alt x) (sc_alt (alpha_c x)) = true /\
  refines false (c_cast_swap x) (sc_swap (alpha_c x)) = true /\
  (kz x = false -> refines false (c_cast_check x) (sc_check (alpha_c x)) = true) /\
  (forall tap, refines tap (c_cast_dupif x) (sc_dupif tap (alpha_c x)) = true) /\
  refines false (c_cast_dupif x) (sc_dupif false (alpha_c x)) = true /\
  refines false (c_cast_verify x) (sc_verify (alpha_c x)) = true /\
  refines false (c_cast_nonzero x) (sc_nonzero (alpha_c x)) = true /\
  refines false (c_cast_zeronotequal x) (sc_zeronotequal (alpha_c x)) = true.
Proof.
  exact (fun x => conj (corr_alt x) (conj (corr_swap x) (conj (corr_check x)
        (conj (fun tap => corr_dupif tap x) (conj (corr_dupif_nontap x) (conj (corr_verify x)
        (conj (corr_nonzero x) (corr_zeronotequal x)))))))).
Qed.
Print Assumptions C05_correctness_wrappers.

Theorem C05_correctness_combinators : forall x y z : corr,
  refines false (c_and_v x y) (sc_and_v (alpha_c x) (alpha_c y)) = true /\
  refines false (c_and_b x y) (sc_and_b (alpha_c x) (alpha_c y)) = true /\
  refines false (c_or_b x y) (sc_or_b (alpha_c x) (alpha_c y)) = true /\
  refines false (c_or_c x y) (sc_or_c (alpha_c x) (alpha_c y)) = true /\
  refines false (c_or_d x y) (sc_or_d (alpha_c x) (alpha_c y)) = true /\
  refines false (c_or_i x y) (sc_or_i (alpha_c x) (alpha_c y)) = true /\
  refines false (c_and_or x y z) (sc_andor (alpha_c x) (alpha_c y) (alpha_c z)) = true.
Proof.
  exact (fun x y z => conj (corr_and_v x y) (conj (corr_and_b x y) (conj (corr_or_b x y)
        (conj (corr_or_c x y) (conj (corr_or_d x y) (conj (corr_or_i x y) (corr_andor x y z))))))).
Qed.
Print Assumptions C05_correctness_combinators.

Theorem C05_correctness_thresh : forall (k : N) (xs : list corr), xs <> [] ->
  refines false (c_threshold k xs) (sc_thresh (map alpha_c xs)) = true.
Proof. exact corr_thresh. Qed.
Print Assumptions C05_correctness_thresh.

Theorem C05_malleability_exact : forall x y z : mall,
  alpha_m (m_cast_alt x) = sm_same (alpha_m x) /\
  alpha_m (m_cast_swap x) = sm_same (alpha_m x) /\
  alpha_m (m_cast_check x) = sm_same (alpha_m x) /\
  alpha_m (m_cast_zeronotequal x) = sm_same (alpha_m x) /\
  alpha_m (m_cast_dupif x) = sm_dupif (alpha_m x) /\
  alpha_m (m_cast_verify x) = sm_verify (alpha_m x) /\
  alpha_m (m_cast_nonzero x) = sm_nonzero (alpha_m x) /\
  alpha_m (m_and_v x y) = sm_and_v (alpha_m x) (alpha_m y) /\
  alpha_m (m_and_b x y) = sm_and_b (alpha_m x) (alpha_m y) /\
  alpha_m (m_or_b x y) = sm_or_b (alpha_m x) (alpha_m y) /\
  alpha_m (m_or_c x y) = sm_or_c (alpha_m x) (alpha_m y) /\
  alpha_m (m_or_d x y) = sm_or_d (alpha_m x) (alpha_m y) /\
  alpha_m (m_or_i x y) = sm_or_i (alpha_m x) (alpha_m y) /\
  alpha_m (m_and_or x y z) = sm_andor (alpha_m x) (alpha_m y) (alpha_m z).
Proof.
  exact (fun x y z => conj (mall_alt x) (conj (mall_swap x) (conj (mall_check x) (conj (mall_zeronotequal x)
    (conj (mall_dupif x) (conj (mall_verify x) (conj (mall_nonzero x) (conj (mall_and_v x y)
    (conj (mall_and_b x y) (conj (mall_or_b x y) (conj (mall_or_c x y) (conj (mall_or_d x y)
    (conj (mall_or_i x y) (mall_andor x y z)))))))))))))).
Qed.
Print Assumptions C05_malleability_exact.

Theorem C05_malleability_thresh : forall (k : N) (xs : list mall),
  (1 <= k)%N -> (k <= N.of_nat (length xs))%N ->
  alpha_m (m_threshold k xs) = sm_thresh k (map alpha_m xs).
Proof. exact mall_thresh. Qed.
Print Assumptions C05_malleability_thresh.

Theorem C05_leaves :
  (alpha_c c_false = sc_false /\ alpha_c c_true = sc_true /\ alpha_c c_pk_k = sc_pk_k /\
   alpha_c c_pk_h = sc_pk_h /\ alpha_c c_time = sc_time /\ alpha_c c_hash = sc_hash /\
   alpha_c c_multi = sc_multi /\ alpha_c c_sortedmulti = sc_multi /\
   alpha_c c_multi_a = sc_multi_a /\ alpha_c c_sortedmulti_a = sc_multi_a) /\
  (alpha_m m_false = sm_false /\ alpha_m m_true = sm_true /\ alpha_m m_pk_k = sm_key /\
   alpha_m m_pk_h = sm_key /\ alpha_m m_time = sm_time /\ alpha_m m_hash = sm_hash /\
   alpha_m m_multi = sm_key /\ alpha_m m_sortedmulti = sm_key /\
   alpha_m m_multi_a = sm_key /\ alpha_m m_sortedmulti_a = sm_key).
Proof. exact (conj corr_leaves mall_leaves). Qed.
Print Assumptions C05_leaves.

(* t:X, l:X, u:X are and_v(X,1), or_i(0,X), or_i(X,0) — identical rules, both halves *)
Theorem C05_sugar : forall (x : corr) (m : mall),
  res_corr_eqb (c_cast_true x) (match c_base x with BV => c_and_v x c_true | b => RErr (ChildBase1 b) end) = true /\
  res_corr_eqb (c_cast_or_i_false x) (match c_base x with BB => c_or_i c_false x | b => RErr (ChildBase1 b) end) = true /\
  res_corr_eqb (c_cast_or_i_false x) (match c_base x with BB => c_or_i x c_false | b => RErr (ChildBase1 b) end) = true /\
  mall_eqb (m_cast_true m) (m_and_v m m_true) = true /\
  mall_eqb (m_cast_or_i_false m) (m_or_i m_false m) = true /\
  mall_eqb (m_cast_or_i_false m) (m_or_i m m_false) = true.
Proof.
  exact (fun x m => conj (corr_true_sugar x) (conj (corr_likely_sugar x) (conj (corr_unlikely_sugar x)
        (conj (mall_true_sugar m) (conj (mall_likely_sugar m) (mall_unlikely_sugar m)))))).
Qed.
Print Assumptions C05_sugar.

(* The one excluded row (c: on a child typed K and z) concerns no well-typed term:
   the set of types that are not K/z contains every leaf and is closed under every rule;
   and acceptance by c: is exact even there. *)
Theorem C05_kz_unreachable :
  (forall x, (match c_cast_check x, sc_check (alpha_c x) with ROk _, Some _ | RErr _, None => true | _, _ => false end) = true) /\
  forallb (fun c => negb (kz c)) [c_true; c_false; c_pk_k; c_pk_h; c_multi; c_sortedmulti; c_multi_a;
                                  c_sortedmulti_a; c_hash; c_time] = true /\
  (forall x, kz x = false -> forallb (fun f : corr -> res corr => okz (f x))
     [c_cast_alt; c_cast_swap; c_cast_check; c_cast_dupif; c_cast_verify; c_cast_nonzero;
      c_cast_zeronotequal; c_cast_true; c_cast_or_i_false] = true) /\
  (forall x y, kz x = false -> kz y = false -> forallb (fun f : corr -> corr -> res corr => okz (f x y))
     [c_and_b; c_and_v; c_or_b; c_or_c; c_or_d; c_or_i] = true) /\
  (forall x y z, kz x = false -> kz y = false -> kz z = false -> okz (c_and_or x y z) = true) /\
  (forall k xs, okz (c_threshold k xs) = true).
Proof.
  exact (conj corr_check_accept (conj kz_unreachable_leaves (conj kz_unreachable_1
        (conj kz_unreachable_2 (conj kz_unreachable_3 kz_unreachable_thresh))))).
Qed.
Print Assumptions C05_kz_unreachable.

(* non-vacuity: the hypotheses of the thresh theorems are met by a concrete list *)
Example C05_thresh_nonvacuous :
  c_threshold 2 [mkCorr BB IOneNonZero true true; mkCorr BW IAny true true; mkCorr BW IAny true true]
  = ROk (mkCorr BB IAny true true) /\
  alpha_m (m_threshold 2 [m_pk_k; m_pk_k; m_hash]) = mkSM true false false false.
Proof. split; reflexivity. Qed.
