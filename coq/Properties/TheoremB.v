(* THEOREM B (and its converse A'): the Bitcoin Script semantics of an encoded, well-typed Miniscript
   fragment accepts EXACTLY the witnesses of a denotational relation written over the witness's own
   material.  Not tied to one property id; referenced from C01 (completeness), C02, C03, C06 (e).

   Definitions (Ms/DenotSpec.v, definitions only):
     R e ke m s w v     exact relation: the stack elements [w] (head = top) are a satisfaction
                        (s = true) / dissatisfaction (s = false) of [m] leaving the value [v]
                        (B, W: the value; V: nothing, v = []; K: the key left, the last element of [w]
                        being the signature the enclosing c: consumes);
     Rsat / Rdsat       exists v, R m true w v  /  exists v, R m false w v;
     Rcan (Rsat_can, Rdsat_can)  the CANONICAL sub-relation: the choices the specification's table
                        (Ms/SatSpec.v) lists; the clauses guarded by [can = true -> ...] in Ms/DenotSpec.v
                        are exactly the ways in which the script accepts more than the table says;
     assets_of e ke W   the assets a witness exhibits: for every key the element of W that verifies
                        under it, for every image the 32-byte element of W hashing to it, the locks
                        the transaction meets;
     uniq_material      at most one such signature per key / preimage per image among the elements.
   Hypotheses everywhere: [type_of m = ROk t] (well-typed) and [wf e ke m] (what the constructors
   guarantee: lock values in 1..2^31-1, 1 <= k <= n, n <= 20 for multi, context of multi / multi_a).
   ALL fragments are covered: leaves, raw_pk_h, wrappers, and_v and_b or_b or_c or_d or_i andor,
   thresh, multi, sortedmulti, multi_a, sortedmulti_a; every signature version (MINIMALIF or not);
   every input stack and alt stack.  No hypothesis on the hash functions or the signature checker
   except where stated ([Hse]: the empty signature never verifies -- bridge only).

   theoremB            every successful execution splits the stack into a witness and an untouched
                       rest, restores the alt stack, leaves the shape of the base type, and the
                       witness is in the relation, as a satisfaction when the value left is true
                       (V: on success; K: for whatever signature lies under the key, as CHECKSIG
                       will judge it), as a dissatisfaction when it is false;
   theoremB_B / _V     the same with Rsat / Rdsat;
   theoremA'           conversely, a witness in the relation executes, in every frame, to the
                       satisfied / dissatisfied shape;
   denot_exact_B / _V / _K / _W   execution <=> relation, for every base type;
   accepts_iff_Rsat    the script of a B fragment run as a witness script (clean stack, true top)
                       accepts w  <=>  Rsat m w;   dissat_iff_Rdsat likewise for one false value;
   R_functional        the value left, and whether it is a satisfaction, are functions of the witness;
   R_u_dsat            a u-typed B / W fragment leaves exactly the empty vector when dissatisfied;
   Rcan_R              canonical => accepted;
   Rcan_in_table       a canonical witness whose material is unambiguous is an entry of the table
                       computed from the assets the witness itself exhibits;
   Rcan_in_table_of    the same, requiring unambiguity only for the keys ([dn_keys m]) and the hash
                       images ([dn_imgs m]) of m ([uniq_material_of]);
   assets_of_ok        those assets are genuine (so Theorem A applies to that table);
   table_in_R          every table entry built from genuine assets is in the relation (Theorem A
                       composed with Theorem B; raw_pk_h excluded: the table lists nothing for it);
   table_is_canonical  ... and is a CANONICAL witness (direct induction): with Rcan_in_table,
                       the table is exactly the canonical part of what the script accepts.
   Why each hypothesis of Rcan_in_table is needed (each is a malleability vector):
     * canonical: see the guarded clauses -- any 32-byte non-preimage dissatisfies a hash (table:
       32 zero bytes); pk_h accepts any key with the right hash160; or_b accepts both sides
       satisfied; and_b / andor / j: / thresh / multi_a have dissatisfactions that carry
       satisfactions of children (thresh: any count other than k, MORE than k included);
       under the base signature version (no MINIMALIF) d: and or_i accept any true / false selector;
     * uniq_material: the table is built from ONE signature per key and ONE preimage per image; a
       witness using two different valid signatures for a key that occurs twice (or two preimages
       of one image) is accepted and is no entry of any such table;
     * Hse (only for multi): CHECKMULTISIG would accept an empty signature if the checker did.
   Examples: witnesses that are accepted and in the relation but in NO table, for no asset set
   (or_d with a hash dissatisfied by 32 x 0xff; thresh(1,..) with two children satisfied as a
   dissatisfaction; or_b with both sides satisfied). *)
From Verif Require Import Exec Ser Ast Types TypeCheck SatSpec ExecLemmas TheoremA.
From Verif Require Import FrameBase FrameSound FrameDissat DenotSpec DenotLemmas DenotComplete DenotSound DenotMain DenotTable DenotCanon DenotExamples.

Theorem TheoremB_all_stacks :
  forall (e : env) (ke : keyenv) (m : ms) (t : ty), type_of m = ROk t -> wf e ke m ->
  forall st al r, exec e (enc ke m) (mkSt st al) = Ok r ->
  match c_base (t_corr t) with
  | BB => exists w rest v, st = w ++ rest /\ r = mkSt (v :: rest) al /\ R e ke m (truthy v) w v
  | BV => exists w rest, st = w ++ rest /\ r = mkSt rest al /\ R e ke m true w []
  | BK => exists c rest key, st = c ++ rest /\ r = mkSt (key :: rest) al /\
            forall s sg, ksig e s key sg -> R e ke m s (c ++ [sg]) key
  | BW => exists c0 w rest v (above : bool), st = c0 :: w ++ rest /\
            r = mkSt ((if above then [v; c0] else [c0; v]) ++ rest) al /\ R e ke m (truthy v) w v
  end.
Proof. exact theoremB. Qed.
Print Assumptions TheoremB_all_stacks.

Theorem TheoremB_B :
  forall (e : env) (ke : keyenv) (m : ms) (t : ty), type_of m = ROk t -> wf e ke m -> c_base (t_corr t) = BB ->
  forall st al r, exec e (enc ke m) (mkSt st al) = Ok r ->
  exists w rest v, st = w ++ rest /\ r = mkSt (v :: rest) al /\
    (truthy v = true -> Rsat e ke m w) /\ (truthy v = false -> Rdsat e ke m w).
Proof. exact theoremB_B. Qed.
Print Assumptions TheoremB_B.

Theorem TheoremB_V :
  forall (e : env) (ke : keyenv) (m : ms) (t : ty), type_of m = ROk t -> wf e ke m -> c_base (t_corr t) = BV ->
  forall st al r, exec e (enc ke m) (mkSt st al) = Ok r ->
  exists w rest, st = w ++ rest /\ r = mkSt rest al /\ Rsat e ke m w.
Proof. exact theoremB_V. Qed.
Print Assumptions TheoremB_V.

Theorem TheoremA'_relation_executes :
  forall (e : env) (ke : keyenv) (m : ms) (t : ty), type_of m = ROk t -> wf e ke m ->
  forall s w v, R e ke m s w v ->
  match c_base (t_corr t) with
  | BB => truthy v = s /\
          forall rest al, exec e (enc ke m) (mkSt (w ++ rest) al) = Ok (mkSt (v :: rest) al)
  | BV => s = true /\ v = [] /\
          forall rest al, exec e (enc ke m) (mkSt (w ++ rest) al) = Ok (mkSt rest al)
  | BK => exists c sg, w = c ++ [sg] /\ ksig e s v sg /\
          forall rest al, exec e (enc ke m) (mkSt (c ++ rest) al) = Ok (mkSt (v :: rest) al)
  | BW => truthy v = s /\ exists above : bool,
          forall c0 rest al, exec e (enc ke m) (mkSt (c0 :: w ++ rest) al)
                             = Ok (mkSt ((if above then [v; c0] else [c0; v]) ++ rest) al)
  end.
Proof. exact theoremA'. Qed.
Print Assumptions TheoremA'_relation_executes.

Theorem Denot_exact_B :
  forall (e : env) (ke : keyenv) (m : ms) (t : ty), type_of m = ROk t -> wf e ke m -> c_base (t_corr t) = BB ->
  forall s w v, R e ke m s w v <->
    (truthy v = s /\ forall rest al, exec e (enc ke m) (mkSt (w ++ rest) al) = Ok (mkSt (v :: rest) al)).
Proof. exact denot_exact_B. Qed.
Print Assumptions Denot_exact_B.

Theorem Denot_exact_V :
  forall (e : env) (ke : keyenv) (m : ms) (t : ty), type_of m = ROk t -> wf e ke m -> c_base (t_corr t) = BV ->
  forall w, R e ke m true w [] <->
    (forall rest al, exec e (enc ke m) (mkSt (w ++ rest) al) = Ok (mkSt rest al)).
Proof. exact denot_exact_V. Qed.
Print Assumptions Denot_exact_V.

Theorem Denot_exact_K :
  forall (e : env) (ke : keyenv) (m : ms) (t : ty), type_of m = ROk t -> wf e ke m -> c_base (t_corr t) = BK ->
  forall s w v, R e ke m s w v <->
    exists c sg, w = c ++ [sg] /\ ksig e s v sg /\
      forall rest al, exec e (enc ke m) (mkSt (c ++ rest) al) = Ok (mkSt (v :: rest) al).
Proof. exact denot_exact_K. Qed.
Print Assumptions Denot_exact_K.

Theorem Denot_exact_W :
  forall (e : env) (ke : keyenv) (m : ms) (t : ty), type_of m = ROk t -> wf e ke m -> c_base (t_corr t) = BW ->
  forall s w v, R e ke m s w v <->
    (truthy v = s /\ exists above : bool,
       forall c0 rest al, exec e (enc ke m) (mkSt (c0 :: w ++ rest) al)
                          = Ok (mkSt ((if above then [v; c0] else [c0; v]) ++ rest) al)).
Proof. exact denot_exact_W. Qed.
Print Assumptions Denot_exact_W.

Theorem Accepts_iff_Rsat :
  forall (e : env) (ke : keyenv) (m : ms) (t : ty), type_of m = ROk t -> wf e ke m -> c_base (t_corr t) = BB ->
  forall w, accepts e (enc ke m) w = true <-> Rsat e ke m w.
Proof. exact accepts_iff_Rsat. Qed.
Print Assumptions Accepts_iff_Rsat.

Theorem Dissat_iff_Rdsat :
  forall (e : env) (ke : keyenv) (m : ms) (t : ty), type_of m = ROk t -> wf e ke m -> c_base (t_corr t) = BB ->
  forall w, (exists v, truthy v = false /\ exec e (enc ke m) (mkSt w []) = Ok (mkSt [v] [])) <-> Rdsat e ke m w.
Proof. exact dissat_iff_Rdsat. Qed.
Print Assumptions Dissat_iff_Rdsat.

Theorem Denot_functional :
  forall (e : env) (ke : keyenv) (m : ms) (t : ty), type_of m = ROk t -> wf e ke m -> c_base (t_corr t) = BB ->
  forall w s1 v1 s2 v2, R e ke m s1 w v1 -> R e ke m s2 w v2 -> s1 = s2 /\ v1 = v2.
Proof. exact R_functional. Qed.
Print Assumptions Denot_functional.

Theorem Unit_dissat_is_empty :
  forall (e : env) (ke : keyenv) (m : ms) (t : ty), type_of m = ROk t -> c_unit (t_corr t) = true ->
  (c_base (t_corr t) = BB \/ c_base (t_corr t) = BW) -> forall w v, R e ke m false w v -> v = [].
Proof. exact R_u_dsat. Qed.
Print Assumptions Unit_dissat_is_empty.

Theorem Canonical_is_accepted :
  forall (e : env) (ke : keyenv) (m : ms) s w v, Rcan e ke m s w v -> R e ke m s w v.
Proof. exact Rcan_R. Qed.
Print Assumptions Canonical_is_accepted.

Theorem Canonical_in_own_table :
  forall (e : env) (ke : keyenv) (m : ms) (s : bool) (w : wit) (v : bytes),
  (forall kbs, e_sigok e kbs [] = false) -> (forall ks, length (ksort ke ks) = length ks) ->
  uniq_material e ke w -> Rcan e ke m s w v ->
  In w (if s then all_sat ke (assets_of e ke w) m else all_dsat ke (assets_of e ke w) m).
Proof. exact Rcan_in_table. Qed.
Print Assumptions Canonical_in_own_table.

(* the same with the ambiguity hypothesis restricted to the keys and hash images OF m *)
Theorem Canonical_in_own_table_of :
  forall (e : env) (ke : keyenv) (m : ms) (s : bool) (w : wit) (v : bytes),
  (forall kbs, e_sigok e kbs [] = false) -> (forall ks, length (ksort ke ks) = length ks) ->
  (forall ks k, In k (ksort ke ks) -> In k ks) ->
  uniq_material_of e ke m w -> Rcan e ke m s w v ->
  In w (if s then all_sat ke (assets_of e ke w) m else all_dsat ke (assets_of e ke w) m).
Proof. exact Rcan_in_table_of. Qed.
Print Assumptions Canonical_in_own_table_of.

Theorem Own_assets_genuine :
  forall (e : env) (ke : keyenv) (W : wit),
  keys_ok e ke -> (forall x, In x W -> (blen x < 2147483648)%N) -> assets_ok e ke (assets_of e ke W).
Proof. exact assets_of_ok. Qed.
Print Assumptions Own_assets_genuine.

Theorem Own_assets_sigfree :
  forall (e : env) (ke : keyenv) (W : wit),
  (forall k sg, In sg W -> e_sigok e (kb ke k) sg = true -> sg = []) ->
  forall k, a_sig (assets_of e ke W) k = None.
Proof. exact assets_of_sigfree. Qed.
Print Assumptions Own_assets_sigfree.

Theorem Table_in_relation :
  forall (e : env) (ke : keyenv) (A : assets), assets_ok e ke A -> (forall kbs, e_sigok e kbs [] = false) ->
  forall (m : ms) (t : ty), type_of m = ROk t -> wf e ke m -> no_multi m ->
    (forall w, In w (all_sat ke A m) -> Rsat e ke m w) /\
    (c_base (t_corr t) <> BV -> forall w, In w (all_dsat ke A m) -> Rdsat e ke m w).
Proof. exact table_in_R. Qed.
Print Assumptions Table_in_relation.

(* the table IS the canonical part: every entry built from genuine assets is a canonical witness
   (direct induction over the typing rules, Proofs/DenotCanon.v); with [Canonical_in_own_table]:
   canonical witnesses = table entries *)
Theorem Table_is_canonical :
  forall (e : env) (ke : keyenv) (A : assets), assets_ok e ke A -> (forall kbs, e_sigok e kbs [] = false) ->
  forall (m : ms) (t : ty), type_of m = ROk t -> wf e ke m -> no_multi m ->
    (forall w, In w (all_sat ke A m) -> Rsat_can e ke m w) /\
    (forall w, In w (all_dsat ke A m) -> Rdsat_can e ke m w).
Proof. exact table_is_canonical. Qed.
Print Assumptions Table_is_canonical.

(* ---------- non-vacuity: accepted, in the relation, in no table ---------- *)
Example TheoremB_nonvacuous_hash_dissat :
  (exists t, type_of dx_ord = ROk t /\ c_base (t_corr t) = BB) /\ wf ex_env ex_ke dx_ord /\
  exec ex_env (enc ex_ke dx_ord) (mkSt dx_ord_w []) = Ok (mkSt [[1%N]] []) /\
  accepts ex_env (enc ex_ke dx_ord) dx_ord_w = true /\
  Rsat ex_env ex_ke dx_ord dx_ord_w /\
  (forall A, ~ In dx_ord_w (all_sat ex_ke A dx_ord)) /\
  ~ Rsat_can ex_env ex_ke dx_ord dx_ord_w.
Proof.
  exact (conj dx_ord_typed (conj dx_ord_wf (conj dx_ord_exec (conj dx_ord_accepts
        (conj dx_ord_R (conj dx_ord_not_in_table dx_ord_not_can)))))).
Qed.

Example TheoremB_nonvacuous_thresh_oversatisfied :
  (exists t, type_of dx_thr = ROk t /\ c_base (t_corr t) = BB) /\ wf ex_env ex_ke dx_thr /\
  exec ex_env (enc ex_ke dx_thr) (mkSt dx_thr_w []) = Ok (mkSt [[]] []) /\
  Rdsat ex_env ex_ke dx_thr dx_thr_w /\
  (forall A, ~ In dx_thr_w (all_dsat ex_ke A dx_thr)).
Proof. exact (conj dx_thr_typed (conj dx_thr_wf (conj dx_thr_exec (conj dx_thr_R dx_thr_not_in_table)))). Qed.

Example TheoremB_nonvacuous_or_b_both :
  (exists t, type_of dx_orb = ROk t /\ c_base (t_corr t) = BB) /\
  accepts ex_env (enc ex_ke dx_orb) dx_thr_w = true /\
  Rsat ex_env ex_ke dx_orb dx_thr_w /\
  (forall A, ~ In dx_thr_w (all_sat ex_ke A dx_orb)).
Proof. exact (conj dx_orb_typed (conj dx_orb_accepts (conj dx_orb_R dx_orb_not_in_table))). Qed.

Example TheoremB_nonvacuous_canonical :
  Rsat_can ex_env ex_ke dx_ord dx_can_w /\
  In dx_can_w (all_sat ex_ke (assets_of ex_env ex_ke dx_can_w) dx_ord).
Proof. exact (conj dx_can_R dx_can_table). Qed.
