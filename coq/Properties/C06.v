(* C06 — static types predict what fragments do when executed.
   Proved (table level, for every fragment nesting except raw_pk_h, every stack below,
   every alt stack): on every entry of the specification's (dis)satisfaction table
     * base shapes: B leaves one value (true on satisfaction, exactly 0 on dissatisfaction),
       V leaves nothing, K leaves the key above its (verifying / empty) signature, W leaves its
       value next to the carried element — [good];
     * u: a unit fragment leaves exactly 1 on satisfaction — inside [good] ([goodval]);
     * z / o / n: a fragment typed z consumes no element, typed o exactly one, typed n has a
       non-empty top element when satisfied — [shape].
   Proved (Proofs/SignedSound.v; EVERY input stack, every alt stack, every fragment incl.
   thresh / multi / multi_a / sortedmulti(_a) / raw_pk_h, every signature version):
     * frame: a successful run of a well-typed fragment consumes a prefix p of the stack, restores
       the alt stack and leaves the shape of its base type (B: one value; V: nothing; K: a key;
       W: its value next to the carried element) — [C06_signed_forced_frame_*];
     * s (signed): if the type says s and the run is a satisfaction (B/W: true value; V: success;
       K: key above a signature CHECKSIG accepts) then the consumed prefix p contains a valid
       signature (hassig); contrapositive with a signature-free stack: [C06_signed_B/V/K/W];
       script level: an accepted witness of a signed B script contains a valid signature
       [C06_signed_accepts];
     * f (forced, malleability dissat = None): if the type says f and the run ends dissatisfied
       (B/W: false value, in particular exactly 0; K: any termination) then p contains a valid
       signature; with a signature-free stack: [C06_forced_B/K/W], [C06_forced_B_not_zero].
     The internal invariant (SignedSound.sound) also proves z / o (consumption counts) and u
     over all stacks, because s:X needs o and thresh needs u.
     Hypotheses: type_of m = ROk t, wf e ke m (the constructors' side conditions: timelocks in
     1..2^31-1, thresholds 1 <= k <= n; both are needed: SignedSound.wf_needed_after0 /
     wf_needed_multi0). No hypothesis about e_sigok: a "valid signature" is any stack element x
     with e_sigok e k x = true for some key bytes k. The Script model enforces NULLFAIL,
     MINIMALIF (outside SvBase) and minimal numbers unconditionally (Script/Exec.v).
   NOT yet proved (kept visible): Theorem B in full (an execution that succeeds used a table
   entry), d (existence of a signature-free dissatisfaction), e / non-malleability over all
   stacks, n over all stacks. The per-run check enumerates input stacks for those. *)
From Verif Require Import Exec Ser Ast Types TypeCheck SatSpec ExecLemmas TheoremA SignedLemmas SignedSound.

Theorem C06_table_level_partial :
  forall (e : env) (ke : keyenv) (A : assets), assets_ok e ke A -> (forall kbs, e_sigok e kbs [] = false) ->
  forall (m : ms) (t : ty), type_of m = ROk t -> wf e ke m -> no_multi m ->
    good e ke A m t /\ shape ke A m t.
Proof. exact theoremA_closed. Qed.
Print Assumptions C06_table_level_partial.

(* ---- s / f over every input stack ---- *)
Theorem C06_signed_forced_frame_B :
  forall (e : env) (ke : keyenv) (m : ms) (t : ty),
  type_of m = ROk t -> wf e ke m -> c_base (t_corr t) = BB ->
  forall s al st', exec e (enc ke m) (mkSt s al) = Ok st' ->
  exists v p s', s = p ++ s' /\ st' = mkSt (v :: s') al /\
    (m_signed (t_mall t) = true -> truthy v = true -> hassig e p) /\
    (m_dissat (t_mall t) = DNone -> truthy v = false -> hassig e p).
Proof. exact signed_forced_frame_B. Qed.
Print Assumptions C06_signed_forced_frame_B.

Theorem C06_signed_frame_V :
  forall (e : env) (ke : keyenv) (m : ms) (t : ty),
  type_of m = ROk t -> wf e ke m -> c_base (t_corr t) = BV ->
  forall s al st', exec e (enc ke m) (mkSt s al) = Ok st' ->
  exists p s', s = p ++ s' /\ st' = mkSt s' al /\ (m_signed (t_mall t) = true -> hassig e p).
Proof. exact signed_frame_V. Qed.
Print Assumptions C06_signed_frame_V.

Theorem C06_signed_forced_frame_K :
  forall (e : env) (ke : keyenv) (m : ms) (t : ty),
  type_of m = ROk t -> wf e ke m -> c_base (t_corr t) = BK ->
  m_signed (t_mall t) = true /\
  forall s al st', exec e (enc ke m) (mkSt s al) = Ok st' ->
  exists kk p s', s = p ++ s' /\ st' = mkSt (kk :: s') al /\
    (m_dissat (t_mall t) = DNone -> hassig e p).
Proof. exact signed_forced_frame_K. Qed.
Print Assumptions C06_signed_forced_frame_K.

Theorem C06_signed_forced_frame_W :
  forall (e : env) (ke : keyenv) (m : ms) (t : ty),
  type_of m = ROk t -> wf e ke m -> c_base (t_corr t) = BW ->
  forall s0 al st', exec e (enc ke m) (mkSt s0 al) = Ok st' ->
  exists c v p s', s0 = c :: p ++ s' /\
    (st' = mkSt (c :: v :: s') al \/ st' = mkSt (v :: c :: s') al) /\
    (m_signed (t_mall t) = true -> truthy v = true -> hassig e p) /\
    (m_dissat (t_mall t) = DNone -> truthy v = false -> hassig e p).
Proof. exact signed_forced_frame_W. Qed.
Print Assumptions C06_signed_forced_frame_W.

Theorem C06_signed_B :
  forall (e : env) (ke : keyenv) (m : ms) (t : ty),
  type_of m = ROk t -> wf e ke m -> c_base (t_corr t) = BB -> m_signed (t_mall t) = true ->
  forall s al st', sigfree e s -> exec e (enc ke m) (mkSt s al) = Ok st' ->
  exists v r, stk st' = v :: r /\ truthy v = false.
Proof. exact signed_B. Qed.
Print Assumptions C06_signed_B.

Theorem C06_signed_V :
  forall (e : env) (ke : keyenv) (m : ms) (t : ty),
  type_of m = ROk t -> wf e ke m -> c_base (t_corr t) = BV -> m_signed (t_mall t) = true ->
  forall s al, sigfree e s -> exec e (enc ke m) (mkSt s al) = Fail.
Proof. exact signed_V. Qed.
Print Assumptions C06_signed_V.

Theorem C06_signed_K :
  forall (e : env) (ke : keyenv) (m : ms) (t : ty),
  type_of m = ROk t -> wf e ke m -> c_base (t_corr t) = BK ->
  forall s al st', sigfree e s -> exec e (enc ke m) (mkSt s al) = Ok st' ->
  forall kk sg r, stk st' = kk :: sg :: r -> e_sigok e kk sg = false.
Proof. exact signed_K. Qed.
Print Assumptions C06_signed_K.

Theorem C06_signed_W :
  forall (e : env) (ke : keyenv) (m : ms) (t : ty),
  type_of m = ROk t -> wf e ke m -> c_base (t_corr t) = BW -> m_signed (t_mall t) = true ->
  forall c s al st', sigfree e s -> exec e (enc ke m) (mkSt (c :: s) al) = Ok st' ->
  exists v s', (stk st' = c :: v :: s' \/ stk st' = v :: c :: s') /\ truthy v = false.
Proof. exact signed_W. Qed.
Print Assumptions C06_signed_W.

Theorem C06_signed_accepts :
  forall (e : env) (ke : keyenv) (m : ms) (t : ty),
  type_of m = ROk t -> wf e ke m -> c_base (t_corr t) = BB -> m_signed (t_mall t) = true ->
  forall w, accepts e (enc ke m) w = true -> hassig e w.
Proof. exact signed_accepts. Qed.
Print Assumptions C06_signed_accepts.

Theorem C06_forced_B :
  forall (e : env) (ke : keyenv) (m : ms) (t : ty),
  type_of m = ROk t -> wf e ke m -> c_base (t_corr t) = BB -> m_dissat (t_mall t) = DNone ->
  forall s al st', sigfree e s -> exec e (enc ke m) (mkSt s al) = Ok st' ->
  exists v r, stk st' = v :: r /\ truthy v = true.
Proof. exact forced_B. Qed.
Print Assumptions C06_forced_B.

Theorem C06_forced_B_not_zero :
  forall (e : env) (ke : keyenv) (m : ms) (t : ty),
  type_of m = ROk t -> wf e ke m -> c_base (t_corr t) = BB -> m_dissat (t_mall t) = DNone ->
  forall s al r al', sigfree e s -> exec e (enc ke m) (mkSt s al) <> Ok (mkSt ([] :: r) al').
Proof. exact forced_B_not_zero. Qed.
Print Assumptions C06_forced_B_not_zero.

Theorem C06_forced_K :
  forall (e : env) (ke : keyenv) (m : ms) (t : ty),
  type_of m = ROk t -> wf e ke m -> c_base (t_corr t) = BK -> m_dissat (t_mall t) = DNone ->
  forall s al, sigfree e s -> exec e (enc ke m) (mkSt s al) = Fail.
Proof. exact forced_K. Qed.
Print Assumptions C06_forced_K.

Theorem C06_forced_W :
  forall (e : env) (ke : keyenv) (m : ms) (t : ty),
  type_of m = ROk t -> wf e ke m -> c_base (t_corr t) = BW -> m_dissat (t_mall t) = DNone ->
  forall c s al st', sigfree e s -> exec e (enc ke m) (mkSt (c :: s) al) = Ok st' ->
  exists v s', (stk st' = c :: v :: s' \/ stk st' = v :: c :: s') /\ truthy v = true.
Proof. exact forced_W. Qed.
Print Assumptions C06_forced_W.

(* non-vacuity: a signed fragment meeting the hypotheses; signature-free stacks are rejected
   (NULLFAIL) or end dissatisfied, a stack with a valid signature satisfies it; a forced fragment
   fails without a signature and can be dissatisfied once a signature has been consumed *)
Example C06_signed_nonvacuous :
  (exists t, type_of sg_pk = ROk t /\ c_base (t_corr t) = BB /\ m_signed (t_mall t) = true /\ wf sg_env sg_ke sg_pk) /\
  (sigfree sg_env [[1%N]; [5%N]] /\ sigfree sg_env [[]; [5%N]]) /\
  exec sg_env (enc sg_ke sg_pk) (mkSt [[1%N]; [5%N]] []) = Fail /\
  exec sg_env (enc sg_ke sg_pk) (mkSt [[]; [5%N]] []) = Ok (mkSt [[]; [5%N]] []) /\
  exec sg_env (enc sg_ke sg_pk) (mkSt [[7%N]; [5%N]] []) = Ok (mkSt [[1%N]; [5%N]] []).
Proof. exact (conj sg_pk_type (conj sg_pk_sigfree sg_pk_rejects)). Qed.
Example C06_forced_nonvacuous :
  (exists t, type_of sg_forced = ROk t /\ c_base (t_corr t) = BB /\ m_signed (t_mall t) = true
             /\ m_dissat (t_mall t) = DNone /\ wf sg_env sg_ke sg_forced) /\
  exec sg_env (enc sg_ke sg_forced) (mkSt [[]; []] []) = Fail /\
  exec sg_env (enc sg_ke sg_forced) (mkSt [[7%N]; []] []) = Ok (mkSt [[]] []) /\
  exec sg_env (enc sg_ke sg_forced) (mkSt [[7%N]; [7%N]] []) = Ok (mkSt [[1%N]] []).
Proof. exact (conj sg_forced_type sg_forced_runs). Qed.
