(* C06 — static types predict what fragments do when executed.
   Proved (table level, for every fragment nesting except raw_pk_h, every stack below,
   every alt stack): on every entry of the specification's (dis)satisfaction table
     * base shapes: B leaves one value (true on satisfaction, exactly 0 on dissatisfaction),
       V leaves nothing, K leaves the key above its (verifying / empty) signature, W leaves its
       value next to the carried element — [good];
     * u: a unit fragment leaves exactly 1 on satisfaction — inside [good] ([goodval]);
     * z / o / n: a fragment typed z consumes no element, typed o exactly one, typed n has a
       non-empty top element when satisfied — [shape].
   NOT yet proved (kept visible): the "for every input stack" direction (Theorem B: an
   execution that succeeds used a table entry), d (existence of a signature-free
   dissatisfaction), f / e / s (statements about all stacks). The per-run check enumerates
   input stacks for those. *)
From Verif Require Import Exec Ser Ast Types TypeCheck SatSpec ExecLemmas TheoremA.

Theorem C06_table_level_partial :
  forall (e : env) (ke : keyenv) (A : assets), assets_ok e ke A -> (forall kbs, e_sigok e kbs [] = false) ->
  forall (m : ms) (t : ty), type_of m = ROk t -> wf e ke m -> no_multi m ->
    good e ke A m t /\ shape ke A m t.
Proof. exact theoremA_closed. Qed.
Print Assumptions C06_table_level_partial.
