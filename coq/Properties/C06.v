(* C06 — static types predict what fragments do when executed.
   Proved (table level, for every fragment nesting except raw_pk_h, every stack below,
   every alt stack): on every entry of the specification's (dis)satisfaction table
     * base shapes: B leaves one value (true on satisfaction, exactly 0 on dissatisfaction),
       V leaves nothing, K leaves the key above its (verifying / empty) signature, W leaves its
       value next to the carried element — [good];
     * u: a unit fragment leaves exactly 1 on satisfaction — inside [good] ([goodval]);
     * z / o / n: a fragment typed z consumes no element, typed o exactly one, typed n has a
       non-empty top element when satisfied — [shape].
   Proved for EVERY input stack and alt stack (Proofs/Frame*.v; induction over the typing rules of
   Ms/Types.v, all constructors incl. raw_pk_h, thresh, multi, multi_a; [wf] = constructor
   invariants), about every SUCCESSFUL execution of the encoded fragment:
     * (Fr) frame: the alt stack is restored, the input stack splits into a consumed prefix and an
       untouched rest, the script maps that prefix to the same output in every other frame, and the
       output has the shape of the base type (B one element, V none, K the key, W the value next to
       the carried top element, for every carried element) — [C06_frame], [C06_frame_W];
     * (Z/O) the consumed prefix is empty when typed z, one element when typed o (for K the one
       argument is the signature left under the key) — [C06_input_class], [C06_z], [C06_o], [C06_o_K];
     * (N) typed n: a satisfying execution has a non-empty top input element (at least one element is
       consumed: [C06_input_class]) — [C06_n]; hypothesis [nhyp]: the empty signature never verifies
       and the empty string is not an acceptable public key (used by multi and pk_h only);
     * (U) typed u: a true value left is exactly 01 — [C06_u], [C06_u_W];
     * (D) typed d (and no raw_pk_h): a dissatisfaction built from empty vectors, 01, 32 zero bytes
       and the fragment's public keys is listed by the table under the EMPTY asset set and leaves
       exactly 0 — [C06_d]; raw_pk_h is excluded because its key is a hash preimage that need not
       exist ([C06_d_raw_pkh_remark]).
     * the per-base-type invariant all of the above are projections of — [C06_frame_invariant].
   The model's [type_of] has no context argument (cast_dupif never claims u), so no prediction
   above needs MINIMALIF; (Fr), (Z/O), (U) need no hypothesis on the environment at all (they hold
   under every signature version). "Non-empty" (not "script-true") is what n promises: a 32-byte
   negative-zero preimage is a satisfying non-true top element ([C06_n_nonempty_not_true_remark]).
   Proved (Proofs/SignedSound.v; EVERY input stack, every alt stack, every fragment incl.
   thresh / multi / multi_a / sortedmulti(_a) / raw_pk_h, every signature version):
     * frame: a successful run of a well-typed fragment consumes a prefix p of the stack, restores
       the alt stack and leaves the shape of its base type (B: one value; V: nothing; K: a key;
       W: its value next to the carried element) — [C06_signed_forced_frame_*];
     * s (signed): if the type says s and the run is a satisfaction (B/W: true value; V: success;
       K: key above a signature CHECKSIG accepts) then the consumed prefix p contains a valid
       signature (hassig); contrapositive with a signature-free stack: [C06_signed_B/V/K/W];
       script level: an accepted witness of a signed B script contains a valid signature
       [C06_signed_accepts];
     * f (forced, malleability dissat = None): if the type says f and the run ends dissatisfied
       (B/W: false value, in particular exactly 0; K: any termination) then p contains a valid
       signature; with a signature-free stack: [C06_forced_B/K/W], [C06_forced_B_not_zero].
     The internal invariant (SignedSound.sound) also proves z / o (consumption counts) and u
     over all stacks, because s:X needs o and thresh needs u.
     Hypotheses: type_of m = ROk t, wf e ke m (the constructors' side conditions: timelocks in
     1..2^31-1, thresholds 1 <= k <= n; both are needed: SignedSound.wf_needed_after0 /
     wf_needed_multi0). No hypothesis about e_sigok: a "valid signature" is any stack element x
     with e_sigok e k x = true for some key bytes k. The Script model enforces NULLFAIL,
     MINIMALIF (outside SvBase) and minimal numbers unconditionally (Script/Exec.v).
   Proved (Proofs/Denot*.v, statements in Properties/TheoremB.v): THEOREM B and its converse -- the
   Script semantics of an encoded well-typed fragment accepts exactly the witnesses of the
   denotational relation [R] (every stack, every fragment, every signature version), and the
   specification's table is exactly the canonical part of that relation.
   Proved on top of it (Proofs/DenotUniqueDissat.v; EVERY input stack):
     * e (unique dissatisfaction): for a fragment typed e AND m, under MINIMALIF (any signature
       version but the base one) and with hash160 injective on acceptable keys, any two
       dissatisfactions without valid signatures are the same witness [C06_e_unique]; every
       dissatisfying execution on a stack without valid signatures consumes exactly THE
       dissatisfaction -- the one the table lists under the empty asset set (C06_d) -- and leaves
       exactly 0 [C06_e] (for [C06_e]: no raw_pk_h, and the canonical elements [], 01, 32 zero
       bytes, public keys are not valid signatures).
       Each hypothesis is necessary:
         - m: `e` alone is NOT a uniqueness claim.  or_b is typed e unconditionally, by the code and
           by the specification's table alike; or_b(sha256(h), a:sha256(h)) has two signature-free
           dissatisfactions [C06_e_needs_m].  What m adds is "both children are e".
         - MINIMALIF: under the base signature version d:v:1 (typed e, m) is dissatisfied by 0 and by
           0x80 (and every other false value) [C06_e_needs_minimalif]; a known malleability of
           P2SH / bare scripts, where MINIMALIF is not even policy for the selector of d: / or_i.
         - hash160 injectivity: pk_h is typed e and is dissatisfied by any key with the right hash.
       Hash fragments are typed Unknown, not e: their many dissatisfactions never reach an
       e+m fragment without a signature next to them (this is what the induction shows).
   NOT proved: nothing of the C06 predictions remains open at the Script level.  Outside the
   statements: ill-typed fragments, resource limits (element size 520, ops, stack depth); the
   K / W variants of [C06_e] are available as [C06_e_unique] only. *)
From Verif Require Import Exec Ser Ast Types TypeCheck SatSpec ExecLemmas TheoremA.
From Verif Require Import FrameBase FrameSound FrameDissat.

Theorem C06_table_level_partial :
  forall (e : env) (ke : keyenv) (A : assets), assets_ok e ke A -> (forall kbs, e_sigok e kbs [] = false) ->
  forall (m : ms) (t : ty), type_of m = ROk t -> wf e ke m -> no_multi m ->
    good e ke A m t /\ shape ke A m t.
Proof. exact theoremA_closed. Qed.
Print Assumptions C06_table_level_partial.

(* ---- every input stack: frame ---- *)
Theorem C06_frame :
  forall (e : env) (ke : keyenv) (m : ms) (t : ty), type_of m = ROk t -> wf e ke m ->
  forall st al r, exec e (enc ke m) (mkSt st al) = Ok r ->
  exists consumed rest out,
    st = consumed ++ rest /\ r = mkSt (out ++ rest) al /\
    (forall rest' al', exec e (enc ke m) (mkSt (consumed ++ rest') al') = Ok (mkSt (out ++ rest') al')) /\
    out_shape (c_base (t_corr t)) consumed out.
Proof. exact frame_sound. Qed.
Print Assumptions C06_frame.

Theorem C06_frame_W :
  forall (e : env) (ke : keyenv) (m : ms) (t : ty), type_of m = ROk t -> wf e ke m -> c_base (t_corr t) = BW ->
  forall st al r, exec e (enc ke m) (mkSt st al) = Ok r ->
  exists c0 w rest v (above : bool),
    st = c0 :: w ++ rest /\
    r = mkSt ((if above then [v; c0] else [c0; v]) ++ rest) al /\
    forall c0' rest' al', exec e (enc ke m) (mkSt (c0' :: w ++ rest') al')
                          = Ok (mkSt ((if above then [v; c0'] else [c0'; v]) ++ rest') al').
Proof. exact frame_sound_W. Qed.
Print Assumptions C06_frame_W.

(* ---- every input stack: z / o (and "n consumes at least one") ---- *)
Theorem C06_input_class :
  forall (e : env) (ke : keyenv) (m : ms) (t : ty), type_of m = ROk t -> wf e ke m ->
  forall st al r, exec e (enc ke m) (mkSt st al) = Ok r ->
  exists consumed rest out,
    st = consumed ++ rest /\ r = mkSt (out ++ rest) al /\
    (forall rest' al', exec e (enc ke m) (mkSt (consumed ++ rest') al') = Ok (mkSt (out ++ rest') al')) /\
    match c_base (t_corr t) with
    | BW => c_input (t_corr t) = IAny
    | b => cnt (c_input (t_corr t)) (nargs b consumed)
    end.
Proof. exact input_class_sound. Qed.
Print Assumptions C06_input_class.

Theorem C06_z :
  forall (e : env) (ke : keyenv) (m : ms) (t : ty), type_of m = ROk t -> wf e ke m -> c_input (t_corr t) = IZero ->
  forall st al r, exec e (enc ke m) (mkSt st al) = Ok r ->
  exists out, r = mkSt (out ++ st) al /\
    (forall st' al', exec e (enc ke m) (mkSt st' al') = Ok (mkSt (out ++ st') al')) /\
    out_shape (c_base (t_corr t)) [] out.
Proof. exact z_sound. Qed.
Print Assumptions C06_z.

Theorem C06_o :
  forall (e : env) (ke : keyenv) (m : ms) (t : ty), type_of m = ROk t -> wf e ke m ->
  c_input (t_corr t) = IOne \/ c_input (t_corr t) = IOneNonZero ->
  c_base (t_corr t) = BB \/ c_base (t_corr t) = BV ->
  forall st al r, exec e (enc ke m) (mkSt st al) = Ok r ->
  exists x rest out, st = x :: rest /\ r = mkSt (out ++ rest) al /\
    (forall rest' al', exec e (enc ke m) (mkSt (x :: rest') al') = Ok (mkSt (out ++ rest') al')) /\
    out_shape (c_base (t_corr t)) [x] out.
Proof. exact o_sound. Qed.
Print Assumptions C06_o.

Theorem C06_o_K :
  forall (e : env) (ke : keyenv) (m : ms) (t : ty), type_of m = ROk t -> wf e ke m ->
  c_input (t_corr t) = IOne \/ c_input (t_corr t) = IOneNonZero -> c_base (t_corr t) = BK ->
  forall st al r, exec e (enc ke m) (mkSt st al) = Ok r ->
  exists k, r = mkSt (k :: st) al /\
    forall st' al', exec e (enc ke m) (mkSt st' al') = Ok (mkSt (k :: st') al').
Proof. exact o_sound_K. Qed.
Print Assumptions C06_o_K.

(* ---- every input stack: n ---- *)
Theorem C06_n :
  forall (e : env) (ke : keyenv) (m : ms) (t : ty),
  nhyp e -> type_of m = ROk t -> wf e ke m -> isn (c_input (t_corr t)) = true ->
  forall st al r, exec e (enc ke m) (mkSt st al) = Ok r ->
  match c_base (t_corr t) with
  | BB => forall v rest', stk r = v :: rest' -> truthy v = true -> top_ne st
  | BV => top_ne st
  | BK => forall k rest', stk r = k :: rest' -> ksat e k rest' -> top_ne st
  | BW => True
  end.
Proof. exact n_sound. Qed.
Print Assumptions C06_n.

(* n is "not the empty vector", not "script-true": a negative-zero preimage satisfies a hash fragment *)
Theorem C06_n_nonempty_not_true_remark :
  exists (e : env) (ke : keyenv) (m : ms) (t : ty) (x : bytes),
    nhyp e /\ type_of m = ROk t /\ wf e ke m /\ isn (c_input (t_corr t)) = true /\ c_base (t_corr t) = BB /\
    exec e (enc ke m) (mkSt [x] []) = Ok (mkSt [[1%N]] []) /\ x <> [] /\ truthy x = false.
Proof. exact n_is_nonempty_not_script_true. Qed.
Print Assumptions C06_n_nonempty_not_true_remark.

(* ---- every input stack: u ---- *)
Theorem C06_u :
  forall (e : env) (ke : keyenv) (m : ms) (t : ty),
  type_of m = ROk t -> wf e ke m -> c_unit (t_corr t) = true -> c_base (t_corr t) = BB ->
  forall st al r, exec e (enc ke m) (mkSt st al) = Ok r ->
  exists v rest, stk r = v :: rest /\ (truthy v = true -> v = [1%N]).
Proof. exact u_sound. Qed.
Print Assumptions C06_u.

Theorem C06_u_W :
  forall (e : env) (ke : keyenv) (m : ms) (t : ty),
  type_of m = ROk t -> wf e ke m -> c_unit (t_corr t) = true -> c_base (t_corr t) = BW ->
  forall c0 st al r, exec e (enc ke m) (mkSt (c0 :: st) al) = Ok r ->
  exists v rest, (stk r = v :: c0 :: rest \/ stk r = c0 :: v :: rest) /\ (truthy v = true -> v = [1%N]).
Proof. exact u_sound_W. Qed.
Print Assumptions C06_u_W.

(* ---- d: a signature-free input on which the fragment leaves exactly 0 ---- *)
Theorem C06_d :
  forall (e : env) (ke : keyenv), keys_ok e ke -> (forall kbs, e_sigok e kbs [] = false) ->
  forall (m : ms) (t : ty), type_of m = ROk t -> wf e ke m -> no_multi m -> c_dissat (t_corr t) = true ->
  exists w, In w (all_dsat ke A0 m) /\ Forall (sf_elt ke) w /\
    match c_base (t_corr t) with
    | BB => forall rest al, exec e (enc ke m) (mkSt (w ++ rest) al) = Ok (mkSt ([] :: rest) al)
    | BK => forall rest al, exists kbs,
              exec e (enc ke m) (mkSt (w ++ rest) al) = Ok (mkSt (kbs :: [] :: rest) al) /\ e_keyok e kbs = true
    | BW => forall c rest al,
              exec e (enc ke m) (mkSt (c :: w ++ rest) al) = Ok (mkSt ([] :: c :: rest) al) \/
              exec e (enc ke m) (mkSt (c :: w ++ rest) al) = Ok (mkSt (c :: [] :: rest) al)
    | BV => False
    end.
Proof. exact d_sound. Qed.
Print Assumptions C06_d.

Theorem C06_d_raw_pkh_remark :
  exists (e : env) (ke : keyenv) (m : ms) (t : ty),
    type_of m = ROk t /\ wf e ke m /\ c_base (t_corr t) = BB /\ c_dissat (t_corr t) = true /\
    forall st al, exec e (enc ke m) (mkSt st al) = Fail.
Proof. exact d_raw_pkh_needs_preimage. Qed.
Print Assumptions C06_d_raw_pkh_remark.

(* ---- the invariant behind the all-stacks statements ---- *)
Theorem C06_frame_invariant :
  forall (e : env) (ke : keyenv) (m : ms) (t : ty), type_of m = ROk t -> wf e ke m -> inv e (enc ke m) t.
Proof. exact frame_inv. Qed.
Print Assumptions C06_frame_invariant.

(* ---- non-vacuity: the hypotheses are satisfiable and successful executions exist ---- *)
Example C06_frame_nonvacuous :
  nhyp ex_env /\
  (exists t, type_of ex_ms = ROk t /\ c_base (t_corr t) = BB /\ c_unit (t_corr t) = false) /\
  wf ex_env ex_ke ex_ms /\
  exec ex_env (enc ex_ke ex_ms) (mkSt [[2;0;1]; [9]]%N [[7%N]]) = Ok (mkSt [[1]; [9]]%N [[7%N]]) /\
  exec ex_env (enc ex_ke ex_ms) (mkSt [[]; [2;1]; [2;1;1]; [9]]%N [[7%N]]) = Ok (mkSt [[10]; [9]]%N [[7%N]]) /\
  (exists t, type_of ex_ms2 = ROk t /\ c_base (t_corr t) = BB /\ c_unit (t_corr t) = true) /\
  wf ex_env ex_ke ex_ms2 /\
  exec ex_env (enc ex_ke ex_ms2) (mkSt [[2;0;1]; []; [2;3;1]; []; [9]]%N []) = Ok (mkSt [[1]; [9]]%N []).
Proof. exact (conj ex_nhyp (conj ex_typed (conj ex_wf (conj ex_run1 (conj ex_run2 (conj ex2_typed (conj ex2_wf ex2_run))))))). Qed.

Example C06_d_nonvacuous :
  keys_ok exd_env exd_ke /\ (forall kbs, e_sigok exd_env kbs [] = false) /\
  (exists t, type_of exd_ms = ROk t /\ c_base (t_corr t) = BB /\ c_dissat (t_corr t) = true) /\
  wf exd_env exd_ke exd_ms /\ no_multi exd_ms.
Proof. exact (conj exd_keys (conj exd_sig (conj exd_typed exd_wf))). Qed.

(* ---- every input stack: signed / forced (imported here, after the frame statements) ---- *)
From Verif Require Import SignedLemmas SignedSound.

(* ---- s / f over every input stack ---- *)
Theorem C06_signed_forced_frame_B :
  forall (e : env) (ke : keyenv) (m : ms) (t : ty),
  type_of m = ROk t -> wf e ke m -> c_base (t_corr t) = BB ->
  forall s al st', exec e (enc ke m) (mkSt s al) = Ok st' ->
  exists v p s', s = p ++ s' /\ st' = mkSt (v :: s') al /\
    (m_signed (t_mall t) = true -> truthy v = true -> hassig e p) /\
    (m_dissat (t_mall t) = DNone -> truthy v = false -> hassig e p).
Proof. exact signed_forced_frame_B. Qed.
Print Assumptions C06_signed_forced_frame_B.

Theorem C06_signed_frame_V :
  forall (e : env) (ke : keyenv) (m : ms) (t : ty),
  type_of m = ROk t -> wf e ke m -> c_base (t_corr t) = BV ->
  forall s al st', exec e (enc ke m) (mkSt s al) = Ok st' ->
  exists p s', s = p ++ s' /\ st' = mkSt s' al /\ (m_signed (t_mall t) = true -> hassig e p).
Proof. exact signed_frame_V. Qed.
Print Assumptions C06_signed_frame_V.

Theorem C06_signed_forced_frame_K :
  forall (e : env) (ke : keyenv) (m : ms) (t : ty),
  type_of m = ROk t -> wf e ke m -> c_base (t_corr t) = BK ->
  m_signed (t_mall t) = true /\
  forall s al st', exec e (enc ke m) (mkSt s al) = Ok st' ->
  exists kk p s', s = p ++ s' /\ st' = mkSt (kk :: s') al /\
    (m_dissat (t_mall t) = DNone -> hassig e p).
Proof. exact signed_forced_frame_K. Qed.
Print Assumptions C06_signed_forced_frame_K.

Theorem C06_signed_forced_frame_W :
  forall (e : env) (ke : keyenv) (m : ms) (t : ty),
  type_of m = ROk t -> wf e ke m -> c_base (t_corr t) = BW ->
  forall s0 al st', exec e (enc ke m) (mkSt s0 al) = Ok st' ->
  exists c v p s', s0 = c :: p ++ s' /\
    (st' = mkSt (c :: v :: s') al \/ st' = mkSt (v :: c :: s') al) /\
    (m_signed (t_mall t) = true -> truthy v = true -> hassig e p) /\
    (m_dissat (t_mall t) = DNone -> truthy v = false -> hassig e p).
Proof. exact signed_forced_frame_W. Qed.
Print Assumptions C06_signed_forced_frame_W.

Theorem C06_signed_B :
  forall (e : env) (ke : keyenv) (m : ms) (t : ty),
  type_of m = ROk t -> wf e ke m -> c_base (t_corr t) = BB -> m_signed (t_mall t) = true ->
  forall s al st', sigfree e s -> exec e (enc ke m) (mkSt s al) = Ok st' ->
  exists v r, stk st' = v :: r /\ truthy v = false.
Proof. exact signed_B. Qed.
Print Assumptions C06_signed_B.

Theorem C06_signed_V :
  forall (e : env) (ke : keyenv) (m : ms) (t : ty),
  type_of m = ROk t -> wf e ke m -> c_base (t_corr t) = BV -> m_signed (t_mall t) = true ->
  forall s al, sigfree e s -> exec e (enc ke m) (mkSt s al) = Fail.
Proof. exact signed_V. Qed.
Print Assumptions C06_signed_V.

Theorem C06_signed_K :
  forall (e : env) (ke : keyenv) (m : ms) (t : ty),
  type_of m = ROk t -> wf e ke m -> c_base (t_corr t) = BK ->
  forall s al st', sigfree e s -> exec e (enc ke m) (mkSt s al) = Ok st' ->
  forall kk sg r, stk st' = kk :: sg :: r -> e_sigok e kk sg = false.
Proof. exact signed_K. Qed.
Print Assumptions C06_signed_K.

Theorem C06_signed_W :
  forall (e : env) (ke : keyenv) (m : ms) (t : ty),
  type_of m = ROk t -> wf e ke m -> c_base (t_corr t) = BW -> m_signed (t_mall t) = true ->
  forall c s al st', sigfree e s -> exec e (enc ke m) (mkSt (c :: s) al) = Ok st' ->
  exists v s', (stk st' = c :: v :: s' \/ stk st' = v :: c :: s') /\ truthy v = false.
Proof. exact signed_W. Qed.
Print Assumptions C06_signed_W.

Theorem C06_signed_accepts :
  forall (e : env) (ke : keyenv) (m : ms) (t : ty),
  type_of m = ROk t -> wf e ke m -> c_base (t_corr t) = BB -> m_signed (t_mall t) = true ->
  forall w, accepts e (enc ke m) w = true -> hassig e w.
Proof. exact signed_accepts. Qed.
Print Assumptions C06_signed_accepts.

Theorem C06_forced_B :
  forall (e : env) (ke : keyenv) (m : ms) (t : ty),
  type_of m = ROk t -> wf e ke m -> c_base (t_corr t) = BB -> m_dissat (t_mall t) = DNone ->
  forall s al st', sigfree e s -> exec e (enc ke m) (mkSt s al) = Ok st' ->
  exists v r, stk st' = v :: r /\ truthy v = true.
Proof. exact forced_B. Qed.
Print Assumptions C06_forced_B.

Theorem C06_forced_B_not_zero :
  forall (e : env) (ke : keyenv) (m : ms) (t : ty),
  type_of m = ROk t -> wf e ke m -> c_base (t_corr t) = BB -> m_dissat (t_mall t) = DNone ->
  forall s al r al', sigfree e s -> exec e (enc ke m) (mkSt s al) <> Ok (mkSt ([] :: r) al').
Proof. exact forced_B_not_zero. Qed.
Print Assumptions C06_forced_B_not_zero.

Theorem C06_forced_K :
  forall (e : env) (ke : keyenv) (m : ms) (t : ty),
  type_of m = ROk t -> wf e ke m -> c_base (t_corr t) = BK -> m_dissat (t_mall t) = DNone ->
  forall s al, sigfree e s -> exec e (enc ke m) (mkSt s al) = Fail.
Proof. exact forced_K. Qed.
Print Assumptions C06_forced_K.

Theorem C06_forced_W :
  forall (e : env) (ke : keyenv) (m : ms) (t : ty),
  type_of m = ROk t -> wf e ke m -> c_base (t_corr t) = BW -> m_dissat (t_mall t) = DNone ->
  forall c s al st', sigfree e s -> exec e (enc ke m) (mkSt (c :: s) al) = Ok st' ->
  exists v s', (stk st' = c :: v :: s' \/ stk st' = v :: c :: s') /\ truthy v = true.
Proof. exact forced_W. Qed.
Print Assumptions C06_forced_W.

(* non-vacuity: a signed fragment meeting the hypotheses; signature-free stacks are rejected
   (NULLFAIL) or end dissatisfied, a stack with a valid signature satisfies it; a forced fragment
   fails without a signature and can be dissatisfied once a signature has been consumed *)
Example C06_signed_nonvacuous :
  (exists t, type_of sg_pk = ROk t /\ c_base (t_corr t) = BB /\ m_signed (t_mall t) = true /\ wf sg_env sg_ke sg_pk) /\
  (sigfree sg_env [[1%N]; [5%N]] /\ sigfree sg_env [[]; [5%N]]) /\
  exec sg_env (enc sg_ke sg_pk) (mkSt [[1%N]; [5%N]] []) = Fail /\
  exec sg_env (enc sg_ke sg_pk) (mkSt [[]; [5%N]] []) = Ok (mkSt [[]; [5%N]] []) /\
  exec sg_env (enc sg_ke sg_pk) (mkSt [[7%N]; [5%N]] []) = Ok (mkSt [[1%N]; [5%N]] []).
Proof. exact (conj sg_pk_type (conj sg_pk_sigfree sg_pk_rejects)). Qed.
Example C06_forced_nonvacuous :
  (exists t, type_of sg_forced = ROk t /\ c_base (t_corr t) = BB /\ m_signed (t_mall t) = true
             /\ m_dissat (t_mall t) = DNone /\ wf sg_env sg_ke sg_forced) /\
  exec sg_env (enc sg_ke sg_forced) (mkSt [[]; []] []) = Fail /\
  exec sg_env (enc sg_ke sg_forced) (mkSt [[7%N]; []] []) = Ok (mkSt [[]] []) /\
  exec sg_env (enc sg_ke sg_forced) (mkSt [[7%N]; [7%N]] []) = Ok (mkSt [[1%N]] []).
Proof. exact (conj sg_forced_type sg_forced_runs). Qed.

(* ---- every input stack: e (unique dissatisfaction) ---- *)
From Verif Require Import DenotSpec DenotMain DenotUniqueDissat.

(* any two signature-free dissatisfactions of an e+m fragment coincide (all base types; K: the
   witness includes the empty signature; relation [R] = the Script semantics, Properties/TheoremB.v) *)
Theorem C06_e_unique :
  forall (e : env) (ke : keyenv) (m : ms) (t : ty),
  minimalif (e_sv e) = true -> h160_inj e ->
  type_of m = ROk t -> wf e ke m -> m_nm (t_mall t) = true -> m_dissat (t_mall t) = DUnique ->
  forall w1 v1 w2 v2, R e ke m false w1 v1 -> R e ke m false w2 v2 -> sigfree e w1 -> sigfree e w2 -> w1 = w2.
Proof. exact e_unique. Qed.
Print Assumptions C06_e_unique.

(* relative to one known signature-free dissatisfaction d *)
Theorem C06_e_every_stack :
  forall (e : env) (ke : keyenv) (m : ms) (t : ty),
  minimalif (e_sv e) = true -> h160_inj e ->
  type_of m = ROk t -> wf e ke m -> c_base (t_corr t) = BB ->
  m_nm (t_mall t) = true -> m_dissat (t_mall t) = DUnique ->
  forall d, Rdsat e ke m d -> sigfree e d ->
  forall st al r, sigfree e st -> exec e (enc ke m) (mkSt st al) = Ok r ->
  forall v rest, stk r = v :: rest -> truthy v = false -> st = d ++ rest /\ r = mkSt (v :: rest) al.
Proof. exact e_sound_B. Qed.
Print Assumptions C06_e_every_stack.

(* THE dissatisfaction is the table's one under the empty asset set *)
Theorem C06_e :
  forall (e : env) (ke : keyenv) (m : ms) (t : ty),
  minimalif (e_sv e) = true -> h160_inj e ->
  keys_ok e ke -> (forall kbs, e_sigok e kbs [] = false) ->
  (forall x, sf_elt ke x -> forall k, e_sigok e k x = false) ->
  type_of m = ROk t -> wf e ke m -> no_multi m -> c_base (t_corr t) = BB -> c_dissat (t_corr t) = true ->
  m_nm (t_mall t) = true -> m_dissat (t_mall t) = DUnique ->
  exists d, In d (all_dsat ke A0 m) /\ Forall (sf_elt ke) d /\
    (forall rest al, exec e (enc ke m) (mkSt (d ++ rest) al) = Ok (mkSt ([] :: rest) al)) /\
    forall st al r, sigfree e st -> exec e (enc ke m) (mkSt st al) = Ok r ->
    forall v rest, stk r = v :: rest -> truthy v = false -> st = d ++ rest /\ r = mkSt ([] :: rest) al.
Proof. exact e_sound_table. Qed.
Print Assumptions C06_e.

(* `e` without `m` claims nothing: a fragment typed e with two signature-free dissatisfactions *)
Theorem C06_e_needs_m :
  (exists t, type_of ue_orb = ROk t /\ c_base (t_corr t) = BB /\ m_dissat (t_mall t) = DUnique /\ m_nm (t_mall t) = false) /\
  wf (ue_env SvWitnessV0) ue_ke ue_orb /\ minimalif (e_sv (ue_env SvWitnessV0)) = true /\ h160_inj (ue_env SvWitnessV0) /\
  sigfree (ue_env SvWitnessV0) [zeros32; zeros32] /\ sigfree (ue_env SvWitnessV0) [ue_ff; zeros32] /\
  exec (ue_env SvWitnessV0) (enc ue_ke ue_orb) (mkSt [zeros32; zeros32] []) = Ok (mkSt [[]] []) /\
  exec (ue_env SvWitnessV0) (enc ue_ke ue_orb) (mkSt [ue_ff; zeros32] []) = Ok (mkSt [[]] []).
Proof. exact e_needs_m. Qed.
Print Assumptions C06_e_needs_m.

(* without MINIMALIF (base signature version) an e+m fragment has several dissatisfactions *)
Theorem C06_e_needs_minimalif :
  (exists t, type_of ue_dup = ROk t /\ c_base (t_corr t) = BB /\ m_dissat (t_mall t) = DUnique /\ m_nm (t_mall t) = true) /\
  wf (ue_env SvBase) ue_ke ue_dup /\ h160_inj (ue_env SvBase) /\
  sigfree (ue_env SvBase) [[]] /\ sigfree (ue_env SvBase) [[128%N]] /\
  exec (ue_env SvBase) (enc ue_ke ue_dup) (mkSt [[]] []) = Ok (mkSt [[]] []) /\
  exec (ue_env SvBase) (enc ue_ke ue_dup) (mkSt [[128%N]] []) = Ok (mkSt [[128%N]] []) /\ truthy [128%N] = false /\
  exec (ue_env SvWitnessV0) (enc ue_ke ue_dup) (mkSt [[128%N]] []) = Fail.
Proof. exact e_needs_minimalif. Qed.
Print Assumptions C06_e_needs_minimalif.

Example C06_e_nonvacuous :
  (exists t, type_of ue_ord = ROk t /\ c_base (t_corr t) = BB /\ c_dissat (t_corr t) = true /\
             m_dissat (t_mall t) = DUnique /\ m_nm (t_mall t) = true) /\
  wf (ue_env SvWitnessV0) ue_ke ue_ord /\ no_multi ue_ord /\
  minimalif (e_sv (ue_env SvWitnessV0)) = true /\ h160_inj (ue_env SvWitnessV0) /\
  keys_ok (ue_env SvWitnessV0) ue_ke /\ (forall kbs, e_sigok (ue_env SvWitnessV0) kbs [] = false) /\
  (forall x, sf_elt ue_ke x -> forall k, e_sigok (ue_env SvWitnessV0) k x = false) /\
  sigfree (ue_env SvWitnessV0) [[]; []; [5%N]] /\
  exec (ue_env SvWitnessV0) (enc ue_ke ue_ord) (mkSt [[]; []; [5%N]] []) = Ok (mkSt [[]; [5%N]] []).
Proof. exact e_nonvacuous. Qed.
