(* C06 — static types predict what fragments do when executed.
   Proved (table level, for every fragment nesting except raw_pk_h, every stack below,
   every alt stack): on every entry of the specification's (dis)satisfaction table
     * base shapes: B leaves one value (true on satisfaction, exactly 0 on dissatisfaction),
       V leaves nothing, K leaves the key above its (verifying / empty) signature, W leaves its
       value next to the carried element — [good];
     * u: a unit fragment leaves exactly 1 on satisfaction — inside [good] ([goodval]);
     * z / o / n: a fragment typed z consumes no element, typed o exactly one, typed n has a
       non-empty top element when satisfied — [shape].
   Proved for EVERY input stack and alt stack (Proofs/Frame*.v; induction over the typing rules of
   Ms/Types.v, all constructors incl. raw_pk_h, thresh, multi, multi_a; [wf] = constructor
   invariants), about every SUCCESSFUL execution of the encoded fragment:
     * (Fr) frame: the alt stack is restored, the input stack splits into a consumed prefix and an
       untouched rest, the script maps that prefix to the same output in every other frame, and the
       output has the shape of the base type (B one element, V none, K the key, W the value next to
       the carried top element, for every carried element) — [C06_frame], [C06_frame_W];
     * (Z/O) the consumed prefix is empty when typed z, one element when typed o (for K the one
       argument is the signature left under the key) — [C06_input_class], [C06_z], [C06_o], [C06_o_K];
     * (N) typed n: a satisfying execution has a non-empty top input element (at least one element is
       consumed: [C06_input_class]) — [C06_n]; hypothesis [nhyp]: the empty signature never verifies
       and the empty string is not an acceptable public key (used by multi and pk_h only);
     * (U) typed u: a true value left is exactly 01 — [C06_u], [C06_u_W];
     * (D) typed d (and no raw_pk_h): a dissatisfaction built from empty vectors, 01, 32 zero bytes
       and the fragment's public keys is listed by the table under the EMPTY asset set and leaves
       exactly 0 — [C06_d]; raw_pk_h is excluded because its key is a hash preimage that need not
       exist ([C06_d_raw_pkh_remark]).
     * the per-base-type invariant all of the above are projections of — [C06_frame_invariant].
   The model's [type_of] has no context argument (cast_dupif never claims u), so no prediction
   above needs MINIMALIF; (Fr), (Z/O), (U) need no hypothesis on the environment at all (they hold
   under every signature version). "Non-empty" (not "script-true") is what n promises: a 32-byte
   negative-zero preimage is a satisfying non-true top element ([C06_n_nonempty_not_true_remark]).
   NOT yet proved (kept visible): Theorem B's table direction (a successful execution used a
   table entry), f / e / s (statements about all stacks; s and f are being proved in
   Proofs/Signed*.v). The per-run check enumerates input stacks for those. *)
From Verif Require Import Exec Ser Ast Types TypeCheck SatSpec ExecLemmas TheoremA.
From Verif Require Import FrameBase FrameSound FrameDissat.

Theorem C06_table_level_partial :
  forall (e : env) (ke : keyenv) (A : assets), assets_ok e ke A -> (forall kbs, e_sigok e kbs [] = false) ->
  forall (m : ms) (t : ty), type_of m = ROk t -> wf e ke m -> no_multi m ->
    good e ke A m t /\ shape ke A m t.
Proof. exact theoremA_closed. Qed.
Print Assumptions C06_table_level_partial.

(* ---- every input stack: frame ---- *)
Theorem C06_frame :
  forall (e : env) (ke : keyenv) (m : ms) (t : ty), type_of m = ROk t -> wf e ke m ->
  forall st al r, exec e (enc ke m) (mkSt st al) = Ok r ->
  exists consumed rest out,
    st = consumed ++ rest /\ r = mkSt (out ++ rest) al /\
    (forall rest' al', exec e (enc ke m) (mkSt (consumed ++ rest') al') = Ok (mkSt (out ++ rest') al')) /\
    out_shape (c_base (t_corr t)) consumed out.
Proof. exact frame_sound. Qed.
Print Assumptions C06_frame.

Theorem C06_frame_W :
  forall (e : env) (ke : keyenv) (m : ms) (t : ty), type_of m = ROk t -> wf e ke m -> c_base (t_corr t) = BW ->
  forall st al r, exec e (enc ke m) (mkSt st al) = Ok r ->
  exists c0 w rest v (above : bool),
    st = c0 :: w ++ rest /\
    r = mkSt ((if above then [v; c0] else [c0; v]) ++ rest) al /\
    forall c0' rest' al', exec e (enc ke m) (mkSt (c0' :: w ++ rest') al')
                          = Ok (mkSt ((if above then [v; c0'] else [c0'; v]) ++ rest') al').
Proof. exact frame_sound_W. Qed.
Print Assumptions C06_frame_W.

(* ---- every input stack: z / o (and "n consumes at least one") ---- *)
Theorem C06_input_class :
  forall (e : env) (ke : keyenv) (m : ms) (t : ty), type_of m = ROk t -> wf e ke m ->
  forall st al r, exec e (enc ke m) (mkSt st al) = Ok r ->
  exists consumed rest out,
    st = consumed ++ rest /\ r = mkSt (out ++ rest) al /\
    (forall rest' al', exec e (enc ke m) (mkSt (consumed ++ rest') al') = Ok (mkSt (out ++ rest') al')) /\
    match c_base (t_corr t) with
    | BW => c_input (t_corr t) = IAny
    | b => cnt (c_input (t_corr t)) (nargs b consumed)
    end.
Proof. exact input_class_sound. Qed.
Print Assumptions C06_input_class.

Theorem C06_z :
  forall (e : env) (ke : keyenv) (m : ms) (t : ty), type_of m = ROk t -> wf e ke m -> c_input (t_corr t) = IZero ->
  forall st al r, exec e (enc ke m) (mkSt st al) = Ok r ->
  exists out, r = mkSt (out ++ st) al /\
    (forall st' al', exec e (enc ke m) (mkSt st' al') = Ok (mkSt (out ++ st') al')) /\
    out_shape (c_base (t_corr t)) [] out.
Proof. exact z_sound. Qed.
Print Assumptions C06_z.

Theorem C06_o :
  forall (e : env) (ke : keyenv) (m : ms) (t : ty), type_of m = ROk t -> wf e ke m ->
  c_input (t_corr t) = IOne \/ c_input (t_corr t) = IOneNonZero ->
  c_base (t_corr t) = BB \/ c_base (t_corr t) = BV ->
  forall st al r, exec e (enc ke m) (mkSt st al) = Ok r ->
  exists x rest out, st = x :: rest /\ r = mkSt (out ++ rest) al /\
    (forall rest' al', exec e (enc ke m) (mkSt (x :: rest') al') = Ok (mkSt (out ++ rest') al')) /\
    out_shape (c_base (t_corr t)) [x] out.
Proof. exact o_sound. Qed.
Print Assumptions C06_o.

Theorem C06_o_K :
  forall (e : env) (ke : keyenv) (m : ms) (t : ty), type_of m = ROk t -> wf e ke m ->
  c_input (t_corr t) = IOne \/ c_input (t_corr t) = IOneNonZero -> c_base (t_corr t) = BK ->
  forall st al r, exec e (enc ke m) (mkSt st al) = Ok r ->
  exists k, r = mkSt (k :: st) al /\
    forall st' al', exec e (enc ke m) (mkSt st' al') = Ok (mkSt (k :: st') al').
Proof. exact o_sound_K. Qed.
Print Assumptions C06_o_K.

(* ---- every input stack: n ---- *)
Theorem C06_n :
  forall (e : env) (ke : keyenv) (m : ms) (t : ty),
  nhyp e -> type_of m = ROk t -> wf e ke m -> isn (c_input (t_corr t)) = true ->
  forall st al r, exec e (enc ke m) (mkSt st al) = Ok r ->
  match c_base (t_corr t) with
  | BB => forall v rest', stk r = v :: rest' -> truthy v = true -> top_ne st
  | BV => top_ne st
  | BK => forall k rest', stk r = k :: rest' -> ksat e k rest' -> top_ne st
  | BW => True
  end.
Proof. exact n_sound. Qed.
Print Assumptions C06_n.

(* n is "not the empty vector", not "script-true": a negative-zero preimage satisfies a hash fragment *)
Theorem C06_n_nonempty_not_true_remark :
  exists (e : env) (ke : keyenv) (m : ms) (t : ty) (x : bytes),
    nhyp e /\ type_of m = ROk t /\ wf e ke m /\ isn (c_input (t_corr t)) = true /\ c_base (t_corr t) = BB /\
    exec e (enc ke m) (mkSt [x] []) = Ok (mkSt [[1%N]] []) /\ x <> [] /\ truthy x = false.
Proof. exact n_is_nonempty_not_script_true. Qed.
Print Assumptions C06_n_nonempty_not_true_remark.

(* ---- every input stack: u ---- *)
Theorem C06_u :
  forall (e : env) (ke : keyenv) (m : ms) (t : ty),
  type_of m = ROk t -> wf e ke m -> c_unit (t_corr t) = true -> c_base (t_corr t) = BB ->
  forall st al r, exec e (enc ke m) (mkSt st al) = Ok r ->
  exists v rest, stk r = v :: rest /\ (truthy v = true -> v = [1%N]).
Proof. exact u_sound. Qed.
Print Assumptions C06_u.

Theorem C06_u_W :
  forall (e : env) (ke : keyenv) (m : ms) (t : ty),
  type_of m = ROk t -> wf e ke m -> c_unit (t_corr t) = true -> c_base (t_corr t) = BW ->
  forall c0 st al r, exec e (enc ke m) (mkSt (c0 :: st) al) = Ok r ->
  exists v rest, (stk r = v :: c0 :: rest \/ stk r = c0 :: v :: rest) /\ (truthy v = true -> v = [1%N]).
Proof. exact u_sound_W. Qed.
Print Assumptions C06_u_W.

(* ---- d: a signature-free input on which the fragment leaves exactly 0 ---- *)
Theorem C06_d :
  forall (e : env) (ke : keyenv), keys_ok e ke -> (forall kbs, e_sigok e kbs [] = false) ->
  forall (m : ms) (t : ty), type_of m = ROk t -> wf e ke m -> no_multi m -> c_dissat (t_corr t) = true ->
  exists w, In w (all_dsat ke A0 m) /\ Forall (sf_elt ke) w /\
    match c_base (t_corr t) with
    | BB => forall rest al, exec e (enc ke m) (mkSt (w ++ rest) al) = Ok (mkSt ([] :: rest) al)
    | BK => forall rest al, exists kbs,
              exec e (enc ke m) (mkSt (w ++ rest) al) = Ok (mkSt (kbs :: [] :: rest) al) /\ e_keyok e kbs = true
    | BW => forall c rest al,
              exec e (enc ke m) (mkSt (c :: w ++ rest) al) = Ok (mkSt ([] :: c :: rest) al) \/
              exec e (enc ke m) (mkSt (c :: w ++ rest) al) = Ok (mkSt (c :: [] :: rest) al)
    | BV => False
    end.
Proof. exact d_sound. Qed.
Print Assumptions C06_d.

Theorem C06_d_raw_pkh_remark :
  exists (e : env) (ke : keyenv) (m : ms) (t : ty),
    type_of m = ROk t /\ wf e ke m /\ c_base (t_corr t) = BB /\ c_dissat (t_corr t) = true /\
    forall st al, exec e (enc ke m) (mkSt st al) = Fail.
Proof. exact d_raw_pkh_needs_preimage. Qed.
Print Assumptions C06_d_raw_pkh_remark.

(* ---- the invariant behind the all-stacks statements ---- *)
Theorem C06_frame_invariant :
  forall (e : env) (ke : keyenv) (m : ms) (t : ty), type_of m = ROk t -> wf e ke m -> inv e (enc ke m) t.
Proof. exact frame_inv. Qed.
Print Assumptions C06_frame_invariant.

(* ---- non-vacuity: the hypotheses are satisfiable and successful executions exist ---- *)
Example C06_frame_nonvacuous :
  nhyp ex_env /\
  (exists t, type_of ex_ms = ROk t /\ c_base (t_corr t) = BB /\ c_unit (t_corr t) = false) /\
  wf ex_env ex_ke ex_ms /\
  exec ex_env (enc ex_ke ex_ms) (mkSt [[2;0;1]; [9]]%N [[7%N]]) = Ok (mkSt [[1]; [9]]%N [[7%N]]) /\
  exec ex_env (enc ex_ke ex_ms) (mkSt [[]; [2;1]; [2;1;1]; [9]]%N [[7%N]]) = Ok (mkSt [[10]; [9]]%N [[7%N]]) /\
  (exists t, type_of ex_ms2 = ROk t /\ c_base (t_corr t) = BB /\ c_unit (t_corr t) = true) /\
  wf ex_env ex_ke ex_ms2 /\
  exec ex_env (enc ex_ke ex_ms2) (mkSt [[2;0;1]; []; [2;3;1]; []; [9]]%N []) = Ok (mkSt [[1]; [9]]%N []).
Proof. exact (conj ex_nhyp (conj ex_typed (conj ex_wf (conj ex_run1 (conj ex_run2 (conj ex2_typed (conj ex2_wf ex2_run))))))). Qed.

Example C06_d_nonvacuous :
  keys_ok exd_env exd_ke /\ (forall kbs, e_sigok exd_env kbs [] = false) /\
  (exists t, type_of exd_ms = ROk t /\ c_base (t_corr t) = BB /\ c_dissat (t_corr t) = true) /\
  wf exd_env exd_ke exd_ms /\ no_multi exd_ms.
Proof. exact (conj exd_keys (conj exd_sig (conj exd_typed exd_wf))). Qed.
