(* C17 — spending plans are faithful to the satisfier and report exact time locks.
   In the code a plan IS the satisfier's template (Descriptor::into_plan* takes the
   placeholder stack of build_template*, Plan::satisfy completes it with satisfy_self), and the
   model keeps exactly that structure.  Proved here:
     * C17_plan_is_template: completing the template of the model with the same data is, by
       construction, what the model's satisfier returns (existence and result coincide);
     * C17_completed_plan_spends: hence (with C01) every completed plan of the model spends;
     * C17_lock_merge: the lock a concatenation reports is, per unit, one of its operands' and
       not smaller than either (mixed units never yield a Stack).
   Reported locks are exact at Script level (Proofs/LockNeed*.v; all fragments incl. thresh / multi /
   multi_a, raw_pk_h excluded as in Theorem A; both plan modes; every asset set):
     * C17_reported_locks_suffice (L1): the completed plan is accepted in EVERY environment whose
       nLockTime / nSequence / version pass CLTV resp. CSV (Script/Exec.v: check_locktime,
       check_sequence) for exactly the reported values -- no other after()/older() of the
       descriptor, and none of the locks the satisfier was merely allowed to consider, is asked;
     * C17_abs_lock_necessary / C17_rel_lock_necessary (L2): when CLTV (CSV) fails for the
       reported value -- smaller nLockTime, other unit, final sequence; smaller sequence, other unit,
       disable bit, version < 2: C17_cltv_fails_iff / C17_csv_fails_iff -- execution of the script on
       the completed plan FAILS, on every stack below it;
     * C17_reported_locks_exact: accepted  <->  the reported locks are met;
     * C17_no_abs_no_cltv / C17_no_rel_no_csv (L3): a lock that is not reported is not executed at
       all (no TAbs / TRel event on the executed path); C17_no_lock_any_tx: with no lock reported,
       every nLockTime / nSequence (final, disable bit) / version is accepted;
       C17_no_abs_any_locktime, C17_no_rel_any_sequence;
     * C17_executed_locks: on the executed path, every CLTV (CSV) operand is in the unit of the
       reported lock and not larger, and the reported one is among them;
       C17_locks_on_path: the same read off the instrumented execution (accepts_tr / checks);
     * C17_result_in_restricted_table: every Stack the satisfier returns (any fragment, satisfaction
       or dissatisfaction) is an entry of the specification table of the assets restricted to the
       locks that result reports;
     * C17_exec_lock_factor: Script level -- changing only nLockTime / nSequence / version either
       keeps a successful run unchanged or makes it fail at an executed lock check.
   No fragment over-reports or under-reports in the model (no `_refuted`); the per-run check keeps
   probing the same on /repo's plans (lock - 1, other unit, final sequence, disable bit). *)
From Verif Require Import Exec ExecTrace Ser Ast Types TypeCheck SatSpec Sat ExecLemmas ExecTraceLemmas TheoremA SatProofs PlanProofs.
From Verif Require Import LockNeedExec LockNeedTable LockNeedSuffice LockNeedTrace LockNeedMain.

Theorem C17_plan_is_template : forall ke se f mall rhs m,
  satisfy ke se f mall rhs m =
  match plan_template ke se mall rhs m with Some l => plan_complete f l | None => None end.
Proof. exact plan_is_template. Qed.
Print Assumptions C17_plan_is_template.

Theorem C17_completed_plan_spends :
  forall (e : env) (ke : keyenv) (A : assets) (se : senv) (f : fill),
  linked ke A se f -> (forall ks, length (ksort ke ks) = length ks) ->
  assets_ok e ke A -> (forall kbs, e_sigok e kbs [] = false) ->
  forall (mall rhs : bool) (m : ms) (t : ty),
    type_of m = ROk t -> c_base (t_corr t) = BB -> wf e ke m -> no_multi m ->
    forall tpl bs, plan_template ke se mall rhs m = Some tpl -> plan_complete f tpl = Some bs ->
      accepts e (enc ke m) (rev bs) = true.
Proof. exact completed_plan_spends. Qed.
Print Assumptions C17_completed_plan_spends.

Theorem C17_lock_merge : forall (a b : satn) l, s_stack (concatenate_rev a b) = WStack l ->
  match s_abs a, s_abs b with
  | Some x, Some y => exists t, s_abs (concatenate_rev a b) = Some t /\ (t = x \/ t = y) /\ (x <= t)%N /\ (y <= t)%N
  | Some x, None | None, Some x => s_abs (concatenate_rev a b) = Some x
  | None, None => s_abs (concatenate_rev a b) = None
  end.
Proof. exact concat_abs_lock. Qed.
Print Assumptions C17_lock_merge.

(* ---------- reported locks are sufficient (L1) ---------- *)
Theorem C17_reported_locks_suffice :
  forall (e : env) (ke : keyenv) (A : assets) (se : senv) (f : fill),
  linked ke A se f -> (forall ks, length (ksort ke ks) = length ks) ->
  crypto_ok e ke A -> (forall kbs, e_sigok e kbs [] = false) ->
  forall (mall rhs : bool) (m : ms) (t : ty),
    type_of m = ROk t -> c_base (t_corr t) = BB -> wf e ke m -> no_multi m ->
    forall tpl bs, plan_template ke se mall rhs m = Some tpl -> plan_complete f tpl = Some bs ->
      lock_met e (plan_abs ke se mall rhs m) (plan_rel ke se mall rhs m) ->
      accepts e (enc ke m) (rev bs) = true.
Proof. exact plan_locks_suffice. Qed.
Print Assumptions C17_reported_locks_suffice.

(* ---------- reported locks are necessary (L2) ---------- *)
Theorem C17_abs_lock_necessary :
  forall (e : env) (ke : keyenv) (A : assets) (se : senv) (f : fill),
  linked ke A se f -> (forall ks, length (ksort ke ks) = length ks) ->
  crypto_ok e ke A -> (forall kbs, e_sigok e kbs [] = false) ->
  forall (mall rhs : bool) (m : ms) (t : ty),
    type_of m = ROk t -> c_base (t_corr t) = BB -> wf e ke m -> no_multi m ->
    forall tpl bs, plan_template ke se mall rhs m = Some tpl -> plan_complete f tpl = Some bs ->
    forall T, plan_abs ke se mall rhs m = Some T -> check_locktime e (Z.of_N T) = false ->
    forall below al, exec e (enc ke m) (mkSt (rev bs ++ below) al) = Fail.
Proof. exact plan_abs_lock_necessary. Qed.
Print Assumptions C17_abs_lock_necessary.

Theorem C17_rel_lock_necessary :
  forall (e : env) (ke : keyenv) (A : assets) (se : senv) (f : fill),
  linked ke A se f -> (forall ks, length (ksort ke ks) = length ks) ->
  crypto_ok e ke A -> (forall kbs, e_sigok e kbs [] = false) ->
  forall (mall rhs : bool) (m : ms) (t : ty),
    type_of m = ROk t -> c_base (t_corr t) = BB -> wf e ke m -> no_multi m ->
    forall tpl bs, plan_template ke se mall rhs m = Some tpl -> plan_complete f tpl = Some bs ->
    forall R, plan_rel ke se mall rhs m = Some R -> check_sequence e (Z.of_N R) = false ->
    forall below al, exec e (enc ke m) (mkSt (rev bs ++ below) al) = Fail.
Proof. exact plan_rel_lock_necessary. Qed.
Print Assumptions C17_rel_lock_necessary.

(* when CLTV / CSV fails for an operand: smaller value, other unit, final sequence / disable bit, version *)
Theorem C17_cltv_fails_iff : forall e T, check_locktime e (Z.of_N T) = false <->
  (N.ltb T LOCKTIME_THRESHOLD <> N.ltb (e_locktime e) LOCKTIME_THRESHOLD) \/ (e_locktime e < T)%N \/ e_sequence e = SEQ_FINAL.
Proof. exact check_locktime_false. Qed.
Print Assumptions C17_cltv_fails_iff.

Theorem C17_csv_fails_iff : forall e R, (R < 2147483648)%N -> (check_sequence e (Z.of_N R) = false <->
  (e_txversion e < 2)%N \/ N.land (e_sequence e) SEQ_DISABLE <> 0%N \/
  N.land R SEQ_TYPE <> N.land (e_sequence e) SEQ_TYPE \/ (N.land (e_sequence e) SEQ_MASK < N.land R SEQ_MASK)%N).
Proof. exact check_sequence_false. Qed.
Print Assumptions C17_csv_fails_iff.

(* ---------- necessary and sufficient ---------- *)
Theorem C17_reported_locks_exact :
  forall (e : env) (ke : keyenv) (A : assets) (se : senv) (f : fill),
  linked ke A se f -> (forall ks, length (ksort ke ks) = length ks) ->
  crypto_ok e ke A -> (forall kbs, e_sigok e kbs [] = false) ->
  forall (mall rhs : bool) (m : ms) (t : ty),
    type_of m = ROk t -> c_base (t_corr t) = BB -> wf e ke m -> no_multi m ->
    forall tpl bs, plan_template ke se mall rhs m = Some tpl -> plan_complete f tpl = Some bs ->
      (accepts e (enc ke m) (rev bs) = true <-> lock_met e (plan_abs ke se mall rhs m) (plan_rel ke se mall rhs m)).
Proof. exact plan_locks_exact. Qed.
Print Assumptions C17_reported_locks_exact.

(* ---------- a lock that is not reported is not executed (L3) ---------- *)
Theorem C17_no_abs_no_cltv :
  forall (e : env) (ke : keyenv) (A : assets) (se : senv) (f : fill),
  linked ke A se f -> (forall ks, length (ksort ke ks) = length ks) ->
  crypto_ok e ke A -> (forall kbs, e_sigok e kbs [] = false) ->
  forall (mall rhs : bool) (m : ms) (t : ty),
    type_of m = ROk t -> c_base (t_corr t) = BB -> wf e ke m -> no_multi m ->
    forall tpl bs, plan_template ke se mall rhs m = Some tpl -> plan_complete f tpl = Some bs ->
    forall below al, lock_met e (plan_abs ke se mall rhs m) (plan_rel ke se mall rhs m) ->
      plan_abs ke se mall rhs m = None -> abs_evs (tr_script e (enc ke m) (mkSt (rev bs ++ below) al)) = [].
Proof. exact plan_no_abs_no_cltv. Qed.
Print Assumptions C17_no_abs_no_cltv.

Theorem C17_no_rel_no_csv :
  forall (e : env) (ke : keyenv) (A : assets) (se : senv) (f : fill),
  linked ke A se f -> (forall ks, length (ksort ke ks) = length ks) ->
  crypto_ok e ke A -> (forall kbs, e_sigok e kbs [] = false) ->
  forall (mall rhs : bool) (m : ms) (t : ty),
    type_of m = ROk t -> c_base (t_corr t) = BB -> wf e ke m -> no_multi m ->
    forall tpl bs, plan_template ke se mall rhs m = Some tpl -> plan_complete f tpl = Some bs ->
    forall below al, lock_met e (plan_abs ke se mall rhs m) (plan_rel ke se mall rhs m) ->
      plan_rel ke se mall rhs m = None -> rel_evs (tr_script e (enc ke m) (mkSt (rev bs ++ below) al)) = [].
Proof. exact plan_no_rel_no_csv. Qed.
Print Assumptions C17_no_rel_no_csv.

Theorem C17_no_lock_any_tx :
  forall (e : env) (ke : keyenv) (A : assets) (se : senv) (f : fill),
  linked ke A se f -> (forall ks, length (ksort ke ks) = length ks) ->
  crypto_ok e ke A -> (forall kbs, e_sigok e kbs [] = false) ->
  forall (mall rhs : bool) (m : ms) (t : ty),
    type_of m = ROk t -> c_base (t_corr t) = BB -> wf e ke m -> no_multi m ->
    forall tpl bs, plan_template ke se mall rhs m = Some tpl -> plan_complete f tpl = Some bs ->
    plan_abs ke se mall rhs m = None -> plan_rel ke se mall rhs m = None ->
    forall lt sq ver, accepts (with_locks e lt sq ver) (enc ke m) (rev bs) = true.
Proof. exact plan_no_lock_any_tx. Qed.
Print Assumptions C17_no_lock_any_tx.

Theorem C17_no_abs_any_locktime :
  forall (e : env) (ke : keyenv) (A : assets) (se : senv) (f : fill),
  linked ke A se f -> (forall ks, length (ksort ke ks) = length ks) ->
  crypto_ok e ke A -> (forall kbs, e_sigok e kbs [] = false) ->
  forall (mall rhs : bool) (m : ms) (t : ty),
    type_of m = ROk t -> c_base (t_corr t) = BB -> wf e ke m -> no_multi m ->
    forall tpl bs, plan_template ke se mall rhs m = Some tpl -> plan_complete f tpl = Some bs ->
    plan_abs ke se mall rhs m = None -> lock_met e None (plan_rel ke se mall rhs m) ->
    forall lt, accepts (with_locks e lt (e_sequence e) (e_txversion e)) (enc ke m) (rev bs) = true.
Proof. exact plan_no_abs_any_locktime. Qed.
Print Assumptions C17_no_abs_any_locktime.

Theorem C17_no_rel_any_sequence :
  forall (e : env) (ke : keyenv) (A : assets) (se : senv) (f : fill),
  linked ke A se f -> (forall ks, length (ksort ke ks) = length ks) ->
  crypto_ok e ke A -> (forall kbs, e_sigok e kbs [] = false) ->
  forall (mall rhs : bool) (m : ms) (t : ty),
    type_of m = ROk t -> c_base (t_corr t) = BB -> wf e ke m -> no_multi m ->
    forall tpl bs, plan_template ke se mall rhs m = Some tpl -> plan_complete f tpl = Some bs ->
    plan_rel ke se mall rhs m = None -> lock_met e (plan_abs ke se mall rhs m) None ->
    forall sq ver, (plan_abs ke se mall rhs m = None \/ sq <> SEQ_FINAL) ->
      accepts (with_locks e (e_locktime e) sq ver) (enc ke m) (rev bs) = true.
Proof. exact plan_no_rel_any_sequence. Qed.
Print Assumptions C17_no_rel_any_sequence.

(* ---------- the executed path ---------- *)
Theorem C17_executed_locks :
  forall (e : env) (ke : keyenv) (A : assets) (se : senv) (f : fill),
  linked ke A se f -> (forall ks, length (ksort ke ks) = length ks) ->
  crypto_ok e ke A -> (forall kbs, e_sigok e kbs [] = false) ->
  forall (mall rhs : bool) (m : ms) (t : ty),
    type_of m = ROk t -> c_base (t_corr t) = BB -> wf e ke m -> no_multi m ->
    forall tpl bs, plan_template ke se mall rhs m = Some tpl -> plan_complete f tpl = Some bs ->
    forall below al, lock_met e (plan_abs ke se mall rhs m) (plan_rel ke se mall rhs m) ->
      tr_ok (snd (sat_dissat ke se mall rhs m)) (tr_script e (enc ke m) (mkSt (rev bs ++ below) al)).
Proof. exact plan_executed_locks. Qed.
Print Assumptions C17_executed_locks.

Theorem C17_locks_on_path :
  forall (e : env) (ke : keyenv) (A : assets) (se : senv) (f : fill),
  linked ke A se f -> (forall ks, length (ksort ke ks) = length ks) ->
  crypto_ok e ke A -> (forall kbs, e_sigok e kbs [] = false) ->
  forall (mall rhs : bool) (m : ms) (t : ty),
    type_of m = ROk t -> c_base (t_corr t) = BB -> wf e ke m -> no_multi m ->
    forall tpl bs, plan_template ke se mall rhs m = Some tpl -> plan_complete f tpl = Some bs ->
    exists cs,
      accepts_tr (ref_env e (plan_abs ke se mall rhs m) (plan_rel ke se mall rhs m)) (enc ke m) (rev bs) = Some cs /\
      (forall T, plan_abs ke se mall rhs m = Some T -> In (KAbs T) cs) /\
      (forall R, plan_rel ke se mall rhs m = Some R -> In (KRel R) cs) /\
      (plan_abs ke se mall rhs m = None -> forall n, ~ In (KAbs n) cs) /\
      (plan_rel ke se mall rhs m = None -> forall n, ~ In (KRel n) cs).
Proof. exact plan_locks_on_path. Qed.
Print Assumptions C17_locks_on_path.

(* every Stack of the satisfier (any fragment, either side) is a table entry for the assets restricted
   to that result's own locks *)
Theorem C17_result_in_restricted_table :
  forall (ke : keyenv) (A : assets) (se : senv) (f : fill),
  linked ke A se f -> (forall ks, length (ksort ke ks) = length ks) ->
  forall (mall rhs : bool) (m : ms), kwf m ->
    let d := fst (sat_dissat ke se mall rhs m) in
    let s := snd (sat_dissat ke se mall rhs m) in
    (forall l bs, s_stack d = WStack l -> fill_all f l = Some bs ->
       In (rev bs) (all_dsat ke (restrict A (s_abs d) (s_rel d)) m)) /\
    (forall l bs, s_stack s = WStack l -> fill_all f l = Some bs ->
       In (rev bs) (all_sat ke (restrict A (s_abs s) (s_rel s)) m)).
Proof. exact sat_in_table_locks. Qed.
Print Assumptions C17_result_in_restricted_table.

(* Script level: only the executed lock checks look at nLockTime / nSequence / version *)
Theorem C17_exec_lock_factor : forall e e' : env, same_oracles e e' ->
  forall (s : script) (st st1 : state), exec e s st = Ok st1 ->
    exec e' s st = if evs_ok e' (tr_script e s st) then Ok st1 else Fail.
Proof. exact exec_lock_factor. Qed.
Print Assumptions C17_exec_lock_factor.

(* ---------- non-vacuity ---------- *)
(* or_d(pk(0), and_v(v:pk(1), after(100))), only key 1 signs: both modes report after = 100, no older *)
Example C17_ex_reports : forall mall : bool,
  plan_template lx_ke lx_senv mall true lx_ms = Some [PhSig 1%N; PhPushZero] /\
  plan_complete lx_fill [PhSig 1%N; PhPushZero] = Some [[7; 2; 1]; []]%N /\
  plan_abs lx_ke lx_senv mall true lx_ms = Some 100%N /\ plan_rel lx_ke lx_senv mall true lx_ms = None.
Proof. intros [|]; vm_compute; repeat split; reflexivity. Qed.
Example C17_ex_accept_100 : accepts (lx_env 100 0 2) (enc lx_ke lx_ms) (rev [[7; 2; 1]; []]%N) = true.
Proof. exact lx_accept_100. Qed.
Example C17_ex_reject_99 : exec (lx_env 99 0 2) (enc lx_ke lx_ms) (mkSt (rev [[7; 2; 1]; []]%N) []) = Fail.
Proof. exact lx_reject_99. Qed.
Example C17_ex_reject_other_unit : exec (lx_env 500000100 0 2) (enc lx_ke lx_ms) (mkSt (rev [[7; 2; 1]; []]%N) []) = Fail.
Proof. exact lx_reject_unit. Qed.
Example C17_ex_reject_final_sequence : exec (lx_env 100 4294967295 2) (enc lx_ke lx_ms) (mkSt (rev [[7; 2; 1]; []]%N) []) = Fail.
Proof. exact lx_reject_final. Qed.
(* the general theorem instantiated (linked, crypto_ok, typing, wf all hold for this instance) *)
Example C17_ex_exact : forall (mall : bool) lt sq ver,
  accepts (lx_env lt sq ver) (enc lx_ke lx_ms) (rev [[7; 2; 1]; []]%N) = true <->
  check_locktime (lx_env lt sq ver) 100 = true.
Proof. exact lx_exact. Qed.
(* thresh(2, pk(0), s:pk(1), sln:older(7)): older(7) is on the chosen path, reported, and needed *)
Example C17_ex_thresh : forall mall : bool,
  let r := snd (sat_dissat lx_ke lx_senv mall true lx_ms2) in
  let bs := [[]; [7; 2; 1]; []]%N in
  s_stack r = WStack [PhPushZero; PhSig 1%N; PhPushZero] /\
  fill_all lx_fill [PhPushZero; PhSig 1%N; PhPushZero] = Some bs /\ s_abs r = None /\ s_rel r = Some 7%N /\
  accepts (lx_env 0 7 2) (enc lx_ke lx_ms2) (rev bs) = true /\
  exec (lx_env 0 6 2) (enc lx_ke lx_ms2) (mkSt (rev bs) []) = Fail /\
  exec (lx_env 0 7 1) (enc lx_ke lx_ms2) (mkSt (rev bs) []) = Fail /\
  exec (lx_env 0 (7 + 4194304) 2) (enc lx_ke lx_ms2) (mkSt (rev bs) []) = Fail /\
  exec (lx_env 0 (7 + 2147483648) 2) (enc lx_ke lx_ms2) (mkSt (rev bs) []) = Fail.
Proof. exact lx2_reports. Qed.
