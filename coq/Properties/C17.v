(* C17 — spending plans are faithful to the satisfier and report exact time locks.
   In the code a plan IS the satisfier's template (Descriptor::into_plan* takes the
   placeholder stack of build_template*, Plan::satisfy completes it with satisfy_self), and the
   model keeps exactly that structure.  Proved here:
     * C17_plan_is_template: completing the template of the model with the same data is, by
       construction, what the model's satisfier returns (existence and result coincide);
     * C17_completed_plan_spends: hence (with C01) every completed plan of the model spends;
     * C17_lock_merge: the lock a concatenation reports is, per unit, one of its operands' and
       not smaller than either (mixed units never yield a Stack) — the accumulation step
       behind "reported lock = the largest lock on the chosen path".
   NOT yet proved (kept visible): necessity of the reported locks at Script level
   (forall e with a smaller lock value / the other unit / a final sequence, exec rejects); the
   per-run check probes exactly that on every completed plan with the extracted Script
   semantics (lock - 1, other unit, final sequence, disable bit). *)
From Verif Require Import Exec Ser Ast Types TypeCheck SatSpec Sat ExecLemmas TheoremA SatProofs PlanProofs.

Theorem C17_plan_is_template : forall ke se f mall rhs m,
  satisfy ke se f mall rhs m =
  match plan_template ke se mall rhs m with Some l => plan_complete f l | None => None end.
Proof. exact plan_is_template. Qed.
Print Assumptions C17_plan_is_template.

Theorem C17_completed_plan_spends :
  forall (e : env) (ke : keyenv) (A : assets) (se : senv) (f : fill),
  linked ke A se f -> (forall ks, length (ksort ke ks) = length ks) ->
  assets_ok e ke A -> (forall kbs, e_sigok e kbs [] = false) ->
  forall (mall rhs : bool) (m : ms) (t : ty),
    type_of m = ROk t -> c_base (t_corr t) = BB -> wf e ke m -> no_multi m ->
    forall tpl bs, plan_template ke se mall rhs m = Some tpl -> plan_complete f tpl = Some bs ->
      accepts e (enc ke m) (rev bs) = true.
Proof. exact completed_plan_spends. Qed.
Print Assumptions C17_completed_plan_spends.

Theorem C17_lock_merge : forall (a b : satn) l, s_stack (concatenate_rev a b) = WStack l ->
  match s_abs a, s_abs b with
  | Some x, Some y => exists t, s_abs (concatenate_rev a b) = Some t /\ (t = x \/ t = y) /\ (x <= t)%N /\ (y <= t)%N
  | Some x, None | None, Some x => s_abs (concatenate_rev a b) = Some x
  | None, None => s_abs (concatenate_rev a b) = None
  end.
Proof. exact concat_abs_lock. Qed.
Print Assumptions C17_lock_merge.
