(* C08 — Compiled policies keep their meaning and are sane in the target context.
   LEVEL: translation validation with a PROVED validator.  The policy compiler is not modelled;
   every output it returns in a run is judged by [validate_compilation] / [validate_descriptor] /
   [validate_tr] (coq/Ms/PolicyVal.v).  The theorems below say what an accepted validation
   establishes, for ALL policies, outputs, contexts, key-kind tables and worlds.
   The quantifier "all policies" of the property is covered by the sample of each run only.
   This file contains statements only; every proof is `exact <lemma>`.

   Full statement of the property (for reference):
     forall pol ctx out, compile ctx pol = Ok out ->
          (forall W, evalc W pol = evals W (lift out))            (same spending semantics)
       /\ every spending path of out needs a signature            (s)
       /\ out is non-malleable                                    (m)
       /\ out respects the resource limits and fragment restrictions of ctx
       /\ parse (display out) = Ok out under Ctx::SANE.
   Proved here: validate... = true -> the first four conjuncts in the model's terms (the `s`/`m`
   type flags of the recomputed type + the semantic statement "no satisfying world without a
   signing key"; limits as exact script length and the ExtData figures of the output).  The last
   conjunct is checked on the implementation's own parser in every run (harness).
   And down to Script EXECUTION (Theorem A + Theorem B): for an accepted validation, in every
   world W,   pol true in W  <=>  some stack over W's material is accepted on the encoded output
   [C08_validated_policy_iff_spendable(_closed)], and every accepted stack carries a valid
   signature under a key of the script [C08_validated_needs_signature]. *)
From Coq Require Import List Bool NArith Permutation.
From Verif Require Import PolicyVal PolicyValProofs PolicyValWorlds PolicyValStruct PolicyValNative PolicyValidator PolicyValEntry PolicyValSat
  PolicyValSigned PolicyValSpend PolicyValExec PolicyValMaterial.
Import ListNotations.
Local Open Scope N_scope.

(* the concrete policy's truth table is that of its embedding into semantic policies *)
Theorem C08_lift_c_eval : forall W p, evals W (lift_c p) = evalc W p.
Proof. exact lift_c_eval. Qed.
Print Assumptions C08_lift_c_eval.

(* lock partition: every world has a representative in the finite world set *)
Theorem C08_lock_partition : forall p q W,
  exists f, In f (worlds_of p q)
            /\ evals (world_of f) p = evals W p /\ evals (world_of f) q = evals W q.
Proof. exact lock_partition. Qed.
Print Assumptions C08_lock_partition.

(* (a) the decision procedure for semantic equivalence is exact *)
Theorem C08_equivb_ok : forall p q, equivb p q = true <-> forall W, evals W p = evals W q.
Proof. exact equivb_ok. Qed.
Print Assumptions C08_equivb_ok.

(* a reported distinguishing world really distinguishes *)
Theorem C08_find_diff_sound : forall p q f,
  find_diff p q = Some f -> evals (world_of f) p <> evals (world_of f) q.
Proof. exact find_diff_sound. Qed.
Print Assumptions C08_find_diff_sound.

(* (c) semantic signedness is decided exactly *)
Theorem C08_sem_signed_ok : forall p,
  sem_signedb p = true <->
  forall W, evals W p = true -> exists k, In k (keys_s p) /\ w_key W k = true.
Proof. exact sem_signedb_ok. Qed.
Print Assumptions C08_sem_signed_ok.

(* the main statement: what an accepted compilation satisfies *)
Theorem C08_validator_ok : forall c kk pol m att,
  validate_compilation c kk pol m att = true ->
  (forall W, evalc W pol = evals W (lift_ms m))
  /\ (forall W, evalc W pol = true -> exists k, w_key W k = true)
  /\ ms_facts c kk m att.
Proof. exact validator_ok. Qed.
Print Assumptions C08_validator_ok.

Theorem C08_validator_desc_ok : forall c kk bare pol m att,
  validate_descriptor c kk bare pol m att = true ->
  (forall W, evalc W pol = evals W (lift_ms m))
  /\ (bare = true -> bare_top_ok m = true)
  /\ ms_facts c kk m att.
Proof. exact validator_desc_ok. Qed.
Print Assumptions C08_validator_desc_ok.

(* the fragment restrictions of the context, spelled out *)
Theorem C08_frag_restrictions : forall c kk m att,
  ms_facts c kk m att ->
  (forall h, ~ In (MRawPkH h) (subterms m))
  /\ (legacy_like c = true -> (forall x, ~ In (MDupIf x) (subterms m)) /\ (forall x y, ~ In (MOrI x y) (subterms m)))
  /\ (c = Tap -> forall k ks, ~ In (MMulti k ks) (subterms m) /\ ~ In (MSortedMulti k ks) (subterms m))
  /\ (c <> Tap -> forall k ks, ~ In (MMultiA k ks) (subterms m) /\ ~ In (MSortedMultiA k ks) (subterms m))
  /\ (forall k, In (MPkK k) (subterms m) \/ In (MPkH k) (subterms m) -> key_ok c (kk k) = true)
  /\ (forall k ks, In (MMulti k ks) (subterms m) \/ In (MSortedMulti k ks) (subterms m) ->
                   1 <= k <= N.of_nat (length ks) /\ (length ks <= 20)%nat /\ forall x, In x ks -> key_ok c (kk x) = true)
  /\ (forall k xs, In (MThresh k xs) (subterms m) -> 1 <= k <= N.of_nat (length xs)).
Proof. exact frag_restrictions. Qed.
Print Assumptions C08_frag_restrictions.

(* the resource limits of the context, spelled out.  Script length: that of the model's encoding
   (tied to encode().len() on every output of a run) and the library's two own size figures.
   Executed non-push opcodes (every opcode above OP_16 of the script as consensus counts them +
   the keys of the CHECKMULTISIGs of the worst satisfaction), witness items, scriptSig bytes and
   stack elements of the worst satisfaction: the C09 model [ExtModel.ext_of] of the library's
   ExtData, recomputed from the OUTPUT's structure (C09 proves them to be upper bounds of the
   satisfier's witnesses and static_ops to be the exact opcode count of the encoding). *)
Theorem C08_limits_spelled : forall c kk m, limits_ok c kk m = true ->
  N.of_nat (length (encode (val_keyenv kk) m)) <= MAX_SCRIPT_SIZE_CTX c
  /\ pk_cost_of c kk m <= MAX_SCRIPT_SIZE_CTX c
  /\ lib_script_size c kk m <= MAX_SCRIPT_SIZE_CTX c
  /\ match c with
     | Bare => fits (exec_ops c kk m) 201
     | Legacy => fits (exec_ops c kk m) 201 /\ fits (ssig_bytes c kk m) 1650
     | Segwitv0 => fits (exec_ops c kk m) 201 /\ fits (option_map (N.add 1) (wit_count c kk m)) 100
                   /\ fits (stack_count c kk m) 1000
     | Tap => forall n, stack_count c kk m = Some n -> n <= 1000
     end.
Proof. exact limits_spelled. Qed.
Print Assumptions C08_limits_spelled.

(* policies too large for truth tables (near-limit stream): the structural test is sound, and on
   small policies the validator's test IS the exact truth-table decision *)
Theorem C08_equiv_dec_sound : forall p q, equiv_dec p q = true -> forall W, evals W p = evals W q.
Proof. exact equiv_dec_sound. Qed.
Print Assumptions C08_equiv_dec_sound.
Theorem C08_equiv_dec_small : forall p q, small_enough p q = true ->
  (equiv_dec p q = true <-> forall W, evals W p = evals W q).
Proof. exact equiv_dec_small. Qed.
Print Assumptions C08_equiv_dec_small.

(* Taproot outputs *)
Theorem C08_validator_tr : forall kk pol ik inpol dl expected native,
  validate_tr kk pol ik inpol dl expected native = true ->
  let leaves := map (fun x => fst (snd x)) dl in
  (forall W, evalc W pol = (inpol && w_key W ik) || existsb (fun m => evals W (lift_ms m)) leaves)
  /\ (inpol = false -> ~ In ik (keys_s (lift_c pol)) /\ ~ In ik (flat_map ms_keys leaves))
  /\ key_ok Tap (kk ik) = true
  /\ (dl = [] \/ exists t, dl = tree_depths 0 t /\ tree_maxdepth 0 t <= 128 /\ tree_leaves t = leaves)
  /\ (forall ex, expected = Some ex -> Permutation leaves ex)
  /\ Forall (fun x => ms_facts Tap kk (fst (snd x)) (snd (snd x))) dl
  (* the entry point's own promise (compile_tr_native): IF-free leaves *)
  /\ (native = true -> forall m, In m leaves ->
       script_has_if (enc (val_keyenv kk) m) = false /\ has_if_frag m = false).
Proof. exact validator_tr. Qed.
Print Assumptions C08_validator_tr.

(* "no OP_IF / OP_NOTIF / OP_IFDUP in the script" is exactly "none of the fragments d:, j:, andor,
   or_d, or_c, or_i" (the library's has_if_fragment list), for every fragment and key table *)
Theorem C08_native_exact : forall ke m, script_has_if (enc ke m) = has_if_frag m.
Proof. exact script_has_if_exact. Qed.
Print Assumptions C08_native_exact.
Theorem C08_native_spelled : forall m, has_if_frag m = false ->
  (forall x, ~ In (MDupIf x) (subterms m)) /\ (forall x, ~ In (MNonZero x) (subterms m))
  /\ (forall a b c, ~ In (MAndOr a b c) (subterms m)) /\ (forall x y, ~ In (MOrD x y) (subterms m))
  /\ (forall x y, ~ In (MOrC x y) (subterms m)) /\ (forall x y, ~ In (MOrI x y) (subterms m)).
Proof. exact no_if_frag_spelled. Qed.
Print Assumptions C08_native_spelled.

(* the entry points the driver calls: an empty list of failing clauses is an accepted validation *)
Theorem C08_run_ms_case_ok : forall c kkl bare pol m codes,
  run_ms_case c kkl bare pol m codes = [] ->
  exists att, decode_tys codes = Some att /\ validate_descriptor c (kk_of_list kkl) bare pol m att = true.
Proof. exact run_ms_case_ok. Qed.
Print Assumptions C08_run_ms_case_ok.

Theorem C08_run_tr_case_ok : forall kkl pol ik inpol dl expected native,
  run_tr_case kkl pol ik inpol dl expected native = [] ->
  exists dl', decode_leaves dl = Some dl' /\ validate_tr (kk_of_list kkl) pol ik inpol dl' expected native = true.
Proof. exact run_tr_case_ok. Qed.
Print Assumptions C08_run_tr_case_ok.

(* link with the satisfaction table: for well-typed fragments the lifted policy holds in a world
   exactly when the specification's table lists a satisfaction from the world's assets.
   Hypotheses that cannot be dropped: [ksort] is a permutation (the script of sortedmulti checks
   the SORTED keys, the lift names the written ones; for an arbitrary [ksort] the two differ --
   Theorem B's Rcan_in_table_of needs the analogous `In k (ksort ke ks) -> In k ks`), and raw_pkh
   is excluded ([vliftable]; the table lists nothing for it and the library refuses to lift it). *)
Theorem C08_lift_table : forall ke A W m t,
  (forall ks, Permutation (ksort ke ks) ks) ->
  assets_match A W -> type_of m = ROk t -> vliftable m ->
  (evals W (lift_ms m) = true <-> all_sat ke A m <> []).
Proof. exact lift_table_partial. Qed.
Print Assumptions C08_lift_table.

(* ... and down to EXECUTION, both directions (Theorem A for =>, Theorem B for <=):
   the lifted policy of a well-typed B fragment is true in W  <=>  some stack over W's material
   ([over]: every element that verifies under a key is one W can sign, every 32-byte element is
   a preimage W knows) is accepted by the Script semantics on the encoding.
   [env_ok]: the key table's keys are acceptable, kh is their hash160, hash160 is injective on
   acceptable keys (pk_h accepts ANY key with the committed hash), ksort permutes.
   [locks_sound]: a lock the transaction passes is met in W.  [realizes]: genuine assets matching
   W whose table witnesses W can produce -- discharged by [C08_realizes_closed]. *)
Theorem C08_accepted_lift : forall e ke W,
  (forall k, Exec.e_keyok e (kb ke k) = true) -> (forall k, Exec.e_hash160 e (kb ke k) = kh ke k) ->
  DenotUniqueDissat.h160_inj e -> (forall ks, Permutation (ksort ke ks) ks) -> locks_sound e W ->
  forall m t w, type_of m = ROk t -> c_base (t_corr t) = BB -> TheoremA.wf e ke m -> vliftable m ->
  Exec.accepts e (enc ke m) w = true -> over e ke W w -> evals W (lift_ms m) = true.
Proof. exact accepted_lift. Qed.
Print Assumptions C08_accepted_lift.

Theorem C08_lift_iff_spendable : forall e ke A W m t,
  env_ok e ke -> (forall kbs, Exec.e_sigok e kbs [] = false) -> locks_sound e W ->
  type_of m = ROk t -> c_base (t_corr t) = BB -> TheoremA.wf e ke m -> vliftable m ->
  realizes e ke A W m ->
  (evals W (lift_ms m) = true <-> exists w, over e ke W w /\ Exec.accepts e (enc ke m) w = true).
Proof. exact lift_iff_spendable. Qed.
Print Assumptions C08_lift_iff_spendable.

(* every element of a table witness is a public constant, a key of the key table, or a signature
   / preimage held in the assets; so a world closed under that material realises the assets *)
Theorem C08_table_material : forall ke A m,
  (forall w, In w (all_sat ke A m) -> Forall (mat ke A) w) /\ (forall w, In w (all_dsat ke A m) -> Forall (mat ke A) w).
Proof. exact table_material. Qed.
Print Assumptions C08_table_material.
Theorem C08_realizes_closed : forall e ke A W m,
  TheoremA.assets_ok e ke A -> assets_match A W -> closed_world e ke A W -> realizes e ke A W m.
Proof. exact realizes_closed. Qed.
Print Assumptions C08_realizes_closed.

(* dissatisfiable by type => the table lists a dissatisfaction *)
Theorem C08_dissat_table : forall ke A W m t,
  (forall ks, Permutation (ksort ke ks) ks) ->
  assets_match A W -> type_of m = ROk t -> vliftable m -> c_dissat (t_corr t) = true ->
  all_dsat ke A m <> [].
Proof. exact dissat_table. Qed.
Print Assumptions C08_dissat_table.

(* the type label `s` means what the property says: a fragment typed `s` is not satisfiable, as a
   policy, by a world in which none of its keys signs *)
Theorem C08_signed_sound : forall W m t,
  type_of m = ROk t -> kpos m -> m_signed (t_mall t) = true ->
  evals W (lift_ms m) = true -> exists k, In k (keys_s (lift_ms m)) /\ w_key W k = true.
Proof. exact signed_sound. Qed.
Print Assumptions C08_signed_sound.

(* ---- THE VALIDATED COMPILATION AND SCRIPT EXECUTION ----
   For an accepted validation of (policy pol, output m), in every world W:
       pol true in W   <=>   some stack over W's material is accepted by Exec.accepts on enc ke m.
   (<=) [C08_validated_accept_policy]: Theorem B (accepts_iff_Rsat) + induction over the exact
        relation Rg + validator_ok; no hypothesis about assets.  Compilation never ADDS spenders.
   (=>) Theorem A on the table witness; compilation never REMOVES spenders.  Needs the world to be
        realised by genuine assets ([realizes], or [closed_world] in the _closed form). *)
Theorem C08_validated_accept_policy : forall e ke W c kk pol m att w,
  validate_compilation c kk pol m att = true ->
  env_ok e ke -> locks_sound e W -> TheoremA.wf e ke m ->
  Exec.accepts e (enc ke m) w = true -> over e ke W w -> evalc W pol = true.
Proof. exact validated_accept_policy. Qed.
Print Assumptions C08_validated_accept_policy.

Theorem C08_validated_policy_iff_spendable : forall e ke A W c kk pol m att,
  validate_compilation c kk pol m att = true ->
  env_ok e ke -> (forall kbs, Exec.e_sigok e kbs [] = false) -> locks_sound e W -> TheoremA.wf e ke m ->
  realizes e ke A W m ->
  (evalc W pol = true <-> exists w, over e ke W w /\ Exec.accepts e (enc ke m) w = true).
Proof. exact validated_policy_iff_spendable. Qed.
Print Assumptions C08_validated_policy_iff_spendable.

Theorem C08_validated_policy_iff_spendable_closed : forall e ke A W c kk pol m att,
  validate_compilation c kk pol m att = true ->
  env_ok e ke -> (forall kbs, Exec.e_sigok e kbs [] = false) -> locks_sound e W -> TheoremA.wf e ke m ->
  TheoremA.assets_ok e ke A -> assets_match A W -> closed_world e ke A W ->
  (evalc W pol = true <-> exists w, over e ke W w /\ Exec.accepts e (enc ke m) w = true).
Proof. exact validated_policy_iff_spendable_closed. Qed.
Print Assumptions C08_validated_policy_iff_spendable_closed.

(* TOP-LEVEL SECURITY COROLLARY: every stack the compiled script accepts carries a valid signature
   under a key of the script, and the input policy holds for whoever built that stack under this
   transaction ([stack_world]: signs for k iff the stack carries an element verifying under k).
   Contrapositive: no stack without such a signature is accepted. *)
Theorem C08_validated_needs_signature : forall e ke c kk pol m att w,
  validate_compilation c kk pol m att = true ->
  env_ok e ke -> TheoremA.wf e ke m ->
  Exec.accepts e (enc ke m) w = true ->
  (exists k x, In k (keys_s (lift_ms m)) /\ In x w /\ Exec.e_sigok e (kb ke k) x = true)
  /\ evalc (stack_world e ke w) pol = true.
Proof. exact validated_needs_signature. Qed.
Print Assumptions C08_validated_needs_signature.

Theorem C08_validated_no_sigless_spend : forall e ke c kk pol m att w,
  validate_compilation c kk pol m att = true -> env_ok e ke -> TheoremA.wf e ke m ->
  (forall k x, In k (keys_s (lift_ms m)) -> In x w -> Exec.e_sigok e (kb ke k) x = false) ->
  Exec.accepts e (enc ke m) w = false.
Proof. exact validated_no_sigless_spend. Qed.
Print Assumptions C08_validated_no_sigless_spend.

(* non-vacuity of [over] / [locks_sound]: the stack's own world satisfies both, for every
   transaction and every stack *)
Theorem C08_stack_world_ok : forall e ke w,
  over e ke (stack_world e ke w) w /\ locks_sound e (stack_world e ke w).
Proof. exact (fun e ke w => conj (stack_world_over e ke w) (stack_world_locks e ke w)). Qed.
Print Assumptions C08_stack_world_ok.

(* ---- non-vacuity: concrete accepted and rejected validations
   ex_pol = or(9@pk(0),1@and(pk(1),older(144))), ex_ms = or_d(pk(0),and_v(v:pkh(1),older(144))),
   ex_ms_bad = the same with older(143)  (definitions in Proofs/PolicyValEntry.v) ---- *)

Example C08_example_accepted :
  exists att, map type_of (subterms ex_ms) = map (@ROk ty) att
              /\ validate_compilation Segwitv0 ex_kk ex_pol ex_ms att = true.
Proof. exact example_accepted. Qed.

(* swapping the lock constant changes who can spend: rejected, with a distinguishing world *)
Example C08_example_rejected :
  exists f, find_diff (lift_c ex_pol) (lift_ms ex_ms_bad) = Some f.
Proof. exact example_rejected. Qed.

(* the unit is part of a lock atom (height vs time, blocks vs 512 s): locks of different units are
   never equivalent, and the miscompilation that serves after(500000100) from after(100)'s cache
   entry (seeded change C08-3; ex_units_pol = or(and(pk(0),after(100)),and(pk(1),after(500000100))),
   ex_units_bad = andor(pk(0),after(100),and_v(v:pk(1),after(100)))) is rejected with the world
   nLockTime = 500000100 (a time): the policy's second branch holds, both branches of the output fail *)
Example C08_example_units :
  equivb (SAfter 100) (SAfter 500000100) = false
  /\ equivb (SOlder 144) (SOlder (4194304 + 144)) = false
  /\ equiv_dec (lift_c ex_units_pol) (lift_ms ex_units_bad) = false
  /\ exists f, find_diff (lift_c ex_units_pol) (lift_ms ex_units_bad) = Some f
               /\ fw_lock f = 500000100
               /\ evalc (world_of f) ex_units_pol = true /\ evals (world_of f) (lift_ms ex_units_bad) = false.
Proof. exact example_units. Qed.

(* a world-level reading of the lock partition on the example: sequence 143 vs 144 *)
Example C08_example_worlds :
  evalc (mkWorld (fun k => N.eqb k 1) (fun _ _ => false) 0 144) ex_pol = true
  /\ evalc (mkWorld (fun k => N.eqb k 1) (fun _ _ => false) 0 143) ex_pol = false
  /\ evalc (mkWorld (fun k => N.eqb k 1) (fun _ _ => false) 0 (4194304 + 144)) ex_pol = false.
Proof. exact example_worlds. Qed.
