(* C03 — non-malleable satisfactions cannot be altered by third parties.
   Full statement (NOT proved; kept visible):
     sane m -> satisfy (non-malleable) m A = Some w ->
     forall w', third_party_can_build w w' -> accepts e (enc m) w' = true -> w' = w
   where third_party_can_build: every signature in w' occurs in w, everything else is free.
   Proved here: the satisfier model's has_sig bookkeeping on which its malleability decisions
   (minimum, thresh) rest is truthful: in non-malleable mode a (dis)satisfaction marked
   has_sig = false contains no signature placeholder, for every fragment nesting and asset set;
   together with C05 (the static `m`/`s`/`e`/`f` rules equal the specification's) this is the
   model-level part.  The unbounded uniqueness statement is searched per run: alternative
   witnesses over the adversary's alphabet are executed on the extracted Script semantics. *)
From Verif Require Import Exec Ser Ast Types TypeCheck SatSpec Sat ExecLemmas TheoremA SatProofs HasSigProofs.

Theorem C03_hassig_bookkeeping_partial : forall (ke : keyenv) (se : senv) (rhs : bool) (m : ms),
  P (fst (sat_dissat ke se false rhs m)) /\ P (snd (sat_dissat ke se false rhs m)).
Proof. exact hassig_bookkeeping. Qed.
Print Assumptions C03_hassig_bookkeeping_partial.

Example C03_P_meaning : forall s, P s <-> (s_has_sig s = false -> forall l, s_stack s = WStack l -> Forall nosig l).
Proof. intros s. unfold P. tauto. Qed.
