(* C03 — non-malleable satisfactions cannot be altered by third parties.
   Full statement (PROVED at the level of the Script semantics: (U3), [C03_script_full]):
     sane m -> satisfy (non-malleable) m A = Some w ->
     forall w', third_party_can_build w w' -> accepts e (enc m) w' = true -> w' = w
   where third_party_can_build: every signature in w' occurs in w, everything else is free.

   Proved here (all theorems closed under the global context):

   (0) [C03_hassig_bookkeeping_partial] the satisfier model's has_sig bookkeeping on which its
       malleability decisions (minimum, thresh) rest is truthful: in non-malleable mode a
       (dis)satisfaction marked has_sig = false contains no signature placeholder.

   (U1) TABLE-LEVEL NON-MALLEABILITY, every fragment (leaves, all wrappers, and_v, and_b, or_b, or_c,
       or_d, or_i, andor, thresh with any 1 <= k <= n, multi, sortedmulti, multi_a, sortedmulti_a;
       raw_pk_h excluded: the table has no entry for it), no [covered] predicate is needed:
       if the non-malleable satisfier model (sat_dissat ... false rhs m, any rhs) returns a Stack
       that completes to the witness w, then w is the ONLY entry of the specification's satisfaction
       table (Ms/SatSpec.v all_sat) that a third party can build.
         - [C03_unique_table]: against ANY asset set B "below" the honest assets A (B's signatures
           are A's signatures; B's preimages never contradict A's — B may open hashes A cannot;
           same lock environment) which, among the keys of m, holds only signatures whose
           placeholder occurs in the published template ([vis]).
         - [C03_unique]: against the concrete third party [adv_assets A Pre w]: signatures = those
           of A that occur AS BYTE STRINGS in w, preimages = an arbitrary oracle Pre consistent with
           A's ([pre_consistent]; "every preimage that exists"), locks = A's (the signed
           transaction fixes nLockTime / nSequence; this is what the root's `s` justifies).
         - [C03_unique_exact]: when Pre knows at least the preimages A knows, the published witness is
           itself an entry of the third party's table ([C03_witness_in_adversary_table]); so that table,
           as a set, is EXACTLY {w}: In w' (all_sat ke (adv_assets A Pre w) m) <-> w' = w.
         - [C03_unique_dissat_table]: the same for the dissatisfaction the model returns;
           [C03_impossible_table]: what the model calls Impossible no third party can do either;
           [C03_hassig_table]: a satisfaction marked has_sig cannot be rebuilt without a signature
           of one of the fragment's keys.
       Hypotheses: type_of m = ROk t, m_nm (t_mall t) = true (the `m` flag; `s` at the root is NOT
       needed for the table statement), [uwf m] (no raw_pk_h; thresh 1 <= k <= n; multi* 1 <= k),
       NoDup (ukeys m) (no repeated keys — sanity's has_repeated_keys), linked ke A se f,
       locks_compatible se (one nLockTime/nSequence), ksort a permutation, and for the byte-level
       third party [sigs_distinct] (two keys never share a signature; a signature is not the empty
       vector, 01, 32 zero bytes, a public key or a preimage).  Each of NoDup, pre_consistent,
       sigs_distinct and "non-malleable mode" is NECESSARY: [C03_needs_distinct_keys],
       [C03_needs_preimage_consistency], [C03_needs_recognisable_signatures],
       [C03_mall_mode_is_malleable] (concrete counterexamples).
       What "unique" means at table level: the table lists only the CANONICAL dissatisfaction of a
       hash fragment (32 zero bytes) and, for and_v, also the non-canonical `sat(X) dsat(Y)` the
       library uses; other non-canonical (dis)satisfactions (any 32-byte non-preimage; and_b/or_b/
       thresh with a satisfied child that contributes 0, ...) are not table entries and are
       therefore outside U1 — they belong to the gap below.
       No typing rule of the malleability system is refuted at table level.
       Static reading of the flags, about the TABLE ALONE (no satisfier in the statement), for a fragment
       typed `m` without repeated keys and ANY asset set B (every preimage, any met locks) that holds no
       signature of the fragment's keys: typed `s` => B has no satisfaction [C03_static_signed_table];
       typed `f` => B has no dissatisfaction [C03_static_forced_table]; typed `e` => B has exactly one
       dissatisfaction and it contains no signature [C03_static_unique_dissat_table].

   (U2) SCRIPT LEVEL via Theorem A and the all-stacks theorems (kept):
         - [C03_unique_script_partial]: the published witness is accepted, every TABLE satisfaction of the third
           party is accepted (Theorem A) and equals it (U1).
         - [C03_alternative_reuses_signature_partial]: ANY accepted witness of a sane script contains a valid
           signature (C06 signed soundness), hence re-uses a published one.

   (U3) SCRIPT LEVEL, FULL STATEMENT (Theorem B closed the gap; Proofs/NonMallScript*.v), every fragment
       (thresh any k, multi, multi_a, sorted variants; raw_pk_h excluded), every signature version:
         - [C03_script_full]: type_of m = ROk t, base B, `m`, wf e ke m, no raw_pk_h, no repeated keys,
           [ifsafe]: d: / or_i only under MINIMALIF (segwit v0 / tapscript; the library's Legacy / Bare contexts
           reject them), linked ke A se f, locks_compatible se, ksort a permutation, sigs_distinct ke A, [env_ok]:
             the empty vector is no signature; for lock values in 1..2^31-1 the honest lock view is the
             environment's (check_locktime / check_sequence); no second 32-byte preimage of a hash the honest
             party can open; no second acceptable key with the hash160 of a pk_h key of the script
             (hash functions and e_sigok otherwise ARBITRARY);
           satisfy ke se f false rhs m = Some bs (any rhs; `s` at the root is not needed for the statement);
           then EVERY stack w' with accepts e (enc ke m) w' = true and [third_party_material]: each element of w'
           that is a non-empty signature accepted under a key of m is the honest party's signature for that key
           and occurs in rev bs — everything else in w' arbitrary — satisfies w' = rev bs.
           The third party can neither change the witness nor choose another spending path.
         - [C03_script_exact]: with assets_ok and [sigs_recognisable] (the only published element accepted under
           key k is A's signature for k): among the stacks without forged signature ([no_forgery]),
           accepts e (enc ke m) w' = true <-> w' = rev bs.
         - [C03_lock_view_compatible]: for EVERY environment the lock hypotheses are jointly satisfiable (the view
           "in range and met" is compatible); [C03_pre_unique_of_injective]: the preimage hypothesis follows from
           injectivity of the hash functions on 32-byte strings and genuine assets; [C03_material_of_parts].
         - [C03_script_needs_ifsafe]: under the base signature version or_i(pk(0),pk(1)) is malleable
           ([sig0 01] and [sig0 02] are both accepted): [ifsafe] is necessary.  Not a finding: the library's
           Legacy/Bare contexts reject or_i and d: (MalleableOrI / MalleableDupIf).
       How: the uniqueness invariant is redone over the exact relation R of Theorem B; every non-canonical clause of
       R (other 32-byte hash dissatisfactions, over-/partially satisfied thresh, or_b with both sides satisfied,
       and_b / andor / multi_a / j: extra dissatisfactions, other keys for pk_h, non-minimal selectors) is shown
       dead from `s` / `f` / `e` of the operands, from a missing signature, or from the environment hypotheses.
       NOTHING IS REFUTED: no sane script + witness pair violates the full statement in the model.
       REMAINING (outside the Script semantics of Script/Exec.v): signature-level malleability (the model has one
       acceptable signature per key among the material; low-S / strict DER / Schnorr), witness-size standardness
       limits, and the descriptor wrappers (wsh / sh / tr script path: C01's composition). *)
From Verif Require Import Exec Ser Ast Types TypeCheck SatSpec Sat ExecLemmas TheoremA SatProofs HasSigProofs.
From Verif Require Import CompleteProofs CompleteNonMall SignedLemmas SignedSound
  NonMallUnique NonMallUniqueThresh NonMallUniqueMulti NonMallUniqueMain NonMallUniqueExamples NonMallUniqueStatic NonMallUniqueExact NonMallScript NonMallScriptMain.
From Verif Require Import FrameBase FrameSound DenotSpec.
From Coq Require Import Permutation ZArith.

Theorem C03_hassig_bookkeeping_partial : forall (ke : keyenv) (se : senv) (rhs : bool) (m : ms),
  P (fst (sat_dissat ke se false rhs m)) /\ P (snd (sat_dissat ke se false rhs m)).
Proof. exact hassig_bookkeeping. Qed.
Print Assumptions C03_hassig_bookkeeping_partial.

Example C03_P_meaning : forall s, P s <-> (s_has_sig s = false -> forall l, s_stack s = WStack l -> Forall nosig l).
Proof. intros s. unfold P. tauto. Qed.

(* ---------------- (U1) table-level non-malleability ---------------- *)
Theorem C03_unique_table :
  forall (ke : keyenv) (A : assets) (se : senv) (f : fill),
  linked ke A se f ->
  (forall t1 t2, se_after se t1 = true -> se_after se t2 = true ->
     Bool.eqb (N.ltb t1 500000000) (N.ltb t2 500000000) = true) ->
  (forall t1 t2, se_older se t1 = true -> se_older se t2 = true ->
     Bool.eqb (rel_is_time t1) (rel_is_time t2) = true) ->
  (forall ks, Permutation (ksort ke ks) ks) ->
  forall (rhs : bool) (m : ms) (t : ty),
  uwf m -> NoDup (ukeys m) -> type_of m = ROk t -> m_nm (t_mall t) = true ->
  forall (l : list ph) (bs : list bytes),
  s_stack (snd (sat_dissat ke se false rhs m)) = WStack l -> fill_all f l = Some bs ->
  forall B : assets, below A B -> vis B (ukeys m) l ->
  forall w', In w' (all_sat ke B m) -> w' = rev bs.
Proof. exact nonmall_unique_table. Qed.
Print Assumptions C03_unique_table.

Theorem C03_unique :
  forall (ke : keyenv) (A : assets) (se : senv) (f : fill) (Pre : hkind -> bytes -> option bytes),
  linked ke A se f -> locks_compatible se -> (forall ks, Permutation (ksort ke ks) ks) ->
  sigs_distinct ke A -> pre_consistent A Pre ->
  forall (rhs : bool) (m : ms) (t : ty),
  uwf m -> NoDup (ukeys m) -> type_of m = ROk t -> m_nm (t_mall t) = true ->
  forall bs, satisfy ke se f false rhs m = Some bs ->
  forall w', In w' (all_sat ke (adv_assets A Pre (rev bs)) m) -> w' = rev bs.
Proof. exact nonmall_unique. Qed.
Print Assumptions C03_unique.

Theorem C03_witness_in_adversary_table :
  forall (ke : keyenv) (A : assets) (se : senv) (f : fill) (Pre : hkind -> bytes -> option bytes),
  linked ke A se f -> (forall ks, length (ksort ke ks) = length ks) ->
  (forall kd h p, look A kd h = Some p -> Pre kd h = Some p) ->
  forall (mall rhs : bool) (m : ms), kwf m ->
  forall bs, satisfy ke se f mall rhs m = Some bs ->
  In (rev bs) (all_sat ke (adv_assets A Pre (rev bs)) m).
Proof. exact nonmall_witness_in_adv_table. Qed.
Print Assumptions C03_witness_in_adversary_table.

Theorem C03_unique_exact :
  forall (ke : keyenv) (A : assets) (se : senv) (f : fill) (Pre : hkind -> bytes -> option bytes),
  linked ke A se f -> locks_compatible se -> (forall ks, Permutation (ksort ke ks) ks) ->
  sigs_distinct ke A -> (forall kd h p, look A kd h = Some p -> Pre kd h = Some p) ->
  forall (rhs : bool) (m : ms) (t : ty),
  uwf m -> NoDup (ukeys m) -> type_of m = ROk t -> m_nm (t_mall t) = true ->
  forall bs, satisfy ke se f false rhs m = Some bs ->
  forall w', In w' (all_sat ke (adv_assets A Pre (rev bs)) m) <-> w' = rev bs.
Proof. exact nonmall_unique_exact. Qed.
Print Assumptions C03_unique_exact.

Theorem C03_unique_dissat_table :
  forall (ke : keyenv) (A : assets) (se : senv) (f : fill),
  linked ke A se f ->
  (forall t1 t2, se_after se t1 = true -> se_after se t2 = true ->
     Bool.eqb (N.ltb t1 500000000) (N.ltb t2 500000000) = true) ->
  (forall t1 t2, se_older se t1 = true -> se_older se t2 = true ->
     Bool.eqb (rel_is_time t1) (rel_is_time t2) = true) ->
  (forall ks, Permutation (ksort ke ks) ks) ->
  forall (rhs : bool) (m : ms) (t : ty),
  uwf m -> NoDup (ukeys m) -> type_of m = ROk t -> m_nm (t_mall t) = true ->
  forall (l : list ph) (bs : list bytes),
  s_stack (fst (sat_dissat ke se false rhs m)) = WStack l -> fill_all f l = Some bs ->
  forall B : assets, below A B -> vis B (ukeys m) l ->
  forall w', In w' (all_dsat ke B m) -> w' = rev bs.
Proof. exact nonmall_unique_dissat_table. Qed.
Print Assumptions C03_unique_dissat_table.

Theorem C03_impossible_table :
  forall (ke : keyenv) (A : assets) (se : senv) (f : fill),
  linked ke A se f ->
  (forall t1 t2, se_after se t1 = true -> se_after se t2 = true ->
     Bool.eqb (N.ltb t1 500000000) (N.ltb t2 500000000) = true) ->
  (forall t1 t2, se_older se t1 = true -> se_older se t2 = true ->
     Bool.eqb (rel_is_time t1) (rel_is_time t2) = true) ->
  (forall ks, Permutation (ksort ke ks) ks) ->
  forall (rhs : bool) (m : ms) (t : ty),
  uwf m -> NoDup (ukeys m) -> type_of m = ROk t -> m_nm (t_mall t) = true ->
  s_stack (snd (sat_dissat ke se false rhs m)) = WImpossible ->
  forall B : assets, below A B -> all_sat ke B m = [].
Proof. exact nonmall_impossible_table. Qed.
Print Assumptions C03_impossible_table.

Theorem C03_hassig_table :
  forall (ke : keyenv) (A : assets) (se : senv) (f : fill),
  linked ke A se f ->
  (forall t1 t2, se_after se t1 = true -> se_after se t2 = true ->
     Bool.eqb (N.ltb t1 500000000) (N.ltb t2 500000000) = true) ->
  (forall t1 t2, se_older se t1 = true -> se_older se t2 = true ->
     Bool.eqb (rel_is_time t1) (rel_is_time t2) = true) ->
  (forall ks, Permutation (ksort ke ks) ks) ->
  forall (rhs : bool) (m : ms) (t : ty),
  uwf m -> NoDup (ukeys m) -> type_of m = ROk t -> m_nm (t_mall t) = true ->
  s_has_sig (snd (sat_dissat ke se false rhs m)) = true ->
  forall B : assets, below A B -> nosigs B (ukeys m) -> all_sat ke B m = [].
Proof. exact nonmall_hassig_table. Qed.
Print Assumptions C03_hassig_table.

(* the concrete third party is an instance of the abstract one *)
Theorem C03_adversary_is_below :
  forall (A : assets) (Pre : hkind -> bytes -> option bytes) (w : list bytes),
  pre_consistent A Pre -> below A (adv_assets A Pre w).
Proof. exact adv_below. Qed.
Print Assumptions C03_adversary_is_below.

Theorem C03_adversary_sees_only_published_signatures :
  forall (ke : keyenv) (A : assets) (se : senv) (f : fill) (Pre : hkind -> bytes -> option bytes)
         (K : list key) (l : list ph) (bs : list bytes),
  linked ke A se f -> sigs_distinct ke A -> fill_all f l = Some bs ->
  vis (adv_assets A Pre (rev bs)) K l.
Proof. exact adv_vis. Qed.
Print Assumptions C03_adversary_sees_only_published_signatures.

(* ---------------- the flags s / f / e as statements about the table alone ---------------- *)
Theorem C03_static_signed_table :
  forall (ke : keyenv), (forall ks, Permutation (ksort ke ks) ks) ->
  forall (B : assets), locks_ok B ->
  forall (m : ms) (t : ty), uwf m -> NoDup (ukeys m) -> type_of m = ROk t -> m_nm (t_mall t) = true ->
  nosigs B (ukeys m) -> m_signed (t_mall t) = true -> all_sat ke B m = [].
Proof. exact static_signed_table. Qed.
Print Assumptions C03_static_signed_table.

Theorem C03_static_forced_table :
  forall (ke : keyenv), (forall ks, Permutation (ksort ke ks) ks) ->
  forall (B : assets), locks_ok B ->
  forall (m : ms) (t : ty), uwf m -> NoDup (ukeys m) -> type_of m = ROk t -> m_nm (t_mall t) = true ->
  nosigs B (ukeys m) -> m_dissat (t_mall t) = DNone -> all_dsat ke B m = [].
Proof. exact static_forced_table. Qed.
Print Assumptions C03_static_forced_table.

Theorem C03_static_unique_dissat_table :
  forall (ke : keyenv), (forall ks, Permutation (ksort ke ks) ks) ->
  forall (B : assets), locks_ok B ->
  forall (m : ms) (t : ty), uwf m -> NoDup (ukeys m) -> type_of m = ROk t -> m_nm (t_mall t) = true ->
  nosigs B (ukeys m) -> m_dissat (t_mall t) = DUnique ->
  exists (l : list ph) (d : wit),
    Forall nosig l /\ fill_all (f_of ke B) l = Some (rev d) /\
    In d (all_dsat ke B m) /\ forall w', In w' (all_dsat ke B m) -> w' = d.
Proof. exact static_unique_dissat_table. Qed.
Print Assumptions C03_static_unique_dissat_table.

(* ---------------- (U2) script level ---------------- *)
Theorem C03_unique_script_partial :
  forall (e : env) (ke : keyenv) (A : assets) (se : senv) (f : fill) (Pre : hkind -> bytes -> option bytes),
  linked ke A se f -> locks_compatible se -> (forall ks, Permutation (ksort ke ks) ks) ->
  sigs_distinct ke A -> pre_consistent A Pre -> pre_genuine e Pre ->
  assets_ok e ke A -> (forall kbs, e_sigok e kbs [] = false) ->
  forall (m : ms) (t : ty), type_of m = ROk t -> c_base (t_corr t) = BB -> wf e ke m -> no_multi m -> NoDup (ukeys m) ->
  m_nm (t_mall t) = true -> m_signed (t_mall t) = true ->
  forall bs, satisfy ke se f false (m_signed (t_mall t)) m = Some bs ->
  accepts e (enc ke m) (rev bs) = true /\
  forall w', In w' (all_sat ke (adv_assets A Pre (rev bs)) m) ->
    accepts e (enc ke m) w' = true /\ w' = rev bs.
Proof. exact nonmall_unique_script. Qed.
Print Assumptions C03_unique_script_partial.

Theorem C03_alternative_reuses_signature_partial :
  forall (e : env) (ke : keyenv) (m : ms) (t : ty),
  type_of m = ROk t -> wf e ke m -> c_base (t_corr t) = BB -> m_signed (t_mall t) = true ->
  forall (w w' : list bytes),
    (forall x, In x w' -> validsig e x -> In x w) ->
    accepts e (enc ke m) w' = true ->
    exists x, In x w' /\ In x w /\ validsig e x.
Proof. exact accepted_alternative_reuses_signature. Qed.
Print Assumptions C03_alternative_reuses_signature_partial.

(* ---------------- the hypotheses are necessary ---------------- *)
Theorem C03_mall_mode_is_malleable :
  exists bs w', satisfy ux_ke ux_se ux_f true true ux_choice = Some bs /\
    In w' (all_sat ux_ke (adv_assets ux_A ux_Pre (rev bs)) ux_choice) /\ w' <> rev bs.
Proof. exact mall_mode_is_malleable. Qed.
Print Assumptions C03_mall_mode_is_malleable.

Theorem C03_needs_distinct_keys :
  exists t bs w', type_of ux_rep = ROk t /\ m_nm (t_mall t) = true /\ m_signed (t_mall t) = true /\ uwf ux_rep /\
    ~ NoDup (ukeys ux_rep) /\
    satisfy ux_ke ux_se ux_f false true ux_rep = Some bs /\
    In w' (all_sat ux_ke (adv_assets ux_A ux_Pre (rev bs)) ux_rep) /\ w' <> rev bs.
Proof. exact unique_needs_distinct_keys. Qed.
Print Assumptions C03_needs_distinct_keys.

Theorem C03_needs_preimage_consistency :
  exists t bs w' (Pre : hkind -> bytes -> option bytes),
    type_of ux_hash = ROk t /\ m_nm (t_mall t) = true /\ m_signed (t_mall t) = true /\ uwf ux_hash /\ NoDup (ukeys ux_hash) /\
    ~ pre_consistent ux_A Pre /\
    satisfy ux_ke ux_se ux_f false true ux_hash = Some bs /\
    In w' (all_sat ux_ke (adv_assets ux_A Pre (rev bs)) ux_hash) /\ w' <> rev bs.
Proof. exact unique_needs_preimage_consistency. Qed.
Print Assumptions C03_needs_preimage_consistency.

Theorem C03_needs_recognisable_signatures :
  exists t bs w', type_of ux_ori = ROk t /\ m_nm (t_mall t) = true /\ m_signed (t_mall t) = true /\ uwf ux_ori /\ NoDup (ukeys ux_ori) /\
    linked ux_ke ux_A1 ux_se1 ux_f1 /\ ~ sigs_distinct ux_ke ux_A1 /\
    satisfy ux_ke ux_se1 ux_f1 false true ux_ori = Some bs /\
    In w' (all_sat ux_ke (adv_assets ux_A1 (fun _ _ => None) (rev bs)) ux_ori) /\ w' <> rev bs.
Proof. exact unique_needs_recognisable_signatures. Qed.
Print Assumptions C03_needs_recognisable_signatures.

(* ---------------- non-vacuity: the hypotheses of C03_unique are satisfiable ---------------- *)
(* thresh(2, pk(0), s:pk(1), s:pk(2)), k < n: all hypotheses hold, the satisfier returns a witness, and the
   third party's table is exactly that witness (it is not empty) *)
Example C03_unique_nonvacuous_thresh :
  linked ux_ke ux_A ux_se ux_f /\ locks_compatible ux_se /\ (forall ks, Permutation (ksort ux_ke ks) ks) /\
  sigs_distinct ux_ke ux_A /\ pre_consistent ux_A ux_Pre /\
  uwf ux_thresh /\ NoDup (ukeys ux_thresh) /\
  (exists t, type_of ux_thresh = ROk t /\ m_nm (t_mall t) = true /\ m_signed (t_mall t) = true /\ c_base (t_corr t) = BB) /\
  satisfy ux_ke ux_se ux_f false true ux_thresh = Some ux_thresh_w /\
  all_sat ux_ke (adv_assets ux_A ux_Pre (rev ux_thresh_w)) ux_thresh = [rev ux_thresh_w].
Proof. exact ux_thresh_nonvacuous. Qed.

(* a genuine choice: and_v(v:pk(2), or_i(pk(0), and_v(v:sha256,and_v(v:sha256,sha256)))).  The honest table has two
   entries; non-malleable mode publishes the signature-free (larger) one; the third party's table is that one only *)
Example C03_unique_nonvacuous_choice :
  uwf ux_choice /\ NoDup (ukeys ux_choice) /\
  (exists t, type_of ux_choice = ROk t /\ m_nm (t_mall t) = true /\ m_signed (t_mall t) = true /\ c_base (t_corr t) = BB) /\
  length (all_sat ux_ke ux_A ux_choice) = 2%nat /\
  satisfy ux_ke ux_se ux_f false true ux_choice = Some ux_choice_w /\
  all_sat ux_ke (adv_assets ux_A ux_Pre (rev ux_choice_w)) ux_choice = [rev ux_choice_w].
Proof. exact ux_choice_nonvacuous. Qed.

(* the static statements: thresh(2, pk(0), s:pk(1), s:pk(2)) is typed m, s, e; a signature-less asset set that opens
   every hash has no table satisfaction and exactly one table dissatisfaction *)
Example C03_static_nonvacuous :
  (forall ks, Permutation (ksort c02x_ke ks) ks) /\ locks_ok ux_B0 /\ uwf c02x_thresh /\ NoDup (ukeys c02x_thresh) /\
  nosigs ux_B0 (ukeys c02x_thresh) /\
  (exists t, type_of c02x_thresh = ROk t /\ m_nm (t_mall t) = true /\ m_signed (t_mall t) = true /\ m_dissat (t_mall t) = DUnique) /\
  all_sat c02x_ke ux_B0 c02x_thresh = [] /\ all_dsat c02x_ke ux_B0 c02x_thresh = [[[]; []; []]].
Proof. exact static_nonvacuous. Qed.

(* ---------------- (U3) script level, full statement ---------------- *)
Theorem C03_script_full :
  forall (e : env) (ke : keyenv) (A : assets) (se : senv) (f : fill),
  linked ke A se f -> locks_compatible se -> (forall ks, Permutation (ksort ke ks) ks) -> sigs_distinct ke A ->
  forall (rhs : bool) (m : ms) (t : ty),
  type_of m = ROk t -> c_base (t_corr t) = BB -> wf e ke m -> no_multi m -> NoDup (ukeys m) -> m_nm (t_mall t) = true ->
  ifsafe (minimalif (e_sv e)) m -> env_ok e ke A (ukeys m) ->
  forall bs, satisfy ke se f false rhs m = Some bs ->
  forall w', accepts e (enc ke m) w' = true -> third_party_material e ke A (ukeys m) (rev bs) w' -> w' = rev bs.
Proof. exact nonmall_unique_script_full. Qed.
Print Assumptions C03_script_full.

Theorem C03_script_exact :
  forall (e : env) (ke : keyenv) (A : assets) (se : senv) (f : fill),
  linked ke A se f -> locks_compatible se -> (forall ks, Permutation (ksort ke ks) ks) -> sigs_distinct ke A ->
  assets_ok e ke A ->
  forall (rhs : bool) (m : ms) (t : ty),
  type_of m = ROk t -> c_base (t_corr t) = BB -> wf e ke m -> no_multi m -> NoDup (ukeys m) -> m_nm (t_mall t) = true ->
  ifsafe (minimalif (e_sv e)) m -> env_ok e ke A (ukeys m) ->
  forall bs, satisfy ke se f false rhs m = Some bs ->
  sigs_recognisable e ke A (ukeys m) (rev bs) ->
  forall w', no_forgery e ke (ukeys m) (rev bs) w' ->
    (accepts e (enc ke m) w' = true <-> w' = rev bs).
Proof. exact nonmall_script_exact. Qed.
Print Assumptions C03_script_exact.

Theorem C03_material_of_parts :
  forall (e : env) (ke : keyenv) (A : assets) (K : list key) (w w' : list bytes),
  no_forgery e ke K w w' -> sigs_recognisable e ke A K w -> third_party_material e ke A K w w'.
Proof. exact material_of_parts. Qed.
Print Assumptions C03_material_of_parts.

Theorem C03_lock_view_compatible :
  forall (e : env) (se : senv),
  (forall t, se_after se t = in_range t && check_locktime e (Z.of_N t)) ->
  (forall t, se_older se t = in_range t && check_sequence e (Z.of_N t)) -> locks_compatible se.
Proof. exact lock_view_compatible. Qed.
Print Assumptions C03_lock_view_compatible.

Theorem C03_pre_unique_of_injective :
  forall (e : env) (ke : keyenv) (A : assets), assets_ok e ke A ->
  (forall kd x1 x2, blen x1 = 32%N -> blen x2 = 32%N -> hfun e kd x1 = hfun e kd x2 -> x1 = x2) ->
  forall kd h p x, look A kd h = Some p -> blen x = 32%N -> hfun e kd x = h -> x = p.
Proof. exact pre_unique_of_injective. Qed.
Print Assumptions C03_pre_unique_of_injective.

Theorem C03_script_needs_ifsafe :
  (exists t, type_of sxb_ms = ROk t /\ c_base (t_corr t) = BB /\ m_nm (t_mall t) = true /\ m_signed (t_mall t) = true) /\
  wf sxb_env ex_ke sxb_ms /\ ~ ifsafe (minimalif (e_sv sxb_env)) sxb_ms /\
  satisfy ex_ke sx_se sx_f false true sxb_ms = Some [[2; 0; 1]; [1]]%N /\
  accepts sxb_env (enc ex_ke sxb_ms) [[1]; [2; 0; 1]]%N = true /\
  accepts sxb_env (enc ex_ke sxb_ms) [[2]; [2; 0; 1]]%N = true /\
  third_party_material sxb_env ex_ke sx_A (ukeys sxb_ms) [[1]; [2; 0; 1]]%N [[2]; [2; 0; 1]]%N.
Proof. exact script_needs_ifsafe. Qed.
Print Assumptions C03_script_needs_ifsafe.

(* non-vacuity of C03_script_full: thresh(2, pk(0), s:pk(1), s:pk(2)) in the v0 environment of FrameSound.v; every
   hypothesis holds, the published witness is accepted and meets the material condition, a rearrangement is rejected *)
Example C03_script_full_nonvacuous :
  linked ex_ke sx_A sx_se sx_f /\ locks_compatible sx_se /\ (forall ks, Permutation (ksort ex_ke ks) ks) /\ sigs_distinct ex_ke sx_A /\
  (exists t, type_of sx_ms = ROk t /\ c_base (t_corr t) = BB /\ m_nm (t_mall t) = true /\ m_signed (t_mall t) = true) /\
  wf ex_env ex_ke sx_ms /\ no_multi sx_ms /\ NoDup (ukeys sx_ms) /\ ifsafe (minimalif (e_sv ex_env)) sx_ms /\ env_ok ex_env ex_ke sx_A (ukeys sx_ms) /\
  satisfy ex_ke sx_se sx_f false true sx_ms = Some sx_bs /\
  accepts ex_env (enc ex_ke sx_ms) (rev sx_bs) = true /\
  third_party_material ex_env ex_ke sx_A (ukeys sx_ms) (rev sx_bs) (rev sx_bs) /\
  accepts ex_env (enc ex_ke sx_ms) [[2; 0; 1]; [2; 2; 1]; []]%N = false.
Proof. exact script_full_nonvacuous. Qed.
