(* C01 / C02 / C17 for scripts WITH raw key hashes (`Terminal::RawPkH`, decoded scripts only).
   Statements only. Model: Ms/RawPkhModel.v (`sat_dissat_r`: the satisfier with the real RawPkH arm of
   sat_dissat.rs, two independent lookups `rs_pk` = lookup_raw_pkh_pk, `rs_sig` = lookup_raw_pkh_ecdsa_sig /
   lookup_raw_pkh_tap_leaf_script_sig). Proofs: Proofs/RawPkhResolve*.v.

   Scope. `C01_rawpkh_satisfaction_spends_any` covers EVERY script with raw key hashes — unresolved hashes,
   hashes known to one lookup only, both modes — under: returned keys hash to the hash asked for, the raw
   signature lookup hands out only signatures the caller holds, both lookups name the same key when both
   answer, and each raw hash is the hash160 of some key of the key table. The equational results (model =
   old model on the resolved script; C02 completeness; C17 lock exactness) need every raw hash of the script
   resolved coherently (`rawpkh_ok`). For an UNRESOLVED hash the leaf returns (dissat = Unavailable,
   sat = Impossible & has_sig) — `C01_rawpkh_unresolved_leaf`. *)
From Verif Require Import Exec Ser Ast Types TypeCheck SatSpec Sat ExecLemmas TheoremA SatProofs Spend
  CompleteProofs CompleteThresh CompleteNonMall PlanProofs LockNeedSuffice LockNeedMain
  RawPkhModel RawPkhResolve RawPkhResolveLift RawPkhResolveGen RawPkhResolveEx.
Local Open Scope N_scope.

(* ---- the resolution layer ---- *)
Theorem C01_rawpkh_enc_resolve : forall (ke : keyenv) (rs : bytes -> option key) (m : ms),
  hash_matches ke rs m -> enc ke (resolve rs m) = enc ke m.
Proof. exact enc_resolve. Qed.
Print Assumptions C01_rawpkh_enc_resolve.

Theorem C01_rawpkh_encode_resolve : forall (ke : keyenv) (rs : bytes -> option key) (m : ms),
  hash_matches ke rs m -> encode ke (resolve rs m) = encode ke m.
Proof. exact encode_resolve. Qed.
Print Assumptions C01_rawpkh_encode_resolve.

Theorem C01_rawpkh_type_resolve : forall (rs : bytes -> option key) (m : ms), type_of (resolve rs m) = type_of m.
Proof. exact type_of_resolve. Qed.
Print Assumptions C01_rawpkh_type_resolve.

Theorem C01_rawpkh_no_raw_left : forall (rs : bytes -> option key) (m : ms),
  all_resolved rs m -> no_multi (resolve rs m).
Proof. exact no_raw_resolve. Qed.
Print Assumptions C01_rawpkh_no_raw_left.

(* the model with the real RawPkH arm = the model of Ms/Sat.v on the resolved script *)
Theorem C01_rawpkh_model_resolve : forall (ke : keyenv) (se : senv) (re : rawenv) (mall rhs : bool) (m : ms),
  resolved_by se re m -> sat_dissat_r ke se re mall rhs m = sat_dissat ke se mall rhs (resolve (rs_pk re) m).
Proof. exact sat_dissat_resolve. Qed.
Print Assumptions C01_rawpkh_model_resolve.

(* ---- unresolved hashes ---- *)
Theorem C01_rawpkh_unresolved_leaf : forall (re : rawenv) (h : bytes), rs_pk re h = None -> rs_sig re h = None ->
  s_stack (fst (sd_raw_pk_h re h)) = WUnavailable /\ s_stack (snd (sd_raw_pk_h re h)) = WImpossible
  /\ s_has_sig (snd (sd_raw_pk_h re h)) = true.
Proof. exact sd_raw_unresolved. Qed.
Print Assumptions C01_rawpkh_unresolved_leaf.

Theorem C01_rawpkh_unresolved_check : forall ke se re f mall rhs h, rs_sig re h = None ->
  satisfy_r ke se re f mall rhs (MCheck (MRawPkH h)) = None.
Proof. exact satisfy_unresolved_check. Qed.
Print Assumptions C01_rawpkh_unresolved_check.

Theorem C01_rawpkh_leaf_shape : forall (re : rawenv) (h : bytes),
  (forall l, s_stack (fst (sd_raw_pk_h re h)) = WStack l -> exists k, rs_pk re h = Some k /\ l = [PhPushZero; PhPubkey k]) /\
  (forall l, s_stack (snd (sd_raw_pk_h re h)) = WStack l -> exists k, rs_sig re h = Some k /\ l = [PhSig k; PhPubkey k]).
Proof. exact sd_raw_shape. Qed.
Print Assumptions C01_rawpkh_leaf_shape.

(* ---- Theorem A and the spend theorems on the script of m ---- *)
Theorem C01_rawpkh_theoremA : forall (e : env) (ke : keyenv) (A : assets) (rs : bytes -> option key),
  assets_ok e ke A -> (forall kbs, e_sigok e kbs [] = false) ->
  forall (m : ms) (t : ty), type_of m = ROk t -> wf e ke m -> all_resolved rs m -> hash_matches ke rs m ->
    good e ke A (resolve rs m) t /\ shape ke A (resolve rs m) t /\ enc ke (resolve rs m) = enc ke m.
Proof. exact theoremA_rawpkh. Qed.
Print Assumptions C01_rawpkh_theoremA.

Theorem C01_rawpkh_satisfaction_spends :
  forall (e : env) (ke : keyenv) (A : assets) (se : senv) (re : rawenv) (f : fill),
  linked ke A se f -> (forall ks, length (ksort ke ks) = length ks) ->
  assets_ok e ke A -> (forall kbs, e_sigok e kbs [] = false) ->
  forall (mall rhs : bool) (m : ms) (t : ty),
    type_of m = ROk t -> c_base (t_corr t) = BB -> wf e ke m -> rawpkh_ok ke se re m ->
    forall bs, satisfy_r ke se re f mall rhs m = Some bs -> accepts e (enc ke m) (rev bs) = true.
Proof. exact rawpkh_satisfaction_spends. Qed.
Print Assumptions C01_rawpkh_satisfaction_spends.

Theorem C01_rawpkh_wsh_spends :
  forall (e : env) (ke : keyenv) (A : assets) (se : senv) (re : rawenv) (f : fill),
  linked ke A se f -> (forall ks, length (ksort ke ks) = length ks) ->
  assets_ok (with_sv e SvWitnessV0) ke A -> (forall kbs, e_sigok e kbs [] = false) ->
  forall (mall rhs : bool) (m : ms) (t : ty),
    type_of m = ROk t -> c_base (t_corr t) = BB -> wf (with_sv e SvWitnessV0) ke m -> rawpkh_ok ke se re m ->
    forall bs, satisfy_r ke se re f mall rhs m = Some bs ->
    let sb := serialize (enc ke m) in
    parse_script sb = Some (enc ke m) ->
    (blen sb <= 3600)%N -> (N.of_nat (length bs) <= 100)%N -> forallb (fun it => N.leb (blen it) 80) (rev bs) = true ->
    (count_nonpush_ops (enc ke m) <= 201)%N ->
    verify_wsh e (e_sha256 e sb) (bs ++ [sb]) = true.
Proof. exact rawpkh_wsh_spends. Qed.
Print Assumptions C01_rawpkh_wsh_spends.

(* ---- C01 for every script with raw key hashes, whatever the raw lookups know ---- *)
Theorem C01_rawpkh_model_in_table :
  forall (ke : keyenv) (A : assets) (se : senv) (f : fill) (re : rawenv) (dflt : bytes -> key),
  linked ke A se f -> (forall ks, length (ksort ke ks) = length ks) ->
  (forall h k, rs_sig re h = Some k -> se_sig se k <> None) ->
  (forall h k k', rs_pk re h = Some k -> rs_sig re h = Some k' -> k = k') ->
  forall (mall rhs : bool) (m : ms), kwf m ->
    in_table ke A f (resolve (rs_tot re dflt) m) (sat_dissat_r ke se re mall rhs m).
Proof. exact sat_in_table_r. Qed.
Print Assumptions C01_rawpkh_model_in_table.

Theorem C01_rawpkh_satisfaction_spends_any :
  forall (e : env) (ke : keyenv) (A : assets) (se : senv) (re : rawenv) (f : fill) (dflt : bytes -> key),
  linked ke A se f -> (forall ks, length (ksort ke ks) = length ks) ->
  assets_ok e ke A -> (forall kbs, e_sigok e kbs [] = false) ->
  (forall h k, rs_sig re h = Some k -> se_sig se k <> None) ->
  (forall h k k', rs_pk re h = Some k -> rs_sig re h = Some k' -> k = k') ->
  forall (mall rhs : bool) (m : ms) (t : ty),
    type_of m = ROk t -> c_base (t_corr t) = BB -> wf e ke m ->
    hash_matches ke (rs_pk re) m -> hash_matches ke (rs_sig re) m ->
    (forall h, In h (raw_hashes m) -> kh ke (dflt h) = h) ->
    forall bs, satisfy_r ke se re f mall rhs m = Some bs -> accepts e (enc ke m) (rev bs) = true.
Proof. exact rawpkh_satisfaction_spends_gen. Qed.
Print Assumptions C01_rawpkh_satisfaction_spends_any.

(* ---- C02 ---- *)
Theorem C02_rawpkh_table_witness_spends : forall (e : env) (ke : keyenv) (A : assets) (rs : bytes -> option key),
  assets_ok e ke A -> (forall kbs, e_sigok e kbs [] = false) ->
  forall (m : ms) (t : ty), type_of m = ROk t -> c_base (t_corr t) = BB -> wf e ke m ->
    all_resolved rs m -> hash_matches ke rs m ->
    forall w, In w (all_sat ke A (resolve rs m)) -> accepts e (enc ke m) w = true.
Proof. exact table_witness_spends_rawpkh. Qed.
Print Assumptions C02_rawpkh_table_witness_spends.

Theorem C02_rawpkh_mall_satisfy_complete :
  forall (ke : keyenv) (A : assets) (se : senv) (re : rawenv) (f : fill),
  linked ke A se f -> locks_compatible se ->
  forall (rhs : bool) (m : ms), resolved_by se re m -> thresh_fit ke se rhs (resolve (rs_pk re) m) ->
    all_sat ke A (resolve (rs_pk re) m) <> [] -> exists bs, satisfy_r ke se re f true rhs m = Some bs.
Proof. exact rawpkh_mall_satisfy_complete. Qed.
Print Assumptions C02_rawpkh_mall_satisfy_complete.

Theorem C02_rawpkh_nonmall_satisfy_complete :
  forall (ke : keyenv) (A : assets) (se : senv) (re : rawenv) (f : fill),
  linked ke A se f -> locks_compatible se ->
  forall (m : ms) (t : ty), resolved_by se re m -> nm_wf se (resolve (rs_pk re) m) -> type_of m = ROk t ->
    m_nm (t_mall t) = true -> m_signed (t_mall t) = true ->
    all_sat ke A (resolve (rs_pk re) m) <> [] -> exists bs, satisfy_r ke se re f false (m_signed (t_mall t)) m = Some bs.
Proof. exact rawpkh_nonmall_satisfy_complete. Qed.
Print Assumptions C02_rawpkh_nonmall_satisfy_complete.

(* ---- C17 ---- *)
Theorem C17_rawpkh_reported_locks_exact :
  forall (e : env) (ke : keyenv) (A : assets) (se : senv) (re : rawenv) (f : fill),
  linked ke A se f -> (forall ks, length (ksort ke ks) = length ks) ->
  crypto_ok e ke A -> (forall kbs, e_sigok e kbs [] = false) ->
  forall (mall rhs : bool) (m : ms) (t : ty),
    type_of m = ROk t -> c_base (t_corr t) = BB -> wf e ke m -> rawpkh_ok ke se re m ->
    forall tpl bs, plan_template_r ke se re mall rhs m = Some tpl -> plan_complete f tpl = Some bs ->
      (accepts e (enc ke m) (rev bs) = true <-> lock_met e (plan_abs_r ke se re mall rhs m) (plan_rel_r ke se re mall rhs m)).
Proof. exact rawpkh_plan_locks_exact. Qed.
Print Assumptions C17_rawpkh_reported_locks_exact.

(* ---- non-vacuity: or_d(c:raw_pk_h(H), c:pk_k(2)), H = [0] resp. [1] = hash of key 0 resp. 1 in the toy table ---- *)
Example C01_rawpkh_ex_hypotheses :
  rawpkh_ok c02x_ke (c02x_se true) rx_re rx_m /\ rawpkh_ok c02x_ke (c02x_se true) rx_re rx_m1.
Proof. exact rx_ok. Qed.
Example C01_rawpkh_ex_typed :
  exists t, type_of rx_m = ROk t /\ c_base (t_corr t) = BB /\ m_nm (t_mall t) = true /\ m_signed (t_mall t) = true.
Proof. exact rx_typed. Qed.
Example C01_rawpkh_ex_sat :
  satisfy_r c02x_ke (c02x_se true) rx_re (c02x_f true) false true rx_m = Some [[0; 7]; [0]].
Proof. vm_compute. reflexivity. Qed.
Example C01_rawpkh_ex_sat_other_branch :
  satisfy_r c02x_ke (c02x_se true) rx_re (c02x_f true) false true rx_m1 = Some [[2; 7]; []; [1]].
Proof. vm_compute. reflexivity. Qed.
Example C01_rawpkh_ex_unresolved : forall mall,
  s_stack (snd (sat_dissat_r c02x_ke (c02x_se true) rx_none mall true rx_m)) = WUnavailable /\
  satisfy_r c02x_ke (c02x_se true) rx_none (c02x_f true) mall true rx_m = None.
Proof. exact rx_unresolved. Qed.
Example C01_rawpkh_ex_old_model_differs :
  s_stack (snd (sat_dissat c02x_ke (c02x_se true) false true rx_m)) = WImpossible.
Proof. vm_compute. reflexivity. Qed.
Example C01_rawpkh_ex_same_script :
  enc c02x_ke rx_m = enc c02x_ke (MOrD (MCheck (MPkH 0)) (MCheck (MPkK 2)))
  /\ resolve rx_pk rx_m = MOrD (MCheck (MPkH 0)) (MCheck (MPkK 2)).
Proof. exact rx_enc. Qed.
(* the general theorem's hypotheses hold for or_i(c:raw_pk_h([0]), c:raw_pk_h([1])) with [1] unknown to every lookup
   and [0] known to the raw signature lookup only; the satisfaction goes through the raw leaf *)
Example C01_rawpkh_ex_any_hypotheses :
  (forall h k, rs_sig rx_sigonly h = Some k -> se_sig (c02x_se true) k <> None) /\
  (forall h k k', rs_pk rx_sigonly h = Some k -> rs_sig rx_sigonly h = Some k' -> k = k') /\
  hash_matches c02x_ke (rs_pk rx_sigonly) rx_m2 /\ hash_matches c02x_ke (rs_sig rx_sigonly) rx_m2 /\
  (forall h, In h (raw_hashes rx_m2) -> kh c02x_ke (rx_dflt h) = h).
Proof. exact rx_gen_hyps. Qed.
Example C01_rawpkh_ex_any_sat :
  satisfy_r c02x_ke (c02x_se true) rx_sigonly (c02x_f true) false true rx_m2 = Some [[0; 7]; [0]; [1]].
Proof. vm_compute. reflexivity. Qed.
