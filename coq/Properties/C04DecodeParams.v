(* C04 x C12 — Miniscript::decode_with_validation_params(script, params) for EVERY ValidationParams
   (decode_consensus = Ctx::CONSENSUS, decode = Ctx::SANE): the C04 decoder model (lex, decode,
   check_global_validity, type check, trailing tokens) composed with the C12 validation model in the
   code's order, the facts `validate` consults being COMPUTED from the decoded AST
   (Ms/DecodeParamsModel.v: facts_of, decode_with).  Statements only; proofs in
   Proofs/DecodeParamsProofs.v and Proofs/DecodeParamsExamples.v. *)
From Verif Require Import DecodeModel CodecSpec SerProofs DecodeSound DecodeNf DecodeRefute.
From Verif Require Import ExtModel TranslateModel.
From Verif Require Import ValidateModel ValidateSpec ValidateAccept.
From Verif Require Import DecodeParamsModel DecodeParamsProofs DecodeParamsExamples.
Local Open Scope N_scope.

(* the validation step is the last one: decode_with = the MAX decoder of C04, then validate(params)
   on the facts computed from its result; errors of the earlier stages win over validation errors *)
Theorem C04_decode_with_shape : forall e p b,
  decode_with e p b = dp_after e p (decode_max e b).
Proof. exact decode_with_eq. Qed.
Print Assumptions C04_decode_with_shape.

(* [decode_with_canonical] for EVERY parameter set: an accepted byte string is the encoding of the
   result (C04_decode_canonical), and the result satisfies the declarative reading of validate(params)
   (ValidateAccept.accept = C12's validate_ok_iff: depth within the limit; no repeated key and no mixed
   time locks unless allowed; every fragment kind and every key allowed; script size, witness items,
   op count and exec stack within the limits; non-malleable, base B, signed, satisfiable unless allowed) *)
Theorem C04_decode_with_canonical : forall e p b m,
  denv_ok e -> ksort_ok (d_ke e) -> is_bytes b ->
  decode_with e p b = DpOk m ->
  encode (d_ke e) m = b /\ accept p (facts_of (d_ctx e) (d_ke e) m).
Proof. exact decode_with_canonical. Qed.
Print Assumptions C04_decode_with_canonical.

(* the same read for Miniscript::decode (Ctx::SANE) in terms of the AST: typed B, non-malleable,
   safe, no mixed time locks (ExtData's timelock_info), no key twice (PkIter order), no raw pkh,
   and the context's consensus rules (C12's [obeys]) *)
Theorem C04_decode_sane_meaning : forall e b m,
  denv_ok e -> ksort_ok (d_ke e) -> is_bytes b ->
  decode_sane e b = DpOk m ->
  encode (d_ke e) m = b /\
  (exists t, type_of m = ROk t /\ c_base (t_corr t) = BB /\ m_nm (t_mall t) = true /\ m_signed (t_mall t) = true) /\
  tl_comb (timelock_info (ext_of (dp_xctx (d_ctx e) (d_ke e)) m)) = false /\
  NoDup (keys_pre m) /\
  has_kind is_rawpkh (facts_of (d_ctx e) (d_ke e) m) = false /\
  obeys (vctx_of (d_ctx e)) (facts_of (d_ctx e) (d_ke e) m).
Proof. exact decode_sane_meaning. Qed.
Print Assumptions C04_decode_sane_meaning.

(* every parameter set entailing the context's consensus rules: accepted => obeys the context *)
Theorem C04_decode_with_obeys : forall e p b m,
  entails p (ctx_consensus (vctx_of (d_ctx e))) = true ->
  decode_with e p b = DpOk m -> obeys (vctx_of (d_ctx e)) (facts_of (d_ctx e) (d_ke e) m).
Proof. exact decode_with_obeys. Qed.
Print Assumptions C04_decode_with_obeys.

(* the computed key facts mean what they say: the key identities validate sees are the keys of the
   AST in PkIter order, and has_repeated_keys is false exactly when no key occurs twice *)
Theorem C04_decode_with_key_facts : forall c ke m,
  map k_id (all_keys (s_nodes (facts_of c ke m))) = keys_pre m /\
  (has_repeated_keys (facts_of c ke m) = false <-> NoDup (keys_pre m)).
Proof. exact (fun c ke m => conj (key_ids_facts_of c ke m) (repeated_keys_facts_of c ke m)). Qed.
Print Assumptions C04_decode_with_key_facts.

(* monotone in the parameters with the SAME result; decode => decode_consensus *)
Theorem C04_decode_with_monotone : forall e p q b m,
  entails p q = true -> decode_with e p b = DpOk m -> decode_with e q b = DpOk m.
Proof. exact decode_with_monotone. Qed.
Print Assumptions C04_decode_with_monotone.

Theorem C04_decode_sane_implies_consensus : forall e b m,
  decode_sane e b = DpOk m -> decode_consensus e b = DpOk m.
Proof. exact decode_sane_implies_consensus. Qed.
Print Assumptions C04_decode_sane_implies_consensus.

(* errors of the lexer / parser / context / type / trailing stages do not depend on the parameters;
   a validation error is validate's own answer on the facts of the script the MAX decoder returns *)
Theorem C04_decode_with_errors : forall e p q b,
  (forall err, decode_with e p b = DpErr err <-> decode_with e q b = DpErr err) /\
  (forall v, decode_with e p b = DpInvalid v <->
             exists m, decode_max e b = OOk m /\ validate p (facts_of (d_ctx e) (d_ke e) m) = VErr v).
Proof.
  exact (fun e p q b => conj (fun err => decode_with_decode_err_indep e p q b err)
                             (fun v => decode_with_invalid_iff e p b v)).
Qed.
Print Assumptions C04_decode_with_errors.

(* completeness w.r.t. encode, PARTIAL.  Full statement wanted:
     ms_wf m -> type_of m = ROk t (base B/V/K) -> validate p (facts_of m) = VOk ->
     exists m', decode_with e p (encode m) = DpOk m' /\ enc m' = enc m.
   Proved: the same with the validation hypothesis (and the decoder's own limits, as in
   C04_decode_enc) on the decoder's normal form nf m, which is the miniscript returned.
   Missing: invariance of validate's facts under nf — it does NOT hold (next theorem); the
   type-derived facts (base, non-malleable, signed) are invariant. *)
Theorem C04_decode_with_enc_partial : forall e p m t,
  ksort_ok (d_ke e) -> ms_wf (d_ctx e) (d_ke e) m ->
  type_of m = ROk t -> c_base (t_corr t) <> BW ->
  lim_ok e (nf (d_ke e) m) -> gv (d_ctx e) (d_ke e) (nf (d_ke e) m) = None ->
  validate p (facts_of (d_ctx e) (d_ke e) (nf (d_ke e) m)) = VOk ->
  decode_with e p (encode (d_ke e) m) = DpOk (nf (d_ke e) m) /\
  enc (d_ke e) (nf (d_ke e) m) = enc (d_ke e) m /\
  encode (d_ke e) (nf (d_ke e) m) = encode (d_ke e) m /\
  type_of (nf (d_ke e) m) = ROk t.
Proof. exact decode_with_enc_partial. Qed.
Print Assumptions C04_decode_with_enc_partial.

Theorem C04_decode_with_nf_type_facts : forall c ke m t, type_of m = ROk t ->
  s_base (facts_of c ke (nf ke m)) = s_base (facts_of c ke m) /\
  s_nonmall (facts_of c ke (nf ke m)) = s_nonmall (facts_of c ke m) /\
  s_signed (facts_of c ke (nf ke m)) = s_signed (facts_of c ke m).
Proof. exact facts_nf_type. Qed.
Print Assumptions C04_decode_with_nf_type_facts.

(* the full completeness statement is FALSE for Ctx::SANE: c:pk_h(A) is well formed, typed B, within
   every limit and `validate(Tap::SANE)` accepts it, yet Miniscript::decode refuses its encoding with
   IllegalRawPkh (the decoder can only produce expr_raw_pkh); decode_consensus returns the normal form
   with the identical script.  (Documented behaviour of the library, not reported as a finding.) *)
Theorem C04_decode_with_enc_refuted :
  ms_wf Tap wit_ke dp_ms_pkh /\ ksort_ok wit_ke /\
  (exists t, type_of dp_ms_pkh = ROk t /\ c_base (t_corr t) = BB) /\
  lim_ok wit_env (nf wit_ke dp_ms_pkh) /\ gv Tap wit_ke (nf wit_ke dp_ms_pkh) = None /\
  validate (ctx_sane CTap) (facts_of Tap wit_ke dp_ms_pkh) = VOk /\
  decode_sane wit_env (encode wit_ke dp_ms_pkh) = DpInvalid EIllegalRawPkh /\
  decode_consensus wit_env (encode wit_ke dp_ms_pkh) = DpOk (nf wit_ke dp_ms_pkh) /\
  enc wit_ke (nf wit_ke dp_ms_pkh) = enc wit_ke dp_ms_pkh.
Proof. exact dp_enc_refuted. Qed.
Print Assumptions C04_decode_with_enc_refuted.

(* for every parameter set and every byte string the model answers Ok, a decoding error or a
   validation error: no panic site of lex.rs / decode.rs / validate is reachable, no fuel exhaustion *)
Theorem C04_decode_with_never_panics : forall e p b,
  (exists m, decode_with e p b = DpOk m) \/ (exists err, decode_with e p b = DpErr err) \/
  (exists v, decode_with e p b = DpInvalid v).
Proof. exact decode_with_never_panics. Qed.
Print Assumptions C04_decode_with_never_panics.

(* MAX, PARTIAL.  Full statement wanted: decode_with e VP_MAX b agrees with C04's decode_max e b on every byte
   string.  Proved for results whose figures are within MAX's limits (depth <= 402, the others <= usize::MAX);
   missing: that every decoder result has such figures (the depth bound is enforced by from_ast on
   CodecExt.tree_height, not related to ExtModel's field here; the other figures are usize values in the
   code but unbounded in ExtModel).  Row 0 of every sampled byte string of the tie compares exactly this. *)
Theorem C04_decode_with_max_partial : forall e b m,
  decode_max e b = OOk m -> (forall l, within l VP_MAX (facts_of (d_ctx e) (d_ke e) m)) ->
  decode_with e VP_MAX b = DpOk m.
Proof. exact decode_with_max_partial. Qed.
Print Assumptions C04_decode_with_max_partial.

(* non-vacuity: a sane script is accepted under SANE, CONSENSUS and MAX with the same result; a
   script repeating a key is accepted by decode_consensus and refused by decode with DuplicateKeys;
   a lexer error wins over every validation error *)
Example C04_decode_with_nonvacuous :
  decode_sane wit_env (encode wit_ke dp_ms_sane) = DpOk dp_ms_sane /\
  decode_consensus wit_env (encode wit_ke dp_ms_sane) = DpOk dp_ms_sane /\
  decode_with wit_env VP_MAX (encode wit_ke dp_ms_sane) = DpOk dp_ms_sane.
Proof. exact dp_sane_accepts. Qed.
Example C04_decode_with_order :
  decode_consensus wit_env (encode wit_ke wit_ms) = DpOk wit_ms /\
  decode_sane wit_env (encode wit_ke wit_ms) = DpInvalid EDuplicateKeys /\
  decode_with wit_env VP_MAX wit_bytes = DpErr (DeLex LeNonMinimalVerify) /\
  decode_sane wit_env wit_bytes = DpErr (DeLex LeNonMinimalVerify).
Proof. exact dp_dup_keys. Qed.
