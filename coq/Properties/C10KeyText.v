(* C10 — text form of descriptor KEYS (`DescriptorPublicKey`): statements only.
   Model: Ms/KeyTextModel.v ([key_parse] = `impl FromStr for DescriptorPublicKey` with parse_key_origin,
   parse_xkey_deriv, bip32::ChildNumber::from_str, the BIP32 depth limit; [key_print] = the Display impls).
   Strings are byte lists.  The cryptographic bodies (base58check xpub/tpub, hex points) are parameters;
   [bodies_ok] (Proofs/KeyTextInst.v) is the only assumption: their parser inverts their printer, the
   printed body is alphanumeric, an extended key starts with "xpub"/"tpub" and has >= 64 characters, a
   full key has 66 or 130 characters and starts with 02/03/04, an x-only key has 64 hex characters.
   [wf_dkey] (Proofs/KeyTextProofs.v): fingerprint of 4 bytes, every index < 2^31, depth + steps
   (+ 1 for a wildcard) <= 255, and for a multipath key: the paths are  pre ++ a :: post  for >= 2
   pairwise distinct alternatives a.  The tie (Tables/KeyTextCasesCheck.v) compares [key_parse] /
   [key_print] with the compiled library on every run. *)
From Coq Require Import List Bool NArith.
From Verif Require Import MsTextModel KeyTextModel KeyTextBasics KeyTextSteps KeyTextProofs KeyTextValid KeyTextInst.
Import ListNotations.
Local Open Scope N_scope.

(* print then parse is the identity on every well-formed key: all path lengths, all indexes < 2^31,
   hardened or not, every multipath shape, every wildcard, with or without origin, all three key kinds *)
Theorem C10_key_print_parse :
  forall (xatom fatom oatom : Type) xpub_parse xpub_print xpub_depth full_parse full_print xonly_parse xonly_print,
  bodies_ok xatom fatom oatom xpub_parse xpub_print full_parse full_print xonly_parse xonly_print ->
  forall k : dkey xatom fatom oatom,
  wf_dkey xatom fatom oatom xpub_depth k ->
  key_parse xatom fatom oatom xpub_parse xpub_depth full_parse xonly_parse
    (key_print xatom fatom oatom xpub_print full_print xonly_print k) = Ok k.
Proof. exact key_print_parse_b. Qed.
Print Assumptions C10_key_print_parse.

(* whatever the parser accepts is well formed (no assumption on the bodies) *)
Theorem C10_key_parse_valid :
  forall (xatom fatom oatom : Type) xpub_parse xpub_depth full_parse xonly_parse s (k : dkey xatom fatom oatom),
  key_parse xatom fatom oatom xpub_parse xpub_depth full_parse xonly_parse s = Ok k ->
  wf_dkey xatom fatom oatom xpub_depth k.
Proof. exact key_parse_valid. Qed.
Print Assumptions C10_key_parse_valid.

(* one parse reaches the fixed point: for ANY accepted text (any spelling: h or ', upper-case
   fingerprint, "+5", "007", "/*'"), the printed key parses back to the same key, and anything the
   printed text parses to prints identically *)
Theorem C10_key_parse_print_fixpoint :
  forall (xatom fatom oatom : Type) xpub_parse xpub_print xpub_depth full_parse full_print xonly_parse xonly_print,
  bodies_ok xatom fatom oatom xpub_parse xpub_print full_parse full_print xonly_parse xonly_print ->
  forall s (k : dkey xatom fatom oatom),
  key_parse xatom fatom oatom xpub_parse xpub_depth full_parse xonly_parse s = Ok k ->
  key_parse xatom fatom oatom xpub_parse xpub_depth full_parse xonly_parse
    (key_print xatom fatom oatom xpub_print full_print xonly_print k) = Ok k /\
  (forall k',
     key_parse xatom fatom oatom xpub_parse xpub_depth full_parse xonly_parse
       (key_print xatom fatom oatom xpub_print full_print xonly_print k) = Ok k' ->
     key_print xatom fatom oatom xpub_print full_print xonly_print k'
     = key_print xatom fatom oatom xpub_print full_print xonly_print k).
Proof. exact key_parse_print_fixpoint_b. Qed.
Print Assumptions C10_key_parse_print_fixpoint.

(* the printed form is canonical: two accepted texts denote the same key iff they print identically *)
Theorem C10_key_print_canonical :
  forall (xatom fatom oatom : Type) xpub_parse xpub_print xpub_depth full_parse full_print xonly_parse xonly_print,
  bodies_ok xatom fatom oatom xpub_parse xpub_print full_parse full_print xonly_parse xonly_print ->
  forall s1 s2 (k1 k2 : dkey xatom fatom oatom),
  key_parse xatom fatom oatom xpub_parse xpub_depth full_parse xonly_parse s1 = Ok k1 ->
  key_parse xatom fatom oatom xpub_parse xpub_depth full_parse xonly_parse s2 = Ok k2 ->
  (k1 = k2 <-> key_print xatom fatom oatom xpub_print full_print xonly_print k1
               = key_print xatom fatom oatom xpub_print full_print xonly_print k2).
Proof. exact key_print_canonical_b. Qed.
Print Assumptions C10_key_print_canonical.

(* the parser reaches none of its Panic sites (slices, indexing, expect), for every byte string and
   every choice of body parsers — also serves C11 *)
Theorem C10_key_parse_never_panics :
  forall (xatom fatom oatom : Type) xpub_parse xpub_depth full_parse xonly_parse (s : tbytes) (site : N),
  key_parse xatom fatom oatom xpub_parse xpub_depth full_parse xonly_parse s <> Panic site.
Proof. exact key_parse_never_panics. Qed.
Print Assumptions C10_key_parse_never_panics.

(* the printer reaches none of its index panics (`paths[1][i]`, `p[i]`) on a well-formed key *)
Theorem C10_key_print_total :
  forall (xatom fatom oatom : Type) xpub_print xpub_depth full_print xonly_print (k : dkey xatom fatom oatom),
  wf_dkey xatom fatom oatom xpub_depth k ->
  key_print_out xatom fatom oatom xpub_print full_print xonly_print k
  = Ok (key_print xatom fatom oatom xpub_print full_print xonly_print k).
Proof. exact key_print_total. Qed.
Print Assumptions C10_key_print_total.

(* ---- non-vacuity: an instance of the parameters satisfying [bodies_ok], a realistic key *)
Example C10_key_bodies_nonvacuous :
  bodies_ok bool unit unit inst_xpub_parse inst_xpub_print inst_full_parse inst_full_print inst_xonly_parse inst_xonly_print.
Proof. exact inst_bodies_ok. Qed.

(* [d34db33f/44'/0'/0']xpub…/1/<0;1>/*  *)
Example C10_key_nonvacuous :
  inst_wf inst_k1 /\
  inst_print inst_k1
  = [91; 100; 51; 52; 100; 98; 51; 51; 102; 47; 52; 52; 39; 47; 48; 39; 47; 48; 39; 93]
    ++ inst_xpub_print true ++ [47; 49; 47; 60; 48; 59; 49; 62; 47; 42] /\
  inst_parse (inst_print inst_k1) = Ok inst_k1.
Proof. split; [exact inst_k1_wf|split; vm_compute; reflexivity]. Qed.

(* the spelling [D34DB33F/44h/+0'/00h]xpub…/+1/<0;01>/* is accepted and denotes the same key; its
   printed form is the canonical one above *)
Example C10_key_alias_nonvacuous :
  inst_parse inst_alias1 = Ok inst_k1 /\ inst_print inst_k1 <> inst_alias1.
Proof. split; [vm_compute; reflexivity|vm_compute; discriminate]. Qed.

(* the depth hypothesis of [wf_dkey] is necessary: a key built through the API with depth + steps > 255
   prints to a text the parser rejects (BIP32 depths are one byte) *)
Example C10_key_depth_needed :
  let k : inst_key := KXPub None true (repeat (CNormal 0) 253) WNone in
  inst_parse (inst_print k) = Err EDerivationPathTooLong /\
  inst_parse (inst_print (KXPub None true (repeat (CNormal 0) 252) WNone : inst_key))
  = Ok (KXPub None true (repeat (CNormal 0) 252) WNone).
Proof. split; vm_compute; reflexivity. Qed.

(* a hardened wildcard is printed "/*h" while hardened steps are printed with an apostrophe; both
   spellings of both are accepted *)
Example C10_key_hardened_markers :
  let k : inst_key := KXPub None false [CHard 7] WHard in
  inst_print k = inst_xpub_print false ++ [47; 55; 39; 47; 42; 104] /\
  inst_parse (inst_xpub_print false ++ [47; 55; 104; 47; 42; 39]) = Ok k.
Proof. split; vm_compute; reflexivity. Qed.
