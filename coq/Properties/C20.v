(* C20 — Key translation and key iteration preserve structure.
   Statements only; every proof is `exact <lemma>` (Proofs/TranslateProofs.v).

   Model (Ms/TranslateModel.v): `translate_iter f chk` = Miniscript::translate_pk_ctx as coded (loop over
   the right-to-left post-order, `translated.pop()` per child, `from_ast` re-check `chk` on every rebuilt
   node, translator `f` applied to (call index, key)); `rtl_post_stack` = the post-order iterator as coded;
   `translate_rec` / `translate` = the recursive translation; `map_keys` = substitution (specification);
   `iter_pk`, `for_each_key`, `for_any_key` = the key iterators as coded; `dkeys (dnodes m)` = the keys of
   the string form (display nodes of C19's model); `from_ast_chk` = type check + context checks.
   Pure key maps are `fun _ => fp` with fp : key -> option key; `total fp` completes fp with the identity.

   The five claims of the property, all proved for the model (no `_partial`, no `_refuted`):
     tr_id, tr_comp, tr_structure (shape, types, script), tr_fail_only, keys_exact
   plus the refinement tr_iter_refines that carries them to the algorithm as coded.
   Descriptor-level translation (`translate_desc`) is modelled and tied by the runs;
   no separate theorems are stated for it (it is a composition of the miniscript case).
   Second part of the file: the policy types (translate_pk, keys, for_each_key, for_any_key) and hash translation
   (names C20_pol_...), third part: Miniscript::translate_pk_ctx with hash translation (names C20_trh_...). *)
From Coq Require Import Permutation.
From Verif Require Import TranslateModel TranslateProofs EqOrdProofs.
From Verif Require Import TranslatePolModel TranslatePolProofs TranslateHashModel TranslateHashProofs TranslateHashDescProofs TranslateHashFailProofs.

(* ---- the algorithm as coded computes the recursive translation: same result, same first error, no panic *)
Theorem C20_tr_iter_refines : forall f chk m, translate_iter f chk m = translate f chk m.
Proof. exact translate_iter_refines. Qed.
Print Assumptions C20_tr_iter_refines.

Theorem C20_tr_iter_no_panic : forall f chk m s, translate_iter f chk m <> TPanic s.
Proof. exact translate_iter_no_panic. Qed.
Print Assumptions C20_tr_iter_no_panic.

Theorem C20_rtl_post_iter_refines : forall m, rtl_post_stack (2 * ms_size m) [(m, false)] = Some (rtl_post m).
Proof. exact rtl_post_iter_refines. Qed.
Print Assumptions C20_rtl_post_iter_refines.

(* ---- tr_id: the identity mapping yields the same object (every node of which passed from_ast before) *)
Theorem C20_tr_id : forall chk m, chk_ok chk m -> translate_iter (fun _ k => Some k) chk m = TOk m.
Proof. exact iter_id. Qed.
Print Assumptions C20_tr_id.

Theorem C20_clone_id : forall m, clone_iter m = TOk m.
Proof. exact clone_iter_id. Qed.
Print Assumptions C20_clone_id.

(* ---- tr_comp: translating by fp and then by gp is translating by their composition *)
Theorem C20_tr_comp : forall chk fp gp m m1 m2,
  translate_iter (fun _ => fp) chk m = TOk m1 -> translate_iter (fun _ => gp) chk m1 = TOk m2 ->
  translate_iter (fun _ => comp_opt fp gp) chk m = TOk m2.
Proof. exact iter_comp. Qed.
Print Assumptions C20_tr_comp.

(* ---- tr_structure: a successful translation is the substitution; shape and types are preserved;
        the script is the original script with the mapped keys' bytes *)
Theorem C20_tr_structure : forall chk fp m m',
  translate_iter (fun _ => fp) chk m = TOk m' ->
  m' = map_keys (total fp) m /\ key_shape m' = key_shape m /\ type_of m' = type_of m /\
  mapped fp (keys_pre m) /\ chk_ok chk m'.
Proof. exact iter_structure. Qed.
Print Assumptions C20_tr_structure.

Theorem C20_tr_structure_script : forall (ke ke' : keyenv) (g : key -> key),
  (forall k, kb ke' (g k) = kb ke k) -> (forall k, kh ke' (g k) = kh ke k) ->
  (forall ks, map (kb ke') (ksort ke' (map g ks)) = map (kb ke) (ksort ke ks)) ->
  forall m, enc ke' (map_keys g m) = enc ke m /\ encode ke' (map_keys g m) = encode ke m.
Proof. exact iter_structure_script. Qed.
Print Assumptions C20_tr_structure_script.

(* converse of tr_structure: if every key is mapped and every rebuilt node passes the re-check, it succeeds *)
Theorem C20_tr_complete : forall chk fp m,
  mapped fp (keys_pre m) -> chk_ok chk (map_keys (total fp) m) ->
  translate_iter (fun _ => fp) chk m = TOk (map_keys (total fp) m).
Proof. exact iter_complete. Qed.
Print Assumptions C20_tr_complete.

(* ---- tr_fail_only: a translation fails only if the mapping fails on a key of the term, or a rebuilt
        (fully mapped) sub-term is rejected by from_ast; and a node accepted before the translation is
        rejected after it only for a mapped key of a forbidden kind or the script-size limit *)
Theorem C20_tr_fail_only : forall chk fp m e,
  translate_iter (fun _ => fp) chk m = TErr e ->
  (exists i k, e = TranslatorErr i /\ In k (keys_pre m) /\ fp k = None) \/
  (exists c s, e = OuterErr c /\ In s (subterms m) /\ mapped fp (keys_pre s) /\ chk (map_keys (total fp) s) = Some c).
Proof. exact iter_fail_only. Qed.
Print Assumptions C20_tr_fail_only.

Theorem C20_tr_fail_only_context : forall c kk kk' rest size size' g s e,
  (forall t, rest (map_keys g t) = rest t) ->
  from_ast_chk c kk rest size s = None ->
  from_ast_chk c kk' rest size' (map_keys g s) = Some e ->
  (exists k, In k (node_keys s) /\ check_pk c (kk' (g k)) = Some e) \/ size' (map_keys g s) = Some e.
Proof. exact recheck_fail_only. Qed.
Print Assumptions C20_tr_fail_only_context.

(* ---- keys_exact: the key iterator, for-each-key and the translator visit exactly the keys of the
        string form (iterator and for-each-key in that order; the translator a permutation of it) *)
Theorem C20_keys_exact : forall m,
  iter_pk m (ms_size m) = Some (dkeys (dnodes m)) /\
  (forall p, fst (for_each_key p m) = forallb p (dkeys (dnodes m))) /\
  Permutation (keys_rtl m) (dkeys (dnodes m)).
Proof. exact keys_exact. Qed.
Print Assumptions C20_keys_exact.

Theorem C20_for_each_key_visits_prefix : forall p m,
  fst (for_each_key p m) = forallb p (keys_pre m) /\
  exists rest, keys_pre m = snd (for_each_key p m) ++ rest /\ (fst (for_each_key p m) = true -> rest = []).
Proof. exact for_each_key_spec. Qed.
Print Assumptions C20_for_each_key_visits_prefix.

Theorem C20_for_any_key : forall p m, for_any_key p m = existsb p (keys_pre m).
Proof. exact for_any_key_spec. Qed.
Print Assumptions C20_for_any_key.

Theorem C20_translated_keys : forall g m, keys_pre (map_keys g m) = map g (keys_pre m).
Proof. exact keys_pre_map. Qed.
Print Assumptions C20_translated_keys.

Local Open Scope N_scope.
Example C20_nonvacuous :
  let m := MAndOr (MCheck (MPkK 0)) (MCheck (MPkH 1)) (MCheck (MPkK 2)) in
  let chk := from_ast_chk Segwitv0 (fun k => if N.eqb k 12 then KUncompressed else KCompressed) (fun _ => None) (fun _ => None) in
  translate_iter (fun _ k => Some (k + 10)%N) chk m = TErr (OuterErr CUncompressed) /\
  translate_iter (fun _ k => if N.eqb k 1 then None else Some k) chk m = TErr (TranslatorErr 1) /\
  translate_iter (fun _ k => Some (k + 20)%N) chk m = TOk (MAndOr (MCheck (MPkK 20)) (MCheck (MPkH 21)) (MCheck (MPkK 22))).
Proof. exact translate_examples. Qed.

(* ==================================================================================================================
   Policies (policy::Concrete, policy::Semantic) and hash translation.
   Model (Ms/TranslatePolModel.v): a policy is a `cpol` (Ms/EqOrdPolModel.v: keys are indices, hashes are bytes, Or carries
   the odds; a semantic policy is one without And / Or, `is_semantic`).  `ptranslate_iter f fh` = translate_pk as coded
   (loop over the right-to-left post-order, `translated.pop()` per child, translator `f` on keys and `fh` on the four hash
   kinds, both functions of the call index); `ptranslate` = the recursive translation; `pmap g gh` = substitution
   (specification); `keys_of` / `atoms_of` = the keys / keys and hashes occurring in the policy, left to right;
   `pkeys`, `pfor_each_key`, `pfor_any_key` = `keys()`, `for_each_key`, `for_any_key` as coded over the pre-order
   iterator as coded (`ppre_stack`); `pshape` = the policy with every key and hash erased (variants, arities, thresholds,
   odds, lock values).  Pure translators are `fun _ => fp`, `fun _ => fhp`. *)

(* ---- the algorithm as coded computes the recursive translation; it has no panic and no OuterError *)
Theorem C20_pol_iter_refines : forall f fh p, ptranslate_iter f fh p = ptranslate f fh p.
Proof. exact ptranslate_iter_refines. Qed.
Print Assumptions C20_pol_iter_refines.

Theorem C20_pol_iter_no_panic : forall f fh p s, ptranslate_iter f fh p <> TPanic s.
Proof. exact ptranslate_iter_no_panic. Qed.
Print Assumptions C20_pol_iter_no_panic.

Theorem C20_pol_rtl_post_iter_refines : forall p, prtl_post_stack (2 * psize p) [(p, false)] = Some (prtl_post p).
Proof. exact prtl_post_iter_refines. Qed.
Print Assumptions C20_pol_rtl_post_iter_refines.

(* ---- tr_id: the identity on keys and hashes yields an equal policy *)
Theorem C20_pol_tr_id : forall p, ptranslate_iter (fun _ k => Some k) (fun _ _ h => Some h) p = TOk p.
Proof. exact piter_id. Qed.
Print Assumptions C20_pol_tr_id.

(* ---- tr_comp: translating by (fp, fhp) and then by (gp, ghp) succeeds exactly when translating by the composition
        does, and then with the same result (so a failure of either stage is a failure of the composition and vice versa) *)
Theorem C20_pol_tr_comp : forall fp fhp gp ghp p p2,
  (exists p1, ptranslate_iter (fun _ => fp) (fun _ => fhp) p = TOk p1 /\
              ptranslate_iter (fun _ => gp) (fun _ => ghp) p1 = TOk p2) <->
  ptranslate_iter (fun _ => comp_k fp gp) (fun _ => comp_h fhp ghp) p = TOk p2.
Proof. exact piter_comp. Qed.
Print Assumptions C20_pol_tr_comp.

(* ---- tr_fail_only and its converse: the translation succeeds iff the mapping is defined on every key and hash that
        occurs in the policy, and then it is the substitution; a failure is a TranslatorErr caused by an occurring atom *)
Theorem C20_pol_tr_ok_iff : forall fp fhp p p',
  ptranslate_iter (fun _ => fp) (fun _ => fhp) p = TOk p' <->
  (forall a, In a (atoms_of p) -> atom_ok fp fhp a = true) /\ p' = pmap (total_k fp) (total_h fhp) p.
Proof. exact piter_ok_iff. Qed.
Print Assumptions C20_pol_tr_ok_iff.

Theorem C20_pol_tr_fail_only : forall fp fhp p e,
  ptranslate_iter (fun _ => fp) (fun _ => fhp) p = TErr e ->
  exists i a, e = TranslatorErr i /\ In a (atoms_of p) /\ atom_ok fp fhp a = false.
Proof. exact piter_fail_only. Qed.
Print Assumptions C20_pol_tr_fail_only.

Theorem C20_pol_tr_fails_if : forall fp fhp p a,
  In a (atoms_of p) -> atom_ok fp fhp a = false ->
  exists i, ptranslate_iter (fun _ => fp) (fun _ => fhp) p = TErr (TranslatorErr i).
Proof. exact piter_fails_if. Qed.
Print Assumptions C20_pol_tr_fails_if.

(* ---- tr_structure: same shape (variants, arities, thresholds, odds, lock values), every atom mapped, the keys of the
        result are the images of the keys, a semantic policy stays semantic *)
Theorem C20_pol_tr_structure : forall fp fhp p p',
  ptranslate_iter (fun _ => fp) (fun _ => fhp) p = TOk p' ->
  p' = pmap (total_k fp) (total_h fhp) p /\ pshape p' = pshape p /\
  (forall a, In a (atoms_of p) -> atom_ok fp fhp a = true) /\
  atoms_of p' = map (amap (total_k fp) (total_h fhp)) (atoms_of p) /\
  keys_of p' = map (total_k fp) (keys_of p) /\ is_semantic p' = is_semantic p.
Proof. exact piter_structure. Qed.
Print Assumptions C20_pol_tr_structure.

(* ---- keys_exact: keys() lists exactly keys_of, in order; for_each_key p = forallb p on them, visiting a prefix (all of
        them when the result is true); for_any_key p = existsb p; the translator is called on a permutation of the atoms *)
Theorem C20_pol_keys_exact : forall p,
  pkeys p (psize p) = Some (keys_of p) /\
  (forall pr, exists visited rest,
      pfor_each_key pr p (psize p) = Some (forallb pr (keys_of p), visited) /\
      keys_of p = visited ++ rest /\ (forallb pr (keys_of p) = true -> rest = [])) /\
  (forall pr, pfor_any_key pr p (psize p) = Some (existsb pr (keys_of p))) /\
  Permutation (atoms_rtl p) (atoms_of p) /\ keys_of p = akeys (atoms_of p).
Proof. exact pkeys_exact. Qed.
Print Assumptions C20_pol_keys_exact.

Theorem C20_pol_translated_keys : forall g gh p, keys_of (pmap g gh p) = map g (keys_of p).
Proof. exact keys_of_pmap. Qed.
Print Assumptions C20_pol_translated_keys.

Example C20_pol_nonvacuous :
  let fk := fun k => if N.eqb k 1 then None else Some (k + 10) in
  let fhx := fun hk h => match hk with HHash160 => None | _ => Some (0 :: h) end in
  ptranslate_iter (fun _ k => Some (k + 10)) (fun _ _ h => Some (0 :: h)) ex_pol
    = TOk (QOr [(3, QAnd [QKey 10; QSha256 [0; 1; 2]]); (1, QThresh 2 [QKey 11; QHash160 [0; 7]; QOlder 5])]) /\
  ptranslate_iter (fun _ => fk) (fun _ _ h => Some h) ex_pol = TErr (TranslatorErr 1) /\
  ptranslate_iter (fun _ k => Some k) (fun _ => fhx) ex_pol = TErr (TranslatorErr 0) /\
  ptranslate_iter (fun n k => if N.eqb n 3 then None else Some k) (fun _ _ h => Some h) ex_pol = TErr (TranslatorErr 3) /\
  pkeys ex_pol (psize ex_pol) = Some [0; 1] /\
  pfor_each_key (fun k => negb (N.eqb k 0)) ex_pol (psize ex_pol) = Some (false, [0]) /\
  atoms_rtl ex_pol = [AHash HHash160 [7]; AKey 1; AHash HSha256 [1; 2]; AKey 0] /\
  is_semantic ex_pol = false /\ is_semantic (QThresh 1 [QKey 0; QHash256 [3]]) = true.
Proof. exact ptranslate_examples. Qed.

(* ==================================================================================================================
   Miniscript::translate_pk_ctx with hash translation (Ms/TranslateHashModel.v): `translate_iter_h f fh chk` is the loop
   as coded with the four hash arms (`t.sha256(x)?` ...), `translate_h` the recursive translation, `map_atoms g gh` the
   substitution of keys and hashes, `matoms_pre` the keys and hashes of the term in text order.  The descriptor wrappers
   (`translate_desc_h`) are tied by the runs. *)
Theorem C20_trh_iter_refines : forall f fh chk m, translate_iter_h f fh chk m = translate_h f fh chk m.
Proof. exact translate_iter_h_refines. Qed.
Print Assumptions C20_trh_iter_refines.

Theorem C20_trh_iter_no_panic : forall f fh chk m s, translate_iter_h f fh chk m <> TPanic s.
Proof. exact translate_iter_h_no_panic. Qed.
Print Assumptions C20_trh_iter_no_panic.

Theorem C20_trh_id : forall chk m, chk_ok chk m -> translate_iter_h (fun _ k => Some k) (fun _ _ h => Some h) chk m = TOk m.
Proof. exact iter_h_id. Qed.
Print Assumptions C20_trh_id.

Theorem C20_trh_comp : forall chk fp fhp gp ghp m m1 m2,
  translate_iter_h (fun _ => fp) (fun _ => fhp) chk m = TOk m1 ->
  translate_iter_h (fun _ => gp) (fun _ => ghp) chk m1 = TOk m2 ->
  translate_iter_h (fun _ => comp_k fp gp) (fun _ => comp_h fhp ghp) chk m = TOk m2.
Proof. exact iter_h_comp. Qed.
Print Assumptions C20_trh_comp.

(* success: the result is the substitution, every key and hash of the term is mapped, every rebuilt node passed from_ast *)
Theorem C20_trh_structure : forall fp fhp chk m m',
  translate_iter_h (fun _ => fp) (fun _ => fhp) chk m = TOk m' ->
  m' = map_atoms (total fp) (total_h fhp) m /\
  (forall a, In a (matoms_pre m) -> atom_ok fp fhp a = true) /\ chk_ok chk m'.
Proof. exact iter_h_structure. Qed.
Print Assumptions C20_trh_structure.

Theorem C20_trh_complete : forall fp fhp chk m,
  (forall a, In a (matoms_pre m) -> atom_ok fp fhp a = true) -> chk_ok chk (map_atoms (total fp) (total_h fhp) m) ->
  translate_iter_h (fun _ => fp) (fun _ => fhp) chk m = TOk (map_atoms (total fp) (total_h fhp) m).
Proof. exact iter_h_complete. Qed.
Print Assumptions C20_trh_complete.

(* ---- tr_fail_only for the hash machine (same form as C20_tr_fail_only): a failure is either `TranslatorErr` on a key or
        hash of the term that the mapping does not map, or `OuterErr c` for a sub-term all of whose keys and hashes are mapped
        and whose substitution from_ast rejects with c *)
Theorem C20_trh_fail_only : forall fp fhp chk m e,
  translate_iter_h (fun _ => fp) (fun _ => fhp) chk m = TErr e ->
  (exists i a, e = TranslatorErr i /\ In a (matoms_pre m) /\ atom_ok fp fhp a = false) \/
  (exists c s, e = OuterErr c /\ In s (subterms m) /\ (forall a, In a (matoms_pre s) -> atom_ok fp fhp a = true) /\
               chk (map_atoms (total fp) (total_h fhp) s) = Some c).
Proof. exact iter_h_fail_only_named. Qed.
Print Assumptions C20_trh_fail_only.

Theorem C20_trh_call_order : forall m, Permutation (matoms_rtl m) (matoms_pre m).
Proof. exact matoms_perm. Qed.
Print Assumptions C20_trh_call_order.

Example C20_trh_nonvacuous :
  let m := MAndV (MVerify (MSha256 [1; 2])) (MAndOr (MCheck (MPkK 0)) (MHash160 [9]) (MCheck (MPkH 2))) in
  let chk := from_ast_chk Segwitv0 (fun _ => KCompressed) (fun _ => None) (fun _ => None) in
  translate_iter_h (fun _ k => Some (k + 20)) (fun _ _ h => Some (7 :: h)) chk m
    = TOk (MAndV (MVerify (MSha256 [7; 1; 2])) (MAndOr (MCheck (MPkK 20)) (MHash160 [7; 9]) (MCheck (MPkH 22)))) /\
  translate_iter_h (fun _ k => Some k) (fun _ hk h => match hk with HSha256 => None | _ => Some h end) chk m = TErr (TranslatorErr 3) /\
  translate_iter_h (fun _ k => Some k) (fun n _ h => if N.eqb n 1 then None else Some h) chk m = TErr (TranslatorErr 1) /\
  matoms_rtl m = [AKey 2; AHash HHash160 [9]; AKey 0; AHash HSha256 [1; 2]].
Proof. exact translate_h_examples. Qed.

(* ---- type and script preservation for the hash machine: types do not depend on keys or hash values; the script of the
        translation is the script of the original with the hash images substituted (a hash fragment pushes its hash
        literally: `map_atoms (fun k => k) gh m` is m with every hash h of kind hk replaced by gh hk h) and the mapped keys'
        bytes / key hashes / sorted pushes in place of the originals' *)
Theorem C20_trh_structure_type : forall g gh m, type_of (map_atoms g gh m) = type_of m.
Proof. exact type_of_map_atoms. Qed.
Print Assumptions C20_trh_structure_type.

Theorem C20_trh_structure_script : forall (ke ke' : keyenv) (g : key -> key) gh,
  (forall k, kb ke' (g k) = kb ke k) -> (forall k, kh ke' (g k) = kh ke k) ->
  (forall ks, map (kb ke') (ksort ke' (map g ks)) = map (kb ke) (ksort ke ks)) ->
  forall m, enc ke' (map_atoms g gh m) = enc ke (map_atoms (fun k => k) gh m) /\
            encode ke' (map_atoms g gh m) = encode ke (map_atoms (fun k => k) gh m).
Proof. exact enc_map_atoms. Qed.
Print Assumptions C20_trh_structure_script.

Theorem C20_trh_hash_subst_keeps_keys : forall gh m, keys_pre (map_atoms (fun k => k) gh m) = keys_pre m.
Proof. exact map_hashes_keys. Qed.
Print Assumptions C20_trh_hash_subst_keeps_keys.

(* ==================================================================================================================
   Descriptor::translate_pk with hash translation, every descriptor kind (tr with its leaves): `translate_desc_h` of
   Ms/TranslateHashModel.v; `dmap` substitution, `datoms` keys and hashes in text order, `desc_ok chk kk d` = every node of
   every script passes from_ast in the wrapper's context and every single / internal key passes the context's check_pk. *)
Theorem C20_desc_h_id : forall chk kk d,
  desc_ok chk kk d -> translate_desc_h (fun _ k => Some k) (fun _ _ h => Some h) chk kk d = TOk d.
Proof. exact desc_h_id. Qed.
Print Assumptions C20_desc_h_id.

Theorem C20_desc_h_comp : forall chk kk fp fhp gp ghp d d1 d2,
  translate_desc_h (fun _ => fp) (fun _ => fhp) chk kk d = TOk d1 ->
  translate_desc_h (fun _ => gp) (fun _ => ghp) chk kk d1 = TOk d2 ->
  translate_desc_h (fun _ => comp_k fp gp) (fun _ => comp_h fhp ghp) chk kk d = TOk d2.
Proof. exact desc_h_comp. Qed.
Print Assumptions C20_desc_h_comp.

Theorem C20_desc_h_structure : forall fp fhp chk kk d d',
  translate_desc_h (fun _ => fp) (fun _ => fhp) chk kk d = TOk d' ->
  d' = dmap (total fp) (total_h fhp) d /\ (forall a, In a (datoms d) -> atom_ok fp fhp a = true) /\ desc_ok chk kk d'.
Proof. exact desc_h_structure. Qed.
Print Assumptions C20_desc_h_structure.

Theorem C20_desc_h_complete : forall fp fhp chk kk d,
  (forall a, In a (datoms d) -> atom_ok fp fhp a = true) -> desc_ok chk kk (dmap (total fp) (total_h fhp) d) ->
  translate_desc_h (fun _ => fp) (fun _ => fhp) chk kk d = TOk (dmap (total fp) (total_h fhp) d).
Proof. exact desc_h_complete. Qed.
Print Assumptions C20_desc_h_complete.

Theorem C20_desc_h_fail_only : forall fp fhp chk kk d e,
  translate_desc_h (fun _ => fp) (fun _ => fhp) chk kk d = TErr e ->
  (exists a, In a (datoms d) /\ atom_ok fp fhp a = false) \/
  ((forall a, In a (datoms d) -> atom_ok fp fhp a = true) /\ ~ desc_ok chk kk (dmap (total fp) (total_h fhp) d)).
Proof. exact desc_h_fail_only. Qed.
Print Assumptions C20_desc_h_fail_only.

Example C20_desc_h_nonvacuous :
  let chk := fun c => from_ast_chk c (fun k => if N.eqb k 31 then KUncompressed else KXOnly) (fun _ => None) (fun _ => None) in
  let kk := fun k => if N.eqb k 31 then KUncompressed else KXOnly in
  let d := DTr 0 [(1, MAndV (MVerify (MSha256 [1])) (MCheck (MPkK 1))); (1, MCheck (MPkK 2))] in
  translate_desc_h (fun _ k => Some (k + 10)) (fun _ _ h => Some (5 :: h)) chk kk d
    = TOk (DTr 10 [(1, MAndV (MVerify (MSha256 [5; 1])) (MCheck (MPkK 11))); (1, MCheck (MPkK 12))]) /\
  translate_desc_h (fun _ k => Some k) (fun _ _ _ => None) chk kk d = TErr (TranslatorErr 1) /\
  translate_desc_h (fun _ k => if N.eqb k 0 then None else Some k) (fun _ _ h => Some h) chk kk d = TErr (TranslatorErr 3) /\
  translate_desc_h (fun _ k => Some (k + 31)) (fun _ _ h => Some h) chk kk d = TErr (OuterErr CUncompressed) /\
  desc_ok chk kk d.
Proof. exact translate_desc_h_examples. Qed.
