(* C02 — satisfiable with the caller's assets implies a satisfaction is found.
   Full statement (NOT yet proved; kept visible):
     forall well-typed m (B), assets A, environment e:
       (exists w built from A, accepts e (enc m) w = true) ->
       s_stack (snd (sat_dissat ke se true root_has_sig m)) is a Stack          (malleable mode)
     and for sane m with all preimages known the same for the non-malleable mode.
   Proved here (the part the per-run check relies on): the witnesses the check proposes as
   counter-examples — entries of the specification table built from the caller's assets —
   really spend, for every fragment nesting (raw_pk_h excepted).  So a "BAD C02"
   report of the check is a genuine violation, never a false alarm of the table.
   Also proved: C02_mall_complete_partial — in malleable mode the satisfier MODEL returns a
   Stack whenever the specification table has an entry built from the caller's assets (and the
   same for dissatisfactions), for every fragment nesting whose thresholds are n-of-n
   ([no_partial_thresh]); lock values held by the caller are assumed mutually compatible
   (they stem from one nLockTime / nSequence).
   Missing: thresh with k < n (stable-sort selection argument), the non-malleable mode for
   sane scripts, and Theorem B (any accepted witness is a table entry). *)
From Verif Require Import Exec Ser Ast Types TypeCheck SatSpec Sat ExecLemmas TheoremA SatProofs CompleteProofs.

Theorem C02_table_witness_spends_partial :
  forall (e : env) (ke : keyenv) (A : assets), assets_ok e ke A -> (forall kbs, e_sigok e kbs [] = false) ->
  forall (m : ms) (t : ty), type_of m = ROk t -> c_base (t_corr t) = BB -> wf e ke m -> no_multi m ->
  forall w, In w (all_sat ke A m) -> accepts e (enc ke m) w = true.
Proof. exact witness_script_accepts. Qed.
Print Assumptions C02_table_witness_spends_partial.

Theorem C02_mall_complete_partial :
  forall (ke : keyenv) (A : assets) (se : senv) (f : fill), linked ke A se f ->
  (forall t1 t2, se_after se t1 = true -> se_after se t2 = true ->
     Bool.eqb (N.ltb t1 500000000) (N.ltb t2 500000000) = true) ->
  (forall t1 t2, se_older se t1 = true -> se_older se t2 = true ->
     Bool.eqb (rel_is_time t1) (rel_is_time t2) = true) ->
  forall (rhs : bool) (m : ms), no_partial_thresh m -> goal ke A se rhs m.
Proof. exact mall_complete. Qed.
Print Assumptions C02_mall_complete_partial.

(* what [goal] says *)
Example C02_goal_meaning : forall ke A se rhs m, goal ke A se rhs m ->
  (all_sat ke A m <> [] -> is_stack (s_stack (snd (sat_dissat ke se true rhs m))) = true) /\
  (all_dsat ke A m <> [] -> is_stack (s_stack (fst (sat_dissat ke se true rhs m))) = true).
Proof. intros ke A se rhs m [_ [_ [H1 H2]]]. split; assumption. Qed.
