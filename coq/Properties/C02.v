(* C02 — satisfiable with the caller's assets implies a satisfaction is found.
   Full statement (NOT yet proved; kept visible):
     forall well-typed m (B), assets A, environment e:
       (exists w built from A, accepts e (enc m) w = true) ->
       s_stack (snd (sat_dissat ke se true root_has_sig m)) is a Stack          (malleable mode)
     and for sane m with all preimages known the same for the non-malleable mode.
   Proved here (the part the per-run check relies on): the witnesses the check proposes as
   counter-examples — entries of the specification table built from the caller's assets —
   really spend, for every fragment nesting (raw_pk_h excepted).  So a "BAD C02"
   report of the check is a genuine violation, never a false alarm of the table.
   Missing: completeness of the satisfier model w.r.t. the table (satisfier finds a Stack
   whenever all_sat is non-empty) and Theorem B (any accepted witness is a table entry). *)
From Verif Require Import Exec Ser Ast Types TypeCheck SatSpec ExecLemmas TheoremA.

Theorem C02_table_witness_spends_partial :
  forall (e : env) (ke : keyenv) (A : assets), assets_ok e ke A -> (forall kbs, e_sigok e kbs [] = false) ->
  forall (m : ms) (t : ty), type_of m = ROk t -> c_base (t_corr t) = BB -> wf e ke m -> no_multi m ->
  forall w, In w (all_sat ke A m) -> accepts e (enc ke m) w = true.
Proof. exact witness_script_accepts. Qed.
Print Assumptions C02_table_witness_spends_partial.
