(* C02 — satisfiable with the caller's assets implies a satisfaction is found.
   Full statement (script level; NOT yet proved in this form; kept visible):
     forall well-typed m (B), assets A, environment e:
       (exists w built from A, accepts e (enc m) w = true) ->
       satisfy ke se f true root_has_sig m = Some _                              (malleable mode)
     and, for sane m whose hash preimages are all known, the same for satisfy .. false .. (non-malleable mode).

   PROVED (table level: "a witness built from A exists" is read as "the specification's
   (dis)satisfaction table all_sat ke A m has an entry"; Theorem A — C02_table_witness_spends_partial —
   shows every such entry really spends, so the table is a sound source of counter-examples):

   * C02_mall_complete          malleable mode, EVERY fragment nesting, thresh(k, ..) with k < n included:
                                table entry (resp. dissatisfaction entry) => the model returns a Stack.
                                Hypotheses: linked (satisfier view = assets); the lock values the caller
                                holds are mutually compatible (they stem from ONE nLockTime and ONE
                                nSequence: two met after() have the same unit, two met older() too —
                                otherwise concatenate_rev legitimately answers Impossible);
                                thresh_fit: in every k<n thresh the i64 difference of the two witness
                                sizes of a child lies strictly between the sentinels i64::MIN / i64::MAX
                                the sort uses (absence of overflow of `as i64 - as i64`).
   * C02_thresh_fit_of_bound    thresh_fit holds for every script with fewer than 2^55 witness elements
                                when keys weigh <= 73 bytes and signatures < 73 bytes (all real contexts).
   * C02_mall_satisfy_complete  the same down to `satisfy .. = Some bs` (templates can always be completed:
                                C02_template_completes).
   * C02_nonmall_complete       NON-malleable mode, every fragment nesting (k<n thresh included) of typed,
                                non-malleable ("m") scripts with 1 <= k <= n, no raw_pk_h, every hash
                                preimage of the script known (nm_wf), root_has_sig = true (safe root):
                                the satisfaction is never Unavailable; it is a Stack whenever the table has
                                an entry; "s" fragments yield signed-or-Impossible satisfactions.
   * C02_nonmall_dissat         "e" fragments: the dissatisfaction is a signature-free lock-free Stack;
                                "f" fragments: it is signed or Impossible.
   * C02_nonmall_satisfy_complete   sane script (m, s) => satisfy .. false (root "s") .. = Some bs.
   * tightness: C02_nonmall_needs_preimages (without the preimage the sane script
     and_v(v:pk(2),or_i(pk(0),sha256(H))) gets Unavailable although [sig0 1 sig2] spends — the
     library's documented conservatism, which is why the property demands all preimages),
     C02_nonmall_needs_safe_root (or_i(pk(0),after(10)), not "s"), C02_mall_thresh_fit_needed (model only:
     a 2^63-byte signature).
   * C02_mall_complete_partial  (earlier, n-of-n thresholds only) is kept; it is subsumed.

   STILL MISSING for the full statement: Theorem B (every witness the Script semantics accepts that is
   built from A is, up to the malleations the type system allows, a table entry); raw_pk_h (not modelled:
   it only arises from decoding). *)
From Verif Require Import Exec Ser Ast Types TypeCheck SatSpec Sat ExecLemmas TheoremA SatProofs CompleteProofs
  CompleteThresh CompleteNonMall.

Theorem C02_table_witness_spends_partial :
  forall (e : env) (ke : keyenv) (A : assets), assets_ok e ke A -> (forall kbs, e_sigok e kbs [] = false) ->
  forall (m : ms) (t : ty), type_of m = ROk t -> c_base (t_corr t) = BB -> wf e ke m -> no_multi m ->
  forall w, In w (all_sat ke A m) -> accepts e (enc ke m) w = true.
Proof. exact witness_script_accepts. Qed.
Print Assumptions C02_table_witness_spends_partial.

Theorem C02_mall_complete_partial :
  forall (ke : keyenv) (A : assets) (se : senv) (f : fill), linked ke A se f ->
  (forall t1 t2, se_after se t1 = true -> se_after se t2 = true ->
     Bool.eqb (N.ltb t1 500000000) (N.ltb t2 500000000) = true) ->
  (forall t1 t2, se_older se t1 = true -> se_older se t2 = true ->
     Bool.eqb (rel_is_time t1) (rel_is_time t2) = true) ->
  forall (rhs : bool) (m : ms), no_partial_thresh m -> goal ke A se rhs m.
Proof. exact mall_complete. Qed.
Print Assumptions C02_mall_complete_partial.

(* what [goal] says *)
Example C02_goal_meaning : forall ke A se rhs m, goal ke A se rhs m ->
  (all_sat ke A m <> [] -> is_stack (s_stack (snd (sat_dissat ke se true rhs m))) = true) /\
  (all_dsat ke A m <> [] -> is_stack (s_stack (fst (sat_dissat ke se true rhs m))) = true).
Proof. intros ke A se rhs m [_ [_ [H1 H2]]]. split; assumption. Qed.

(* ---- malleable mode, all thresholds ---- *)
Theorem C02_mall_complete :
  forall (ke : keyenv) (A : assets) (se : senv) (f : fill), linked ke A se f ->
  (forall t1 t2, se_after se t1 = true -> se_after se t2 = true ->
     Bool.eqb (N.ltb t1 500000000) (N.ltb t2 500000000) = true) ->
  (forall t1 t2, se_older se t1 = true -> se_older se t2 = true ->
     Bool.eqb (rel_is_time t1) (rel_is_time t2) = true) ->
  forall (rhs : bool) (m : ms), thresh_fit ke se rhs m -> goal ke A se rhs m.
Proof. exact mall_complete_thresh. Qed.
Print Assumptions C02_mall_complete.

Theorem C02_thresh_fit_of_bound :
  forall (ke : keyenv) (se : senv),
  (forall k, (se_pklen se k <= 73)%N) -> (forall k sz, se_sig se k = Some sz -> (sz < 73)%N) ->
  forall (rhs : bool) (m : ms), (N.of_nat (max_elems ke m) < 2 ^ 55)%N -> thresh_fit ke se rhs m.
Proof. exact fit_of_bound. Qed.
Print Assumptions C02_thresh_fit_of_bound.

Theorem C02_template_completes :
  forall (ke : keyenv) (A : assets) (se : senv) (f : fill), linked ke A se f ->
  forall (mall rhs : bool) (m : ms),
    is_stack (s_stack (snd (sat_dissat ke se mall rhs m))) = true -> exists bs, satisfy ke se f mall rhs m = Some bs.
Proof. exact satisfy_of_stack. Qed.
Print Assumptions C02_template_completes.

Theorem C02_mall_satisfy_complete :
  forall (ke : keyenv) (A : assets) (se : senv) (f : fill), linked ke A se f -> locks_compatible se ->
  forall (rhs : bool) (m : ms), thresh_fit ke se rhs m ->
    all_sat ke A m <> [] -> exists bs, satisfy ke se f true rhs m = Some bs.
Proof. exact mall_satisfy_complete. Qed.
Print Assumptions C02_mall_satisfy_complete.

(* ---- non-malleable mode ---- *)
Theorem C02_nonmall_complete :
  forall (ke : keyenv) (A : assets) (se : senv) (f : fill), linked ke A se f -> locks_compatible se ->
  forall (m : ms) (t : ty), nm_wf se m -> type_of m = ROk t -> m_nm (t_mall t) = true ->
    let s := snd (sat_dissat ke se false true m) in
    s_stack s <> WUnavailable /\
    (m_signed (t_mall t) = true -> is_imp (s_stack s) = true \/ s_has_sig s = true) /\
    (all_sat ke A m <> [] -> is_stack (s_stack s) = true).
Proof. exact nonmall_complete. Qed.
Print Assumptions C02_nonmall_complete.

Theorem C02_nonmall_dissat :
  forall (ke : keyenv) (A : assets) (se : senv) (f : fill), linked ke A se f -> locks_compatible se ->
  forall (m : ms) (t : ty), nm_wf se m -> type_of m = ROk t ->
    let d := fst (sat_dissat ke se false true m) in
    (m_dissat (t_mall t) = DNone -> is_imp (s_stack d) = true \/ s_has_sig d = true) /\
    (m_nm (t_mall t) = true -> m_dissat (t_mall t) = DUnique ->
       is_stack (s_stack d) = true /\ s_has_sig d = false /\ s_abs d = None /\ s_rel d = None).
Proof. exact nonmall_dissat. Qed.
Print Assumptions C02_nonmall_dissat.

Theorem C02_nonmall_satisfy_complete :
  forall (ke : keyenv) (A : assets) (se : senv) (f : fill), linked ke A se f -> locks_compatible se ->
  forall (m : ms) (t : ty), nm_wf se m -> type_of m = ROk t ->
    m_nm (t_mall t) = true -> m_signed (t_mall t) = true ->
    all_sat ke A m <> [] -> exists bs, satisfy ke se f false (m_signed (t_mall t)) m = Some bs.
Proof. exact nonmall_satisfy_complete. Qed.
Print Assumptions C02_nonmall_satisfy_complete.

(* ---- the hypotheses are needed ---- *)
Theorem C02_nonmall_needs_preimages :
  exists ke A se f m t, linked ke A se f /\ locks_compatible se /\ type_of m = ROk t /\
    m_nm (t_mall t) = true /\ m_signed (t_mall t) = true /\ all_sat ke A m <> [] /\
    s_stack (snd (sat_dissat ke se false true m)) = WUnavailable /\
    is_stack (s_stack (snd (sat_dissat ke se true true m))) = true.
Proof. exact nonmall_needs_preimages. Qed.
Print Assumptions C02_nonmall_needs_preimages.

Theorem C02_nonmall_needs_safe_root :
  exists ke A se f m t, linked ke A se f /\ locks_compatible se /\ type_of m = ROk t /\
    m_nm (t_mall t) = true /\ m_signed (t_mall t) = false /\ all_sat ke A m <> [] /\
    s_stack (snd (sat_dissat ke se false (m_signed (t_mall t)) m)) = WUnavailable.
Proof. exact nonmall_needs_safe_root. Qed.
Print Assumptions C02_nonmall_needs_safe_root.

Theorem C02_mall_thresh_fit_needed :
  exists ke A se f m, linked ke A se f /\ locks_compatible se /\ all_sat ke A m <> [] /\
    s_stack (snd (sat_dissat ke se true true m)) = WImpossible.
Proof. exact mall_thresh_fit_needed. Qed.
Print Assumptions C02_mall_thresh_fit_needed.

(* ---- non-vacuity: thresh(2, pk(0), s:pk(1), s:pk(2)), signatures for keys 0 and 2 only ---- *)
Example C02_ex_hypotheses :
  linked c02x_ke (c02x_A true) (c02x_se true) (c02x_f true) /\ locks_compatible (c02x_se true) /\
  thresh_fit c02x_ke (c02x_se true) true c02x_thresh /\ nm_wf (c02x_se true) c02x_thresh /\
  (exists t, type_of c02x_thresh = ROk t /\ m_nm (t_mall t) = true /\ m_signed (t_mall t) = true).
Proof. exact (conj (c02x_linked true) (conj (c02x_locks true) (conj c02x_thresh_fit (conj c02x_thresh_wf c02x_thresh_typed)))). Qed.
Example C02_ex_table : all_sat c02x_ke (c02x_A true) c02x_thresh = [[[0; 7]; []; [2; 7]]]%N.
Proof. exact c02x_thresh_table. Qed.
Example C02_ex_mall : s_stack (snd (sat_dissat c02x_ke (c02x_se true) true true c02x_thresh)) = WStack [PhSig 2%N; PhPushZero; PhSig 0%N].
Proof. exact c02x_thresh_mall. Qed.
Example C02_ex_nonmall : s_stack (snd (sat_dissat c02x_ke (c02x_se true) false true c02x_thresh)) = WStack [PhSig 2%N; PhPushZero; PhSig 0%N].
Proof. exact c02x_thresh_nonmall. Qed.
Example C02_ex_satisfy_mall : satisfy c02x_ke (c02x_se true) (c02x_f true) true true c02x_thresh = Some [[2; 7]; []; [0; 7]]%N.
Proof. exact c02x_thresh_satisfy_mall. Qed.
Example C02_ex_satisfy_nonmall : satisfy c02x_ke (c02x_se true) (c02x_f true) false true c02x_thresh = Some [[2; 7]; []; [0; 7]]%N.
Proof. exact c02x_thresh_satisfy_nonmall. Qed.
