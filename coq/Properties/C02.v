(* C02 — satisfiable with the caller's assets implies a satisfaction is found.
   Full statement (script level):
     forall well-typed m (B), assets A, environment e:
       (exists w built from A, accepts e (enc m) w = true) ->
       satisfy ke se f true root_has_sig m = Some _                              (malleable mode)
     and, for sane m whose hash preimages are all known, the same for satisfy .. false .. (non-malleable mode).

   PROVED AT THE SCRIPT LEVEL (with Theorem B, accepts <-> the exact relation Rsat, Properties/TheoremB.v):
   * C02_script_complete_mall / C02_script_complete_mall_spends: for every well-typed B fragment (all
     constructors except raw_pk_h), if the Script semantics accepts SOME stack w that is built from
     material the caller holds ([built_from e ke A m w]: every valid signature in w for key k, or for a
     key hashing to k's hash160, means A holds a signature for k; every image of m that a 32-byte element
     of w opens has a preimage in A; every lock of m the transaction meets is held by A), then the
     malleable-mode model returns Some bs -- and bs spends.  Hypotheses otherwise as at table level
     (linked, locks_compatible, thresh_fit, wf, empty signatures never verify).
   * C02_script_complete_nonmall / _spends: the same for the non-malleable mode on sane scripts
     ("m", "s", nm_wf: all preimages of the script's hashes known).
   * C02_script_table_entry: the canonicalisation: accepted stack built from A => all_sat ke A m <> [].
     C02_d_has_table_dissat: a fragment typed "d" has a table dissatisfaction under ANY assets -- this is
     why the non-canonical dissatisfactions the script accepts (over-satisfied thresh, and_b with one side
     satisfied, non-zero hash dissatisfaction, ...) never cost completeness: parents only use the
     dissatisfaction of "d" children.  No _refuted statement arises at this level.

   PROVED (table level: "a witness built from A exists" is read as "the specification's
   (dis)satisfaction table all_sat ke A m has an entry"; Theorem A — C02_table_witness_spends_partial —
   shows every such entry really spends, so the table is a sound source of counter-examples):

   * C02_mall_complete          malleable mode, EVERY fragment nesting, thresh(k, ..) with k < n included:
                                table entry (resp. dissatisfaction entry) => the model returns a Stack.
                                Hypotheses: linked (satisfier view = assets); the lock values the caller
                                holds are mutually compatible (they stem from ONE nLockTime and ONE
                                nSequence: two met after() have the same unit, two met older() too —
                                otherwise concatenate_rev legitimately answers Impossible);
                                thresh_fit: in every k<n thresh the i64 difference of the two witness
                                sizes of a child lies strictly between the sentinels i64::MIN / i64::MAX
                                the sort uses (absence of overflow of `as i64 - as i64`).
   * C02_thresh_fit_of_bound    thresh_fit holds for every script with fewer than 2^55 witness elements
                                when keys weigh <= 73 bytes and signatures < 73 bytes (all real contexts).
   * C02_mall_satisfy_complete  the same down to `satisfy .. = Some bs` (templates can always be completed:
                                C02_template_completes).
   * C02_nonmall_complete       NON-malleable mode, every fragment nesting (k<n thresh included) of typed,
                                non-malleable ("m") scripts with 1 <= k <= n, no raw_pk_h, every hash
                                preimage of the script known (nm_wf), root_has_sig = true (safe root):
                                the satisfaction is never Unavailable; it is a Stack whenever the table has
                                an entry; "s" fragments yield signed-or-Impossible satisfactions.
   * C02_nonmall_dissat         "e" fragments: the dissatisfaction is a signature-free lock-free Stack;
                                "f" fragments: it is signed or Impossible.
   * C02_nonmall_satisfy_complete   sane script (m, s) => satisfy .. false (root "s") .. = Some bs.
   * tightness: C02_nonmall_needs_preimages (without the preimage the sane script
     and_v(v:pk(2),or_i(pk(0),sha256(H))) gets Unavailable although [sig0 1 sig2] spends — the
     library's documented conservatism, which is why the property demands all preimages),
     C02_nonmall_needs_safe_root (or_i(pk(0),after(10)), not "s"), C02_mall_thresh_fit_needed (model only:
     a 2^63-byte signature).
   * C02_mall_complete_partial  (earlier, n-of-n thresholds only) is kept; it is subsumed.

   STILL MISSING: raw_pk_h (not modelled: it only arises from decoding; the table lists nothing for it);
   base types other than B at top level (a witness script is B); descriptor wrappers (covered by the
   per-run check, not by these theorems). *)
From Verif Require Import Exec Ser Ast Types TypeCheck SatSpec Sat ExecLemmas TheoremA SatProofs CompleteProofs
  CompleteThresh CompleteNonMall DenotSpec DenotMain CompleteScript CompleteScriptEx FrameSound DenotExamples.

Theorem C02_table_witness_spends_partial :
  forall (e : env) (ke : keyenv) (A : assets), assets_ok e ke A -> (forall kbs, e_sigok e kbs [] = false) ->
  forall (m : ms) (t : ty), type_of m = ROk t -> c_base (t_corr t) = BB -> wf e ke m -> no_multi m ->
  forall w, In w (all_sat ke A m) -> accepts e (enc ke m) w = true.
Proof. exact witness_script_accepts. Qed.
Print Assumptions C02_table_witness_spends_partial.

Theorem C02_mall_complete_partial :
  forall (ke : keyenv) (A : assets) (se : senv) (f : fill), linked ke A se f ->
  (forall t1 t2, se_after se t1 = true -> se_after se t2 = true ->
     Bool.eqb (N.ltb t1 500000000) (N.ltb t2 500000000) = true) ->
  (forall t1 t2, se_older se t1 = true -> se_older se t2 = true ->
     Bool.eqb (rel_is_time t1) (rel_is_time t2) = true) ->
  forall (rhs : bool) (m : ms), no_partial_thresh m -> goal ke A se rhs m.
Proof. exact mall_complete. Qed.
Print Assumptions C02_mall_complete_partial.

(* what [goal] says *)
Example C02_goal_meaning : forall ke A se rhs m, goal ke A se rhs m ->
  (all_sat ke A m <> [] -> is_stack (s_stack (snd (sat_dissat ke se true rhs m))) = true) /\
  (all_dsat ke A m <> [] -> is_stack (s_stack (fst (sat_dissat ke se true rhs m))) = true).
Proof. intros ke A se rhs m [_ [_ [H1 H2]]]. split; assumption. Qed.

(* ---- malleable mode, all thresholds ---- *)
Theorem C02_mall_complete :
  forall (ke : keyenv) (A : assets) (se : senv) (f : fill), linked ke A se f ->
  (forall t1 t2, se_after se t1 = true -> se_after se t2 = true ->
     Bool.eqb (N.ltb t1 500000000) (N.ltb t2 500000000) = true) ->
  (forall t1 t2, se_older se t1 = true -> se_older se t2 = true ->
     Bool.eqb (rel_is_time t1) (rel_is_time t2) = true) ->
  forall (rhs : bool) (m : ms), thresh_fit ke se rhs m -> goal ke A se rhs m.
Proof. exact mall_complete_thresh. Qed.
Print Assumptions C02_mall_complete.

Theorem C02_thresh_fit_of_bound :
  forall (ke : keyenv) (se : senv),
  (forall k, (se_pklen se k <= 73)%N) -> (forall k sz, se_sig se k = Some sz -> (sz < 73)%N) ->
  forall (rhs : bool) (m : ms), (N.of_nat (max_elems ke m) < 2 ^ 55)%N -> thresh_fit ke se rhs m.
Proof. exact fit_of_bound. Qed.
Print Assumptions C02_thresh_fit_of_bound.

Theorem C02_template_completes :
  forall (ke : keyenv) (A : assets) (se : senv) (f : fill), linked ke A se f ->
  forall (mall rhs : bool) (m : ms),
    is_stack (s_stack (snd (sat_dissat ke se mall rhs m))) = true -> exists bs, satisfy ke se f mall rhs m = Some bs.
Proof. exact satisfy_of_stack. Qed.
Print Assumptions C02_template_completes.

Theorem C02_mall_satisfy_complete :
  forall (ke : keyenv) (A : assets) (se : senv) (f : fill), linked ke A se f -> locks_compatible se ->
  forall (rhs : bool) (m : ms), thresh_fit ke se rhs m ->
    all_sat ke A m <> [] -> exists bs, satisfy ke se f true rhs m = Some bs.
Proof. exact mall_satisfy_complete. Qed.
Print Assumptions C02_mall_satisfy_complete.

(* ---- non-malleable mode ---- *)
Theorem C02_nonmall_complete :
  forall (ke : keyenv) (A : assets) (se : senv) (f : fill), linked ke A se f -> locks_compatible se ->
  forall (m : ms) (t : ty), nm_wf se m -> type_of m = ROk t -> m_nm (t_mall t) = true ->
    let s := snd (sat_dissat ke se false true m) in
    s_stack s <> WUnavailable /\
    (m_signed (t_mall t) = true -> is_imp (s_stack s) = true \/ s_has_sig s = true) /\
    (all_sat ke A m <> [] -> is_stack (s_stack s) = true).
Proof. exact nonmall_complete. Qed.
Print Assumptions C02_nonmall_complete.

Theorem C02_nonmall_dissat :
  forall (ke : keyenv) (A : assets) (se : senv) (f : fill), linked ke A se f -> locks_compatible se ->
  forall (m : ms) (t : ty), nm_wf se m -> type_of m = ROk t ->
    let d := fst (sat_dissat ke se false true m) in
    (m_dissat (t_mall t) = DNone -> is_imp (s_stack d) = true \/ s_has_sig d = true) /\
    (m_nm (t_mall t) = true -> m_dissat (t_mall t) = DUnique ->
       is_stack (s_stack d) = true /\ s_has_sig d = false /\ s_abs d = None /\ s_rel d = None).
Proof. exact nonmall_dissat. Qed.
Print Assumptions C02_nonmall_dissat.

Theorem C02_nonmall_satisfy_complete :
  forall (ke : keyenv) (A : assets) (se : senv) (f : fill), linked ke A se f -> locks_compatible se ->
  forall (m : ms) (t : ty), nm_wf se m -> type_of m = ROk t ->
    m_nm (t_mall t) = true -> m_signed (t_mall t) = true ->
    all_sat ke A m <> [] -> exists bs, satisfy ke se f false (m_signed (t_mall t)) m = Some bs.
Proof. exact nonmall_satisfy_complete. Qed.
Print Assumptions C02_nonmall_satisfy_complete.

(* ---- the hypotheses are needed ---- *)
Theorem C02_nonmall_needs_preimages :
  exists ke A se f m t, linked ke A se f /\ locks_compatible se /\ type_of m = ROk t /\
    m_nm (t_mall t) = true /\ m_signed (t_mall t) = true /\ all_sat ke A m <> [] /\
    s_stack (snd (sat_dissat ke se false true m)) = WUnavailable /\
    is_stack (s_stack (snd (sat_dissat ke se true true m))) = true.
Proof. exact nonmall_needs_preimages. Qed.
Print Assumptions C02_nonmall_needs_preimages.

Theorem C02_nonmall_needs_safe_root :
  exists ke A se f m t, linked ke A se f /\ locks_compatible se /\ type_of m = ROk t /\
    m_nm (t_mall t) = true /\ m_signed (t_mall t) = false /\ all_sat ke A m <> [] /\
    s_stack (snd (sat_dissat ke se false (m_signed (t_mall t)) m)) = WUnavailable.
Proof. exact nonmall_needs_safe_root. Qed.
Print Assumptions C02_nonmall_needs_safe_root.

Theorem C02_mall_thresh_fit_needed :
  exists ke A se f m, linked ke A se f /\ locks_compatible se /\ all_sat ke A m <> [] /\
    s_stack (snd (sat_dissat ke se true true m)) = WImpossible.
Proof. exact mall_thresh_fit_needed. Qed.
Print Assumptions C02_mall_thresh_fit_needed.

(* ---- non-vacuity: thresh(2, pk(0), s:pk(1), s:pk(2)), signatures for keys 0 and 2 only ---- *)
Example C02_ex_hypotheses :
  linked c02x_ke (c02x_A true) (c02x_se true) (c02x_f true) /\ locks_compatible (c02x_se true) /\
  thresh_fit c02x_ke (c02x_se true) true c02x_thresh /\ nm_wf (c02x_se true) c02x_thresh /\
  (exists t, type_of c02x_thresh = ROk t /\ m_nm (t_mall t) = true /\ m_signed (t_mall t) = true).
Proof. exact (conj (c02x_linked true) (conj (c02x_locks true) (conj c02x_thresh_fit (conj c02x_thresh_wf c02x_thresh_typed)))). Qed.
Example C02_ex_table : all_sat c02x_ke (c02x_A true) c02x_thresh = [[[0; 7]; []; [2; 7]]]%N.
Proof. exact c02x_thresh_table. Qed.
Example C02_ex_mall : s_stack (snd (sat_dissat c02x_ke (c02x_se true) true true c02x_thresh)) = WStack [PhSig 2%N; PhPushZero; PhSig 0%N].
Proof. exact c02x_thresh_mall. Qed.
Example C02_ex_nonmall : s_stack (snd (sat_dissat c02x_ke (c02x_se true) false true c02x_thresh)) = WStack [PhSig 2%N; PhPushZero; PhSig 0%N].
Proof. exact c02x_thresh_nonmall. Qed.
Example C02_ex_satisfy_mall : satisfy c02x_ke (c02x_se true) (c02x_f true) true true c02x_thresh = Some [[2; 7]; []; [0; 7]]%N.
Proof. exact c02x_thresh_satisfy_mall. Qed.
Example C02_ex_satisfy_nonmall : satisfy c02x_ke (c02x_se true) (c02x_f true) false true c02x_thresh = Some [[2; 7]; []; [0; 7]]%N.
Proof. exact c02x_thresh_satisfy_nonmall. Qed.

(* ---- Script level (Theorem B + canonicalisation + the table-level theorems) ---- *)
Theorem C02_d_has_table_dissat :
  forall (ke : keyenv) (A : assets) (m : ms) (t : ty),
    type_of m = ROk t -> no_multi m -> c_dissat (t_corr t) = true -> all_dsat ke A m <> [].
Proof. exact dsat_ne. Qed.
Print Assumptions C02_d_has_table_dissat.

Theorem C02_script_table_entry :
  forall (e : env) (ke : keyenv) (A : assets), (forall kbs, e_sigok e kbs [] = false) ->
  forall (m : ms) (t : ty), type_of m = ROk t -> c_base (t_corr t) = BB -> wf e ke m ->
  forall w, built_from e ke A m w -> accepts e (enc ke m) w = true -> all_sat ke A m <> [].
Proof. exact script_table_entry. Qed.
Print Assumptions C02_script_table_entry.

Theorem C02_script_complete_mall :
  forall (e : env) (ke : keyenv) (A : assets) (se : senv) (f : fill),
  (forall kbs, e_sigok e kbs [] = false) -> linked ke A se f -> locks_compatible se ->
  forall (m : ms) (t : ty), type_of m = ROk t -> c_base (t_corr t) = BB -> wf e ke m ->
  forall rhs, thresh_fit ke se rhs m ->
  forall w, built_from e ke A m w -> accepts e (enc ke m) w = true ->
  exists bs, satisfy ke se f true rhs m = Some bs.
Proof. exact script_complete_mall. Qed.
Print Assumptions C02_script_complete_mall.

Theorem C02_script_complete_mall_spends :
  forall (e : env) (ke : keyenv) (A : assets) (se : senv) (f : fill),
  (forall kbs, e_sigok e kbs [] = false) -> linked ke A se f -> locks_compatible se ->
  assets_ok e ke A -> (forall ks, length (ksort ke ks) = length ks) ->
  forall (m : ms) (t : ty), type_of m = ROk t -> c_base (t_corr t) = BB -> wf e ke m ->
  forall rhs, thresh_fit ke se rhs m ->
  forall w, built_from e ke A m w -> accepts e (enc ke m) w = true ->
  exists bs, satisfy ke se f true rhs m = Some bs /\ accepts e (enc ke m) (rev bs) = true.
Proof. exact script_complete_mall_spends. Qed.
Print Assumptions C02_script_complete_mall_spends.

Theorem C02_script_complete_nonmall :
  forall (e : env) (ke : keyenv) (A : assets) (se : senv) (f : fill),
  (forall kbs, e_sigok e kbs [] = false) -> linked ke A se f -> locks_compatible se ->
  forall (m : ms) (t : ty), type_of m = ROk t -> c_base (t_corr t) = BB -> wf e ke m ->
  nm_wf se m -> m_nm (t_mall t) = true -> m_signed (t_mall t) = true ->
  forall w, built_from e ke A m w -> accepts e (enc ke m) w = true ->
  exists bs, satisfy ke se f false (m_signed (t_mall t)) m = Some bs.
Proof. exact script_complete_nonmall. Qed.
Print Assumptions C02_script_complete_nonmall.

Theorem C02_script_complete_nonmall_spends :
  forall (e : env) (ke : keyenv) (A : assets) (se : senv) (f : fill),
  (forall kbs, e_sigok e kbs [] = false) -> linked ke A se f -> locks_compatible se ->
  assets_ok e ke A -> (forall ks, length (ksort ke ks) = length ks) ->
  forall (m : ms) (t : ty), type_of m = ROk t -> c_base (t_corr t) = BB -> wf e ke m ->
  nm_wf se m -> m_nm (t_mall t) = true -> m_signed (t_mall t) = true ->
  forall w, built_from e ke A m w -> accepts e (enc ke m) w = true ->
  exists bs, satisfy ke se f false (m_signed (t_mall t)) m = Some bs /\ accepts e (enc ke m) (rev bs) = true.
Proof. exact script_complete_nonmall_spends. Qed.
Print Assumptions C02_script_complete_nonmall_spends.

(* what [built_from] says *)
Example C02_built_from_meaning : forall e ke A m w, built_from e ke A m w ->
  (forall k sg, In sg w -> sg <> [] -> e_sigok e (kb ke k) sg = true -> a_sig A k <> None) /\
  (forall k key sg, In key w -> In sg w -> e_hash160 e key = kh ke k -> sg <> [] -> e_sigok e key sg = true -> a_sig A k <> None) /\
  mok e A (opened_known e A w) m.
Proof. exact (fun e ke A m w H => conj (cv_sig _ _ _ _ (proj1 H)) (conj (cv_sigh _ _ _ _ (proj1 H)) (proj2 H))). Qed.

(* non-vacuity: or_d(sha256(h), c:pk_k(0)) accepted with the hash dissatisfied by 32 x 0xff -- a stack in
   NO table; the caller holds the signature only; the model answers [sig0; zeros32], which spends *)
Example C02_ex_script_mall_hyps :
  built_from ex_env ex_ke csx_A dx_ord dx_ord_w /\ accepts ex_env (enc ex_ke dx_ord) dx_ord_w = true /\
  (forall A, ~ In dx_ord_w (all_sat ex_ke A dx_ord)) /\
  linked ex_ke csx_A csx_se csx_f /\ locks_compatible csx_se /\ assets_ok ex_env ex_ke csx_A /\
  thresh_fit ex_ke csx_se true dx_ord /\ wf ex_env ex_ke dx_ord.
Proof. exact (conj csx_ord_built (conj dx_ord_accepts (conj dx_ord_not_in_table (conj csx_linked (conj csx_locks (conj csx_assets_ok (conj csx_ord_fit dx_ord_wf))))))). Qed.
Example C02_ex_script_mall : satisfy ex_ke csx_se csx_f true true dx_ord = Some [dx_sig 0; zeros32].
Proof. exact csx_ord_value. Qed.
Example C02_ex_script_mall_applies :
  exists bs, satisfy ex_ke csx_se csx_f true true dx_ord = Some bs /\ accepts ex_env (enc ex_ke dx_ord) (rev bs) = true.
Proof. exact csx_ord_complete. Qed.
(* non-malleable mode: thresh(2, pk(0), s:pk(1), s:pk(2)), accepted stack [sig0; ""; sig2] *)
Example C02_ex_script_nonmall_hyps :
  built_from ex_env ex_ke csx_A c02x_thresh csx_thr_w /\ accepts ex_env (enc ex_ke c02x_thresh) csx_thr_w = true /\
  nm_wf csx_se c02x_thresh /\ wf ex_env ex_ke c02x_thresh.
Proof. exact (conj csx_thr_built (conj csx_thr_accepts (conj csx_thr_nmwf csx_thr_wf))). Qed.
Example C02_ex_script_nonmall_applies :
  exists bs, satisfy ex_ke csx_se csx_f false true c02x_thresh = Some bs /\ accepts ex_env (enc ex_ke c02x_thresh) (rev bs) = true.
Proof. exact csx_thr_complete. Qed.
