(* C14 — PSBT finalization yields a valid spend, atomically and idempotently.
   Statements only; every proof is `exact <lemma>`.

   The model (Ms/PsbtModel.v) is the state machine of src/psbt/finalizer.rs and of the PsbtExt
   methods in src/psbt/mod.rs.  [step] is parameterised by
     T : try_input    (finalize_input_helper: descriptor inference, satisfier, interpreter check)
     I : interp_check (interpreter_check run by extract)
     D : desc_info    (what update_item_with_descriptor_helper derives from a descriptor)
     F, G : sighash decoding used by sanity_check
     M : the allow_mall flag the single-input API passes down
   and every theorem below holds for ALL such parameters (hypotheses on T are explicit).
   Histories are arbitrary operation lists: [run T I D F G M ops st]. *)
From Coq Require Import List Bool NArith Permutation.
Import ListNotations.
From Verif Require Import PsbtModel PsbtLemmas PsbtReach PsbtAtomic PsbtIdem PsbtIdemOld PsbtValid PsbtOrder PsbtUpdate PsbtPkh PsbtTimelock PsbtExamples.

(* ---- never alters inputs that are already final *)
Theorem C14_final_monotone : forall T I D F G M (ops : list op) (st : psbt) (i : nat) (a : pinput),
  nth_error (p_inputs st) i = Some a -> is_final a = true ->
  exists a', nth_error (p_inputs (run T I D F G M ops st)) i = Some a' /\
             i_fsig a' = i_fsig a /\ i_fwit a' = i_fwit a.
Proof. exact final_monotone. Qed.
Print Assumptions C14_final_monotone.

Theorem C14_finalize_preserves_final_inputs : forall T I D F G M (st : psbt) (o : op) (j : nat) (a : pinput),
  is_finalize_op o = true -> nth_error (p_inputs st) j = Some a -> is_final a = true ->
  nth_error (p_inputs (fst (step T I D F G M st o))) j = Some a.
Proof. exact finalize_preserves_final_inputs. Qed.
Print Assumptions C14_finalize_preserves_final_inputs.

Theorem C14_utxos_invariant : forall T I D F G M (ops : list op) (st : psbt),
  p_tx (run T I D F G M ops st) = p_tx st /\ p_ntx (run T I D F G M ops st) = p_ntx st /\
  map utxos_of (p_inputs (run T I D F G M ops st)) = map utxos_of (p_inputs st).
Proof. exact utxos_invariant. Qed.
Print Assumptions C14_utxos_invariant.

(* ---- leaves an input untouched when it fails *)
Theorem C14_fail_untouched : forall T I D F G M (st : psbt) (i : nat) (m : bool) (st' : psbt) (r : result),
  step T I D F G M st (FinalizeInp i m) = (st', r) -> r <> ROk -> st' = st.
Proof. exact fail_untouched. Qed.
Print Assumptions C14_fail_untouched.

(* the reported error: MissingUtxo for this input when get_utxo finds no spent output, else
   try_input's; [k] is the index the code puts into the error (prevouts blames the first input
   whose utxo cannot be found) *)
Theorem C14_fail_reports_try : forall T I D F G M (st : psbt) (i : nat) (m : bool) (st' : psbt) (k : nat) (e : N),
  step T I D F G M st (FinalizeInp i m) = (st', RInputErr k e) ->
  exists a, nth_error (p_inputs st) i = Some a /\ is_final a = false /\
            ((get_utxo a = None /\ k = i /\ e = e_missing_utxo) \/
             (get_utxo a <> None /\ T st i (M m) = TErr k e)).
Proof. exact fail_reports_try. Qed.
Print Assumptions C14_fail_reports_try.

(* ---- the spent output is the one the unsigned transaction references (get_utxo since /repo
   55036e60): with a non_witness_utxo present it must be the transaction named by the outpoint
   and supplies the output; a contradicting witness_utxo is ignored; an input for which no
   spent output can be found (non_witness_utxo of another transaction, vout out of range, no
   utxo field) is refused with MissingUtxo, untouched, and NEVER becomes final in any history *)
Theorem C14_bad_utxo_fails : forall T I D F G M (st : psbt) (i : nat) (m : bool) (a : pinput),
  nth_error (p_inputs st) i = Some a -> is_final a = false -> get_utxo a = None ->
  step T I D F G M st (FinalizeInp i m) = (st, RInputErr i e_missing_utxo).
Proof. exact bad_utxo_fails. Qed.
Print Assumptions C14_bad_utxo_fails.

Theorem C14_bad_utxo_never_final : forall T I D F G M (ops : list op) (st : psbt) (i : nat) (a : pinput),
  nth_error (p_inputs st) i = Some a -> is_final a = false -> get_utxo a = None ->
  exists a', nth_error (p_inputs (run T I D F G M ops st)) i = Some a' /\ is_final a' = false /\ get_utxo a' = None.
Proof. exact bad_utxo_never_final. Qed.
Print Assumptions C14_bad_utxo_never_final.

Example C14_get_utxo_example :
  let w := mkTxOut 1%N 7%N in
  let mk nw wu := mkIn nw wu [] None None None [] None None [] [] [] [] None [] [] [] None None [] [] in
  get_utxo (mk None (Some w)) = Some w /\
  get_utxo (mk (Some (mkNw 9%N true (Some (mkTxOut 2%N 7%N)))) (Some w)) = Some (mkTxOut 2%N 7%N) /\
  get_utxo (mk (Some (mkNw 9%N false (Some w))) (Some w)) = None /\
  get_utxo (mk (Some (mkNw 9%N true None)) (Some w)) = None /\
  get_utxo (mk None None) = None.
Proof. exact get_utxo_example. Qed.

Example C14_bad_utxo_example :
  let a := mkIn (Some (mkNw 9%N false (Some (mkTxOut 1%N 7%N)))) (Some (mkTxOut 1%N 7%N))
                [(1%N, 1%N)] None None None [] None None [] [] [] [] None [] [] [] None None [] [] in
  let st := mkPsbt 1%N 1 [a] in
  ex_try st 0 false = TOk 5%N 6%N /\
  ex_step st (FinalizeInp 0 false) = (st, RInputErr 0 e_missing_utxo) /\
  ex_step st (Finalize false) = (st, RFinErrs [(0, e_missing_utxo)]).
Proof. exact bad_utxo_example. Qed.

(* finalize_mut / finalize_mall_mut: atomic per input, not per PSBT (as documented:
   "Finalizes all inputs that it can finalize, and returns an error for each input that it
   cannot finalize") *)
(* Whatever the call returns, every input is afterwards bit-identical or has been finalized.
   (Stated per input rather than per entry of the error vector: the indices in the vector are
   the code's, and `prevouts` blames the first input whose utxo is missing, not the input
   whose attempt failed.) *)
Theorem C14_finalize_mut_failed_untouched : forall T I D F G M (st : psbt) (m : bool) (st' : psbt) (r : result),
  step T I D F G M st (Finalize m) = (st', r) ->
  forall i a, nth_error (p_inputs st) i = Some a ->
    exists a', nth_error (p_inputs st') i = Some a' /\
      (a' = a \/ (is_final a = false /\ get_utxo a <> None /\ exists s w, a' = cleared a s w)).
Proof. exact finalize_mut_failed_untouched. Qed.
Print Assumptions C14_finalize_mut_failed_untouched.

Example C14_finalize_partial_progress :
  let st := mkPsbt 1%N 2 [set_psigs blank [(1%N, 1%N)]; blank] in
  let '(st', r) := ex_step st (Finalize false) in
  r = RFinErrs [(1, 10%N)] /\
  nth_error (p_inputs st') 1 = nth_error (p_inputs st) 1 /\
  nth_error (p_inputs st') 0 = Some (cleared (set_psigs blank [(1%N, 1%N)]) 5%N 6%N) /\
  st' <> st.
Proof. exact finalize_partial_progress. Qed.

Theorem C14_update_fail_untouched : forall D (st : psbt) (i : nat) (d : N) (st' : psbt) (r : result),
  update_input D st i d = (st', r) -> r <> ROk -> st' = st.
Proof. exact update_fail_untouched. Qed.
Print Assumptions C14_update_fail_untouched.

(* ---- idempotent.  Hypotheses on T: a success is never (empty, empty); a failure on input i
   is not turned into something else by finalizing OTHER inputs.  Both are needed
   (the two C14_idempotent_needs examples), both are monitored on the implementation by every run. *)
Theorem C14_idempotent : forall T I D F G M,
  try_nonempty T -> try_stable T ->
  forall (st : psbt) (m : bool) (st' : psbt) (r : result),
    step T I D F G M st (Finalize m) = (st', r) -> step T I D F G M st' (Finalize m) = (st', r).
Proof. exact idempotent. Qed.
Print Assumptions C14_idempotent.

Theorem C14_idempotent_inp : forall T I D F G M,
  try_nonempty T ->
  forall (st : psbt) (i : nat) (m : bool) (st' : psbt) (r : result),
    step T I D F G M st (FinalizeInp i m) = (st', r) -> step T I D F G M st' (FinalizeInp i m) = (st', r).
Proof. exact idempotent_inp. Qed.
Print Assumptions C14_idempotent_inp.

Theorem C14_idempotent_old : forall T I D F G M,
  try_nonempty T ->
  forall (st : psbt) (m : bool) (st' : psbt) (r : result),
    step T I D F G M st (FinalizeOld m) = (st', r) -> step T I D F G M st' (FinalizeOld m) = (st', r).
Proof. exact idempotent_old. Qed.
Print Assumptions C14_idempotent_old.

Example C14_idempotent_needs_nonempty :
  exists (T : psbt -> nat -> bool -> tryres) st,
    let f := fun s => finalize_mut T s false in
    fst (f (fst (f st))) <> fst (f st) \/ snd (f (fst (f st))) <> snd (f st).
Proof. exact idempotent_needs_nonempty. Qed.

Example C14_idempotent_needs_stability :
  exists (T : psbt -> nat -> bool -> tryres) st,
    let f := fun s => finalize_mut T s false in fst (f (fst (f st))) <> fst (f st).
Proof. exact idempotent_needs_stability. Qed.

(* ---- does not depend on the order in which signatures and other fields were added *)
Theorem C14_order_indep : forall T I D F G M (l1 l2 : list op),
  Permutation l1 l2 -> ForallOrdPairs compat l1 ->
  forall st, run T I D F G M l1 st = run T I D F G M l2 st.
Proof. exact order_indep. Qed.
Print Assumptions C14_order_indep.

Theorem C14_order_indep_finalize : forall T I D F G M (l1 l2 : list op),
  Permutation l1 l2 -> ForallOrdPairs compat l1 ->
  forall st o, step T I D F G M (run T I D F G M l1 st) o = step T I D F G M (run T I D F G M l2 st) o /\
               forall i m, T (run T I D F G M l1 st) i m = T (run T I D F G M l2 st) i m.
Proof. exact order_indep_finalize. Qed.
Print Assumptions C14_order_indep_finalize.

Example C14_order_example :
  let l1 := [AddSig 0 3%N 4%N; AddSig 0 1%N 2%N; AddPreimage 0 HSha256 9%N 8%N; Update 1 0%N] in
  Permutation l1 (rev l1) /\ ForallOrdPairs compat l1 /\ forall st, ex_run l1 st = ex_run (rev l1) st.
Proof. exact order_example. Qed.

(* ---- succeeds only with what try_input produced; what is stored and what is cleared *)
Theorem C14_success_valid : forall T I D F G M (st : psbt) (i : nat) (m : bool) (st' : psbt) (a : pinput),
  step T I D F G M st (FinalizeInp i m) = (st', ROk) ->
  nth_error (p_inputs st) i = Some a -> is_final a = false ->
  exists s w, get_utxo a <> None /\ T st i (M m) = TOk s w /\
    st' = with_inputs st (set_nth i (cleared a s w) (p_inputs st)) /\
    nth_error (p_inputs st') i = Some (cleared a s w) /\
    (forall j, j <> i -> nth_error (p_inputs st') j = nth_error (p_inputs st) j).
Proof. exact success_valid. Qed.
Print Assumptions C14_success_valid.

Theorem C14_cleared_fields : forall a s w,
  let c := cleared a s w in
  i_fsig c = nz s /\ i_fwit c = nz w /\ i_nwutxo c = i_nwutxo a /\ i_wutxo c = i_wutxo a /\
  i_psigs c = [] /\ i_sighash c = None /\ i_redeem c = None /\ i_witscript c = None /\
  i_bip32 c = [] /\ i_ripemd c = [] /\ i_sha256 c = [] /\ i_hash160 c = [] /\ i_hash256 c = [] /\
  i_tapkeysig c = None /\ i_tapsigs c = [] /\ i_tapscripts c = [] /\ i_taporigins c = [] /\
  i_tapik c = None /\ i_tapmerkle c = None /\ i_prop c = [] /\
  i_unknown c = i_unknown a.
Proof. exact cleared_fields. Qed.
Print Assumptions C14_cleared_fields.

(* BIP174: the finalizer keeps the UTXO *and the unknown fields*.  This clause was refuted with
   a witness (C14_finalize_keeps_unknown_refuted) until /repo commit 2847ba9c repaired
   finalize_input; the model mirrors the repaired code and the clause now holds. *)
Theorem C14_finalize_keeps_unknown : forall a s w, i_unknown (cleared a s w) = i_unknown a.
Proof. exact finalize_keeps_unknown. Qed.
Print Assumptions C14_finalize_keeps_unknown.

(* every final field met in any history is initial or a try_input success on a state with the
   same transaction and utxos *)
Theorem C14_finals_provenance : forall T I D F G M (ops : list op) (st : psbt) (i : nat) (a' : pinput),
  nth_error (p_inputs (run T I D F G M ops st)) i = Some a' -> is_final a' = true ->
  exists a, nth_error (p_inputs st) i = Some a /\
    ((is_final a = true /\ finals_of a' = finals_of a) \/
     (is_final a = false /\ exists st1 m s w,
        p_tx st1 = p_tx st /\ map utxos_of (p_inputs st1) = map utxos_of (p_inputs st) /\
        T st1 i m = TOk s w /\ i_fsig a' = nz s /\ i_fwit a' = nz w)).
Proof. exact finals_provenance. Qed.
Print Assumptions C14_finals_provenance.

(* with try_input sound for a spend predicate (C01/C13: verify_spend on the unsigned tx
   accepts), every final input after any history is a valid spend, and so is every input of
   every extracted transaction *)
Theorem C14_all_finals_valid : forall T I D F G M spends,
  try_sound T spends -> forall ops st, valid spends st -> valid spends (run T I D F G M ops st).
Proof. exact all_finals_valid. Qed.
Print Assumptions C14_all_finals_valid.

Theorem C14_extracted_valid : forall T I D F G M spends,
  try_sound T spends ->
  forall ops st l, valid spends st ->
    extract I F G (run T I D F G M ops st) = RExtracted l ->
    length l = length (p_inputs st) /\
    forall i s w, nth_error l i = Some (s, w) -> spends (p_tx st) (map utxos_of (p_inputs st)) i s w.
Proof. exact extracted_valid. Qed.
Print Assumptions C14_extracted_valid.

Theorem C14_extract_spec : forall I F G (st : psbt) l,
  extract I F G st = RExtracted l ->
  l = finals st /\ (forall a, In a (p_inputs st) -> is_final a = true) /\
  I st = None /\ sanity_check F G st = None.
Proof. exact extract_spec. Qed.
Print Assumptions C14_extract_spec.

Theorem C14_step_no_panic : forall T I D F G M (st : psbt) (o : op) (s : N),
  snd (step T I D F G M st o) <> RPanic s.
Proof. exact step_no_panic. Qed.
Print Assumptions C14_step_no_panic.

Example C14_hyps_satisfiable :
  exists T spends,
    try_nonempty T /\ try_stable T /\ try_sound T spends /\
    (exists st i m s w, T st i m = TOk s w) /\ (exists st i m k e, T st i m = TErr k e).
Proof. exact hyps_satisfiable. Qed.

Example C14_history_example :
  let st := mkPsbt 1%N 2 [blank; blank] in
  let ops := [AddSig 0 3%N 4%N; Finalize false; AddSig 1 5%N 6%N; FinalizeInp 1 false;
              Finalize false; Finalize true; Extract] in
  map fst (trace ex_try ex_interp ex_desc ex_flag ex_flag ex_mall ops st) =
  [ROk; RFinErrs [(1, 10%N)]; ROk; ROk; ROk; ROk; RExtracted [(Some 5%N, Some 6%N); (Some 5%N, Some 6%N)]].
Proof. exact history_example. Qed.

(* ---- updating from a descriptor *)
Theorem C14_update_consistent : forall D h_p2wsh h_p2sh tap_output cb_commits
    (st : psbt) (i : nat) (d : N) (st' : psbt) (a : pinput),
  update_input D st i d = (st', ROk) -> nth_error (p_inputs st) i = Some a ->
  let di := D d in
  desc_wf h_p2wsh h_p2sh tap_output cb_commits di ->
  exists spk a',
    expected_spk a (d_segwit di) = Some spk /\ spk = d_spk di /\
    utxo_tied a (d_segwit di) spk /\   (* witness_utxo = the WHOLE referenced TxOut when both fields are present *)
    nth_error (p_inputs st') i = Some a' /\ a' = apply_update a di /\
    (forall j, j <> i -> nth_error (p_inputs st') j = nth_error (p_inputs st) j) /\
    i_fsig a' = i_fsig a /\ i_fwit a' = i_fwit a /\
    if d_tr di then
      i_tapik a' = Some (d_ik di) /\ i_tapmerkle a' = d_merkle di /\
      tap_output (d_ik di) (d_merkle di) = spk /\
      (forall cb leaf, lookup cb (d_tapscripts di) = Some leaf ->
         lookup cb (i_tapscripts a') = Some leaf /\ cb_commits spk cb leaf) /\
      (forall cb, lookup cb (d_tapscripts di) = None -> lookup cb (i_tapscripts a') = lookup cb (i_tapscripts a)) /\
      (forall k o, lookup k (d_origins di) = Some o -> lookup k (i_taporigins a') = Some o) /\
      (forall k, lookup k (d_origins di) = None -> lookup k (i_taporigins a') = lookup k (i_taporigins a))
    else
      (forall k o, lookup k (d_bip32 di) = Some o -> lookup k (i_bip32 a') = Some o) /\
      (forall k, lookup k (d_bip32 di) = None -> lookup k (i_bip32 a') = lookup k (i_bip32 a)) /\
      match d_ws di, d_rs di with
      | Some ws, None => i_witscript a' = Some ws /\ h_p2wsh ws = spk
      | Some ws, Some rs => i_witscript a' = Some ws /\ i_redeem a' = Some rs /\ h_p2wsh ws = rs /\ h_p2sh rs = spk
      | None, Some rs => i_redeem a' = Some rs /\ h_p2sh rs = spk
      | None, None => i_witscript a' = i_witscript a /\ i_redeem a' = i_redeem a
      end.
Proof. exact update_consistent. Qed.
Print Assumptions C14_update_consistent.

Example C14_update_example :
  let a := mkIn None (Some (mkTxOut 1%N 7%N)) [] None None None [] None None [] [] [] [] None [] [] [] None None [] [] in
  let st := mkPsbt 1%N 1 [a] in
  update_input ex_desc st 0 0%N = (with_inputs st [apply_update a (ex_desc 0%N)], ROk) /\
  i_witscript (apply_update a (ex_desc 0%N)) = Some 8%N /\
  (* a witness_utxo next to the genuine previous transaction, right script, WRONG amount *)
  update_input ex_desc (mkPsbt 1%N 1 [mkIn (Some (mkNw 9%N true (Some (mkTxOut 2%N 7%N)))) (Some (mkTxOut 1%N 7%N))
                                        [] None None None [] None None [] [] [] [] None [] [] [] None None [] []]) 0 0%N
    = (mkPsbt 1%N 1 [mkIn (Some (mkNw 9%N true (Some (mkTxOut 2%N 7%N)))) (Some (mkTxOut 1%N 7%N))
                       [] None None None [] None None [] [] [] [] None [] [] [] None None [] []], RUpd u_utxocheck).
Proof. exact update_example. Qed.

(* ---- key-origin records are optional (BIP174/371): the key behind a raw key hash is found in
   bip32_derivation or, failing that, in the partial signature that carries it
   (Placeholder::PubkeyHash completion; tabulated against the compiled code on every run) *)
Theorem C14_resolve_pkh_from_sig : forall pkh_of a h k s,
  lookup k (i_psigs a) = Some s -> pkh_of k = h ->
  exists k', resolve_pkh pkh_of a h = Some k' /\ pkh_of k' = h.
Proof. exact resolve_pkh_from_sig. Qed.
Print Assumptions C14_resolve_pkh_from_sig.

Theorem C14_resolve_pkh_tap_from_sig : forall pkh_of xonly_of a h kl s,
  lookup kl (i_tapsigs a) = Some s -> pkh_of (xonly_of kl) = h ->
  exists k', resolve_pkh_tap pkh_of xonly_of a h = Some k' /\ pkh_of k' = h.
Proof. exact resolve_pkh_tap_from_sig. Qed.
Print Assumptions C14_resolve_pkh_tap_from_sig.

Theorem C14_resolve_pkh_deriv_irrelevant : forall pkh_of,
  (forall k1 k2, pkh_of k1 = pkh_of k2 -> k1 = k2) ->
  forall a h k s m, lookup k (i_psigs a) = Some s -> pkh_of k = h ->
    resolve_pkh pkh_of (set_bip32 a m) h = resolve_pkh pkh_of a h.
Proof. exact resolve_pkh_deriv_irrelevant. Qed.
Print Assumptions C14_resolve_pkh_deriv_irrelevant.

Example C14_resolve_pkh_example :
  let pkh_of := fun k => (k + 100)%N in
  let a := mkIn None None [(5%N, 50%N)] None None None [] None None [] [] [] [] None [] [] [] None None [] [] in
  resolve_pkh pkh_of a 105%N = Some 5%N /\
  resolve_pkh pkh_of (set_bip32 a [(5%N, 9%N)]) 105%N = Some 5%N /\
  resolve_pkh pkh_of (set_bip32 a [(6%N, 9%N)]) 105%N = Some 5%N /\
  resolve_pkh pkh_of a 106%N = None.
Proof. exact resolve_pkh_example. Qed.

(* repeated updates: C14_update_consistent holds from ANY prior state, so after the last
   successful update every origin of that descriptor's keys is that descriptor's
   (BTreeMap::insert overwrites); concretely, in both orders and over a stale record: *)
Example C14_update_twice_example :
  let a := mkIn None (Some (mkTxOut 1%N 7%N)) [] None None None [] None None [] [] [] [] None [] [] [] None None [] [] in
  let st := mkPsbt 1%N 1 [a] in
  let r := run ex_try ex_interp ex_desc2 ex_flag ex_flag ex_mall in
  map i_bip32 (p_inputs (r [Update 0 0%N; Update 0 1%N] st)) = [[(1%N, 3%N)]] /\
  map i_bip32 (p_inputs (r [Update 0 1%N; Update 0 0%N] st)) = [[(1%N, 2%N)]] /\
  map i_taporigins (p_inputs (r [Update 0 2%N; Update 0 3%N] st)) = [[(1%N, 30%N); (4%N, 31%N)]] /\
  map i_taporigins (p_inputs (r [Update 0 3%N; Update 0 2%N] st)) = [[(1%N, 20%N); (4%N, 21%N)]] /\
  map i_taporigins (p_inputs (r [AddTapOrigin 0 1%N 99%N; Update 0 2%N] st)) = [[(1%N, 20%N); (4%N, 21%N)]].
Proof. exact update_twice_example. Qed.

(* ---- the satisfier's time-lock answers are BIP65 / BIP68+112 on (version, nLockTime, THIS
   input's nSequence); tabulated against PsbtInputSatisfier::check_after / check_older *)
Theorem C14_check_after_is_bip65 : forall lock_time seq n,
  psbt_check_after lock_time seq n = negb (bip65_fails lock_time seq n).
Proof. exact psbt_check_after_is_bip65. Qed.
Print Assumptions C14_check_after_is_bip65.

Theorem C14_check_older_is_bip112 : forall version seq n,
  psbt_check_older version seq n = negb (bip112_fails version seq n).
Proof. exact psbt_check_older_is_bip112. Qed.
Print Assumptions C14_check_older_is_bip112.

Example C14_check_older_versions :
  (forall seq n, psbt_check_older 1 seq n = false) /\ psbt_check_older 3 10 10 = true /\
  (forall lock_time n, psbt_check_after lock_time seq_final n = false).
Proof. exact (conj check_older_version_1 (conj (proj1 check_older_version_3) check_after_own_sequence)). Qed.
