(* C13 -- the transaction interpreter agrees with real script execution.  Statements only.

   Model (Ms/InterpModel.v): [interp] is the faithful iterative form of Iter::iter_next (the
   NodeEvaluationState work-list, explicit fuel, panic sites as outcomes, the final-stack
   rule) over the abstract stack of stack.rs; [interp_rec]/[ieval] is the recursive form.
   Specification: Script/Exec.v ([exec], [accepts]) on the ENCODED miniscript ([enc], Ms/Ast.v);
   Script/ExecTrace.v ([exec_tr], [checks]): the conditions the executed path verified.

   FULL STATEMENTS
     interp_sound    : type_of m = ROk t -> base t = B ->
                       interp e ke kp m (astack_of_items items) = IAccept cs ->
                       accepts e (enc ke m) (rev items) = true
                       -- FALSE for the code that exists: interp_sound_refuted (`after` under a final
                          nSequence, DESIGN 10-h) and interp_sound_refuted_version (`older` under
                          transaction version 1).  Proved with the side conditions "sequence not final"
                          and "version >= 2": interp_sound_partial.
     constraints_exact : ... -> map check_of cs = checks (trace of exec_tr (enc ke m) (rev items))
     interp_policy     : ... -> the reported constraints satisfy the lifted policy of m
     interp_complete   : sane m -> every (scriptSig, witness) get_satisfaction returns is accepted
   What is proved here:
     * interp_is_recursive: the work-list evaluator equals the recursive evaluator on EVERY
       miniscript and stack; [steps m] + 1 iterations always suffice (no INoFuel).
     * interp_sound_partial: the full statement of interp_sound under the two side conditions,
       for every nesting of every fragment (thresh, multi, multi_a included) except sortedmulti /
       sortedmulti_a ([icover]), which decoding a script never produces; [iwf] states what the
       constructors guarantee (lock values, threshold bounds) and the signature version multi /
       multi_a live in; the arithmetic facts about script numbers ([num_facts]) are the same
       hypotheses as in C01.
     * the two refutations.
     * interp_policy: proved in full.
     * constraints_exact_partial: constraints_exact under the same side conditions and coverage as
       interp_sound_partial (without them the script does not even accept).
     * constraints_genuine_partial: every constraint yielded holds, with no side condition at all.
     * interp_complete_partial: every entry of the specification's satisfaction table is accepted
       (multisig leaves excepted); that the satisfier's output is a table entry is C01's tie.
   Each clause is additionally checked per run by the oracle (tools/props/c13.py). *)
From Verif Require Import Exec ExecTrace Ser Ast Types TypeCheck SatSpec TheoremA InterpModel InterpRefine InterpSound InterpRefuted InterpMain InterpPolicy InterpGenuine.
Local Open Scope N_scope.

Theorem interp_is_recursive :
  forall (e : env) (ke : keyenv) (kp : bytes -> bool) (m : ms) (st : astack),
    interp e ke kp m st = interp_rec e ke kp m st.
Proof. exact interp_eq_rec. Qed.
Print Assumptions interp_is_recursive.

Theorem interp_sound_partial :
  forall (e : env) (ke : keyenv) (kp : bytes -> bool),
    num_facts -> keys_ok e ke kp ->
    e_sequence e <> SEQ_FINAL -> 2 <= e_txversion e ->
    forall (m : ms) (t : ty) (items : list bytes) (cs : list constr),
      type_of m = ROk t -> c_base (t_corr t) = BB -> iwf e m -> icover m -> items_small items ->
      interp e ke kp m (astack_of_items items) = IAccept cs ->
      accepts e (enc ke m) (rev items) = true.
Proof. exact interp_sound_sidecond. Qed.
Print Assumptions interp_sound_partial.

(* the reported constraints satisfy the lifted policy: [psat ke cs m] is the truth value of
   lift(m) in the world where exactly the reported constraints hold.  Every fragment, every
   environment, no side condition. *)
Theorem interp_policy :
  forall (e : env) (ke : keyenv) (kp : bytes -> bool) (m : ms) (t : ty) (st : astack) (cs : list constr),
    type_of m = ROk t -> c_base (t_corr t) = BB ->
    interp e ke kp m st = IAccept cs -> psat ke cs m = true.
Proof. exact interp_policy_holds. Qed.
Print Assumptions interp_policy.

(* constraints_exact under the side conditions of interp_sound_partial: the instrumented
   execution (Script/ExecTrace.v) of the encoded script accepts, and the conditions the executed
   path verified -- signature checks (CHECKSIG / CHECKSIGADD / matched CHECKMULTISIG pairs),
   preimage checks, passed CLTV / CSV -- are exactly the reported constraints, in the same order
   ([check_of] forgets the key hash of a PublicKeyHash constraint). *)
Theorem constraints_exact_partial :
  forall (e : env) (ke : keyenv) (kp : bytes -> bool),
    num_facts -> keys_ok e ke kp ->
    e_sequence e <> SEQ_FINAL -> 2 <= e_txversion e ->
    forall (m : ms) (t : ty) (items : list bytes) (cs : list constr),
      type_of m = ROk t -> c_base (t_corr t) = BB -> iwf e m -> icover m -> items_small items ->
      interp e ke kp m (astack_of_items items) = IAccept cs ->
      accepts_tr e (enc ke m) (rev items) = Some (map check_of cs).
Proof. exact interp_exact_sidecond. Qed.
Print Assumptions constraints_exact_partial.

(* half of constraints_exact: every constraint yielded -- by an accepted or a rejected run, for
   every miniscript -- was really checked and holds ([cvalid]: the signature verifies for that key,
   the preimage has 32 bytes and hashes to the image, the lock time is met by the interpreter's
   comparison).  The other half (nothing the executed path checked is missing; same order) is
   compared per run with the instrumented execution. *)
Theorem constraints_genuine_partial :
  forall (e : env) (ke : keyenv) (kp : bytes -> bool) (m : ms) (st : astack),
    match interp e ke kp m st with
    | IAccept cs | IReject _ cs => Forall (cvalid e) cs
    | _ => True
    end.
Proof. exact interp_constraints_genuine. Qed.
Print Assumptions constraints_genuine_partial.

(* interp_complete, on the specification's satisfaction table (coq/Ms/SatSpec.v: the entries the
   library's satisfier answers from, C01/C02): every table satisfaction of a well-typed B script
   is accepted.  Stack order: a table witness has its head on top, the interpreter is given the
   items bottom first.  [assets_fit]: the caller's assets are genuine w.r.t. the environment
   (C01's [assets_ok], which includes that the lock times held are met by the transaction), no
   signature or key is the one-byte string 01, the script's keys parse.  Multisig leaves and
   raw_pk_h excluded ([no_multi], as in C01).  The link "what get_satisfaction returns is a table
   entry" is the per-run model tie of C01; per run C13 also checks completeness directly. *)
Theorem interp_complete_partial :
  forall (e : env) (ke : keyenv) (kp : bytes -> bool) (A : assets),
    num_facts -> assets_fit e ke kp A ->
    forall (m : ms) (t : ty) (w : wit),
      type_of m = ROk t -> c_base (t_corr t) = BB -> wf e ke m -> no_multi m ->
      In w (all_sat ke A m) -> exists cs, interp e ke kp m (astack_of_items (rev w)) = IAccept cs.
Proof. exact interp_complete_sat. Qed.
Print Assumptions interp_complete_partial.

(* finding (DESIGN 10-h): evaluate_after ignores BIP65's "nSequence must not be final" *)
Theorem interp_sound_refuted :
  exists (e : env) (ke : keyenv) (kp : bytes -> bool) (m : ms) (items : list bytes) (cs : list constr),
    (exists t, type_of m = ROk t /\ c_base (t_corr t) = BB) /\
    interp e ke kp m (astack_of_items items) = IAccept cs /\
    accepts e (enc ke m) (rev items) = false /\
    e_sequence e = SEQ_FINAL.
Proof. exact refuted_final. Qed.
Print Assumptions interp_sound_refuted.

(* finding: evaluate_older ignores BIP112's "transaction version >= 2" *)
Theorem interp_sound_refuted_version :
  exists (e : env) (ke : keyenv) (kp : bytes -> bool) (m : ms) (items : list bytes) (cs : list constr),
    (exists t, type_of m = ROk t /\ c_base (t_corr t) = BB) /\
    interp e ke kp m (astack_of_items items) = IAccept cs /\
    accepts e (enc ke m) (rev items) = false /\
    e_sequence e <> SEQ_FINAL /\ e_txversion e = 1.
Proof. exact refuted_version. Qed.
Print Assumptions interp_sound_refuted_version.

(* non-vacuity of interp_sound_partial's hypotheses: an environment, a well-typed covered
   miniscript and a stack on which the interpreter accepts *)
Example C13_nonvacuous :
  keys_ok (toy_env 100 4294967294 2) toy_ke toy_kp /\
  e_sequence (toy_env 100 4294967294 2) <> SEQ_FINAL /\ 2 <= e_txversion (toy_env 100 4294967294 2) /\
  (exists t, type_of m_after = ROk t /\ c_base (t_corr t) = BB) /\ iwf (toy_env 100 4294967294 2) m_after /\ icover m_after /\
  items_small [a_sig] /\
  interp (toy_env 100 4294967294 2) toy_ke toy_kp m_after (astack_of_items [a_sig]) = IAccept [CsPk [2; 0] a_sig; CsAfter 10].
Proof. exact sidecond_nonvacuous. Qed.
